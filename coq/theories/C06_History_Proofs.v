(* C06_History_Proofs.v — ONE theorem for arbitrary interleavings of add_filter, tag switches and
   optimize() on a live Blocker: after any history the verdict is the rule-by-rule verdict of the
   rules loaded so far under the tag set obtained by set algebra.

   After optimize() the lists hold fused rules, so the syntactic invariants WellIndexed / Represents
   are gone; the invariant here (C06_History_Model.SemRep) is semantic: every stored rule fires only
   if a loaded rule of that list fires, and every loaded rule is, per token group, subsumed by what
   is stored in one safe bucket.  It is established by Blocker::new(vec![]), and preserved by
   add_filter (accepted, refused as duplicate, refused as $badfilter), by use/enable/disable_tags
   and by optimize(). *)
From Adb Require Import Base BaseProofs Generated Hashing Net_Model Net_Proofs C05_Model C05_Proofs
  C05_Order_Proofs C06_Model C06_Proofs C07_Proofs C06_History_Model.
From Coq Require Import ZifyBool ZifyNat ZifyN.

(* ================================================================ lists of rules as sets *)
Lemma memN_iff_ext i l l' : (In i l <-> In i l') -> memN i l = memN i l'.
Proof.
  intros H. destruct (memN i l) eqn:E; destruct (memN i l') eqn:E'; try reflexivity.
  - apply memN_In in E. apply H in E. apply memN_In in E. congruence.
  - apply memN_In in E'. apply H in E'. apply memN_In in E'. congruence.
Qed.

Lemma badfilter_ids_ext L L' i : same_rule_set L L' -> memN i (badfilter_ids L) = memN i (badfilter_ids L').
Proof.
  intros H. apply memN_iff_ext. unfold badfilter_ids. rewrite !in_map_iff.
  split; intros (x & Hx & Hin); exists x; split; auto; apply filter_In in Hin as [Hin Hb];
    apply filter_In; split; auto; apply H; exact Hin.
Qed.

Lemma live_ext L L' x : same_rule_set L L' -> (In x (live L) <-> In x (live L')).
Proof.
  intros H. unfold live. rewrite !filter_In. rewrite (badfilter_ids_ext L L' (get_id x) H).
  split; intros [A B]; split; auto; apply H; exact A.
Qed.

Lemma of_cat_ext c L L' x : same_rule_set L L' -> (In x (of_cat c L) <-> In x (of_cat c L')).
Proof. intros H. unfold of_cat. rewrite !filter_In. rewrite (live_ext L L' x H). tauto. Qed.

Lemma tagged_active_set_ext T l l' x : (forall y, In y l <-> In y l') ->
  (In x (tagged_active T l) <-> In x (tagged_active T l')).
Proof. intros H. unfold tagged_active. rewrite !filter_In. rewrite (H x). tauto. Qed.

(* the rule-by-rule verdict reads the loaded rules and the tags as SETS *)
Theorem spec_verdict_p_set matches mr fc L1 L2 T1 T2 :
  same_rule_set L1 L2 -> same_tag_set T1 T2 ->
  spec_verdict_p matches mr fc L1 T1 = spec_verdict_p matches mr fc L2 T2.
Proof.
  intros HL HT. rewrite (spec_verdict_p_set_semantics matches mr fc L1 T1 T2 HT).
  unfold spec_verdict_p.
  rewrite (existsb_mem_ext (act matches T2) (of_cat CImportant L1) (of_cat CImportant L2)
             (fun x => of_cat_ext CImportant L1 L2 x HL)).
  rewrite (existsb_mem_ext (act matches T2) (tagged_active T2 (of_cat CTagged L1)) (tagged_active T2 (of_cat CTagged L2))
             (fun x => tagged_active_set_ext T2 _ _ x (fun y => of_cat_ext CTagged L1 L2 y HL))).
  rewrite (existsb_mem_ext (act matches []) (of_cat CNormal L1) (of_cat CNormal L2)
             (fun x => of_cat_ext CNormal L1 L2 x HL)).
  rewrite (existsb_mem_ext (act matches T2) (of_cat CException L1) (of_cat CException L2)
             (fun x => of_cat_ext CException L1 L2 x HL)).
  reflexivity.
Qed.

Theorem spec_verdict_set matches L1 L2 T1 T2 :
  same_rule_set L1 L2 -> same_tag_set T1 T2 -> spec_verdict matches L1 T1 = spec_verdict matches L2 T2.
Proof.
  intros HL HT. rewrite <- !spec_verdict_p_ff. apply spec_verdict_p_set; assumption.
Qed.

Lemma id_inj_snoc Lc L f : incl Lc L -> id_inj (L ++ [f]) -> id_inj (Lc ++ [f]).
Proof.
  intros Hi. apply id_inj_incl. intros x Hx. apply in_app_or in Hx as [Hx|Hx]; apply in_or_app; auto.
Qed.

(* ================================================================ fusion, once more: who stands for whom *)
Lemma fusion_wfp g fz : fusion g = Some fz -> wfp fz = true.
Proof.
  destruct g as [|base r]; [discriminate|]. unfold fusion. intros H. inversion H; subst; clear H.
  unfold wfp. cbn [rfilter].
  destruct (is_fempty base || existsb is_fempty r); [reflexivity|].
  destruct (patterns_of base ++ flat_map patterns_of r) as [|s [|s' l]]; reflexivity.
Qed.

Section Sem.
Variable h : str -> N.
Variable om : N -> bool.
Variable pm : N -> str -> bool.
Notation hitr := (hitr om pm).
Notation SemList := (SemList h om pm).
Notation SemRep := (SemRep h om pm).

(* every rule of an optimized bucket carries id and mask of a rule y of the original bucket and fires
   whenever y does (y itself, or the fusion of a group headed by y) *)
Lemma optimize_from fs x : forallb wfp fs = true -> In x (optimize fs) ->
  exists y, In y fs /\ rmask x = rmask y /\ rid x = rid y /\ wfp x = true
            /\ forall tags, hitr tags y = true -> hitr tags x = true.
Proof using.
  intros Hwf. unfold optimize. rewrite sort_by_id_in.
  destruct (groups_of_spec (filter opt_select fs)) as [Hok Hmem].
  set (gs := groups_of (filter opt_select fs)) in *.
  assert (Hwall : forall y, In y fs -> wfp y = true).
  { intros y Hy. rewrite forallb_forall in Hwf. apply Hwf. exact Hy. }
  rewrite !in_app_iff. intros [H|[H|H]].
  - apply in_flat_map in H as [g [Hg Hx]].
    assert (Hgok : group_ok g) by (rewrite Forall_forall in Hok; auto).
    destruct g as [|a [|b g']]; [destruct Hx|destruct Hx|].
    destruct (fusion_some (a :: b :: g')) as [fz Hfz]; [discriminate|].
    rewrite Hfz in Hx. destruct Hx as [<-|[]].
    assert (Hgw : forallb wfp (a :: b :: g') = true).
    { pose proof (groups_wf _ gs Hmem (forallb_filter_wf _ fs Hwf)) as G. rewrite Forall_forall in G.
      apply G. exact Hg. }
    destruct (fusion_fields om pm _ _ Hgok Hgw Hfz) as (base & r & E & Hm & _ & Hi & _).
    injection E as Ea Er. subst base r.
    assert (Ha : In a fs).
    { assert (Hin : In a (filter opt_select fs)).
      { apply Hmem. apply in_concat. exists (a :: b :: g'). split; [exact Hg|left; reflexivity]. }
      apply filter_In in Hin. exact (proj1 Hin). }
    exists a. split; [exact Ha|]. split; [exact Hm|]. split; [exact Hi|].
    split; [exact (fusion_wfp _ _ Hfz)|].
    intros tags Hh. change (hitb om pm tags fz = true).
    rewrite (fusion_hit om pm tags _ _ Hgok Hgw Hfz).
    change (hitb om pm tags a || existsb (hitb om pm tags) (b :: g') = true).
    change (hitb om pm tags a = true) in Hh. rewrite Hh. reflexivity.
  - apply filter_In in H as [H _]. exists x. split; [exact H|]. split; [reflexivity|]. split; [reflexivity|].
    split; [apply Hwall; exact H|]. intros tags Hh. exact Hh.
  - apply in_flat_map in H as [g [Hg Hx]]. destruct g as [|a [|b g']]; [destruct Hx| |destruct Hx].
    destruct Hx as [<-|[]].
    assert (Ha : In a fs).
    { assert (Hin : In a (filter opt_select fs)).
      { apply Hmem. apply in_concat. exists [a]. split; [exact Hg|left; reflexivity]. }
      apply filter_In in Hin. exact (proj1 Hin). }
    exists a. split; [exact Ha|]. split; [reflexivity|]. split; [reflexivity|].
    split; [apply Hwall; exact Ha|]. intros tags Hh. exact Hh.
Qed.

Lemma fl_optimize_bucket_from m k x : forallb wfp (bucket m k) = true ->
  In x (bucket (fl_optimize m) k) ->
  exists y, In y (bucket m k) /\ rmask x = rmask y /\ rid x = rid y /\ wfp x = true
            /\ forall tags, hitr tags y = true -> hitr tags x = true.
Proof using.
  intros Hwf. destruct (bucket_fl_optimize om pm m k) as (uniq & shared & Hmem & ->).
  assert (Hwb : forall y, In y (bucket m k) -> wfp y = true).
  { intros y Hy. rewrite forallb_forall in Hwf. apply Hwf. exact Hy. }
  assert (Hwu : forallb wfp uniq = true).
  { apply forallb_forall. intros y Hy. apply Hwb. apply Hmem. left. exact Hy. }
  rewrite sort_by_id_in, in_app_iff. intros [H|H].
  - destruct (Nat.ltb 1 (length uniq)).
    + destruct (optimize_from uniq x Hwu H) as (y & Hy & E). exists y.
      split; [apply Hmem; left; exact Hy|exact E].
    + assert (Hb : In x (bucket m k)) by (apply Hmem; left; exact H).
      exists x. split; [exact Hb|]. split; [reflexivity|]. split; [reflexivity|].
      split; [apply Hwb; exact Hb|]. intros tags Hh. exact Hh.
  - assert (Hb : In x (bucket m k)) by (apply Hmem; right; exact H).
    exists x. split; [exact Hb|]. split; [reflexivity|]. split; [reflexivity|].
    split; [apply Hwb; exact Hb|]. intros tags Hh. exact Hh.
Qed.

(* ================================================================ SemList: basic facts *)
Lemma semlist_ext m Lc Lc' : (forall x, In x Lc <-> In x Lc') -> SemList m Lc -> SemList m Lc'.
Proof using.
  intros E [S1 S2]. split.
  - intros k x Hx. destruct (S1 k x Hx) as (W & Snd & base & Hb & Hid & Hm & Hc).
    split; [exact W|]. split.
    + intros tags Hh. rewrite <- (existsb_mem_ext (hitr tags) _ _ E). apply Snd. exact Hh.
    + exists base. split; [apply E; exact Hb|]. split; [exact Hid|]. split; [exact Hm|exact Hc].
  - intros f Hf tg Htg. apply E in Hf. exact (S2 f Hf tg Htg).
Qed.

Lemma semlist_wf m Lc : SemList m Lc -> wf_map m.
Proof using.
  intros [S1 _] k. apply forallb_forall. intros x Hx. exact (proj1 (S1 k x Hx)).
Qed.

(* a syntactically well-indexed list (fl_new, fl_add on a never-optimized list) is a semantic one *)
Lemma wi_semlist m X : WellIndexed h m X -> id_inj X -> (forall f, In f X -> wfp f = true) -> SemList m X.
Proof using.
  intros [Hpl Hm] Hinj Hw. split.
  - intros k x Hx. pose proof (Hm k x Hx) as HxX. split; [apply Hw; exact HxX|]. split.
    + intros tags Hh. apply existsb_exists. exists x. split; [exact HxX|exact Hh].
    + exists x. split; [exact HxX|]. split; [reflexivity|]. split; [reflexivity|]. intros tags Hh. exact Hh.
  - intros f Hf tg Htg. destruct (Hpl f Hf tg Htg) as (k & Hk & x & Hx & Hi).
    exists k. split; [exact Hk|]. intros tags Hh. apply existsb_exists. exists x. split; [exact Hx|].
    assert (E : x = f) by (apply Hinj; [exact (Hm k x Hx)|exact Hf|exact Hi]).
    rewrite E. exact Hh.
Qed.

Lemma semlist_nil : SemList [] [].
Proof using.
  split.
  - intros k x Hx. destruct Hx.
  - intros f Hf. destruct Hf.
Qed.

(* ---------------------------------------------------------------- optimize() keeps it *)
Theorem semlist_optimize m Lc : SemList m Lc -> SemList (fl_optimize m) Lc.
Proof using.
  intros HS. pose proof (semlist_wf m Lc HS) as Hwf. destruct HS as [S1 S2]. split.
  - intros k x' Hx'.
    destruct (fl_optimize_bucket_from m k x' (Hwf k) Hx') as (y & Hy & Em & Ei & Wx & Hc).
    destruct (S1 k y Hy) as (_ & _ & base & Hb & Hid & Hm & Hcb).
    split; [exact Wx|]. split.
    + intros tags Hh.
      assert (E : existsb (hitb om pm tags) (bucket (fl_optimize m) k) = true).
      { apply existsb_exists. exists x'. split; [exact Hx'|exact Hh]. }
      rewrite (fl_optimize_bucket_exists om pm tags m k (Hwf k)) in E.
      apply existsb_exists in E as (x & Hx & Hxh).
      exact (proj1 (proj2 (S1 k x Hx)) tags Hxh).
    + exists base. split; [exact Hb|]. split; [congruence|]. split; [congruence|].
      intros tags Hh. apply Hc. apply Hcb. exact Hh.
  - intros f Hf tg Htg. destruct (S2 f Hf tg Htg) as (k & Hk & Hc). exists k. split; [exact Hk|].
    intros tags Hh. change (existsb (hitb om pm tags) (bucket (fl_optimize m) k) = true).
    rewrite (fl_optimize_bucket_exists om pm tags m k (Hwf k)). exact (Hc tags Hh).
Qed.

(* ---------------------------------------------------------------- add_filter on one list keeps it *)
Lemma fold_insert_from (pick : fmap -> list N -> N) f gs : forall m k x,
  In x (bucket (fold_left (fun m g => insert_dup m (pick m g) f) gs m) k) -> x = f \/ In x (bucket m k).
Proof using.
  induction gs as [|g gs IH]; intros m k x Hx; cbn [fold_left] in Hx; [right; exact Hx|].
  apply IH in Hx as [Hx|Hx]; [left; exact Hx|]. apply bucket_insert_from in Hx. exact Hx.
Qed.
Lemma fold_insert_keeps (pick : fmap -> list N -> N) f gs : forall m k x,
  In x (bucket m k) -> In x (bucket (fold_left (fun m g => insert_dup m (pick m g) f) gs m) k).
Proof using.
  induction gs as [|g gs IH]; intros m k x Hx; cbn [fold_left]; [exact Hx|].
  apply IH. apply bucket_insert_keeps. exact Hx.
Qed.

Definition add_pick (m : fmap) : fmap -> list N -> N :=
  fun m' g => best_token (fun t => match lookup m' t with
                                    | Some b => Some (N.of_nat (length b))
                                    | None => None end) (map_len m) g.

Lemma fl_add_from m f k x : In x (bucket (fl_add h m f) k) -> x = f \/ In x (bucket m k).
Proof using. exact (fold_insert_from (add_pick m) f (get_tokens h f) m k x). Qed.
Lemma fl_add_keeps m f k x : In x (bucket m k) -> In x (bucket (fl_add h m f) k).
Proof using. exact (fold_insert_keeps (add_pick m) f (get_tokens h f) m k x). Qed.
Lemma fl_add_placed m f tg : In tg (get_tokens h f) ->
  exists k, key_ok tg k /\ in_bucket (fl_add h m f) k (rid f).
Proof using.
  intros Htg.
  exact (proj1 (place_groups h (add_pick m) (fun m' g => best_token_key _ _ g) (get_tokens h f) m f) tg Htg).
Qed.

Theorem semlist_add m Lc f :
  SemList m Lc -> wfp f = true -> id_inj (Lc ++ [f]) -> SemList (fl_add h m f) (Lc ++ [f]).
Proof using.
  intros [S1 S2] Hw Hinj.
  assert (Hfin : In f (Lc ++ [f])) by (apply in_or_app; right; left; reflexivity).
  split.
  - intros k x Hx. apply fl_add_from in Hx as [Hx|Hx].
    + subst x. split; [exact Hw|]. split.
      * intros tags Hh. apply existsb_exists. exists f. split; [exact Hfin|exact Hh].
      * exists f. split; [exact Hfin|]. split; [reflexivity|]. split; [reflexivity|]. intros tags Hh. exact Hh.
    + destruct (S1 k x Hx) as (W & Snd & base & Hb & Hid & Hm & Hc). split; [exact W|]. split.
      * intros tags Hh. rewrite existsb_app. rewrite (Snd tags Hh). reflexivity.
      * exists base. split; [apply in_or_app; left; exact Hb|]. split; [exact Hid|]. split; [exact Hm|exact Hc].
  - intros f' Hf' tg Htg. apply in_app_or in Hf' as [Hf'|[<-|[]]].
    + destruct (S2 f' Hf' tg Htg) as (k & Hk & Hc). exists k. split; [exact Hk|]. intros tags Hh.
      specialize (Hc tags Hh). apply existsb_exists in Hc as (x & Hx & Hxh).
      apply existsb_exists. exists x. split; [apply fl_add_keeps; exact Hx|exact Hxh].
    + destruct (fl_add_placed m f tg Htg) as (k & Hk & x & Hx & Hi). exists k. split; [exact Hk|].
      intros tags Hh. apply existsb_exists. exists x. split; [exact Hx|].
      apply fl_add_from in Hx as [Hx|Hx]; [subst x; exact Hh|].
      (* an equal id was already stored there: it is f's own representative *)
      destruct (S1 k x Hx) as (_ & _ & base & Hb & Hid & _ & Hc).
      assert (E : base = f).
      { apply Hinj; [apply in_or_app; left; exact Hb|exact Hfin|congruence]. }
      subst base. apply Hc. exact Hh.
Qed.

(* NetworkFilterList::filter_exists only answers yes for the id of a rule of the list *)
Lemma semlist_exists_id m Lc f : SemList m Lc -> list_exists h m f = true ->
  exists g, In g Lc /\ rid g = rid f.
Proof using.
  intros [S1 _]. unfold list_exists. intros H. apply existsb_exists in H as (k & _ & H).
  apply existsb_exists in H as (x & Hx & Hi). apply N.eqb_eq in Hi.
  destruct (S1 k x Hx) as (_ & _ & base & Hb & Hid & _). exists base. split; [exact Hb|congruence].
Qed.

(* ================================================================ the verdict from the invariant *)
Section Verdict.
Variable pr : list N.
Hypothesis pr_zero : In 0 pr.
Notation rm := (rmatch om pm).

Lemma semlist_found m Lc tags : SemList m Lc -> TG h rm pr Lc ->
  found_b om pm pr m tags = existsb (hitr tags) Lc.
Proof using pr_zero.
  intros [S1 S2] Htg. unfold found_b.
  pose proof (check_ne_iff om pm pr m tags) as Hne.
  destruct (existsb (hitr tags) Lc) eqn:E.
  - apply existsb_exists in E as (f & Hf & Hh).
    assert (Hm : rm f = true).
    { unfold C06_History_Model.hitr in Hh. apply andb_true_iff in Hh. exact (proj1 Hh). }
    destruct (Htg f Hf Hm) as (tg & Htgin & Hincl).
    destruct (S2 f Hf tg Htgin) as (k & Hk & Hc).
    assert (Hkp : In k pr) by (destruct Hk as [Hk|Hk]; [rewrite Hk; exact pr_zero|apply Hincl; exact Hk]).
    assert (Hn : check rm m pr tags <> None).
    { apply Hne. exists k. split; [exact Hkp|]. exact (Hc tags Hh). }
    destruct (check rm m pr tags); [reflexivity|congruence].
  - destruct (check rm m pr tags) as [r|] eqn:Ec; [|reflexivity]. exfalso.
    destruct (proj1 Hne) as (k & Hk & Hx); [first [discriminate | rewrite Ec; discriminate]|].
    apply existsb_exists in Hx as (x & Hx & Hxh).
    rewrite (proj1 (proj2 (S1 k x Hx)) tags Hxh) in E. discriminate.
Qed.

Lemma semlist_important m Lc v : SemList m Lc -> (forall f, In f Lc -> is_important f = v) ->
  all_important v m.
Proof using.
  intros [S1 _] Hv k x Hx. destruct (S1 k x Hx) as (_ & _ & base & Hb & _ & Hm & _).
  unfold is_important, flag. rewrite Hm. exact (Hv base Hb).
Qed.

Lemma semrep_categorised b L T : SemRep b L T -> Categorised b.
Proof using.
  intros (Si & St & Sn & _). split; [|split].
  - apply (semlist_important _ _ true Si). intros f Hf. apply cat_important. eapply of_cat_cat. exact Hf.
  - apply (semlist_important _ _ false St). intros f Hf. apply cat_not_important. left.
    eapply of_cat_cat. eapply tagged_active_incl. exact Hf.
  - apply (semlist_important _ _ false Sn). intros f Hf. apply cat_not_important. right.
    eapply of_cat_cat. exact Hf.
Qed.

(* the subset query as a function of four booleans *)
Definition verdict_of_p (mr fc i t n e : bool) : verdict :=
  let blk := negb mr && (t || n) in
  let excp := negb i && e && (blk || mr || fc) in
  {| v_matched := negb excp && (i || blk || mr); v_important := i; v_exception := excp; v_filter := i || blk |}.

Lemma blocker_check_p_bool mr fc b : Categorised b ->
  blocker_check_p rm pr mr fc b =
  verdict_of_p mr fc (found_b om pm pr (b_importants b) (b_tags b)) (found_b om pm pr (b_tagged b) (b_tags b))
               (found_b om pm pr (b_filters b) []) (found_b om pm pr (b_exceptions b) (b_tags b)).
Proof using.
  intros (Hi & Ht & Hn). unfold blocker_check_p, found_b, verdict_of_p.
  destruct (check rm (b_importants b) pr (b_tags b)) as [fi|] eqn:Ei.
  - destruct (check_in_bucket _ _ _ _ _ _ Ei) as [k Hk]. rewrite (Hi k fi Hk).
    destruct (check rm (b_exceptions b) pr (b_tags b)), mr, fc; reflexivity.
  - destruct mr.
    + destruct (check rm (b_exceptions b) pr (b_tags b)), fc; reflexivity.
    + cbn [negb andb orb]. unfold orelse.
      destruct (check rm (b_tagged b) pr (b_tags b)) as [ft|] eqn:Et.
      * destruct (check_in_bucket _ _ _ _ _ _ Et) as [k Hk]. rewrite (Ht k ft Hk).
        destruct (check rm (b_exceptions b) pr (b_tags b)), fc; reflexivity.
      * destruct (check rm (b_filters b) pr []) as [fn|] eqn:En.
        -- destruct (check_in_bucket _ _ _ _ _ _ En) as [k Hk]. rewrite (Hn k fn Hk).
           destruct (check rm (b_exceptions b) pr (b_tags b)), fc; reflexivity.
        -- destruct (check rm (b_exceptions b) pr (b_tags b)), fc; reflexivity.
Qed.

Lemma hitr_ext T1 T2 f : same_tag_set T1 T2 -> hitr T1 f = hitr T2 f.
Proof using. intros H. exact (act_ext rm T1 T2 f H). Qed.

Theorem semrep_verdict_p mr fc b L T : SemRep b L T -> TG h rm pr L ->
  blocker_check_p rm pr mr fc b = spec_verdict_p rm mr fc L T.
Proof using pr_zero.
  intros HR Htg. rewrite (blocker_check_p_bool mr fc b (semrep_categorised b L T HR)).
  destruct HR as (Si & St & Sn & Se & _ & _ & _ & _ & _ & Htags).
  assert (I2 : incl (tagged_active T (of_cat CTagged L)) L).
  { intros x Hx. apply (of_cat_incl CTagged L). eapply tagged_active_incl; eauto. }
  rewrite (semlist_found _ _ (b_tags b) Si (TG_incl h rm pr L _ (of_cat_incl CImportant L) Htg)).
  rewrite (semlist_found _ _ (b_tags b) St (TG_incl h rm pr L _ I2 Htg)).
  rewrite (semlist_found _ _ [] Sn (TG_incl h rm pr L _ (of_cat_incl CNormal L) Htg)).
  rewrite (semlist_found _ _ (b_tags b) Se (TG_incl h rm pr L _ (of_cat_incl CException L) Htg)).
  rewrite (existsb_ext (hitr (b_tags b)) (hitr T) (of_cat CImportant L) (fun f => hitr_ext _ _ f Htags)).
  rewrite (existsb_ext (hitr (b_tags b)) (hitr T) (tagged_active T (of_cat CTagged L)) (fun f => hitr_ext _ _ f Htags)).
  rewrite (existsb_ext (hitr (b_tags b)) (hitr T) (of_cat CException L) (fun f => hitr_ext _ _ f Htags)).
  reflexivity.
Qed.

Theorem semrep_verdict b L T : SemRep b L T -> TG h rm pr L ->
  blocker_check rm pr b = spec_verdict rm L T.
Proof using pr_zero.
  intros HR Htg. rewrite <- blocker_check_p_ff, <- spec_verdict_p_ff. apply semrep_verdict_p; assumption.
Qed.
End Verdict.

(* ================================================================ the invariant: start and steps *)
Lemma semrep_tags_eq b L T : SemRep b L T -> same_tag_set (b_tags b) T.
Proof using. intros (_ & _ & _ & _ & _ & _ & _ & _ & _ & Htags). exact Htags. Qed.

(* SemRep reads the loaded rules and the tags as sets *)
Lemma semrep_ext b L L' T T' : same_rule_set L L' -> same_tag_set T T' -> SemRep b L T -> SemRep b L' T'.
Proof using.
  intros HL HT (Si & St & Sn & Se & Sc & Sr & Sp & Sg & Hall & Htags).
  unfold C06_History_Model.SemRep.
  split; [exact (semlist_ext _ _ _ (fun x => of_cat_ext CImportant L L' x HL) Si)|].
  split.
  { rewrite <- (tagged_active_ext T T' _ HT).
    exact (semlist_ext _ _ _ (fun x => tagged_active_set_ext T _ _ x (fun y => of_cat_ext CTagged L L' y HL)) St). }
  split; [exact (semlist_ext _ _ _ (fun x => of_cat_ext CNormal L L' x HL) Sn)|].
  split; [exact (semlist_ext _ _ _ (fun x => of_cat_ext CException L L' x HL) Se)|].
  split; [exact (semlist_ext _ _ _ (fun x => of_cat_ext CCsp L L' x HL) Sc)|].
  split.
  { apply (semlist_ext _ _ _) with (2 := Sr). intros x. rewrite !filter_In, (live_ext L L' x HL). tauto. }
  split; [exact (semlist_ext _ _ _ (fun x => of_cat_ext CRemoveparam L L' x HL) Sp)|].
  split; [exact (semlist_ext _ _ _ (fun x => of_cat_ext CGenericHide L L' x HL) Sg)|].
  split.
  - intros x. rewrite (Hall x). apply of_cat_ext. exact HL.
  - intros t. rewrite (Htags t). apply HT.
Qed.

(* Blocker::new(vec![], enable_optimizations = false) *)
Theorem semrep_new : SemRep (blocker_new h []) [] [].
Proof using.
  unfold C06_History_Model.SemRep, blocker_new.
  cbn [b_csp b_exceptions b_importants b_redirects b_removeparam b_tagged b_filters b_generic_hide b_tags b_tagged_all].
  repeat (split; [exact semlist_nil|]).
  split; [intros x; split; intros H; exact H|intros t; reflexivity].
Qed.

(* tags_with_set: filters_tagged is rebuilt, un-optimized, from tagged_filters_all *)
Theorem semrep_tags b L T T1 Tabs :
  SemRep b L T -> id_inj L -> (forall f, In f L -> wfp f = true) -> same_tag_set T1 Tabs ->
  SemRep (tags_with_set h b T1) L Tabs.
Proof using.
  intros (Si & St & Sn & Se & Sc & Sr & Sp & Sg & Hall & Htags) Hinj Hw HT.
  unfold C06_History_Model.SemRep, tags_with_set.
  cbn [b_csp b_exceptions b_importants b_redirects b_removeparam b_tagged b_filters b_generic_hide b_tags b_tagged_all].
  split; [exact Si|]. split.
  { apply (semlist_ext _ (tagged_active T1 (b_tagged_all b))).
    - intros x. rewrite (tagged_active_ext T1 Tabs _ HT). apply tagged_active_set_ext. exact Hall.
    - assert (Hi : incl (tagged_active T1 (b_tagged_all b)) L).
      { intros x Hx. apply (of_cat_incl CTagged L). apply Hall. exact (tagged_active_incl _ _ x Hx). }
      apply wi_semlist; [apply new_well_indexed|exact (id_inj_incl L _ Hi Hinj)|].
      intros f Hf. apply Hw. apply Hi. exact Hf. }
  split; [exact Sn|]. split; [exact Se|]. split; [exact Sc|]. split; [exact Sr|].
  split; [exact Sp|]. split; [exact Sg|]. split; [exact Hall|]. intros t. apply HT.
Qed.

(* Blocker::optimize *)
Theorem semrep_optimize b L T : SemRep b L T -> SemRep (blocker_optimize b) L T.
Proof using.
  intros (Si & St & Sn & Se & Sc & Sr & Sp & Sg & Hall & Htags).
  unfold C06_History_Model.SemRep, blocker_optimize.
  cbn [b_csp b_exceptions b_importants b_redirects b_removeparam b_tagged b_filters b_generic_hide b_tags b_tagged_all].
  split; [apply semlist_optimize; exact Si|]. split; [apply semlist_optimize; exact St|].
  split; [apply semlist_optimize; exact Sn|]. split; [apply semlist_optimize; exact Se|].
  split; [apply semlist_optimize; exact Sc|]. split; [apply semlist_optimize; exact Sr|].
  split; [exact Sp|]. split; [apply semlist_optimize; exact Sg|]. split; [exact Hall|exact Htags].
Qed.

(* Blocker::filter_exists only answers yes for the id of a loaded rule (also after optimize) *)
Theorem filter_exists_loaded b L T f : SemRep b L T -> filter_exists h b f = true ->
  exists g, In g L /\ rid g = rid f.
Proof using.
  intros (Si & St & Sn & Se & Sc & Sr & Sp & Sg & Hall & Htags). unfold filter_exists.
  assert (G : forall m c, SemList m (of_cat c L) -> list_exists h m f = true ->
                          exists g, In g L /\ rid g = rid f).
  { intros m c HS He. destruct (semlist_exists_id m _ f HS He) as (g & Hg & Hi).
    exists g. split; [apply (of_cat_incl c L); exact Hg|exact Hi]. }
  destruct (is_csp f); [apply (G _ _ Sc)|].
  destruct (is_removeparam f); [apply (G _ _ Sp)|].
  destruct (is_generic_hide f); [apply (G _ _ Sg)|].
  destruct (is_exception f); [apply (G _ _ Se)|].
  destruct (is_important f && (negb (is_redirect f) || also_block_redirect f)); [apply (G _ _ Si)|].
  destruct (is_redirect f).
  - intros He. destruct (semlist_exists_id _ _ f Sr He) as (g & Hg & Hi). exists g. split; [|exact Hi].
    apply live_incl. apply filter_In in Hg. exact (proj1 Hg).
  - destruct (rtag f).
    + intros He. apply existsb_exists in He as (g & Hg & Hi). apply N.eqb_eq in Hi.
      exists g. split; [apply (of_cat_incl CTagged L); apply Hall; exact Hg|exact Hi].
    + apply (G _ _ Sn).
Qed.

(* what an accepted add_filter does, field by field *)
Lemma add_fields b f : is_badfilter f = false -> filter_exists h b f = false ->
  b_importants (fst (blocker_add h b f))
    = (if cat_eqb (category_of f) CImportant then fl_add h (b_importants b) f else b_importants b) /\
  b_tagged (fst (blocker_add h b f))
    = (if cat_eqb (category_of f) CTagged
       then fl_new h (tagged_active (b_tags b) (b_tagged_all b ++ [f])) else b_tagged b) /\
  b_filters (fst (blocker_add h b f))
    = (if cat_eqb (category_of f) CNormal then fl_add h (b_filters b) f else b_filters b) /\
  b_exceptions (fst (blocker_add h b f))
    = (if cat_eqb (category_of f) CException then fl_add h (b_exceptions b) f else b_exceptions b) /\
  b_csp (fst (blocker_add h b f))
    = (if cat_eqb (category_of f) CCsp then fl_add h (b_csp b) f else b_csp b) /\
  b_redirects (fst (blocker_add h b f))
    = (if is_redirect f then fl_add h (b_redirects b) f else b_redirects b) /\
  b_removeparam (fst (blocker_add h b f))
    = (if cat_eqb (category_of f) CRemoveparam then fl_add h (b_removeparam b) f else b_removeparam b) /\
  b_generic_hide (fst (blocker_add h b f))
    = (if cat_eqb (category_of f) CGenericHide then fl_add h (b_generic_hide b) f else b_generic_hide b) /\
  b_tagged_all (fst (blocker_add h b f))
    = (if cat_eqb (category_of f) CTagged then b_tagged_all b ++ [f] else b_tagged_all b) /\
  b_tags (fst (blocker_add h b f)) = b_tags b.
Proof using.
  intros Hbf Hex. unfold blocker_add. rewrite Hbf, Hex. cbn [fst].
  destruct (category_of f), (is_redirect f);
    cbn [cat_eqb set_redirects tags_with_set b_csp b_exceptions b_importants b_redirects b_removeparam
         b_tagged b_filters b_generic_hide b_tags b_tagged_all];
    repeat split; reflexivity.
Qed.

Lemma sl_step c L f m : no_badfilter L -> is_badfilter f = false -> wfp f = true -> id_inj (L ++ [f]) ->
  SemList m (of_cat c L) ->
  SemList (if cat_eqb (category_of f) c then fl_add h m f else m) (of_cat c (L ++ [f])).
Proof using.
  intros Hnb Hbf Hw Hinj HS. rewrite (of_cat_snoc c L f Hnb Hbf).
  destruct (cat_eqb (category_of f) c).
  - apply semlist_add; [exact HS|exact Hw|]. exact (id_inj_snoc _ L f (of_cat_incl c L) Hinj).
  - rewrite app_nil_r. exact HS.
Qed.

Lemma sl_step_redirect L f m : no_badfilter L -> is_badfilter f = false -> wfp f = true -> id_inj (L ++ [f]) ->
  SemList m (filter is_redirect (live L)) ->
  SemList (if is_redirect f then fl_add h m f else m) (filter is_redirect (live (L ++ [f]))).
Proof using.
  intros Hnb Hbf Hw Hinj HS. rewrite (redirects_snoc L f Hnb Hbf).
  destruct (is_redirect f).
  - apply semlist_add; [exact HS|exact Hw|]. apply (id_inj_snoc _ L f); [|exact Hinj].
    intros x Hx. apply live_incl. apply filter_In in Hx. exact (proj1 Hx).
  - rewrite app_nil_r. exact HS.
Qed.

Lemma sl_step_tagged b L T f : SemRep b L T -> no_badfilter L -> is_badfilter f = false ->
  id_inj (L ++ [f]) -> (forall g, In g (L ++ [f]) -> wfp g = true) ->
  SemList (if cat_eqb (category_of f) CTagged
           then fl_new h (tagged_active (b_tags b) (b_tagged_all b ++ [f])) else b_tagged b)
          (tagged_active T (of_cat CTagged (L ++ [f])))
  /\ (forall x, In x (if cat_eqb (category_of f) CTagged then b_tagged_all b ++ [f] else b_tagged_all b)
                <-> In x (of_cat CTagged (L ++ [f]))).
Proof using.
  intros (_ & St & _ & _ & _ & _ & _ & _ & Hall & Htags) Hnb Hbf Hinj Hw.
  rewrite (of_cat_snoc CTagged L f Hnb Hbf).
  destruct (cat_eqb (category_of f) CTagged).
  - assert (Hset : forall x, In x (b_tagged_all b ++ [f]) <-> In x (of_cat CTagged L ++ [f])).
    { intros x. rewrite !in_app_iff, (Hall x). tauto. }
    split; [|exact Hset].
    apply (semlist_ext _ (tagged_active (b_tags b) (b_tagged_all b ++ [f]))).
    + intros x. rewrite (tagged_active_ext (b_tags b) T _ Htags). apply tagged_active_set_ext. exact Hset.
    + assert (Hi : incl (tagged_active (b_tags b) (b_tagged_all b ++ [f])) (L ++ [f])).
      { intros x Hx. pose proof (tagged_active_incl _ _ x Hx) as Hx'. apply Hset in Hx'.
        apply in_app_or in Hx' as [Hx'|Hx']; apply in_or_app;
          [left; apply (of_cat_incl CTagged L); exact Hx'|right; exact Hx']. }
      apply wi_semlist; [apply new_well_indexed|exact (id_inj_incl _ _ Hi Hinj)|].
      intros g Hg. apply Hw. apply Hi. exact Hg.
  - rewrite app_nil_r. split; [exact St|exact Hall].
Qed.

(* Blocker::add_filter, whatever it answers *)
Theorem semrep_add b L T f : SemRep b L T -> no_badfilter L ->
  id_inj (rules_step L (HAdd f)) -> (forall g, In g (rules_step L (HAdd f)) -> wfp g = true) ->
  SemRep (fst (blocker_add h b f)) (rules_step L (HAdd f)) T.
Proof using.
  intros HR Hnb. cbn [rules_step]. destruct (is_badfilter f) eqn:Hbf.
  - intros _ _. unfold blocker_add. rewrite Hbf. exact HR.
  - intros Hinj Hw. destruct (filter_exists h b f) eqn:Hex.
    + (* refused as a duplicate: the rule is loaded already *)
      unfold blocker_add. rewrite Hbf, Hex. cbn [fst].
      destruct (filter_exists_loaded b L T f HR Hex) as (g & Hg & Hi).
      assert (E : g = f).
      { apply Hinj; [apply in_or_app; left; exact Hg|apply in_or_app; right; left; reflexivity|exact Hi]. }
      subst g. apply (semrep_ext b L (L ++ [f]) T T); [|intros t; reflexivity|exact HR].
      intros x. rewrite in_app_iff. split; [tauto|]. intros [Hx|[Hx|[]]]; [exact Hx|subst x; exact Hg].
    + (* accepted *)
      destruct (add_fields b f Hbf Hex) as (Ei & Et & En & Ee & Ec & Er & Ep & Eg & Ea & Etg).
      destruct (sl_step_tagged b L T f HR Hnb Hbf Hinj Hw) as [Tg1 Tg2].
      destruct HR as (Si & St & Sn & Se & Sc & Sr & Sp & Sg & Hall & Htags).
      assert (Hwf : wfp f = true) by (apply Hw; apply in_or_app; right; left; reflexivity).
      unfold C06_History_Model.SemRep. rewrite Ei, Et, En, Ee, Ec, Er, Ep, Eg, Ea, Etg.
      split; [apply sl_step; assumption|]. split; [exact Tg1|].
      split; [apply sl_step; assumption|]. split; [apply sl_step; assumption|].
      split; [apply sl_step; assumption|]. split; [apply sl_step_redirect; assumption|].
      split; [apply sl_step; assumption|]. split; [apply sl_step; assumption|].
      split; [exact Tg2|exact Htags].
Qed.

Lemma rules_step_nb L o : no_badfilter L -> no_badfilter (rules_step L o).
Proof using.
  intros H. destruct o as [f|ts|ts|ts|]; cbn [rules_step]; try exact H.
  destruct (is_badfilter f) eqn:E; [exact H|apply no_bad_app; assumption].
Qed.
Lemma rules_step_incl L o : incl L (rules_step L o).
Proof using.
  destruct o as [f|ts|ts|ts|]; cbn [rules_step]; try apply incl_refl.
  destruct (is_badfilter f); [apply incl_refl|apply incl_appl; apply incl_refl].
Qed.
Lemma loaded_from_incl ops : forall L, incl L (fold_left rules_step ops L).
Proof using.
  induction ops as [|o r IH]; intros L; cbn [fold_left]; [apply incl_refl|].
  eapply incl_tran; [apply rules_step_incl|apply IH].
Qed.

(* one operation of the live blocker *)
Theorem hstep_semrep b L T o : SemRep b L T -> no_badfilter L ->
  id_inj (rules_step L o) -> (forall g, In g (rules_step L o) -> wfp g = true) ->
  SemRep (hstep h b o) (rules_step L o) (tags_step T o).
Proof using.
  intros HR Hnb Hinj Hw. destruct o as [f|ts|ts|ts|]; cbn [hstep tags_step].
  - apply semrep_add; assumption.
  - cbn [rules_step] in *. unfold use_tags. apply (semrep_tags b L T); try assumption.
    intros t. apply mem_dedup.
  - cbn [rules_step] in *. unfold enable_tags. apply (semrep_tags b L T); try assumption.
    intros t. rewrite mem_dedup, !mem_app. rewrite (semrep_tags_eq b L T HR t). reflexivity.
  - cbn [rules_step] in *. unfold disable_tags. apply (semrep_tags b L T); try assumption.
    intros t. rewrite !mem_filter_neg. rewrite (semrep_tags_eq b L T HR t). reflexivity.
  - cbn [rules_step] in *. apply semrep_optimize. exact HR.
Qed.

(* any history *)
Theorem hrun_semrep ops : forall b L T, SemRep b L T -> no_badfilter L ->
  id_inj (fold_left rules_step ops L) -> (forall g, In g (fold_left rules_step ops L) -> wfp g = true) ->
  SemRep (fold_left (hstep h) ops b) (fold_left rules_step ops L) (fold_left tags_step ops T).
Proof using.
  induction ops as [|o r IH]; intros b L T HR Hnb Hinj Hw; cbn [fold_left] in *; [exact HR|].
  pose proof (loaded_from_incl r (rules_step L o)) as Hi.
  apply IH; [|apply rules_step_nb; exact Hnb|exact Hinj|exact Hw].
  apply hstep_semrep; [exact HR|exact Hnb|exact (id_inj_incl _ _ Hi Hinj)|].
  intros g Hg. apply Hw. apply Hi. exact Hg.
Qed.

Theorem history_semrep ops :
  id_inj (loaded ops) -> (forall f, In f (loaded ops) -> wfp f = true) ->
  SemRep (hrun h ops) (loaded ops) (tagset ops).
Proof using.
  intros Hinj Hw. unfold hrun, hrun_from, loaded, loaded_from, tagset, tagset_from in *.
  apply hrun_semrep; [apply semrep_new|intros f []|exact Hinj|exact Hw].
Qed.

End Sem.

(* ================================================================ the theorems *)
Section History.
Variable h : str -> N.
Variable om : N -> bool.
Variable pm : N -> str -> bool.
Variable pr : list N.
Hypothesis pr_zero : In 0 pr.
Notation rm := (rmatch om pm).

(* After ANY history of add_filter calls (accepted or refused), tag switches and optimize() calls on
   a blocker created empty, the subset query answers rule by rule on the rules loaded so far under
   the set-algebra tag set. *)
Theorem history_verdict_p mr fc ops :
  let L := loaded ops in let T := tagset ops in
  id_inj L -> TG h rm pr L -> (forall f, In f L -> wfp f = true) ->
  blocker_check_p rm pr mr fc (hrun h ops) = spec_verdict_p rm mr fc L T.
Proof using pr_zero.
  intros L T Hinj Htg Hw.
  exact (semrep_verdict_p h om pm pr pr_zero mr fc _ L T (history_semrep h om pm ops Hinj Hw) Htg).
Qed.

Theorem history_verdict ops :
  let L := loaded ops in let T := tagset ops in
  id_inj L -> TG h rm pr L -> (forall f, In f L -> wfp f = true) ->
  blocker_check rm pr (hrun h ops) = spec_verdict rm L T.
Proof using pr_zero.
  intros L T Hinj Htg Hw.
  exact (semrep_verdict h om pm pr pr_zero _ L T (history_semrep h om pm ops Hinj Hw) Htg).
Qed.

(* two histories that loaded the same SET of rules and end with the same SET of tags answer alike *)
Theorem history_set_determined_p mr fc ops1 ops2 :
  id_inj (loaded ops1) -> TG h rm pr (loaded ops1) -> (forall f, In f (loaded ops1) -> wfp f = true) ->
  same_rule_set (loaded ops1) (loaded ops2) -> same_tag_set (tagset ops1) (tagset ops2) ->
  blocker_check_p rm pr mr fc (hrun h ops1) = blocker_check_p rm pr mr fc (hrun h ops2).
Proof using pr_zero.
  intros Hinj Htg Hw HL HT.
  assert (Hi21 : incl (loaded ops2) (loaded ops1)) by (intros x Hx; apply HL; exact Hx).
  rewrite (history_verdict_p mr fc ops1 Hinj Htg Hw).
  rewrite (history_verdict_p mr fc ops2 (id_inj_incl _ _ Hi21 Hinj) (TG_incl h rm pr _ _ Hi21 Htg)
             (fun f Hf => Hw f (Hi21 f Hf))).
  apply spec_verdict_p_set; assumption.
Qed.

Theorem history_set_determined ops1 ops2 :
  id_inj (loaded ops1) -> TG h rm pr (loaded ops1) -> (forall f, In f (loaded ops1) -> wfp f = true) ->
  same_rule_set (loaded ops1) (loaded ops2) -> same_tag_set (tagset ops1) (tagset ops2) ->
  blocker_check rm pr (hrun h ops1) = blocker_check rm pr (hrun h ops2).
Proof using pr_zero.
  intros Hinj Htg Hw HL HT. rewrite <- !blocker_check_p_ff.
  apply history_set_determined_p; assumption.
Qed.

(* one at a time in any interleaving = one batch: the live blocker answers like the blocker built
   by Blocker::new from the loaded rules with the final tag set installed *)
Theorem history_eq_batch ops :
  id_inj (loaded ops) -> TG h rm pr (loaded ops) -> (forall f, In f (loaded ops) -> wfp f = true) ->
  blocker_check rm pr (hrun h ops)
  = blocker_check rm pr (tags_with_set h (blocker_new h (loaded ops)) (tagset ops)).
Proof using pr_zero.
  intros Hinj Htg Hw. rewrite (history_verdict ops Hinj Htg Hw).
  symmetry. apply (engine_eq_spec h rm pr pr_zero); assumption.
Qed.
End History.

(* add_filter never refuses (FilterExists) a rule that was not loaded: the id it found belongs to a
   loaded rule, and when ids identify rules the refused rule itself is loaded.  (The converse fails
   after optimize(): a fused rule carries only the id of its first member, a duplicate of another
   member is stored again — harmless, see history_verdict.) *)
Theorem history_add_exists_id h ops f :
  id_inj (loaded ops) -> (forall g, In g (loaded ops) -> wfp g = true) ->
  snd (blocker_add h (hrun h ops) f) = AddExists ->
  exists g, In g (loaded ops) /\ rid g = rid f.
Proof.
  intros Hinj Hw Hres.
  pose proof (history_semrep h (fun _ => true) (fun _ _ => true) ops Hinj Hw) as HR.
  unfold blocker_add in Hres. destruct (is_badfilter f); [cbn [snd] in Hres; discriminate|].
  destruct (filter_exists h (hrun h ops) f) eqn:Hex; [|cbn [snd] in Hres; discriminate].
  exact (filter_exists_loaded h _ _ _ _ _ f HR Hex).
Qed.

Theorem history_add_exists_sound h ops f :
  id_inj (loaded ops ++ [f]) -> (forall g, In g (loaded ops) -> wfp g = true) ->
  snd (blocker_add h (hrun h ops) f) = AddExists -> In f (loaded ops).
Proof.
  intros Hinj Hw Hres.
  assert (Hinj0 : id_inj (loaded ops)) by (apply (id_inj_incl _ _ (incl_appl [f] (incl_refl _)) Hinj)).
  destruct (history_add_exists_id h ops f Hinj0 Hw Hres) as (g & Hg & Hi).
  assert (E : g = f).
  { apply Hinj; [apply in_or_app; left; exact Hg|apply in_or_app; right; left; reflexivity|exact Hi]. }
  subst g. exact Hg.
Qed.

(* the answers of add_filter, for the record: BadFilterAddUnsupported exactly for $badfilter rules *)
Theorem add_badfilter_iff h b f : snd (blocker_add h b f) = AddBadFilter <-> is_badfilter f = true.
Proof.
  unfold blocker_add. destruct (is_badfilter f); [cbn; tauto|].
  destruct (filter_exists h b f); cbn; split; discriminate.
Qed.

(* ================================================================ the lists whose every hit is used
   (redirect, csp, removeparam) and generic_hide.  Redirect and csp rules are never fused and the
   removeparam list is never optimized, so these three lists stay syntactically well indexed
   through any history; their hit SETS are those of the rule-by-rule specification. *)
Section Syn.
Variable h : str -> N.

Definition SynRep (b : blocker) (L : list rule) : Prop :=
  WellIndexed h (b_csp b) (of_cat CCsp L) /\
  WellIndexed h (b_redirects b) (filter is_redirect (live L)) /\
  WellIndexed h (b_removeparam b) (of_cat CRemoveparam L).

Lemma wi_ext m L L' : (forall x, In x L <-> In x L') -> WellIndexed h m L -> WellIndexed h m L'.
Proof using.
  intros E [Hp Hm]. split.
  - intros f Hf. apply Hp. apply E. exact Hf.
  - intros k x Hx. apply E. exact (Hm k x Hx).
Qed.

Lemma wi_optimize m Lc : (forall f, In f Lc -> opt_select f = false) ->
  WellIndexed h m Lc -> WellIndexed h (fl_optimize m) Lc.
Proof using.
  intros Hu [Hp Hm].
  assert (B : forall k x, In x (bucket (fl_optimize m) k) <-> In x (bucket m k)).
  { intros k x. apply (bucket_unselectable (fun _ => true) (fun _ _ => true) []).
    intros f Hf. apply Hu. exact (Hm k f Hf). }
  split.
  - intros f Hf g Hg. destruct (Hp f Hf g Hg) as (k & Hk & x & Hx & Hi).
    exists k. split; [exact Hk|]. exists x. split; [apply B; exact Hx|exact Hi].
  - intros k x Hx. apply B in Hx. exact (Hm k x Hx).
Qed.

Lemma cat_csp f : category_of f = CCsp -> is_csp f = true.
Proof using.
  unfold category_of. destruct (is_csp f); [reflexivity|].
  destruct (is_removeparam f); [discriminate|]. destruct (is_generic_hide f); [discriminate|].
  destruct (is_exception f); [discriminate|]. destruct (_ && _); [discriminate|].
  destruct (_ && _); [discriminate|]. destruct (_ || _); discriminate.
Qed.

Lemma wi_step c L f m : no_badfilter L -> is_badfilter f = false ->
  WellIndexed h m (of_cat c L) ->
  WellIndexed h (if cat_eqb (category_of f) c then fl_add h m f else m) (of_cat c (L ++ [f])).
Proof using.
  intros Hnb Hbf HS. rewrite (of_cat_snoc c L f Hnb Hbf). destruct (cat_eqb (category_of f) c).
  - apply add_well_indexed. exact HS.
  - rewrite app_nil_r. exact HS.
Qed.
Lemma wi_step_redirect L f m : no_badfilter L -> is_badfilter f = false ->
  WellIndexed h m (filter is_redirect (live L)) ->
  WellIndexed h (if is_redirect f then fl_add h m f else m) (filter is_redirect (live (L ++ [f]))).
Proof using.
  intros Hnb Hbf HS. rewrite (redirects_snoc L f Hnb Hbf). destruct (is_redirect f).
  - apply add_well_indexed. exact HS.
  - rewrite app_nil_r. exact HS.
Qed.

Lemma synrep_ext b L L' : same_rule_set L L' -> SynRep b L -> SynRep b L'.
Proof using.
  intros HL (Wc & Wr & Wp). split; [|split].
  - exact (wi_ext _ _ _ (fun x => of_cat_ext CCsp L L' x HL) Wc).
  - apply (wi_ext _ _ _) with (2 := Wr). intros x. rewrite !filter_In, (live_ext L L' x HL). tauto.
  - exact (wi_ext _ _ _ (fun x => of_cat_ext CRemoveparam L L' x HL) Wp).
Qed.

Lemma synrep_new : SynRep (blocker_new h []) [].
Proof using.
  unfold SynRep, blocker_new. cbn [b_csp b_redirects b_removeparam].
  split; [|split]; apply new_well_indexed.
Qed.

Lemma synrep_optimize b L : SynRep b L -> SynRep (blocker_optimize b) L.
Proof using.
  intros (Wc & Wr & Wp). unfold SynRep, blocker_optimize. cbn [b_csp b_redirects b_removeparam].
  split; [|split; [|exact Wp]].
  - apply wi_optimize; [|exact Wc]. intros f Hf. apply csp_unselectable. apply cat_csp.
    eapply of_cat_cat. exact Hf.
  - apply wi_optimize; [|exact Wr]. intros f Hf. apply redirect_unselectable.
    apply filter_In in Hf. exact (proj2 Hf).
Qed.

Lemma synrep_add om pm b L T f : SemRep h om pm b L T -> SynRep b L -> no_badfilter L ->
  id_inj (rules_step L (HAdd f)) -> SynRep (fst (blocker_add h b f)) (rules_step L (HAdd f)).
Proof using.
  intros HR HS Hnb. cbn [rules_step]. destruct (is_badfilter f) eqn:Hbf.
  - intros _. unfold blocker_add. rewrite Hbf. exact HS.
  - intros Hinj. destruct (filter_exists h b f) eqn:Hex.
    + unfold blocker_add. rewrite Hbf, Hex. cbn [fst].
      destruct (filter_exists_loaded h om pm b L T f HR Hex) as (g & Hg & Hi).
      assert (E : g = f).
      { apply Hinj; [apply in_or_app; left; exact Hg|apply in_or_app; right; left; reflexivity|exact Hi]. }
      subst g. apply (synrep_ext b L (L ++ [f])); [|exact HS].
      intros x. rewrite in_app_iff. split; [tauto|]. intros [Hx|[Hx|[]]]; [exact Hx|subst x; exact Hg].
    + destruct (add_fields h b f Hbf Hex) as (_ & _ & _ & _ & Ec & Er & Ep & _).
      destruct HS as (Wc & Wr & Wp). unfold SynRep. rewrite Ec, Er, Ep.
      split; [apply wi_step; assumption|]. split; [apply wi_step_redirect; assumption|apply wi_step; assumption].
Qed.

Lemma hstep_synrep om pm b L T o : SemRep h om pm b L T -> SynRep b L -> no_badfilter L ->
  id_inj (rules_step L o) -> SynRep (hstep h b o) (rules_step L o).
Proof using.
  intros HR HS Hnb Hinj. destruct o as [f|ts|ts|ts|]; cbn [hstep].
  - apply (synrep_add om pm b L T); assumption.
  - exact HS.
  - exact HS.
  - exact HS.
  - apply synrep_optimize. exact HS.
Qed.

Lemma hrun_synrep om pm ops : forall b L T, SemRep h om pm b L T -> SynRep b L -> no_badfilter L ->
  id_inj (fold_left rules_step ops L) -> (forall g, In g (fold_left rules_step ops L) -> wfp g = true) ->
  SynRep (fold_left (hstep h) ops b) (fold_left rules_step ops L).
Proof using.
  induction ops as [|o r IH]; intros b L T HR HS Hnb Hinj Hw; cbn [fold_left] in *; [exact HS|].
  pose proof (loaded_from_incl r (rules_step L o)) as Hi.
  assert (Hinj1 : id_inj (rules_step L o)) by exact (id_inj_incl _ _ Hi Hinj).
  apply (IH _ _ (tags_step T o)); [| |apply rules_step_nb; exact Hnb|exact Hinj|exact Hw].
  - apply hstep_semrep; [exact HR|exact Hnb|exact Hinj1|]. intros g Hg. apply Hw. apply Hi. exact Hg.
  - apply (hstep_synrep om pm b L T); assumption.
Qed.

Theorem history_synrep ops :
  id_inj (loaded ops) -> (forall f, In f (loaded ops) -> wfp f = true) -> SynRep (hrun h ops) (loaded ops).
Proof using.
  intros Hinj Hw. unfold hrun, hrun_from, loaded, loaded_from in *.
  apply (hrun_synrep (fun _ => true) (fun _ _ => true) ops _ [] []);
    [apply semrep_new|apply synrep_new|intros f []|exact Hinj|exact Hw].
Qed.

Variable matches : rule -> bool.
Variable pr : list N.
Hypothesis pr_zero : In 0 pr.

Theorem history_redirect_hits ops f :
  id_inj (loaded ops) -> TG h matches pr (loaded ops) -> (forall g, In g (loaded ops) -> wfp g = true) ->
  (In f (redirect_hits matches pr (hrun h ops)) <-> In f (spec_redirect_hits matches (loaded ops))).
Proof using pr_zero.
  intros Hinj Htg Hw. destruct (history_synrep ops Hinj Hw) as (_ & Wr & _).
  unfold redirect_hits, spec_redirect_hits.
  assert (Hi : incl (filter is_redirect (live (loaded ops))) (loaded ops)).
  { intros x Hx. apply live_incl. apply filter_In in Hx. exact (proj1 Hx). }
  apply (check_all_exact h matches pr pr_zero _ _ [] f Wr (id_inj_incl _ _ Hi Hinj) (TG_incl h matches pr _ _ Hi Htg)).
Qed.

Theorem history_removeparam_hits ops f :
  id_inj (loaded ops) -> TG h matches pr (loaded ops) -> (forall g, In g (loaded ops) -> wfp g = true) ->
  (In f (removeparam_hits matches pr (hrun h ops)) <-> In f (spec_removeparam_hits matches (loaded ops))).
Proof using pr_zero.
  intros Hinj Htg Hw. destruct (history_synrep ops Hinj Hw) as (_ & _ & Wp).
  unfold removeparam_hits, spec_removeparam_hits.
  pose proof (of_cat_incl CRemoveparam (loaded ops)) as Hi.
  apply (check_all_exact h matches pr pr_zero _ _ [] f Wp (id_inj_incl _ _ Hi Hinj) (TG_incl h matches pr _ _ Hi Htg)).
Qed.

Theorem history_csp_hits ops f :
  id_inj (loaded ops) -> TG h matches pr (loaded ops) -> (forall g, In g (loaded ops) -> wfp g = true) ->
  (In f (csp_hits matches pr (hrun h ops)) <-> In f (spec_csp_hits matches (loaded ops) (tagset ops))).
Proof using pr_zero.
  intros Hinj Htg Hw. destruct (history_synrep ops Hinj Hw) as (Wc & _ & _).
  pose proof (semrep_tags_eq h _ _ _ _ _ (history_semrep h (fun _ => true) (fun _ _ => true) ops Hinj Hw)) as Htags.
  unfold csp_hits, spec_csp_hits.
  pose proof (of_cat_incl CCsp (loaded ops)) as Hi.
  rewrite (check_all_exact h matches pr pr_zero _ _ (b_tags (hrun h ops)) f Wc (id_inj_incl _ _ Hi Hinj)
             (TG_incl h matches pr _ _ Hi Htg)).
  rewrite !filter_In. change (hit matches) with (act matches).
  rewrite (act_ext matches _ _ f Htags). tauto.
Qed.
End Syn.

Theorem history_generic_hide h om pm pr : In 0 pr -> forall ops,
  id_inj (loaded ops) -> TG h (rmatch om pm) pr (loaded ops) -> (forall g, In g (loaded ops) -> wfp g = true) ->
  generic_hide_hit (rmatch om pm) pr (hrun h ops) = spec_generic_hide (rmatch om pm) (loaded ops) (tagset ops).
Proof.
  intros pr_zero ops Hinj Htg Hw.
  destruct (history_semrep h om pm ops Hinj Hw) as (_ & _ & _ & _ & _ & _ & _ & Sg & _ & Htags).
  unfold generic_hide_hit, spec_generic_hide.
  change (match check (rmatch om pm) (b_generic_hide (hrun h ops)) pr (b_tags (hrun h ops)) with Some _ => true | None => false end)
    with (found_b om pm pr (b_generic_hide (hrun h ops)) (b_tags (hrun h ops))).
  rewrite (semlist_found h om pm pr pr_zero _ _ (b_tags (hrun h ops)) Sg (TG_incl h _ pr _ _ (of_cat_incl CGenericHide (loaded ops)) Htg)).
  apply existsb_ext. intros f. apply (hitr_ext om pm _ _ f Htags).
Qed.

(* ================================================================ example (non-vacuity) *)
(* request https://x.com/ads/banner.js ; options always pass ; a pattern matches when the URL
   contains it.  Rule ids are the crate's (seahash of the rule line), so the history below is the one
   replayed on the real crate (/tmp/c06-history, see the report): three plain rules sharing the
   bucket "ads" are fused by the first optimize() into one rule that carries the id of /ads/x1 (the
   smallest id); then /ads/x1 is added again (recognised through the fused rule's id: FilterExists),
   a near twin /ads/x2 (accepted), /ads/banner again (a fused member that is NOT the head: not
   recognised, stored again - harmless), a tag is enabled, an exception added, a second optimize()
   (fuses the fused rule with the two newcomers: 5 patterns), a $badfilter rule (refused), and more
   tag switches. *)
Definition hx_url : str := bs "https://x.com/ads/banner.js".
Definition hx_om : N -> bool := fun _ => true.
Definition hx_pm : N -> str -> bool := fun _ s => containsb s hx_url.
Definition hx_probes : list N := probes seahash None hx_url.
(* ids as in the crate: fast_hash (seahash) of the rule line *)
Definition hx_r1 := mkr (seahash (bs "/ads/banner")) M_DEFAULT_OPTIONS (FSimple (bs "/ads/banner")) None None None None None.
Definition hx_r2 := mkr (seahash (bs "/ads/x1")) M_DEFAULT_OPTIONS (FSimple (bs "/ads/x1")) None None None None None.
Definition hx_r3 := mkr (seahash (bs "/ads/zz9")) M_DEFAULT_OPTIONS (FSimple (bs "/ads/zz9")) None None None None None.
Definition hx_r4 := mkr (seahash (bs "/ads/x2")) M_DEFAULT_OPTIONS (FSimple (bs "/ads/x2")) None None None None None.
Definition hx_exc := mkr (seahash (bs "@@/banner.")) (N.lor M_DEFAULT_OPTIONS M_IS_EXCEPTION) (FSimple (bs "/banner.")) None None None None None.
Definition hx_tag := mkr (seahash (bs "/ads/$tag=t1")) M_DEFAULT_OPTIONS (FSimple (bs "/ads/")) None None None None (Some (bs "t1")).
Definition hx_bad := mkr (seahash (bs "/ads/banner$badfilter")) (N.lor M_DEFAULT_OPTIONS M_BAD_FILTER) (FSimple (bs "/ads/banner")) None None None None None.
Definition hx_ops : list hop :=
  [ HAdd hx_r1; HAdd hx_r2; HAdd hx_r3; HAdd hx_tag; HOptimize;
    HAdd hx_r2; HAdd hx_r4; HAdd hx_r1; HEnable [bs "t1"]; HAdd hx_exc; HOptimize;
    HAdd hx_bad; HDisable [bs "t1"]; HUse [bs "t2"; bs "t1"] ].

Lemma hx_loaded : loaded hx_ops = [hx_r1; hx_r2; hx_r3; hx_tag; hx_r2; hx_r4; hx_r1; hx_exc].
Proof. vm_compute. reflexivity. Qed.

Example history_example :
  id_inj (loaded hx_ops) /\ TG seahash (rmatch hx_om hx_pm) hx_probes (loaded hx_ops)
  /\ (forall f, In f (loaded hx_ops) -> wfp f = true) /\ In 0 hx_probes
  /\ tagset hx_ops = [bs "t2"; bs "t1"]
  (* the first optimize() fused the three rules of bucket "ads" into one rule with the id of /ads/x1 *)
  /\ map (fun f => (rid f, patterns_of f)) (bucket (b_filters (hrun seahash (firstn 5 hx_ops))) (seahash (bs "ads")))
     = [(rid hx_r2, [bs "/ads/x1"; bs "/ads/zz9"; bs "/ads/banner"])]
  (* ... so the head /ads/x1 is recognised as present, the member /ads/banner is not *)
  /\ (snd (blocker_add seahash (hrun seahash (firstn 5 hx_ops)) hx_r2),
      snd (blocker_add seahash (hrun seahash (firstn 6 hx_ops)) hx_r4),
      snd (blocker_add seahash (hrun seahash (firstn 7 hx_ops)) hx_r1),
      snd (blocker_add seahash (hrun seahash (firstn 11 hx_ops)) hx_bad))
     = (AddExists, AddOk, AddOk, AddBadFilter)
  (* the second optimize() fused again: one rule, five patterns *)
  /\ map (fun f => (rid f, List.length (patterns_of f))) (bucket (b_filters (hrun seahash hx_ops)) (seahash (bs "ads")))
     = [(rid hx_r2, 5%nat)]
  (* v_matched along the way: before/after the first optimize, after enable_tags, after the exception *)
  /\ map (fun n => v_matched (blocker_check (rmatch hx_om hx_pm) hx_probes (hrun seahash (firstn n hx_ops))))
         [4; 5; 9; 10; 11; 13]%nat = [true; true; true; false; false; false]
  /\ blocker_check (rmatch hx_om hx_pm) hx_probes (hrun seahash hx_ops)
     = {| v_matched := false; v_important := false; v_exception := true; v_filter := true |}
  /\ spec_verdict (rmatch hx_om hx_pm) (loaded hx_ops) (tagset hx_ops)
     = {| v_matched := false; v_important := false; v_exception := true; v_filter := true |}.
Proof.
  split; [|split; [|split; [|split; [|split; [|split; [|split; [|split; [|split; [|split]]]]]]]]].
  - apply (id_inj_incl [hx_r1; hx_r2; hx_r3; hx_tag; hx_r4; hx_exc]).
    + rewrite hx_loaded. intros x Hx. cbn [In] in *. tauto.
    + apply nodup_ids_inj. apply nodupN_b_sound. vm_compute. reflexivity.
  - apply TG_b_sound. vm_compute. reflexivity.
  - intros f Hf. assert (E : forallb wfp (loaded hx_ops) = true) by (vm_compute; reflexivity).
    rewrite forallb_forall in E. apply E. exact Hf.
  - apply memN_In. vm_compute. reflexivity.
  - vm_compute. reflexivity.
  - vm_compute. reflexivity.
  - vm_compute. reflexivity.
  - vm_compute. reflexivity.
  - vm_compute. reflexivity.
  - vm_compute. reflexivity.
  - vm_compute. reflexivity.
Qed.

(* The premise [wfp] cannot be dropped from the model-level statement: a rule whose AnyOf holds zero
   patterns matches everything on its own but contributes no pattern to a fusion.  Such a rule is
   produced neither by the parser nor by the optimizer (fusion_wfp); C05 has the same premise. *)
Lemma history_verdict_wfp_refuted :
  exists ops,
    id_inj (loaded ops) /\ TG seahash (rmatch hx_om hx_pm) hx_probes (loaded ops) /\ In 0 hx_probes
    /\ blocker_check (rmatch hx_om hx_pm) hx_probes (hrun seahash ops)
       <> spec_verdict (rmatch hx_om hx_pm) (loaded ops) (tagset ops).
Proof.
  exists [ HAdd (mkr 1 M_DEFAULT_OPTIONS (FAnyOf []) None None None None None);
           HAdd (mkr 2 M_DEFAULT_OPTIONS (FSimple (bs "/zzz")) None None None None None);
           HOptimize ].
  split; [|split; [|split]].
  - apply nodup_ids_inj. apply nodupN_b_sound. vm_compute. reflexivity.
  - apply TG_b_sound. vm_compute. reflexivity.
  - apply memN_In. vm_compute. reflexivity.
  - vm_compute. discriminate.
Qed.
