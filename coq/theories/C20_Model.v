(* C20_Model.v — L1 model of the content-blocking export
     src/content_blocking.rs : TryFrom<NetworkFilter> for CbRuleEquivalent,
                               TryFrom<CosmeticFilter> for CbRule, ignore_previous_fp_documents
     src/lists.rs            : FilterSet::into_content_blocking
   and the L0 vocabulary of property C20 (regex AST, its matching relation, a conservative
   recogniser of the regex subset Safari's URLFilterParser accepts).  Definitions only. *)
From Adb Require Import Base Generated.

(* ------------------------------------------------------------------ bytes *)
Definition DOLLAR : N := 36.  Definition CARET : N := 94.   Definition STAR : N := 42.
Definition DOT : N := 46.     Definition BSL : N := 92.     Definition COMMA : N := 44.
Definition PIPE : N := 124.   Definition TILDE : N := 126.  Definition SHARP : N := 35.
Definition COLON : N := 58.   Definition SLASH : N := 47.   Definition LBR : N := 91.
Definition RBR : N := 93.     Definition LPAR : N := 40.    Definition RPAR : N := 41.
Definition QM : N := 63.      Definition PLUS : N := 43.

(* the converter's escape set comes from the source (Generated.cb_special_chars) *)
Definition is_special (c : N) : bool := memN c cb_special_chars.

(* ------------------------------------------------------------------ regex AST (L0/L1 shared) *)
Inductive atom := ALit (c : N) | AAny | ANot (c : N).           (* c | . | [^c] *)
Inductive quant := QOne | QStar | QPlus | QOpt.                  (*   | * | + | ?  *)
Definition qatom := (atom * quant)%type.
Inductive item := IAtom (a : atom) (q : quant) | IOptGroup (g : list qatom).   (* (g)? *)
Record regex := mkRx { rx_start : bool; rx_body : list item; rx_end : bool }.  (* ^ body $ *)

(* printer to Safari regex text: a literal is backslash-escaped iff it is in the escape set *)
Definition print_lit (c : N) : str := if is_special c then [BSL; c] else [c].
Definition print_atom (a : atom) : str :=
  match a with
  | ALit c => print_lit c
  | AAny => [DOT]
  | ANot c => [LBR; CARET] ++ print_lit c ++ [RBR]
  end.
Definition print_quant (q : quant) : str :=
  match q with QOne => [] | QStar => [STAR] | QPlus => [PLUS] | QOpt => [QM] end.
Definition print_qatom (x : qatom) : str := print_atom (fst x) ++ print_quant (snd x).
Definition print_item (i : item) : str :=
  match i with
  | IAtom a q => print_qatom (a, q)
  | IOptGroup g => [LPAR] ++ flat_map print_qatom g ++ [RPAR; QM]
  end.
Definition print_regex (r : regex) : str :=
  (if rx_start r then [CARET] else []) ++ flat_map print_item (rx_body r) ++
  (if rx_end r then [DOLLAR] else []).

(* matching relation (case-sensitive reading; Safari's default case-insensitive reading only
   matches more).  A regex is searched anywhere in the URL unless anchored. *)
Definition atom_okb (a : atom) (c : N) : bool :=
  match a with ALit x => N.eqb c x | AAny => true | ANot x => negb (N.eqb c x) end.
Inductive qatom_matches : qatom -> str -> Prop :=
| QM_one a c : atom_okb a c = true -> qatom_matches (a, QOne) [c]
| QM_star a s : forallb (atom_okb a) s = true -> qatom_matches (a, QStar) s
| QM_plus a s : s <> [] -> forallb (atom_okb a) s = true -> qatom_matches (a, QPlus) s
| QM_opt0 a : qatom_matches (a, QOpt) []
| QM_opt1 a c : atom_okb a c = true -> qatom_matches (a, QOpt) [c].
Inductive seq_matches {X : Type} (m : X -> str -> Prop) : list X -> str -> Prop :=
| SM_nil : seq_matches m [] []
| SM_cons x xs s t : m x s -> seq_matches m xs t -> seq_matches m (x :: xs) (s ++ t).
Inductive item_matches : item -> str -> Prop :=
| IM_atom a q s : qatom_matches (a, q) s -> item_matches (IAtom a q) s
| IM_grp0 g : item_matches (IOptGroup g) []
| IM_grp1 g s : seq_matches qatom_matches g s -> item_matches (IOptGroup g) s.
Definition ast_matches (r : regex) (url : str) : Prop :=
  exists a m b, url = a ++ m ++ b /\ seq_matches item_matches (rx_body r) m /\
                (rx_start r = true -> a = []) /\ (rx_end r = true -> b = []).

(* ------------------------------------------------------------------ L0: Safari's regex subset
   A conservative recogniser (everything it accepts, WebKit's URLFilterParser accepts):
   optional leading ^, optional trailing $, items = atom with at most one quantifier * + ?,
   atom = . | plain character | backslash + metacharacter | [class] | one level of (group);
   no alternation, no braces, no nested quantifier, no empty group/class, not the empty text.
   The metacharacter list is hand-written here, independently of the converter's escape set. *)
Definition safari_meta : list N :=
  [DOT; STAR; PLUS; QM; CARET; DOLLAR; 123; 125; LPAR; RPAR; PIPE; LBR; RBR; BSL].

Inductive sst :=
| STop (grp gitems q : bool)   (* in a group? / group has an atom? / may a quantifier follow? *)
| SEsc (grp : bool)
| SClsOpen (grp : bool) | SClsNeg (grp : bool) | SClsBody (grp : bool) | SClsEsc (grp : bool)
| SEnd | SFail.

Definition sstep (s : sst) (c : N) : sst :=
  match s with
  | STop g gi q =>
      if N.eqb c BSL then SEsc g
      else if N.eqb c DOT then STop g true true
      else if N.eqb c LBR then SClsOpen g
      else if N.eqb c LPAR then (if g then SFail else STop true false false)
      else if N.eqb c RPAR then (if g && gi then STop false false true else SFail)
      else if N.eqb c STAR || N.eqb c PLUS || N.eqb c QM then (if q then STop g gi false else SFail)
      else if N.eqb c DOLLAR then (if g then SFail else SEnd)
      else if memN c safari_meta then SFail
      else STop g true true
  | SEsc g => if memN c safari_meta then STop g true true else SFail
  | SClsOpen g =>
      if N.eqb c CARET then SClsNeg g
      else if N.eqb c BSL then SClsEsc g
      else if memN c safari_meta then SFail else SClsBody g
  | SClsNeg g | SClsBody g =>
      if N.eqb c RBR then (match s with SClsBody _ => STop g true true | _ => SFail end)
      else if N.eqb c BSL then SClsEsc g
      else if memN c safari_meta then SFail else SClsBody g
  | SClsEsc g => if memN c safari_meta then SClsBody g else SFail
  | SEnd => SFail
  | SFail => SFail
  end.
Definition srun (s : sst) (t : str) : sst := fold_left sstep t s.
Definition saccept (s : sst) : bool :=
  match s with STop false _ _ => true | SEnd => true | _ => false end.
Definition top0 : sst := STop false false false.
Definition safari_ok (t : str) : bool :=
  match t with
  | [] => false
  | c :: r => if N.eqb c CARET then saccept (srun top0 r) else saccept (srun top0 t)
  end.

(* ------------------------------------------------------------------ content-blocking rules *)
Inductive cb_type := CbBlock | CbCssDisplayNone | CbIgnorePrevious.
Definition LT_FIRST : N := 0.  Definition LT_THIRD : N := 1.

Record cb_rule := mkRule {
  r_type : cb_type;
  r_selector : option str;
  r_url : regex;                       (* url-filter = print_regex r_url *)
  r_case : bool;                       (* url-filter-is-case-sensitive = Some(true) *)
  r_if : option (list str);
  r_unless : option (list str);
  r_res : option (list N);             (* resource-type set, as the sorted list of CbRT_ codes *)
  r_load : list N }.

Inductive cb_err :=
| ENeedsDebugMode | EUnlessAndIf | ENoSupportedNetworkOptions | ERedirect | EGenerichide
| EBadFilter | ECsp | ERemoveparam | EFullRegex | EOptimized | ECosmeticEntities
| ECosmeticAction | EScriptlet | ENonASCII | EFromNotSupported | EProcedural.
Inductive conv (A : Type) : Type := COk (a : A) | CErr (e : cb_err).
Arguments COk {A} a.
Arguments CErr {A} e.

Definition match_all : regex := mkRx false [IAtom AAny QStar] false.          (* ".*" *)

Definition ignore_previous_fp_documents : cb_rule :=
  mkRule CbIgnorePrevious None match_all false None None (Some [CbRT_Document]) [LT_FIRST].

Definition opt_all_ascii (o : option (list str)) : bool :=
  match o with None => true | Some l => forallb all_ascii l end.
Definition rule_is_ascii (r : cb_rule) : bool :=
  (match r_selector r with None => true | Some s => all_ascii s end)
  && all_ascii (print_regex (r_url r)) && opt_all_ascii (r_if r) && opt_all_ascii (r_unless r).

Definition is_nil {A} (l : list A) : bool := match l with [] => true | _ => false end.

Definition non_empty (v : list str) : option (list str) :=
  match v with [] => None | _ => Some v end.

(* ------------------------------------------------------------------ network filters *)
Inductive fpart := FEmpty | FSimple (s : str) | FAnyOf.
Record netf := mkNet {
  nf_mask : N; nf_filter : fpart; nf_hostname : option str;
  nf_has_dom : bool; nf_has_notdom : bool;          (* opt_domains / opt_not_domains .is_some() *)
  nf_raw : option str }.

Definition has (m f : N) : bool := N.eqb (N.land m f) f.        (* NetworkFilterMask::contains *)

Definition lits (s : str) : list item := map (fun c => IAtom (ALit c) QOne) s.

(* TRAILING_SEPARATOR.replace_all(part, "") : one trailing '^' goes *)
Fixpoint strip_trailing_caret (s : str) : str :=
  match s with
  | [] => []
  | [c] => if N.eqb c cb_trailing_separator_char then [] else [c]
  | c :: r => c :: strip_trailing_caret r
  end.
(* escape specials, then '*' -> ".*"  (as AST: a '*' is any-star, everything else a literal) *)
Definition part_item (c : N) : item :=
  if N.eqb c cb_wildcard_char then IAtom AAny QStar else IAtom (ALit c) QOne.
Definition part_items (part : str) : list item := map part_item (strip_trailing_caret part).
(* the same pipeline at text level, as the three replace_all calls *)
Definition escape_special (s : str) : str := flat_map print_lit s.
Definition fix_wildcards (s : str) : str :=
  flat_map (fun c => if N.eqb c cb_wildcard_char then cb_wildcard_text else [c]) s.

(* "^[^:]+:(//)?([^/]+\.)?" *)
Definition host_prefix_items : list item :=
  [IAtom (ANot COLON) QPlus; IAtom (ALit COLON) QOne;
   IOptGroup [(ALit SLASH, QOne); (ALit SLASH, QOne)];
   IOptGroup [(ANot SLASH, QPlus); (ALit DOT, QOne)]].
Definition any_star : list item := [IAtom AAny QStar].
Definition s_opt : list item := [IAtom (ALit 115) QOpt].                      (* s? *)
Definition sch_http : list item := lits (bs "http://").
Definition sch_https : list item := lits (bs "https://").
Definition sch_ws : list item := lits (bs "ws") ++ s_opt ++ lits (bs "://").  (* wss?:// *)
Definition sch_both : list item := lits (bs "http") ++ s_opt ++ lits (bs "://").

(* the `url_filter` match of try_from; a rule that has lost all three scheme bits
   (`|ws://$~websocket`) is an error since fix 26d3d76 (it used to hit unreachable!()) *)
Definition url_filter_ast (nf : netf) : res (conv regex) :=
  let m := nf_mask nf in
  let ra := has m M_IS_RIGHT_ANCHOR in
  match nf_filter nf, nf_hostname nf with
  | FAnyOf, _ => Ok (CErr EOptimized)
  | FSimple part, Some h =>
      Ok (COk (mkRx true (host_prefix_items ++ lits h ++
                          (if has m M_IS_HOSTNAME_REGEX then any_star else []) ++ part_items part) ra))
  | FSimple part, None =>
      if has m M_IS_LEFT_ANCHOR then Ok (COk (mkRx true (part_items part) ra))
      else if has m (N.lor M_FROM_HTTP M_FROM_HTTPS) then Ok (COk (mkRx false (part_items part) ra))
      else if has m M_FROM_HTTP then Ok (COk (mkRx true (sch_http ++ any_star ++ part_items part) ra))
      else if has m M_FROM_HTTPS then Ok (COk (mkRx true (sch_https ++ any_star ++ part_items part) ra))
      else if has m M_FROM_WEBSOCKET then Ok (COk (mkRx true (sch_ws ++ any_star ++ part_items part) ra))
      else Ok (CErr ENoSupportedNetworkOptions)
  | FEmpty, Some h => Ok (COk (mkRx true (host_prefix_items ++ lits h) false))
  | FEmpty, None =>
      if has m (N.lor M_FROM_HTTP M_FROM_HTTPS) then Ok (COk (mkRx true sch_both false))
      else if has m M_FROM_HTTP then Ok (COk (mkRx true sch_http false))
      else if has m M_FROM_HTTPS then Ok (COk (mkRx true sch_https false))
      else if has m M_FROM_WEBSOCKET then Ok (COk (mkRx true sch_ws false))
      else Ok (CErr ENoSupportedNetworkOptions)
  end.

(* `if url_filter.is_empty() { ".*" }` (fix 26d3d76): a pattern made of wildcards and separators
   only leaves nothing; the empty text is replaced by match-everything *)
Definition url_filter_final (nf : netf) : res (conv regex) :=
  match url_filter_ast nf with
  | Ok (COk r) => Ok (COk (if is_nil (print_regex r) then match_all else r))
  | x => x
  end.

Definition load_type (m : N) : list N :=
  if has m (N.lor M_THIRD_PARTY M_FIRST_PARTY) then []
  else if has m M_THIRD_PARTY then [LT_THIRD]
  else if has m M_FIRST_PARTY then [LT_FIRST]
  else [].

(* Domain re-parse of the raw line.  [norm] stands for `to_lowercase` followed, when the result
   is not ASCII, by idna::domain_to_ascii (None = idna error) on NON-ASCII entries; an ASCII
   entry is lowercased here. *)
Definition normalize_domain (norm : str -> option str) (d : str) : option str :=
  if all_ascii d then Some (lower_str d) else norm d.

Definition DOMAIN_EQ : str := bs "domain=".

Fixpoint collect_domains (norm : str -> option str) (entries : list str)
  : list str * list str * bool :=                       (* (if_domain, unless_domain, idna_failed) *)
  match entries with
  | [] => ([], [], false)
  | d :: rest =>
      let '(ifd, unl, failed) := collect_domains norm rest in
      let '(neg, d') := match d with c :: t => if N.eqb c TILDE then (true, t) else (false, d)
                                   | [] => (false, d) end in
      match normalize_domain norm d' with
      | None => (ifd, unl, true)
      | Some n => if neg then (ifd, (STAR :: n) :: unl, failed) else ((STAR :: n) :: ifd, unl, failed)
      end
  end.

Definition reparse_domains (norm : str -> option str) (raw : str)
  : res (conv (option (list str) * option (list str))) :=
  match find_byte DOLLAR raw with
  | None => Panic "unwrap on None: no '$' in the raw line"
  | Some i =>
      let opts := drop (S i) raw in
      match find_sub DOMAIN_EQ opts with
      | None => Ok (CErr EFromNotSupported)
      | Some j =>
          let ds := drop (j + length DOMAIN_EQ) opts in
          let ds := match find_byte COMMA ds with Some k => take k ds | None => ds end in
          let '(ifd, unl, failed) := collect_domains norm (split_on PIPE ds) in
          if failed then Ok (CErr ENonASCII) else Ok (COk (non_empty ifd, non_empty unl))
      end
  end.

(* resource types: the set collected by push_if_flag!, as a sorted duplicate-free code list *)
Definition supported_types (m : N) : list N :=
  flat_map (fun '(f, t) => match t with Some c => if has m f then [c] else [] | None => [] end)
           cb_resource_table.
Definition unsupported_flags (m : N) : list N :=
  flat_map (fun '(f, t) => match t with None => if has m f then [f] else [] | Some _ => [] end)
           cb_resource_table.
Definition all_codes : list N := [0; 1; 2; 3; 4; 5; 6; 7; 8].
Definition canon_types (l : list N) : list N := filter (fun c => memN c l) all_codes.

Definition resource_type (m : N) : conv (option (list N)) :=
  if has m M_FROM_NETWORK_TYPES then COk None
  else
    let types := canon_types (supported_types m) in
    match unsupported_flags m, types with
    | _ :: _, [] => CErr ENoSupportedNetworkOptions
    | _, _ => COk (Some types)
    end.

Definition conv_bind {A B} (x : res (conv A)) (f : A -> res (conv B)) : res (conv B) :=
  match x with Ok (COk a) => f a | Ok (CErr e) => Ok (CErr e) | Panic w => Panic w end.

Definition remove_code (c : N) (l : list N) : list N := filter (fun x => negb (N.eqb x c)) l.

(* TryFrom<NetworkFilter> for CbRuleEquivalent, statement by statement *)
Definition convert_network (norm : str -> option str) (nf : netf) : res (conv (list cb_rule)) :=
  let m := nf_mask nf in
  match nf_raw nf with
  | None => Ok (CErr ENeedsDebugMode)
  | Some raw =>
      if has m M_IS_REDIRECT then Ok (CErr ERedirect)
      else if has m M_GENERIC_HIDE then Ok (CErr EGenerichide)
      else if has m M_BAD_FILTER then Ok (CErr EBadFilter)
      else if has m M_IS_CSP then Ok (CErr ECsp)
      else if has m M_IS_COMPLETE_REGEX then Ok (CErr EFullRegex)
      else if has m M_IS_REMOVEPARAM then Ok (CErr ERemoveparam)
      else
        let load := load_type m in
        conv_bind (url_filter_final nf) (fun url =>
        conv_bind (if nf_has_dom nf || nf_has_notdom nf then reparse_domains norm raw
                   else Ok (COk (None, None))) (fun '(ifd, unl) =>
        match ifd, unl with
        | Some _, Some _ => Ok (CErr EUnlessAndIf)
        | _, _ =>
            let ty := if has m M_IS_EXCEPTION then CbIgnorePrevious else CbBlock in
            conv_bind (Ok (resource_type m)) (fun rt =>
            let single := mkRule ty None url (has m M_MATCH_CASE) ifd unl rt load in
            if negb (rule_is_ascii single) then Ok (CErr ENonASCII)
            else
              match rt with
              | Some types =>
                  if Nat.ltb 1 (length types) && memN CbRT_Document types
                     && match load with [] => true | _ => false end
                  then Ok (COk [mkRule ty None url (has m M_MATCH_CASE) ifd unl
                                       (Some (remove_code CbRT_Document types)) load;
                                mkRule ty None url (has m M_MATCH_CASE) ifd unl
                                       (Some [CbRT_Document]) [LT_THIRD]])
                  else Ok (COk [single])
              | None => Ok (COk [single])
              end)
        end))
  end.

(* ------------------------------------------------------------------ cosmetic filters *)
Record cosf := mkCos {
  cf_raw : option str;
  cf_unhide : bool; cf_has_action : bool; cf_script : bool;
  cf_nsel : N;                       (* selector.len() *)
  cf_plain : option str }.           (* Some s iff selector = [CssSelector(s)] *)

Inductive loc_type := LEntity | LNotEntity | LHostname | LNotHostname | LUnsupported.
Definition DOTSTAR : str := [DOT; STAR].

(* CosmeticFilter::locations_before_sharp: one comma-separated part *)
Definition location_of (part : str) : res (option (loc_type * str)) :=
  match part with
  | [] => Ok None
  | c0 :: _ =>
      let negation := N.eqb c0 TILDE in
      let entity := suffixb DOTSTAR part in
      let start := if negation then 1%nat else 0%nat in
      let stop := if entity then (length part - 2)%nat else length part in
      if Nat.ltb stop start then Panic "slice index starts after its end"
      else
        let location := take (stop - start) (drop start part) in
        match location with
        | c :: _ => if N.eqb c SLASH then Ok (Some (LUnsupported, part)) else
            Ok (Some (match negation, entity with
                      | true, true => LNotEntity | true, false => LNotHostname
                      | false, true => LEntity | false, false => LHostname end, location))
        | [] =>
            Ok (Some (match negation, entity with
                      | true, true => LNotEntity | true, false => LNotHostname
                      | false, true => LEntity | false, false => LHostname end, location))
        end
  end.

Fixpoint locations (parts : list str) : res (list (loc_type * str)) :=
  match parts with
  | [] => Ok []
  | p :: r =>
      rbind (location_of p) (fun o =>
      rbind (locations r) (fun l => Ok (match o with Some x => x :: l | None => l end)))
  end.

(* (hostnames, not_hostnames, any_unsupported); [idna] = idna::domain_to_ascii(..).ok() *)
Fixpoint collect_locations (idna : str -> option str) (l : list (loc_type * str))
  : list str * list str * bool :=
  match l with
  | [] => ([], [], false)
  | (t, loc) :: r =>
      let '(hs, nhs, unsup) := collect_locations idna r in
      match t with
      | LEntity | LNotEntity | LUnsupported => (hs, nhs, true)
      | LHostname => (match idna loc with Some e => e :: hs | None => hs end, nhs, unsup)
      | LNotHostname => (hs, match idna loc with Some e => e :: nhs | None => nhs end, unsup)
      end
  end.

(* TryFrom<CosmeticFilter> for CbRule *)
Definition convert_cosmetic (idna : str -> option str) (cf : cosf) : res (conv cb_rule) :=
  if cf_has_action cf then Ok (CErr ECosmeticAction)
  else if cf_script cf then Ok (CErr EScriptlet)
  else
    match cf_raw cf with
    | None => Ok (CErr ENeedsDebugMode)
    | Some raw =>
        match find_byte SHARP raw with
        | None => Panic "unwrap on None: no '#' in the raw line"
        | Some sharp =>
            match locations (split_on COMMA (take sharp raw)) with
            | Panic w => Panic w
            | Ok locs =>
                let '(hs, nhs, unsup) := collect_locations idna locs in
                if unsup && is_nil hs && is_nil nhs then Ok (CErr ECosmeticEntities)
                else
                  match non_empty hs, non_empty nhs with
                  | Some _, Some _ => Ok (CErr EUnlessAndIf)
                  | hv, nv =>
                      let '(unl, ifd) := if cf_unhide cf then (hv, nv) else (nv, hv) in
                      if N.eqb (cf_nsel cf) 0 then Panic "assertion failed: self.selector.len() > 0"
                      else
                        match cf_plain cf with
                        | None => Ok (CErr EProcedural)
                        | Some sel =>
                            let rule := mkRule CbCssDisplayNone (Some sel) match_all false ifd unl None [] in
                            if negb (rule_is_ascii rule) then Ok (CErr ENonASCII) else Ok (COk rule)
                        end
                  end
            end
        end
    end.

(* ------------------------------------------------------------------ FilterSet::into_content_blocking *)
Definition is_ignore (r : cb_rule) : bool :=
  match r_type r with CbIgnorePrevious => true | _ => false end.

Section IntoCb.
  (* generic in the rule representation and the two converters, so that the ordering and
     filters_used theorems hold for every converter *)
  Context {NF CF : Type}.
  Variable rawN : NF -> option str.
  Variable convN : NF -> res (conv (list cb_rule)).
  Variable rawC : CF -> option str.
  Variable convC : CF -> res (conv cb_rule).

  Definition EXPECT : string := "All rules should be in debug mode".

  (* contributions, in push order: (ignore_previous_rules, other_rules, filters_used) *)
  Fixpoint net_loop (fs : list NF) : res (list cb_rule * list cb_rule * list str) :=
    match fs with
    | [] => Ok ([], [], [])
    | f :: rest =>
        match rawN f with
        | None => Panic EXPECT
        | Some raw =>
            match convN f with
            | Panic w => Panic w
            | Ok (CErr _) => net_loop rest
            | Ok (COk rules) =>
                rbind (net_loop rest) (fun '(ig, ot, us) =>
                  Ok (filter is_ignore rules ++ ig,
                      filter (fun r => negb (is_ignore r)) rules ++ ot, raw :: us))
            end
        end
    end.

  Fixpoint cos_loop (fs : list CF) : res (list cb_rule * list cb_rule * list str) :=
    match fs with
    | [] => Ok ([], [], [])
    | f :: rest =>
        match rawC f with
        | None => Panic EXPECT
        | Some raw =>
            match convC f with
            | Panic w => Panic w
            | Ok (CErr _) => cos_loop rest
            | Ok (COk rule) =>
                rbind (cos_loop rest) (fun '(ig, ot, us) =>
                  Ok (if is_ignore rule then (rule :: ig, ot, raw :: us)
                      else (ig, rule :: ot, raw :: us)))
            end
        end
    end.

  (* Ok None = Err(()) (not a debug set) *)
  Definition into_cb_gen (debug : bool) (nets : list NF) (coss : list CF)
    : res (option (list cb_rule * list str)) :=
    if negb debug then Ok None
    else
      rbind (net_loop nets) (fun '(ig1, ot1, us1) =>
      rbind (cos_loop coss) (fun '(ig2, ot2, us2) =>
        let add_fp := negb (is_nil us1) in
        Ok (Some ((ot1 ++ ot2) ++ (ig1 ++ ig2) ++ (if add_fp then [ignore_previous_fp_documents] else []),
                  us1 ++ us2)))).
End IntoCb.

Definition into_content_blocking (norm idna : str -> option str)
           (debug : bool) (nets : list netf) (coss : list cosf) :=
  into_cb_gen nf_raw (convert_network norm) cf_raw (convert_cosmetic idna) debug nets coss.

(* ------------------------------------------------------------------ L0: what into_content_blocking
   must return, stated without accumulators *)
Definition produced {X} (c : res (conv X)) : bool :=
  match c with Ok (COk _) => true | _ => false end.
Definition used_lines {F X} (raw : F -> option str) (cv : F -> res (conv X)) (fs : list F) : list str :=
  flat_map (fun f => match raw f with Some l => if produced (cv f) then [l] else [] | None => [] end) fs.
Definition emitted_net {NF} (convN : NF -> res (conv (list cb_rule))) (fs : list NF) : list cb_rule :=
  flat_map (fun f => match convN f with Ok (COk rs) => rs | _ => [] end) fs.
Definition emitted_cos {CF} (convC : CF -> res (conv cb_rule)) (fs : list CF) : list cb_rule :=
  flat_map (fun f => match convC f with Ok (COk r) => [r] | _ => [] end) fs.
Definition not_ignore (r : cb_rule) : bool := negb (is_ignore r).

(* hand-written resource-type table (Apple's content-blocker documentation / uBO option names):
   image, media, script, style-sheet, font map to themselves, subdocument -> document,
   xmlhttprequest -> raw; object, other, ping, websocket have no content-blocking equivalent *)
Definition l0_resource_table : list (N * option N) :=
  [(M_FROM_IMAGE, Some 1); (M_FROM_MEDIA, Some 7); (M_FROM_OBJECT, None); (M_FROM_OTHER, None);
   (M_FROM_PING, None); (M_FROM_SCRIPT, Some 3); (M_FROM_STYLESHEET, Some 2);
   (M_FROM_SUBDOCUMENT, Some 0); (M_FROM_WEBSOCKET, None); (M_FROM_XMLHTTPREQUEST, Some 5);
   (M_FROM_FONT, Some 4)].

(* ------------------------------------------------------------------ L0 vocabulary *)
(* the escape set a regex printer needs: every Safari metacharacter except the wildcard '*',
   which the converter rewrites instead of escaping *)
Definition plain (s : str) : Prop := ~ In STAR s /\ ~ In CARET s.
(* plain pattern semantics of the crate's matcher (C02): the pattern occurs in the URL, at its
   start when left-anchored (|p), at its end when right-anchored (p|) *)
Definition plain_match (la ra : bool) (p url : str) : Prop :=
  exists a b, url = a ++ p ++ b /\ (la = true -> a = []) /\ (ra = true -> b = []).
(* hostname-anchored semantics (C02) for ||h followed by the plain path p: the URL is
   scheme "://" a h p rest where a is empty or a non-empty run of labels ending in a dot, the
   host part contains no '/', and nothing follows when right-anchored.  URLs with credentials
   (user:pw@host) are not of this shape: see the known finding C20_userinfo_url. *)
Definition host_path_match (ra : bool) (h p url : str) : Prop :=
  exists scheme a rest,
    url = scheme ++ COLON :: SLASH :: SLASH :: a ++ h ++ p ++ rest /\
    scheme <> [] /\ ~ In COLON scheme /\ ~ In SLASH a /\
    (a = [] \/ exists a', a' <> [] /\ a = a' ++ [DOT]) /\
    (ra = true -> rest = []).

(* well-formed ASTs: a literal is never the raw wildcard character (the printer does not escape
   it: the converter rewrites '*' before printing), groups are not empty, the text is not empty *)
Definition lit_ok (c : N) : bool := negb (N.eqb c STAR).
Definition atom_wf (a : atom) : bool :=
  match a with ALit c => lit_ok c | AAny => true | ANot c => lit_ok c end.
Definition item_wf (i : item) : bool :=
  match i with
  | IAtom a _ => atom_wf a
  | IOptGroup g => negb (is_nil g) && forallb (fun x => atom_wf (fst x)) g
  end.
Definition regex_wf (r : regex) : bool :=
  forallb item_wf (rx_body r) && negb (is_nil (print_regex r)).

(* parser invariants used as hypotheses (checked by the harness on every parsed rule) *)
Definition host_ok (nf : netf) : bool :=           (* the hostname never contains the wildcard *)
  match nf_hostname nf with Some h => forallb lit_ok h | None => true end.
Definition dollar_ok (nf : netf) : bool :=         (* a domain option implies a '$' in the raw line *)
  negb (nf_has_dom nf || nf_has_notdom nf) ||
  match nf_raw nf with Some raw => memN DOLLAR raw | None => true end.
Definition cos_ok (cf : cosf) : bool :=            (* cosmetic raw lines contain '#', selectors are not empty *)
  match cf_raw cf with Some raw => memN SHARP raw | None => true end && negb (N.eqb (cf_nsel cf) 0).
(* AbstractNetworkFilter::parse looks for the options after the LAST '$' *)
Definition parser_options (line : str) : option str :=
  match rfind_byte DOLLAR line with Some i => Some (drop (S i) line) | None => None end.

(* ------------------------------------------------------------------ correspondence helpers *)
(* what the harness sees of a rule (serde_json of CbRule) *)
Record out_rule := mkOut {
  o_type : N;                          (* 0 block, 1 css-display-none, 2 ignore-previous-rules *)
  o_selector : option str; o_url : str; o_case : bool;
  o_if : option (list str); o_unless : option (list str);
  o_res : option (list N); o_load : list N }.
Definition type_code (t : cb_type) : N :=
  match t with CbBlock => 0 | CbCssDisplayNone => 1 | CbIgnorePrevious => 2 end.
Definition out_of (r : cb_rule) : out_rule :=
  mkOut (type_code (r_type r)) (r_selector r) (print_regex (r_url r)) (r_case r)
        (r_if r) (r_unless r) (r_res r) (r_load r).
Definition strs_eqb := list_eqb str_eqb.
Definition ns_eqb := list_eqb N.eqb.
Definition out_eqb (a b : out_rule) : bool :=
  N.eqb (o_type a) (o_type b) && opt_eqb str_eqb (o_selector a) (o_selector b)
  && str_eqb (o_url a) (o_url b) && Bool.eqb (o_case a) (o_case b)
  && opt_eqb strs_eqb (o_if a) (o_if b) && opt_eqb strs_eqb (o_unless a) (o_unless b)
  && opt_eqb ns_eqb (o_res a) (o_res b) && ns_eqb (o_load a) (o_load b).
Definition err_code (e : cb_err) : N :=
  match e with
  | ENeedsDebugMode => 0 | EUnlessAndIf => 1 | ENoSupportedNetworkOptions => 2 | ERedirect => 3
  | EGenerichide => 4 | EBadFilter => 5 | ECsp => 6 | ERemoveparam => 7 | EFullRegex => 8
  | EOptimized => 9 | ECosmeticEntities => 10 | ECosmeticAction => 11 | EScriptlet => 12
  | ENonASCII => 13 | EFromNotSupported => 14 | EProcedural => 15
  end.
(* implementation outcome of one conversion: Ok (inl rules) | Ok (inr error code) | Panic *)
Definition conv_out (x : res (conv (list cb_rule))) : res (list out_rule + N) :=
  match x with
  | Ok (COk l) => Ok (inl (map out_of l))
  | Ok (CErr e) => Ok (inr (err_code e))
  | Panic w => Panic w
  end.
Definition one (x : res (conv cb_rule)) : res (conv (list cb_rule)) :=
  match x with Ok (COk r) => Ok (COk [r]) | Ok (CErr e) => Ok (CErr e) | Panic w => Panic w end.
Definition sum_eqb {A B} (ea : A -> A -> bool) (eb : B -> B -> bool) (x y : A + B) : bool :=
  match x, y with inl a, inl b => ea a b | inr a, inr b => eb a b | _, _ => false end.
Definition conv_out_eqb := res_eqb (sum_eqb (list_eqb out_eqb) N.eqb).
Definition into_out (x : res (option (list cb_rule * list str))) : res (option (list out_rule * list str)) :=
  match x with
  | Ok (Some (l, u)) => Ok (Some (map out_of l, u))
  | Ok None => Ok None
  | Panic w => Panic w
  end.
Definition into_out_eqb :=
  res_eqb (opt_eqb (pair_eqb (list_eqb out_eqb) strs_eqb)).
(* finite oracle tables supplied by the harness *)
Fixpoint table (t : list (str * option str)) (k : str) : option str :=
  match t with
  | [] => None
  | (a, v) :: r => if str_eqb a k then v else table r k
  end.
