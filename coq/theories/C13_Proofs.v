(* C13_Proofs.v — the redirect part of check_parameterised refines the L0 description. *)
From Coq Require Import ZArith.
From Adb Require Import Base BaseProofs Generated C13_Model.
From Coq Require Import ZifyBool ZifyNat ZifyN.

(* ================================================================ translated tables vs L0 tables *)
Theorem mime_names_agree m : l0_name_of m l0_mime_names = Some (mime_to_string m).
Proof. destruct m; reflexivity. Qed.

Theorem mime_roundtrip m : mime_from_string (mime_to_string m) = m.
Proof. destruct m; reflexivity. Qed.

Lemma table_lookup_In s t m : table_lookup s t = Some m -> In (s, m) t.
Proof.
  induction t as [|[n m'] t IH]; cbn; intros H; [discriminate|].
  destruct (String.eqb s n) eqn:E.
  - apply String.eqb_eq in E. inversion H; subst. left. reflexivity.
  - right. apply IH. exact H.
Qed.

Theorem mime_from_string_inverse s m :
  table_lookup s mime_from_string_table = Some m -> mime_to_string m = s.
Proof.
  intros H. apply table_lookup_In in H.
  assert (A : forallb (fun nm => String.eqb (mime_to_string (snd nm)) (fst nm)) mime_from_string_table = true)
    by (vm_compute; reflexivity).
  rewrite forallb_forall in A. apply A in H. cbn in H. apply String.eqb_eq in H. exact H.
Qed.

Theorem supports_redirect_table k : supports_redirect k = l0_redirectable k.
Proof. destruct k as [m|]; [destruct m|]; reflexivity. Qed.

(* ================================================================ category assignment *)
Theorem redirect_rule_never_blocks s :
  is_redirect s = true -> also_block_redirect s = false ->
  blocking_category (category_of s) = false.
Proof.
  intros R A. unfold category_of. rewrite R, A.
  destruct (is_csp s), (is_removeparam s), (is_generic_hide s), (is_exception s), (is_important s), (sh_tagged s); reflexivity.
Qed.

Theorem redirect_rule_goes_nowhere s :
  is_redirect s = true -> also_block_redirect s = false ->
  is_csp s = false -> is_removeparam s = false -> is_generic_hide s = false ->
  is_exception s = false ->
  category_of s = CatNowhere /\ in_redirects s = true.
Proof.
  intros R A C P G E. unfold category_of, in_redirects. rewrite R, A, C, P, G, E.
  destruct (is_important s), (sh_tagged s); split; reflexivity.
Qed.

Theorem redirect_blocks s :
  is_redirect s = true -> also_block_redirect s = true ->
  is_csp s = false -> is_removeparam s = false -> is_generic_hide s = false -> is_exception s = false ->
  blocking_category (category_of s) = true /\ in_redirects s = true /\
  (category_of s = CatImportants \/ category_of s = CatFilters).
Proof.
  intros R A C P G E. unfold category_of, in_redirects. rewrite R, A, C, P, G, E.
  destruct (is_important s), (sh_tagged s); cbn; auto.
Qed.

(* redirect-rule together with important (finding repaired in /repo b0d8343): still nowhere *)
Example ex_redirect_rule_important :
  let s := mk_shape (N.lor (mask_redirect_rule_option M_DEFAULT_OPTIONS) M_IS_IMPORTANT) false in
  is_redirect s = true /\ also_block_redirect s = false /\ is_important s = true /\
  category_of s = CatNowhere.
Proof. vm_compute. repeat split; reflexivity. Qed.

(* flags through the parser's mask updates *)
Lemma flag_lor a b f : flag (N.lor a b) f = flag a f || flag b f.
Proof.
  unfold flag. rewrite N.land_lor_distr_l.
  destruct (N.eqb (N.land a f) 0) eqn:E1, (N.eqb (N.land b f) 0) eqn:E2; cbn;
    rewrite ?negb_true_iff, ?negb_false_iff, ?N.eqb_eq, ?N.eqb_neq in *;
    rewrite N.lor_eq_0_iff; tauto.
Qed.

Theorem redirect_option_flags m :
  is_redirect (mk_shape (mask_redirect_option m) false) = true /\
  also_block_redirect (mk_shape (mask_redirect_option m) false) = true.
Proof.
  unfold is_redirect, also_block_redirect, mask_redirect_option. cbn [sh_mask].
  rewrite !flag_lor. split.
  - replace (flag M_IS_REDIRECT M_IS_REDIRECT) with true by (vm_compute; reflexivity).
    destruct (flag m M_IS_REDIRECT); reflexivity.
  - replace (flag M_ALSO_BLOCK_REDIRECT M_ALSO_BLOCK_REDIRECT) with true by (vm_compute; reflexivity).
    destruct (flag m M_ALSO_BLOCK_REDIRECT), (flag M_IS_REDIRECT M_ALSO_BLOCK_REDIRECT); reflexivity.
Qed.

Theorem redirect_rule_option_flags m tagged :
  flag m M_ALSO_BLOCK_REDIRECT = false ->
  is_redirect (mk_shape (mask_redirect_rule_option m) tagged) = true /\
  also_block_redirect (mk_shape (mask_redirect_rule_option m) tagged) = false /\
  is_important (mk_shape (mask_redirect_rule_option m) tagged) = flag m M_IS_IMPORTANT.
Proof.
  intros H. unfold is_redirect, also_block_redirect, is_important, mask_redirect_rule_option. cbn [sh_mask].
  rewrite !flag_lor, H.
  replace (flag M_IS_REDIRECT M_IS_REDIRECT) with true by (vm_compute; reflexivity).
  replace (flag M_IS_REDIRECT M_ALSO_BLOCK_REDIRECT) with false by (vm_compute; reflexivity).
  replace (flag M_IS_REDIRECT M_IS_IMPORTANT) with false by (vm_compute; reflexivity).
  rewrite !orb_false_r, orb_true_r. auto.
Qed.

(* ================================================================ tags *)
Theorem untagged_delivered matches : delivered matches None NO_TAGS = matches.
Proof. unfold delivered. destruct matches; reflexivity. Qed.

(* the carved-out class: a matching redirect rule whose tag is ENABLED is still not delivered,
   because the redirect list is probed with the empty tag set ("tag + redirect is unsupported") *)
Theorem tagged_redirect_inert_refuted :
  exists t enabled, In t enabled /\ delivered true (Some t) NO_TAGS = false.
Proof. exists (bs "t1"), [bs "t1"]. split; [left; reflexivity|reflexivity]. Qed.

(* ================================================================ independence of the blocking side *)
Theorem redirect_independent_of_block sup b1 b2 st m :
  v_redirect (check_verdict sup b1 st m) = v_redirect (check_verdict sup b2 st m).
Proof. unfold check_verdict. destruct sup; reflexivity. Qed.

Theorem unsupported_request_no_redirect b st m :
  v_redirect (check_verdict false b st m) = None /\ v_matched (check_verdict false b st m) = false.
Proof. split; reflexivity. Qed.

Theorem redirect_of_verdict b st m :
  v_redirect (check_verdict true b st m) = redirect_of st m.
Proof. reflexivity. Qed.

(* ================================================================ i32::from_str *)
Open Scope Z_scope.

Definition horner (acc : Z) (s : str) : Z := fold_left (fun a c => a * 10 + digit_val c) s acc.
Definition horner_neg (acc : Z) (s : str) : Z := fold_left (fun a c => a * 10 - digit_val c) s acc.

Lemma digit_val_range c : is_digit c = true -> 0 <= digit_val c <= 9.
Proof. unfold is_digit, digit_val. intros H. lia. Qed.

Lemma horner_ge s : forall acc, 0 <= acc -> all_digits s = true -> acc <= horner acc s.
Proof.
  induction s as [|c r IH]; intros acc Ha Hd; cbn; [lia|].
  cbn in Hd. apply andb_true_iff in Hd as [Hc Hr]. pose proof (digit_val_range c Hc) as Hv.
  specialize (IH (acc * 10 + digit_val c)). unfold horner in IH. lia.
Qed.

Lemma horner_neg_le s : forall acc, acc <= 0 -> all_digits s = true -> horner_neg acc s <= acc.
Proof.
  induction s as [|c r IH]; intros acc Ha Hd; cbn; [lia|].
  cbn in Hd. apply andb_true_iff in Hd as [Hc Hr]. pose proof (digit_val_range c Hc) as Hv.
  specialize (IH (acc * 10 - digit_val c)). unfold horner_neg in IH. lia.
Qed.

Lemma horner_neg_opp s : forall acc, horner_neg (- acc) s = - horner acc s.
Proof.
  induction s as [|c r IH]; intros acc; cbn; [reflexivity|].
  unfold horner_neg, horner in *. rewrite <- IH. f_equal. lia.
Qed.

Lemma parse_pos_spec s : forall acc z, 0 <= acc <= I32_MAX ->
  (parse_pos acc s = Some z <-> all_digits s = true /\ z = horner acc s /\ z <= I32_MAX).
Proof.
  induction s as [|c r IH]; intros acc z Ha; cbn [parse_pos all_digits forallb].
  - unfold horner. cbn. split.
    + intros H. inversion H; subst. repeat split; lia.
    + intros (_ & -> & _). reflexivity.
  - destruct (is_digit c) eqn:Hc; cbn [andb].
    + pose proof (digit_val_range c Hc) as Hv.
      change (horner acc (c :: r)) with (horner (acc * 10 + digit_val c) r).
      destruct (acc * 10 + digit_val c >? I32_MAX) eqn:Ho.
      * split; [discriminate|]. intros (Hd & -> & Hz). exfalso.
        pose proof (horner_ge r (acc * 10 + digit_val c) ltac:(lia) Hd). lia.
      * apply IH. lia.
    + split; [discriminate|]. intros (Hd & _). discriminate.
Qed.

Lemma parse_neg_spec s : forall acc z, I32_MIN <= acc <= 0 ->
  (parse_neg acc s = Some z <-> all_digits s = true /\ z = horner_neg acc s /\ I32_MIN <= z).
Proof.
  induction s as [|c r IH]; intros acc z Ha; cbn [parse_neg all_digits forallb].
  - unfold horner_neg. cbn. split.
    + intros H. inversion H; subst. repeat split; lia.
    + intros (_ & -> & _). reflexivity.
  - destruct (is_digit c) eqn:Hc; cbn [andb].
    + pose proof (digit_val_range c Hc) as Hv.
      change (horner_neg acc (c :: r)) with (horner_neg (acc * 10 - digit_val c) r).
      destruct (acc * 10 - digit_val c <? I32_MIN) eqn:Ho.
      * split; [discriminate|]. intros (Hd & -> & Hz). exfalso.
        pose proof (horner_neg_le r (acc * 10 - digit_val c) ltac:(lia) Hd). lia.
      * apply IH. lia.
    + split; [discriminate|]. intros (Hd & _). discriminate.
Qed.

(* the accepted language and its value: one optional sign, at least one ASCII digit, nothing
   else, and the value inside the i32 range *)
Inductive i32_text : str -> Z -> Prop :=
| I32Plain ds : ds <> [] -> all_digits ds = true -> digits_value ds <= I32_MAX -> i32_text ds (digits_value ds)
| I32Plus ds : ds <> [] -> all_digits ds = true -> digits_value ds <= I32_MAX -> i32_text (PLUS :: ds) (digits_value ds)
| I32Minus ds : ds <> [] -> all_digits ds = true -> I32_MIN <= - digits_value ds -> i32_text (MINUS :: ds) (- digits_value ds).

Theorem parse_i32_spec s z : parse_i32 s = Some z <-> i32_text s z.
Proof.
  assert (R0 : 0 <= 0 <= I32_MAX) by (unfold I32_MAX; lia).
  assert (R1 : I32_MIN <= 0 <= 0) by (unfold I32_MIN; lia).
  split.
  - intros H. destruct s as [|c r]; [discriminate|]. unfold parse_i32 in H.
    destruct (N.eqb c MINUS) eqn:Em.
    + apply N.eqb_eq in Em. subst c. destruct r as [|d r]; [discriminate|].
      apply (parse_neg_spec (d :: r) 0 z R1) in H as (Hd & -> & Hz).
      change 0 with (- 0) in *. rewrite horner_neg_opp in *.
      apply I32Minus; [discriminate|exact Hd|exact Hz].
    + destruct (N.eqb c PLUS) eqn:Ep.
      * apply N.eqb_eq in Ep. subst c. destruct r as [|d r]; [discriminate|].
        apply (parse_pos_spec (d :: r) 0 z R0) in H as (Hd & -> & Hz).
        apply I32Plus; [discriminate|exact Hd|exact Hz].
      * apply (parse_pos_spec (c :: r) 0 z R0) in H as (Hd & -> & Hz).
        apply I32Plain; [discriminate|exact Hd|exact Hz].
  - intros H. destruct H as [ds Hne Hd Hz|ds Hne Hd Hz|ds Hne Hd Hz].
    + destruct ds as [|c r]; [congruence|]. unfold parse_i32.
      assert (Hc : is_digit c = true) by (cbn in Hd; apply andb_true_iff in Hd; tauto).
      assert (Em : N.eqb c MINUS = false) by (unfold is_digit, MINUS in *; lia).
      assert (Ep : N.eqb c PLUS = false) by (unfold is_digit, PLUS in *; lia).
      rewrite Em, Ep. apply (parse_pos_spec (c :: r) 0 _ R0). repeat split; auto.
    + unfold parse_i32. change (N.eqb PLUS MINUS) with false. change (N.eqb PLUS PLUS) with true. cbn iota.
      destruct ds as [|c r]; [congruence|]. apply (parse_pos_spec (c :: r) 0 _ R0). repeat split; auto.
    + unfold parse_i32. change (N.eqb MINUS MINUS) with true. cbn iota.
      destruct ds as [|c r]; [congruence|]. apply (parse_neg_spec (c :: r) 0 _ R1).
      change 0 with (- 0). rewrite horner_neg_opp. repeat split; auto.
Qed.

Theorem parse_i32_range s z : parse_i32 s = Some z -> I32_MIN <= z <= I32_MAX.
Proof.
  intros H. apply parse_i32_spec in H.
  assert (G : forall ds, all_digits ds = true -> 0 <= digits_value ds).
  { intros ds Hd. apply (horner_ge ds 0); [lia|exact Hd]. }
  destruct H as [ds _ Hd Hz|ds _ Hd Hz|ds _ Hd Hz]; specialize (G ds Hd); unfold I32_MIN, I32_MAX in *; lia.
Qed.

Close Scope Z_scope.

(* ================================================================ split_redirect_priority *)
Lemma rfind_byte_None c s : rfind_byte c s = None <-> ~ In c s.
Proof.
  induction s as [|x s IH]; cbn; [tauto|].
  destruct (rfind_byte c s) as [j|] eqn:F.
  - split; [discriminate|]. intros H. exfalso.
    assert (G : ~ In c s) by (intros G; apply H; auto). apply IH in G. discriminate.
  - destruct (N.eqb x c) eqn:E.
    + apply N.eqb_eq in E. split; [discriminate|]. intros H. exfalso. apply H. auto.
    + apply N.eqb_neq in E. split; [|reflexivity]. intros _ [G|G]; [congruence|].
      apply (proj1 IH eq_refl). exact G.
Qed.

Lemma rfind_byte_Some c s : forall i,
  rfind_byte c s = Some i -> s = take i s ++ c :: drop (S i) s /\ ~ In c (drop (S i) s).
Proof.
  induction s as [|x s IH]; cbn; intros i H; [discriminate|].
  destruct (rfind_byte c s) as [j|] eqn:F.
  - inversion H; subst. destruct (IH j eq_refl) as [A B]. unfold take, drop in *. cbn.
    split; [f_equal; exact A|exact B].
  - destruct (N.eqb x c) eqn:E; [|discriminate]. inversion H; subst. apply N.eqb_eq in E. subst x.
    unfold take, drop. cbn. split; [reflexivity|]. apply rfind_byte_None. exact F.
Qed.

Lemma rfind_byte_app c a b : ~ In c b -> rfind_byte c (a ++ c :: b) = Some (length a).
Proof.
  intros H. induction a as [|x a IH]; cbn.
  - apply rfind_byte_None in H. rewrite H, N.eqb_refl. reflexivity.
  - rewrite IH. reflexivity.
Qed.

(* no ':' at all: the whole option is the resource name, priority 0 *)
Theorem split_no_colon s : ~ In COLON s -> split_redirect_priority s = (s, 0%Z).
Proof. intros H. unfold split_redirect_priority. apply rfind_byte_None in H. rewrite H. reflexivity. Qed.

(* `name:suffix` with the LAST colon: a well-formed i32 suffix is the priority ... *)
Theorem split_with_priority name suf p :
  ~ In COLON suf -> i32_text suf p -> split_redirect_priority (name ++ COLON :: suf) = (name, p).
Proof.
  intros Hc Hp. unfold split_redirect_priority. rewrite (rfind_byte_app COLON name suf Hc).
  replace (drop (S (length name)) (name ++ COLON :: suf)) with suf.
  - apply parse_i32_spec in Hp. rewrite Hp. rewrite take_app_length. reflexivity.
  - replace (name ++ COLON :: suf) with ((name ++ [COLON]) ++ suf) by (rewrite <- app_assoc; reflexivity).
    symmetry. apply drop_app_length'. rewrite app_length. cbn. lia.
Qed.

(* ... anything else after the last colon (empty, lone sign, non-digit, out of the i32 range)
   leaves the whole string as the name, priority 0 *)
Theorem split_malformed name suf :
  ~ In COLON suf -> (forall p, ~ i32_text suf p) ->
  split_redirect_priority (name ++ COLON :: suf) = (name ++ COLON :: suf, 0%Z).
Proof.
  intros Hc Hp. unfold split_redirect_priority. rewrite (rfind_byte_app COLON name suf Hc).
  replace (drop (S (length name)) (name ++ COLON :: suf)) with suf.
  - destruct (parse_i32 suf) as [p|] eqn:E; [|reflexivity]. apply parse_i32_spec in E. destruct (Hp p E).
  - replace (name ++ COLON :: suf) with ((name ++ [COLON]) ++ suf) by (rewrite <- app_assoc; reflexivity).
    symmetry. apply drop_app_length'. rewrite app_length. cbn. lia.
Qed.

(* every answer is one of the two shapes *)
Theorem split_spec s name p :
  split_redirect_priority s = (name, p) ->
  (name = s /\ p = 0%Z) \/
  (exists suf, s = name ++ COLON :: suf /\ ~ In COLON suf /\ i32_text suf p).
Proof.
  unfold split_redirect_priority. destruct (rfind_byte COLON s) as [i|] eqn:F.
  - destruct (rfind_byte_Some _ _ _ F) as [A B].
    destruct (parse_i32 (drop (S i) s)) as [q|] eqn:E; intros H; inversion H; subst; [|left; auto].
    right. exists (drop (S i) s). split; [exact A|]. split; [exact B|]. apply parse_i32_spec. exact E.
  - intros H. inversion H; subst. left. auto.
Qed.

Theorem split_priority_range s : (I32_MIN <= snd (split_redirect_priority s) <= I32_MAX)%Z.
Proof.
  destruct (split_redirect_priority s) as [name p] eqn:E. cbn.
  destruct (split_spec _ _ _ E) as [[_ ->]|(suf & _ & _ & H)].
  - unfold I32_MIN, I32_MAX. lia.
  - apply parse_i32_spec in H. apply parse_i32_range in H. exact H.
Qed.

Example ex_split :
  split_redirect_priority (bs "noop.js:10") = (bs "noop.js", 10%Z) /\
  split_redirect_priority (bs "noop.js:-1") = (bs "noop.js", (-1)%Z) /\
  split_redirect_priority (bs "noop.js:+3") = (bs "noop.js", 3%Z) /\
  split_redirect_priority (bs "noop.js:x") = (bs "noop.js:x", 0%Z) /\
  split_redirect_priority (bs "noop.js:") = (bs "noop.js:", 0%Z) /\
  split_redirect_priority (bs "noop.js:2147483648") = (bs "noop.js:2147483648", 0%Z) /\
  split_redirect_priority (bs "noop.js:-2147483648") = (bs "noop.js", (-2147483648)%Z) /\
  split_redirect_priority (bs "a:b:5") = (bs "a:b", 5%Z).
Proof. vm_compute. repeat split; reflexivity. Qed.

(* ================================================================ the two loops *)
Lemma rr_eta f e o : rr_exception f = e -> rr_option f = o -> f = mk_rr e o.
Proof. destruct f; cbn; intros -> ->; reflexivity. Qed.

(* exceptions cancel by resource NAME: the priority suffix of the exception is irrelevant *)
Theorem exception_by_name m name :
  In name (exception_names m) <-> excepted m name.
Proof.
  unfold excepted. induction m as [|f r IH]; cbn [exception_names].
  - cbn. split; [tauto|]. intros (s & [] & _).
  - destruct (rr_exception f) eqn:E, (rr_option f) as [s0|] eqn:O.
    + cbn [In]. rewrite IH. split.
      * intros [H|(s & Hs & Hn)].
        -- exists s0. split; [left; apply rr_eta; assumption|exact H].
        -- exists s. split; [right; exact Hs|exact Hn].
      * intros (s & [Hs|Hs] & Hn).
        -- left. subst f. cbn in O. injection O as ->. exact Hn.
        -- right. exists s. auto.
    + rewrite IH. split; intros (s & Hs & Hn); exists s; (split; [|exact Hn]).
      * right. exact Hs.
      * destruct Hs as [Hs|Hs]; [subst f; cbn in O; discriminate|exact Hs].
    + rewrite IH. split; intros (s & Hs & Hn); exists s; (split; [|exact Hn]).
      * right. exact Hs.
      * destruct Hs as [Hs|Hs]; [subst f; cbn in E; discriminate|exact Hs].
    + rewrite IH. split; intros (s & Hs & Hn); exists s; (split; [|exact Hn]).
      * right. exact Hs.
      * destruct Hs as [Hs|Hs]; [subst f; cbn in E; discriminate|exact Hs].
Qed.

(* candidates of a list with respect to a fixed exception-name list *)
Definition cand_in (E : list str) (fs : list redirect_rule) (name : str) (p : Z) : Prop :=
  exists s, In (mk_rr false (Some s)) fs /\ split_redirect_priority s = (name, p) /\ mem_str name E = false.

Lemma cand_in_cons_skip E f fs name p :
  (rr_exception f = true \/ rr_option f = None \/
   exists s, rr_option f = Some s /\ mem_str (fst (split_redirect_priority s)) E = true) ->
  (cand_in E (f :: fs) name p <-> cand_in E fs name p).
Proof.
  intros H. split.
  - intros (s & [Hs|Hs] & Hsp & Hm); [|exists s; auto]. subst f. cbn in H.
    destruct H as [H|[H|(s' & H & Hm')]]; try discriminate.
    inversion H; subst s'. rewrite Hsp in Hm'. cbn in Hm'. congruence.
  - intros (s & Hs & Hsp & Hm). exists s. split; [right; exact Hs|auto].
Qed.

(* ---- the order on offers: higher priority first, then the name that sorts first ---- *)
Lemma str_leb_refl a : str_leb a a = true.
Proof. induction a as [|x a IH]; cbn; [reflexivity|]. rewrite N.ltb_irrefl, N.eqb_refl. exact IH. Qed.
Lemma str_leb_total a : forall b, str_leb a b = true \/ str_leb b a = true.
Proof.
  induction a as [|x a IH]; intros [|y b]; cbn; auto.
  destruct (N.ltb_spec x y); [auto|]. destruct (N.ltb_spec y x); [auto|].
  assert (x = y) by lia. subst y. rewrite N.eqb_refl. apply IH.
Qed.
Lemma str_leb_antisym a : forall b, str_leb a b = true -> str_leb b a = true -> a = b.
Proof.
  induction a as [|x a IH]; intros [|y b]; cbn; try congruence.
  destruct (N.ltb_spec x y) as [L|L]; destruct (N.ltb_spec y x) as [L'|L']; try lia.
  - destruct (N.eqb_spec y x); [lia|discriminate].
  - destruct (N.eqb_spec x y); [lia|discriminate].
  - destruct (N.eqb_spec x y) as [->|]; [|discriminate]. rewrite N.eqb_refl.
    intros H1 H2. f_equal. apply IH; assumption.
Qed.
Lemma str_leb_trans a : forall b c, str_leb a b = true -> str_leb b c = true -> str_leb a c = true.
Proof.
  induction a as [|x a IH]; intros [|y b] [|z c]; cbn; try congruence.
  destruct (N.ltb_spec x y) as [L|L].
  - intros _. destruct (N.ltb_spec y z) as [M|M].
    + intros _. destruct (N.ltb_spec x z); [reflexivity|lia].
    + destruct (N.eqb_spec y z) as [->|]; [|discriminate]. intros _.
      destruct (N.ltb_spec x z); [reflexivity|lia].
  - destruct (N.eqb_spec x y) as [->|]; [|discriminate]. intros H1.
    destruct (N.ltb_spec y z) as [M|M]; [reflexivity|].
    destruct (N.eqb_spec y z) as [->|]; [|discriminate]. apply IH. exact H1.
Qed.

(* [a] is at least as good an offer as [b] *)
Definition good (a b : str * Z) : Prop :=
  (snd b < snd a)%Z \/ (snd b = snd a /\ str_leb (fst a) (fst b) = true).
Lemma good_refl a : good a a.
Proof. right. split; [reflexivity|apply str_leb_refl]. Qed.
Lemma good_trans a b c : good a b -> good b c -> good a c.
Proof.
  unfold good. intros [H1|[H1 L1]] [H2|[H2 L2]]; try (left; lia).
  right. split; [lia|]. eapply str_leb_trans; eauto.
Qed.
Lemma good_antisym a b : good a b -> good b a -> a = b.
Proof.
  unfold good. intros [H1|[H1 L1]] [H2|[H2 L2]]; try lia.
  destruct a as [an ap], b as [bn bp]. cbn in *. subst. f_equal. apply str_leb_antisym; assumption.
Qed.
(* the replacement test of the loop: the new offer is strictly better than the current one *)
Lemma replace_test rp cur :
  (snd rp >? snd cur)%Z || ((snd rp =? snd cur)%Z && str_ltb (fst rp) (fst cur)) = true -> good rp cur /\ rp <> cur.
Proof.
  unfold good, str_ltb. intros H. apply orb_true_iff in H as [H|H].
  - split; [left; lia|]. intros ->. lia.
  - apply andb_true_iff in H as [H1 H2]. apply negb_true_iff in H2. split.
    + right. split; [lia|]. destruct (str_leb_total (fst rp) (fst cur)) as [T|T]; [exact T|congruence].
    + intros ->. rewrite str_leb_refl in H2. discriminate.
Qed.
Lemma keep_test rp cur :
  (snd rp >? snd cur)%Z || ((snd rp =? snd cur)%Z && str_ltb (fst rp) (fst cur)) = false -> good cur rp.
Proof.
  unfold good, str_ltb. intros H. apply orb_false_iff in H as [H1 H2].
  destruct (Z.eqb_spec (snd rp) (snd cur)) as [E|E].
  - cbn in H2. apply negb_false_iff in H2. right. split; [exact E|exact H2].
  - left. lia.
Qed.

Lemma pick_loop_spec E fs : forall cur,
  match pick_loop E fs cur with
  | None => cur = None /\ forall name p, ~ cand_in E fs name p
  | Some best =>
      (cur = Some best \/ cand_in E fs (fst best) (snd best)) /\
      (forall n' p', cand_in E fs n' p' -> good best (n', p')) /\
      (forall c, cur = Some c -> good best c)
  end.
Proof.
  induction fs as [|f r IH]; intros cur; cbn [pick_loop].
  - destruct cur as [c|].
    + split; [left; reflexivity|]. split.
      * intros n' p' (s & [] & _).
      * intros c0 H. inversion H; subst. apply good_refl.
    + split; [reflexivity|]. intros name p (s & [] & _).
  - assert (Skip : (rr_exception f = true \/ rr_option f = None \/
                    exists s, rr_option f = Some s /\ mem_str (fst (split_redirect_priority s)) E = true) ->
                   match pick_loop E r cur with
                   | None => cur = None /\ forall name p, ~ cand_in E (f :: r) name p
                   | Some best =>
                       (cur = Some best \/ cand_in E (f :: r) (fst best) (snd best)) /\
                       (forall n' p', cand_in E (f :: r) n' p' -> good best (n', p')) /\
                       (forall c, cur = Some c -> good best c)
                   end).
    { intros Hs. specialize (IH cur). pose proof (cand_in_cons_skip E f r) as Sk.
      destruct (pick_loop E r cur) as [best|].
      - destruct IH as (A & B & C). split; [|split].
        + destruct A as [A|A]; [left; exact A|right; apply Sk; auto].
        + intros n' p' H. apply (B n' p'). apply Sk in H; auto.
        + exact C.
      - destruct IH as (A & B). split; [exact A|]. intros name p H. apply (B name p). apply Sk in H; auto. }
    destruct (rr_exception f) eqn:Ex; [apply Skip; auto|].
    destruct (rr_option f) as [s|] eqn:Op; [|apply Skip; auto].
    destruct (mem_str (fst (split_redirect_priority s)) E) eqn:Mem.
    { apply Skip. right. right. exists s. auto. }
    clear Skip.
    (* f is a candidate *)
    pose proof (rr_eta f false (Some s) Ex Op) as Hf.
    destruct (split_redirect_priority s) as [fn fp] eqn:Sp. cbn [fst snd] in *.
    assert (Hcand : cand_in E (f :: r) fn fp).
    { exists s. split; [left; exact Hf|]. split; [exact Sp|exact Mem]. }
    assert (Hsplit : forall n' p', cand_in E (f :: r) n' p' -> (n' = fn /\ p' = fp) \/ cand_in E r n' p').
    { intros n' p' (s' & [Hs|Hs] & Hsp & Hm).
      - left. rewrite Hf in Hs. inversion Hs; subst s'. rewrite Sp in Hsp. inversion Hsp; auto.
      - right. exists s'. auto. }
    assert (Hweak : forall n' p', cand_in E r n' p' -> cand_in E (f :: r) n' p').
    { intros n' p' (s' & Hs & Hsp & Hm). exists s'. split; [right; exact Hs|auto]. }
    destruct cur as [[cn cp]|].
    + destruct ((fp >? cp)%Z || ((fp =? cp)%Z && str_ltb fn cn)) eqn:Gt.
      * destruct (replace_test (fn, fp) (cn, cp) Gt) as [Gd _].
        specialize (IH (Some (fn, fp))). destruct (pick_loop E r (Some (fn, fp))) as [best|].
        -- destruct IH as (A & B & C). split; [|split].
           ++ right. destruct A as [A|A]; [inversion A; subst; exact Hcand|apply Hweak; exact A].
           ++ intros n' p' H. destruct (Hsplit _ _ H) as [[-> ->]|H']; [apply (C (fn, fp)); reflexivity|apply (B n' p'); exact H'].
           ++ intros c H. inversion H; subst. eapply good_trans; [apply (C (fn, fp)); reflexivity|exact Gd].
        -- destruct IH as (A & _). discriminate.
      * pose proof (keep_test (fn, fp) (cn, cp) Gt) as Gd.
        specialize (IH (Some (cn, cp))). destruct (pick_loop E r (Some (cn, cp))) as [best|].
        -- destruct IH as (A & B & C). split; [|split].
           ++ destruct A as [A|A]; [left; exact A|right; apply Hweak; exact A].
           ++ intros n' p' H. destruct (Hsplit _ _ H) as [[-> ->]|H'];
                [eapply good_trans; [apply (C (cn, cp)); reflexivity|exact Gd]|apply (B n' p'); exact H'].
           ++ exact C.
        -- destruct IH as (A & _). discriminate.
    + specialize (IH (Some (fn, fp))). destruct (pick_loop E r (Some (fn, fp))) as [best|].
      * destruct IH as (A & B & C). split; [|split].
        -- right. destruct A as [A|A]; [inversion A; subst; exact Hcand|apply Hweak; exact A].
        -- intros n' p' H. destruct (Hsplit _ _ H) as [[-> ->]|H']; [apply (C (fn, fp)); reflexivity|apply (B n' p'); exact H'].
        -- intros c H. discriminate.
      * destruct IH as (A & _). discriminate.
Qed.

Lemma cand_in_candidate m name p : cand_in (exception_names m) m name p <-> candidate m name p.
Proof.
  unfold cand_in, candidate, offered. split.
  - intros (s & Hs & Hsp & Hm). split; [exists s; auto|]. intros H. apply exception_by_name in H.
    apply mem_str_In in H. congruence.
  - intros [(s & Hs & Hsp) Hn]. exists s. split; [exact Hs|]. split; [exact Hsp|].
    destruct (mem_str name (exception_names m)) eqn:M; [|reflexivity].
    apply mem_str_In in M. apply exception_by_name in M. contradiction.
Qed.

(* the chosen resource is a non-excepted candidate of maximal priority (a member of the arg-max
   set: which one, among equal priorities, depends on the delivery order of check_all) *)
Theorem pick_redirect_some m name :
  pick_redirect m = Some name ->
  exists p, candidate m name p /\ forall n' p', candidate m n' p' -> (p' <= p)%Z.
Proof.
  unfold pick_redirect. pose proof (pick_loop_spec (exception_names m) m None) as H.
  destruct (pick_loop (exception_names m) m None) as [[n p]|]; [|discriminate].
  intros E. inversion E; subst n. destruct H as (A & B & _). exists p. split.
  - destruct A as [A|A]; [discriminate|]. apply cand_in_candidate. exact A.
  - intros n' p' H. assert (G : good (name, p) (n', p')) by (apply (B n' p'); apply cand_in_candidate; exact H).
    destruct G as [G|[G _]]; cbn in G; lia.
Qed.

(* the choice in full: the best offer under "higher priority, then the name that sorts first" *)
Theorem pick_redirect_best m name :
  pick_redirect m = Some name <->
  exists p, candidate m name p /\ forall n' p', candidate m n' p' -> good (name, p) (n', p').
Proof.
  unfold pick_redirect. pose proof (pick_loop_spec (exception_names m) m None) as H.
  destruct (pick_loop (exception_names m) m None) as [[n p]|].
  - destruct H as (A & B & _). destruct A as [A|A]; [discriminate|]. cbn [fst snd] in A. split.
    + intros E. inversion E; subst n. exists p. split; [apply cand_in_candidate; exact A|].
      intros n' p' Hc. apply (B n' p'). apply cand_in_candidate. exact Hc.
    + intros (q & Hc & Hbest). f_equal.
      assert (G1 : good (n, p) (name, q)) by (apply (B name q); apply cand_in_candidate; exact Hc).
      assert (G2 : good (name, q) (n, p)) by (apply Hbest; apply cand_in_candidate; exact A).
      pose proof (good_antisym _ _ G1 G2) as Eq. inversion Eq. reflexivity.
  - destruct H as (_ & B). split; [discriminate|]. intros (q & Hc & _). exfalso.
    apply (B name q). apply cand_in_candidate. exact Hc.
Qed.

(* no redirect name iff every offered resource is excepted (or nothing is offered) *)
Theorem pick_redirect_none m :
  pick_redirect m = None <-> forall name p, ~ candidate m name p.
Proof.
  unfold pick_redirect. pose proof (pick_loop_spec (exception_names m) m None) as H.
  destruct (pick_loop (exception_names m) m None) as [[n p]|].
  - split; [discriminate|]. intros G. exfalso. destruct H as (A & _).
    destruct A as [A|A]; [discriminate|]. apply (G n p). apply cand_in_candidate. exact A.
  - destruct H as (_ & B). split; [|reflexivity]. intros _ name p G. apply (B name p).
    apply cand_in_candidate. exact G.
Qed.

(* when the arg-max set names a single resource the answer is determined *)
Theorem pick_redirect_unique m name p :
  candidate m name p ->
  (forall n' p', candidate m n' p' -> n' = name \/ (p' < p)%Z) ->
  pick_redirect m = Some name.
Proof.
  intros Hc Hu. destruct (pick_redirect m) as [n|] eqn:E.
  - destruct (pick_redirect_some _ _ E) as (q & Hq & Hmax).
    destruct (Hu _ _ Hq) as [->|Hlt]; [reflexivity|]. specialize (Hmax _ _ Hc). lia.
  - exfalso. apply (proj1 (pick_redirect_none m) E name p). exact Hc.
Qed.

(* hence the choice depends only on the SET of matching redirect rules, not on their order or
   multiplicity *)
Theorem pick_redirect_set_only m1 m2 :
  (forall r, In r m1 <-> In r m2) -> pick_redirect m1 = pick_redirect m2.
Proof.
  intros Hs.
  assert (Hc : forall name p, candidate m1 name p <-> candidate m2 name p).
  { intros name p. unfold candidate, offered, excepted. split.
    - intros [(s & I & Sp) Ne]. split; [exists s; split; [apply Hs; exact I|exact Sp]|].
      intros (s' & I' & Sp'). apply Ne. exists s'. split; [apply Hs; exact I'|exact Sp'].
    - intros [(s & I & Sp) Ne]. split; [exists s; split; [apply Hs; exact I|exact Sp]|].
      intros (s' & I' & Sp'). apply Ne. exists s'. split; [apply Hs; exact I'|exact Sp']. }
  destruct (pick_redirect m1) as [n1|] eqn:E1.
  - symmetry. apply pick_redirect_best. apply pick_redirect_best in E1 as (p & C & Bst).
    exists p. split; [apply Hc; exact C|]. intros n' p' C'. apply Bst. apply Hc. exact C'.
  - destruct (pick_redirect m2) as [n2|] eqn:E2; [|reflexivity]. exfalso.
    apply pick_redirect_best in E2 as (p & C & _).
    assert (N : pick_redirect m1 <> None).
    { intros N. apply (proj1 (pick_redirect_none m1) N n2 p). apply Hc. exact C. }
    congruence.
Qed.


Example ex_pick :
  pick_redirect [ mk_rr false (Some (bs "a.js:5")); mk_rr false (Some (bs "noop.js:10"));
                  mk_rr true (Some (bs "noop.js")); mk_rr false (Some (bs "b.js:-1")) ] = Some (bs "a.js")
  /\ candidate [ mk_rr false (Some (bs "a.js:5")); mk_rr true (Some (bs "noop.js")) ] (bs "a.js") 5%Z.
Proof.
  split; [vm_compute; reflexivity|]. apply cand_in_candidate. exists (bs "a.js:5").
  split; [left; reflexivity|]. vm_compute. split; reflexivity.
Qed.

(* ================================================================ resource gate *)
Theorem resource_gate st ident url :
  get_redirect_resource st ident = Some url <->
  exists r m, loaded st ident r /\ r_permission r = 0%N /\ r_kind r = Kind_Mime m /\
              l0_redirectable (r_kind r) = true /\ url = data_url m (r_content r).
Proof.
  unfold get_redirect_resource, loaded.
  destruct (get_internal_resource st ident) as [r|].
  - destruct (N.eqb (r_permission r) 0) eqn:P; cbn [negb].
    + apply N.eqb_eq in P. destruct (supports_redirect (r_kind r)) eqn:S; cbn [negb].
      * destruct (r_kind r) as [m|] eqn:K.
        -- split.
           ++ intros H. inversion H; subst. exists r, m. rewrite K, <- supports_redirect_table. auto.
           ++ intros (r' & m' & H & _ & Hk & _ & ->). inversion H; subst r'. rewrite K in Hk.
              inversion Hk; subst. reflexivity.
        -- cbn in S. discriminate.
      * split; [discriminate|]. intros (r' & m' & H & _ & _ & Hs & _). inversion H; subst r'.
        rewrite <- supports_redirect_table in Hs. congruence.
    + apply N.eqb_neq in P. split; [discriminate|]. intros (r' & m' & H & Hp & _). inversion H; subst r'. contradiction.
  - split; [discriminate|]. intros (r' & m' & H & _). discriminate.
Qed.

Theorem resource_gate_none st ident :
  get_redirect_resource st ident = None <->
  forall r, loaded st ident r -> r_permission r <> 0%N \/ l0_redirectable (r_kind r) = false.
Proof.
  split.
  - intros H r L. destruct (N.eq_dec (r_permission r) 0) as [P|P]; [|left; exact P]. right.
    destruct (l0_redirectable (r_kind r)) eqn:S; [|reflexivity]. exfalso.
    destruct (r_kind r) as [m|] eqn:K; [|cbn in S; discriminate].
    assert (G : get_redirect_resource st ident = Some (data_url m (r_content r))).
    { apply resource_gate. exists r, m. rewrite K. auto. }
    congruence.
  - intros H. destruct (get_redirect_resource st ident) as [url|] eqn:E; [|reflexivity]. exfalso.
    apply resource_gate in E as (r & m & L & P & K & S & _). destruct (H r L) as [G|G]; congruence.
Qed.

(* the redirect of the verdict, end to end *)
Theorem redirect_spec st m url :
  redirect_of st m = Some url <->
  exists name r mime,
    pick_redirect m = Some name /\ loaded st name r /\ r_permission r = 0%N /\
    r_kind r = Kind_Mime mime /\ l0_redirectable (r_kind r) = true /\
    url = data_url mime (r_content r).
Proof.
  unfold redirect_of. destruct (pick_redirect m) as [name|].
  - rewrite resource_gate. split.
    + intros (r & mi & H). exists name, r, mi. auto.
    + intros (n & r & mi & E & H). inversion E; subst n. exists r, mi. exact H.
  - split; [discriminate|]. intros (n & r & mi & E & _). discriminate.
Qed.

Theorem redirect_none st m :
  redirect_of st m = None <->
  pick_redirect m = None \/
  exists name, pick_redirect m = Some name /\
    forall r, loaded st name r -> r_permission r <> 0%N \/ l0_redirectable (r_kind r) = false.
Proof.
  unfold redirect_of. destruct (pick_redirect m) as [name|].
  - rewrite resource_gate_none. split.
    + intros H. right. exists name. auto.
    + intros [H|(n & E & H)]; [discriminate|]. inversion E; subst n. exact H.
  - split; [auto|reflexivity].
Qed.

(* ================================================================ the store built by use_resources *)
Lemma assoc_map_const (a : str) (v : str) (l : list str) :
  assoc a (map (fun x => (x, v)) l) = if mem_str a l then Some v else None.
Proof.
  induction l as [|x l IH]; cbn; [reflexivity|]. destruct (str_eqb a x); cbn; [reflexivity|exact IH].
Qed.

Lemma assoc_app {A} (k : str) (l1 l2 : list (str * A)) :
  assoc k (l1 ++ l2) = match assoc k l1 with Some v => Some v | None => assoc k l2 end.
Proof.
  induction l1 as [|[k' v] l1 IH]; cbn; [reflexivity|]. destruct (str_eqb k k'); [reflexivity|exact IH].
Qed.

Definition store_inv (P : resource -> Prop) (st : storage) : Prop :=
  (forall k r, assoc k (st_resources st) = Some r -> P r /\ r_name r = k) /\
  (forall a c, assoc a (st_aliases st) = Some c ->
     exists r, assoc c (st_resources st) = Some r /\ In a (r_aliases r)).

Lemma add_resource_inv (P : resource -> Prop) st rn : P rn -> store_inv P st -> store_inv P (add_resource st rn).
Proof.
  intros Hp [I1 I2]. unfold add_resource.
  destruct (negb _); [split; assumption|].
  destruct (existsb _ (r_name rn :: r_aliases rn)) eqn:Ex; [split; assumption|].
  cbn [existsb] in Ex. apply orb_false_iff in Ex as [Ex _]. apply orb_false_iff in Ex as [Ex _].
  unfold has_key in Ex.
  split; cbn [st_resources st_aliases].
  - intros k r H. cbn [assoc] in H. destruct (str_eqb k (r_name rn)) eqn:E.
    + apply str_eqb_eq in E. inversion H; subst. auto.
    + apply I1. exact H.
  - intros a c H. rewrite assoc_app, assoc_map_const in H.
    destruct (mem_str a (r_aliases rn)) eqn:M.
    + inversion H; subst c. exists rn. cbn [assoc]. rewrite str_eqb_refl. split; [reflexivity|].
      apply mem_str_In. exact M.
    + destruct (I2 a c H) as (r & Hr & Ha). exists r. split; [|exact Ha]. cbn [assoc].
      destruct (str_eqb c (r_name rn)) eqn:E; [|exact Hr].
      apply str_eqb_eq in E. subst c. rewrite Hr in Ex. discriminate.
Qed.

Lemma fold_add_inv (P : resource -> Prop) l : forall st,
  (forall r, In r l -> P r) -> store_inv P st -> store_inv P (fold_left add_resource l st).
Proof.
  induction l as [|r l IH]; intros st Hl Hi; cbn [fold_left]; [exact Hi|].
  apply IH.
  - intros r' H. apply Hl. right. exact H.
  - apply add_resource_inv; [apply Hl; left; reflexivity|exact Hi].
Qed.

(* whatever the store answers for an identifier is one of the resources handed to use_resources,
   and that resource carries the identifier as its name or as one of its aliases *)
Theorem loaded_from_resources rs ident r :
  loaded (from_resources rs) ident r ->
  In r rs /\ (r_name r = ident \/ In ident (r_aliases r)).
Proof.
  unfold loaded, from_resources, get_internal_resource.
  assert (Hi : store_inv (fun x => In x rs) (fold_left add_resource rs empty_store)).
  { apply fold_add_inv; [auto|]. split; cbn; intros; discriminate. }
  destruct Hi as [I1 I2]. set (st := fold_left add_resource rs empty_store) in *.
  destruct (assoc ident (st_resources st)) as [r0|] eqn:A.
  - intros H. inversion H; subst r0. destruct (I1 _ _ A) as [Hin Hn]. auto.
  - destruct (assoc ident (st_aliases st)) as [c|] eqn:B; [|discriminate].
    intros H. destruct (I2 _ _ B) as (r' & Hr' & Ha). rewrite Hr' in H. inversion H; subst r'.
    destruct (I1 _ _ Hr') as [Hin _]. auto.
Qed.

Example ex_store :
  let rs := [ mk_res (bs "noop.js") [bs "noopjs"] (Kind_Mime Mime_ApplicationJavascript) (bs "KGZ1bmM=") false true 0;
              mk_res (bs "noopjs") [] (Kind_Mime Mime_TextPlain) (bs "eA==") false true 0;
              mk_res (bs "perm.js") [] (Kind_Mime Mime_ApplicationJavascript) (bs "cA==") false true 1 ] in
  redirect_of (from_resources rs) [mk_rr false (Some (bs "noopjs:3")); mk_rr false (Some (bs "perm.js"))]
    = Some (bs "data:application/javascript;base64,KGZ1bmM=")
  /\ redirect_of (from_resources rs) [mk_rr false (Some (bs "perm.js"))] = None.
Proof. vm_compute. split; reflexivity. Qed.

(* ================================================================ hypotheses of the category theorems are satisfiable *)
Example ex_redirect_rule_shape :
  let s := mk_shape (mask_redirect_rule_option M_DEFAULT_OPTIONS) false in
  is_redirect s = true /\ also_block_redirect s = false /\
  category_of s = CatNowhere /\ in_redirects s = true.
Proof. vm_compute. repeat split; reflexivity. Qed.

Example ex_redirect_shape :
  let s := mk_shape (mask_redirect_option M_DEFAULT_OPTIONS) false in
  is_redirect s = true /\ also_block_redirect s = true /\ is_csp s = false /\ is_removeparam s = false /\
  is_generic_hide s = false /\ is_exception s = false /\ category_of s = CatFilters.
Proof. vm_compute. repeat split; reflexivity. Qed.

Example ex_i32_text : i32_text (bs "-2147483648") (-2147483648)%Z /\ ~ (exists z, i32_text (bs "2147483648") z).
Proof.
  split.
  - apply parse_i32_spec. vm_compute. reflexivity.
  - intros [z H]. apply parse_i32_spec in H. vm_compute in H. discriminate.
Qed.

Example ex_redirect_spec :
  let rs := [ mk_res (bs "noop.js") [bs "noopjs"] (Kind_Mime Mime_ApplicationJavascript) (bs "KGZ1bmM=") false true 0 ] in
  exists name r mime,
    pick_redirect [mk_rr false (Some (bs "noopjs:3")); mk_rr true (Some (bs "other.js"))] = Some name /\
    loaded (from_resources rs) name r /\ r_permission r = 0%N /\ r_kind r = Kind_Mime mime /\
    l0_redirectable (r_kind r) = true.
Proof.
  exists (bs "noopjs"), (mk_res (bs "noop.js") [bs "noopjs"] (Kind_Mime Mime_ApplicationJavascript) (bs "KGZ1bmM=") false true 0), Mime_ApplicationJavascript.
  vm_compute. repeat split; reflexivity.
Qed.
