(* C13_Proofs.v — the redirect part of check_parameterised refines the L0 description. *)
From Coq Require Import ZArith.
From Adb Require Import Base BaseProofs Generated C13_Model.
From Coq Require Import ZifyBool ZifyNat ZifyN.

(* ================================================================ translated tables vs L0 tables *)
Theorem mime_names_agree m : l0_name_of m l0_mime_names = Some (mime_to_string m).
Proof. destruct m; reflexivity. Qed.

Theorem mime_roundtrip m : mime_from_string (mime_to_string m) = m.
Proof. destruct m; reflexivity. Qed.

Lemma table_lookup_In s t m : table_lookup s t = Some m -> In (s, m) t.
Proof.
  induction t as [|[n m'] t IH]; cbn; intros H; [discriminate|].
  destruct (String.eqb s n) eqn:E.
  - apply String.eqb_eq in E. inversion H; subst. left. reflexivity.
  - right. apply IH. exact H.
Qed.

Theorem mime_from_string_inverse s m :
  table_lookup s mime_from_string_table = Some m -> mime_to_string m = s.
Proof.
  intros H. apply table_lookup_In in H.
  assert (A : forallb (fun nm => String.eqb (mime_to_string (snd nm)) (fst nm)) mime_from_string_table = true)
    by (vm_compute; reflexivity).
  rewrite forallb_forall in A. apply A in H. cbn in H. apply String.eqb_eq in H. exact H.
Qed.

Theorem supports_redirect_table k : supports_redirect k = l0_redirectable k.
Proof. destruct k as [m|]; [destruct m|]; reflexivity. Qed.

(* ================================================================ category assignment *)
Theorem redirect_rule_never_blocks s :
  is_redirect s = true -> also_block_redirect s = false -> is_important s = false ->
  blocking_category (category_of s) = false.
Proof.
  intros R A I. unfold category_of. rewrite R, A, I.
  destruct (is_csp s), (is_removeparam s), (is_generic_hide s), (is_exception s), (sh_tagged s); reflexivity.
Qed.

Theorem redirect_rule_goes_nowhere s :
  is_redirect s = true -> also_block_redirect s = false ->
  is_csp s = false -> is_removeparam s = false -> is_generic_hide s = false ->
  is_exception s = false -> is_important s = false ->
  category_of s = CatNowhere /\ in_redirects s = true.
Proof.
  intros R A C P G E I. unfold category_of, in_redirects. rewrite R, A, C, P, G, E, I.
  destruct (sh_tagged s); split; reflexivity.
Qed.

Theorem redirect_blocks s :
  is_redirect s = true -> also_block_redirect s = true ->
  is_csp s = false -> is_removeparam s = false -> is_generic_hide s = false -> is_exception s = false ->
  blocking_category (category_of s) = true /\ in_redirects s = true /\
  (category_of s = CatImportants \/ category_of s = CatFilters).
Proof.
  intros R A C P G E. unfold category_of, in_redirects. rewrite R, A, C, P, G, E.
  destruct (is_important s), (sh_tagged s); cbn; auto.
Qed.

(* the carved-out class: redirect-rule together with important lands in `importants` *)
Theorem redirect_rule_important_blocks_refuted :
  exists s, is_redirect s = true /\ also_block_redirect s = false /\ is_exception s = false /\
            blocking_category (category_of s) = true.
Proof.
  exists (mk_shape (N.lor (mask_redirect_rule_option M_DEFAULT_OPTIONS) M_IS_IMPORTANT) false).
  vm_compute. repeat split; reflexivity.
Qed.

(* flags through the parser's mask updates *)
Lemma flag_lor a b f : flag (N.lor a b) f = flag a f || flag b f.
Proof.
  unfold flag. rewrite N.land_lor_distr_l.
  destruct (N.eqb (N.land a f) 0) eqn:E1, (N.eqb (N.land b f) 0) eqn:E2; cbn;
    rewrite ?negb_true_iff, ?negb_false_iff, ?N.eqb_eq, ?N.eqb_neq in *;
    rewrite N.lor_eq_0_iff; tauto.
Qed.

Theorem redirect_option_flags m :
  is_redirect (mk_shape (mask_redirect_option m) false) = true /\
  also_block_redirect (mk_shape (mask_redirect_option m) false) = true.
Proof.
  unfold is_redirect, also_block_redirect, mask_redirect_option. cbn [sh_mask].
  rewrite !flag_lor. split.
  - replace (flag M_IS_REDIRECT M_IS_REDIRECT) with true by (vm_compute; reflexivity).
    destruct (flag m M_IS_REDIRECT); reflexivity.
  - replace (flag M_ALSO_BLOCK_REDIRECT M_ALSO_BLOCK_REDIRECT) with true by (vm_compute; reflexivity).
    destruct (flag m M_ALSO_BLOCK_REDIRECT), (flag M_IS_REDIRECT M_ALSO_BLOCK_REDIRECT); reflexivity.
Qed.

Theorem redirect_rule_option_flags m tagged :
  flag m M_ALSO_BLOCK_REDIRECT = false ->
  is_redirect (mk_shape (mask_redirect_rule_option m) tagged) = true /\
  also_block_redirect (mk_shape (mask_redirect_rule_option m) tagged) = false /\
  is_important (mk_shape (mask_redirect_rule_option m) tagged) = flag m M_IS_IMPORTANT.
Proof.
  intros H. unfold is_redirect, also_block_redirect, is_important, mask_redirect_rule_option. cbn [sh_mask].
  rewrite !flag_lor, H.
  replace (flag M_IS_REDIRECT M_IS_REDIRECT) with true by (vm_compute; reflexivity).
  replace (flag M_IS_REDIRECT M_ALSO_BLOCK_REDIRECT) with false by (vm_compute; reflexivity).
  replace (flag M_IS_REDIRECT M_IS_IMPORTANT) with false by (vm_compute; reflexivity).
  rewrite !orb_false_r, orb_true_r. auto.
Qed.

(* ================================================================ independence of the blocking side *)
Theorem redirect_independent_of_block sup b1 b2 st m :
  v_redirect (check_verdict sup b1 st m) = v_redirect (check_verdict sup b2 st m).
Proof. unfold check_verdict. destruct sup; reflexivity. Qed.

Theorem redirect_of_verdict b st m :
  v_redirect (check_verdict true b st m) = redirect_of st m.
Proof. reflexivity. Qed.

(* ================================================================ i32::from_str *)
Open Scope Z_scope.

Definition horner (acc : Z) (s : str) : Z := fold_left (fun a c => a * 10 + digit_val c) s acc.
Definition horner_neg (acc : Z) (s : str) : Z := fold_left (fun a c => a * 10 - digit_val c) s acc.

Lemma digit_val_range c : is_digit c = true -> 0 <= digit_val c <= 9.
Proof. unfold is_digit, digit_val. intros H. lia. Qed.

Lemma horner_ge s : forall acc, 0 <= acc -> all_digits s = true -> acc <= horner acc s.
Proof.
  induction s as [|c r IH]; intros acc Ha Hd; cbn; [lia|].
  cbn in Hd. apply andb_true_iff in Hd as [Hc Hr]. pose proof (digit_val_range c Hc) as Hv.
  specialize (IH (acc * 10 + digit_val c)). unfold horner in IH. lia.
Qed.

Lemma horner_neg_le s : forall acc, acc <= 0 -> all_digits s = true -> horner_neg acc s <= acc.
Proof.
  induction s as [|c r IH]; intros acc Ha Hd; cbn; [lia|].
  cbn in Hd. apply andb_true_iff in Hd as [Hc Hr]. pose proof (digit_val_range c Hc) as Hv.
  specialize (IH (acc * 10 - digit_val c)). unfold horner_neg in IH. lia.
Qed.

Lemma horner_neg_opp s : forall acc, horner_neg (- acc) s = - horner acc s.
Proof.
  induction s as [|c r IH]; intros acc; cbn; [reflexivity|].
  unfold horner_neg, horner in *. rewrite <- IH. f_equal. lia.
Qed.

Lemma parse_pos_spec s : forall acc z, 0 <= acc <= I32_MAX ->
  (parse_pos acc s = Some z <-> all_digits s = true /\ z = horner acc s /\ z <= I32_MAX).
Proof.
  induction s as [|c r IH]; intros acc z Ha; cbn [parse_pos all_digits forallb].
  - unfold horner. cbn. split.
    + intros H. inversion H; subst. repeat split; lia.
    + intros (_ & -> & _). reflexivity.
  - destruct (is_digit c) eqn:Hc; cbn [andb].
    + pose proof (digit_val_range c Hc) as Hv.
      change (horner acc (c :: r)) with (horner (acc * 10 + digit_val c) r).
      destruct (acc * 10 + digit_val c >? I32_MAX) eqn:Ho.
      * split; [discriminate|]. intros (Hd & -> & Hz). exfalso.
        pose proof (horner_ge r (acc * 10 + digit_val c) ltac:(lia) Hd). lia.
      * apply IH. lia.
    + split; [discriminate|]. intros (Hd & _). discriminate.
Qed.

Lemma parse_neg_spec s : forall acc z, I32_MIN <= acc <= 0 ->
  (parse_neg acc s = Some z <-> all_digits s = true /\ z = horner_neg acc s /\ I32_MIN <= z).
Proof.
  induction s as [|c r IH]; intros acc z Ha; cbn [parse_neg all_digits forallb].
  - unfold horner_neg. cbn. split.
    + intros H. inversion H; subst. repeat split; lia.
    + intros (_ & -> & _). reflexivity.
  - destruct (is_digit c) eqn:Hc; cbn [andb].
    + pose proof (digit_val_range c Hc) as Hv.
      change (horner_neg acc (c :: r)) with (horner_neg (acc * 10 - digit_val c) r).
      destruct (acc * 10 - digit_val c <? I32_MIN) eqn:Ho.
      * split; [discriminate|]. intros (Hd & -> & Hz). exfalso.
        pose proof (horner_neg_le r (acc * 10 - digit_val c) ltac:(lia) Hd). lia.
      * apply IH. lia.
    + split; [discriminate|]. intros (Hd & _). discriminate.
Qed.

(* the accepted language and its value: one optional sign, at least one ASCII digit, nothing
   else, and the value inside the i32 range *)
Inductive i32_text : str -> Z -> Prop :=
| I32Plain ds : ds <> [] -> all_digits ds = true -> digits_value ds <= I32_MAX -> i32_text ds (digits_value ds)
| I32Plus ds : ds <> [] -> all_digits ds = true -> digits_value ds <= I32_MAX -> i32_text (PLUS :: ds) (digits_value ds)
| I32Minus ds : ds <> [] -> all_digits ds = true -> I32_MIN <= - digits_value ds -> i32_text (MINUS :: ds) (- digits_value ds).

Theorem parse_i32_spec s z : parse_i32 s = Some z <-> i32_text s z.
Proof.
  assert (R0 : 0 <= 0 <= I32_MAX) by (unfold I32_MAX; lia).
  assert (R1 : I32_MIN <= 0 <= 0) by (unfold I32_MIN; lia).
  split.
  - intros H. destruct s as [|c r]; [discriminate|]. unfold parse_i32 in H.
    destruct (N.eqb c MINUS) eqn:Em.
    + apply N.eqb_eq in Em. subst c. destruct r as [|d r]; [discriminate|].
      apply (parse_neg_spec (d :: r) 0 z R1) in H as (Hd & -> & Hz).
      change 0 with (- 0) in *. rewrite horner_neg_opp in *.
      apply I32Minus; [discriminate|exact Hd|exact Hz].
    + destruct (N.eqb c PLUS) eqn:Ep.
      * apply N.eqb_eq in Ep. subst c. destruct r as [|d r]; [discriminate|].
        apply (parse_pos_spec (d :: r) 0 z R0) in H as (Hd & -> & Hz).
        apply I32Plus; [discriminate|exact Hd|exact Hz].
      * apply (parse_pos_spec (c :: r) 0 z R0) in H as (Hd & -> & Hz).
        apply I32Plain; [discriminate|exact Hd|exact Hz].
  - intros H. destruct H as [ds Hne Hd Hz|ds Hne Hd Hz|ds Hne Hd Hz].
    + destruct ds as [|c r]; [congruence|]. unfold parse_i32.
      assert (Hc : is_digit c = true) by (cbn in Hd; apply andb_true_iff in Hd; tauto).
      assert (Em : N.eqb c MINUS = false) by (unfold is_digit, MINUS in *; lia).
      assert (Ep : N.eqb c PLUS = false) by (unfold is_digit, PLUS in *; lia).
      rewrite Em, Ep. apply (parse_pos_spec (c :: r) 0 _ R0). repeat split; auto.
    + unfold parse_i32. change (N.eqb PLUS MINUS) with false. change (N.eqb PLUS PLUS) with true. cbn iota.
      destruct ds as [|c r]; [congruence|]. apply (parse_pos_spec (c :: r) 0 _ R0). repeat split; auto.
    + unfold parse_i32. change (N.eqb MINUS MINUS) with true. cbn iota.
      destruct ds as [|c r]; [congruence|]. apply (parse_neg_spec (c :: r) 0 _ R1).
      change 0 with (- 0). rewrite horner_neg_opp. repeat split; auto.
Qed.

Theorem parse_i32_range s z : parse_i32 s = Some z -> I32_MIN <= z <= I32_MAX.
Proof.
  intros H. apply parse_i32_spec in H.
  assert (G : forall ds, all_digits ds = true -> 0 <= digits_value ds).
  { intros ds Hd. apply (horner_ge ds 0); [lia|exact Hd]. }
  destruct H as [ds _ Hd Hz|ds _ Hd Hz|ds _ Hd Hz]; specialize (G ds Hd); unfold I32_MIN, I32_MAX in *; lia.
Qed.

Close Scope Z_scope.

(* ================================================================ split_redirect_priority *)
Lemma rfind_byte_None c s : rfind_byte c s = None <-> ~ In c s.
Proof.
  induction s as [|x s IH]; cbn; [tauto|].
  destruct (rfind_byte c s) as [j|] eqn:F.
  - split; [discriminate|]. intros H. exfalso.
    assert (G : ~ In c s) by (intros G; apply H; auto). apply IH in G. discriminate.
  - destruct (N.eqb x c) eqn:E.
    + apply N.eqb_eq in E. split; [discriminate|]. intros H. exfalso. apply H. auto.
    + apply N.eqb_neq in E. split; [|reflexivity]. intros _ [G|G]; [congruence|].
      apply (proj1 IH eq_refl). exact G.
Qed.

Lemma rfind_byte_Some c s : forall i,
  rfind_byte c s = Some i -> s = take i s ++ c :: drop (S i) s /\ ~ In c (drop (S i) s).
Proof.
  induction s as [|x s IH]; cbn; intros i H; [discriminate|].
  destruct (rfind_byte c s) as [j|] eqn:F.
  - inversion H; subst. destruct (IH j eq_refl) as [A B]. unfold take, drop in *. cbn.
    split; [f_equal; exact A|exact B].
  - destruct (N.eqb x c) eqn:E; [|discriminate]. inversion H; subst. apply N.eqb_eq in E. subst x.
    unfold take, drop. cbn. split; [reflexivity|]. apply rfind_byte_None. exact F.
Qed.

Lemma rfind_byte_app c a b : ~ In c b -> rfind_byte c (a ++ c :: b) = Some (length a).
Proof.
  intros H. induction a as [|x a IH]; cbn.
  - apply rfind_byte_None in H. rewrite H, N.eqb_refl. reflexivity.
  - rewrite IH. reflexivity.
Qed.

(* no ':' at all: the whole option is the resource name, priority 0 *)
Theorem split_no_colon s : ~ In COLON s -> split_redirect_priority s = (s, 0%Z).
Proof. intros H. unfold split_redirect_priority. apply rfind_byte_None in H. rewrite H. reflexivity. Qed.

(* `name:suffix` with the LAST colon: a well-formed i32 suffix is the priority ... *)
Theorem split_with_priority name suf p :
  ~ In COLON suf -> i32_text suf p -> split_redirect_priority (name ++ COLON :: suf) = (name, p).
Proof.
  intros Hc Hp. unfold split_redirect_priority. rewrite (rfind_byte_app COLON name suf Hc).
  replace (drop (S (length name)) (name ++ COLON :: suf)) with suf.
  - apply parse_i32_spec in Hp. rewrite Hp. rewrite take_app_length. reflexivity.
  - replace (name ++ COLON :: suf) with ((name ++ [COLON]) ++ suf) by (rewrite <- app_assoc; reflexivity).
    symmetry. apply drop_app_length'. rewrite app_length. cbn. lia.
Qed.

(* ... anything else after the last colon (empty, lone sign, non-digit, out of the i32 range)
   leaves the whole string as the name, priority 0 *)
Theorem split_malformed name suf :
  ~ In COLON suf -> (forall p, ~ i32_text suf p) ->
  split_redirect_priority (name ++ COLON :: suf) = (name ++ COLON :: suf, 0%Z).
Proof.
  intros Hc Hp. unfold split_redirect_priority. rewrite (rfind_byte_app COLON name suf Hc).
  replace (drop (S (length name)) (name ++ COLON :: suf)) with suf.
  - destruct (parse_i32 suf) as [p|] eqn:E; [|reflexivity]. apply parse_i32_spec in E. destruct (Hp p E).
  - replace (name ++ COLON :: suf) with ((name ++ [COLON]) ++ suf) by (rewrite <- app_assoc; reflexivity).
    symmetry. apply drop_app_length'. rewrite app_length. cbn. lia.
Qed.

(* every answer is one of the two shapes *)
Theorem split_spec s name p :
  split_redirect_priority s = (name, p) ->
  (name = s /\ p = 0%Z) \/
  (exists suf, s = name ++ COLON :: suf /\ ~ In COLON suf /\ i32_text suf p).
Proof.
  unfold split_redirect_priority. destruct (rfind_byte COLON s) as [i|] eqn:F.
  - destruct (rfind_byte_Some _ _ _ F) as [A B].
    destruct (parse_i32 (drop (S i) s)) as [q|] eqn:E; intros H; inversion H; subst; [|left; auto].
    right. exists (drop (S i) s). split; [exact A|]. split; [exact B|]. apply parse_i32_spec. exact E.
  - intros H. inversion H; subst. left. auto.
Qed.

Theorem split_priority_range s : (I32_MIN <= snd (split_redirect_priority s) <= I32_MAX)%Z.
Proof.
  destruct (split_redirect_priority s) as [name p] eqn:E. cbn.
  destruct (split_spec _ _ _ E) as [[_ ->]|(suf & _ & _ & H)].
  - unfold I32_MIN, I32_MAX. lia.
  - apply parse_i32_spec in H. apply parse_i32_range in H. exact H.
Qed.

Example ex_split :
  split_redirect_priority (bs "noop.js:10") = (bs "noop.js", 10%Z) /\
  split_redirect_priority (bs "noop.js:-1") = (bs "noop.js", (-1)%Z) /\
  split_redirect_priority (bs "noop.js:+3") = (bs "noop.js", 3%Z) /\
  split_redirect_priority (bs "noop.js:x") = (bs "noop.js:x", 0%Z) /\
  split_redirect_priority (bs "noop.js:") = (bs "noop.js:", 0%Z) /\
  split_redirect_priority (bs "noop.js:2147483648") = (bs "noop.js:2147483648", 0%Z) /\
  split_redirect_priority (bs "noop.js:-2147483648") = (bs "noop.js", (-2147483648)%Z) /\
  split_redirect_priority (bs "a:b:5") = (bs "a:b", 5%Z).
Proof. vm_compute. repeat split; reflexivity. Qed.
