(* C13_Proofs.v — the redirect part of check_parameterised refines the L0 description. *)
From Coq Require Import ZArith.
From Adb Require Import Base BaseProofs Generated C13_Model.
From Coq Require Import ZifyBool ZifyNat ZifyN.

(* ================================================================ translated tables vs L0 tables *)
Theorem mime_names_agree m : l0_name_of m l0_mime_names = Some (mime_to_string m).
Proof. destruct m; reflexivity. Qed.

Theorem mime_roundtrip m : mime_from_string (mime_to_string m) = m.
Proof. destruct m; reflexivity. Qed.

Lemma table_lookup_In s t m : table_lookup s t = Some m -> In (s, m) t.
Proof.
  induction t as [|[n m'] t IH]; cbn; intros H; [discriminate|].
  destruct (String.eqb s n) eqn:E.
  - apply String.eqb_eq in E. inversion H; subst. left. reflexivity.
  - right. apply IH. exact H.
Qed.

Theorem mime_from_string_inverse s m :
  table_lookup s mime_from_string_table = Some m -> mime_to_string m = s.
Proof.
  intros H. apply table_lookup_In in H.
  assert (A : forallb (fun nm => String.eqb (mime_to_string (snd nm)) (fst nm)) mime_from_string_table = true)
    by (vm_compute; reflexivity).
  rewrite forallb_forall in A. apply A in H. cbn in H. apply String.eqb_eq in H. exact H.
Qed.

Theorem supports_redirect_table k : supports_redirect k = l0_redirectable k.
Proof. destruct k as [m|]; [destruct m|]; reflexivity. Qed.

(* ================================================================ category assignment *)
Theorem redirect_rule_never_blocks s :
  is_redirect s = true -> also_block_redirect s = false -> is_important s = false ->
  blocking_category (category_of s) = false.
Proof.
  intros R A I. unfold category_of. rewrite R, A, I.
  destruct (is_csp s), (is_removeparam s), (is_generic_hide s), (is_exception s), (sh_tagged s); reflexivity.
Qed.

Theorem redirect_rule_goes_nowhere s :
  is_redirect s = true -> also_block_redirect s = false ->
  is_csp s = false -> is_removeparam s = false -> is_generic_hide s = false ->
  is_exception s = false -> is_important s = false ->
  category_of s = CatNowhere /\ in_redirects s = true.
Proof.
  intros R A C P G E I. unfold category_of, in_redirects. rewrite R, A, C, P, G, E, I.
  destruct (sh_tagged s); split; reflexivity.
Qed.

Theorem redirect_blocks s :
  is_redirect s = true -> also_block_redirect s = true ->
  is_csp s = false -> is_removeparam s = false -> is_generic_hide s = false -> is_exception s = false ->
  blocking_category (category_of s) = true /\ in_redirects s = true /\
  (category_of s = CatImportants \/ category_of s = CatFilters).
Proof.
  intros R A C P G E. unfold category_of, in_redirects. rewrite R, A, C, P, G, E.
  destruct (is_important s), (sh_tagged s); cbn; auto.
Qed.

(* the carved-out class: redirect-rule together with important lands in `importants` *)
Theorem redirect_rule_important_blocks_refuted :
  exists s, is_redirect s = true /\ also_block_redirect s = false /\ is_exception s = false /\
            blocking_category (category_of s) = true.
Proof.
  exists (mk_shape (N.lor (mask_redirect_rule_option M_DEFAULT_OPTIONS) M_IS_IMPORTANT) false).
  vm_compute. repeat split; reflexivity.
Qed.

(* flags through the parser's mask updates *)
Lemma flag_lor a b f : flag (N.lor a b) f = flag a f || flag b f.
Proof.
  unfold flag. rewrite N.land_lor_distr_l.
  destruct (N.eqb (N.land a f) 0) eqn:E1, (N.eqb (N.land b f) 0) eqn:E2; cbn;
    rewrite ?negb_true_iff, ?negb_false_iff, ?N.eqb_eq, ?N.eqb_neq in *;
    rewrite N.lor_eq_0_iff; tauto.
Qed.

Theorem redirect_option_flags m :
  is_redirect (mk_shape (mask_redirect_option m) false) = true /\
  also_block_redirect (mk_shape (mask_redirect_option m) false) = true.
Proof.
  unfold is_redirect, also_block_redirect, mask_redirect_option. cbn [sh_mask].
  rewrite !flag_lor. split.
  - replace (flag M_IS_REDIRECT M_IS_REDIRECT) with true by (vm_compute; reflexivity).
    destruct (flag m M_IS_REDIRECT); reflexivity.
  - replace (flag M_ALSO_BLOCK_REDIRECT M_ALSO_BLOCK_REDIRECT) with true by (vm_compute; reflexivity).
    destruct (flag m M_ALSO_BLOCK_REDIRECT), (flag M_IS_REDIRECT M_ALSO_BLOCK_REDIRECT); reflexivity.
Qed.

Theorem redirect_rule_option_flags m tagged :
  flag m M_ALSO_BLOCK_REDIRECT = false ->
  is_redirect (mk_shape (mask_redirect_rule_option m) tagged) = true /\
  also_block_redirect (mk_shape (mask_redirect_rule_option m) tagged) = false /\
  is_important (mk_shape (mask_redirect_rule_option m) tagged) = flag m M_IS_IMPORTANT.
Proof.
  intros H. unfold is_redirect, also_block_redirect, is_important, mask_redirect_rule_option. cbn [sh_mask].
  rewrite !flag_lor, H.
  replace (flag M_IS_REDIRECT M_IS_REDIRECT) with true by (vm_compute; reflexivity).
  replace (flag M_IS_REDIRECT M_ALSO_BLOCK_REDIRECT) with false by (vm_compute; reflexivity).
  replace (flag M_IS_REDIRECT M_IS_IMPORTANT) with false by (vm_compute; reflexivity).
  rewrite !orb_false_r, orb_true_r. auto.
Qed.

(* ================================================================ independence of the blocking side *)
Theorem redirect_independent_of_block sup b1 b2 st m :
  v_redirect (check_verdict sup b1 st m) = v_redirect (check_verdict sup b2 st m).
Proof. unfold check_verdict. destruct sup; reflexivity. Qed.

Theorem redirect_of_verdict b st m :
  v_redirect (check_verdict true b st m) = redirect_of st m.
Proof. reflexivity. Qed.
