(* C16_Model.v — L1 model of the per-site cosmetic resources:
     src/filters/cosmetic.rs        get_hashes_from_labels, get_hostname_without_public_suffix,
                                    get_entity_hashes_from_labels, get_hostname_hashes_from_labels,
                                    has_hostname_constraint, hidden_generic_rule
     src/cosmetic_filter_cache.rs   add_filter, HostnameRuleDb::store_rule / store, negated,
                                    hostname_domain_hashes, hostname_cosmetic_resources
   and the L0 vocabulary (label-aligned suffixes, `covers`, `applies`).  Definitions only.
   The generic stores are those of C17_Model.  [h] is the 64-bit hash (utils::fast_hash, seahash)
   and [uw] the regex `\w` table: Section variables. *)
From Adb Require Import Base C17_Model.

(* ---------------------------------------------------------------- parsed rule (CosmeticFilter) *)
(* Location lists hold the strings that parse_before_sharp hashes (after idna, without `~` and
   `.*`); an absent Option<Vec<Hash>> is the empty list (sorted_or_none). *)
Record crule := mkRule {
  r_hosts : list str;      (* hostnames *)
  r_ents : list str;       (* entities (`name.*` written as name) *)
  r_nhosts : list str;     (* not_hostnames *)
  r_nents : list str;      (* not_entities *)
  r_unhide : bool;         (* mask & UNHIDE *)
  r_script : bool;         (* mask & SCRIPT_INJECT *)
  r_plain : option str;    (* plain_css_selector() *)
  r_action : bool;         (* action.is_some() *)
  r_json : str;            (* serde_json of the ProceduralOrActionFilter (opaque payload) *)
  r_perm : N               (* permission mask *)
}.

Inductive tag := THide | TUnhide | TInject | TUninject | TProc | TProcExc.
Definition tag_eqb (a b : tag) : bool :=
  match a, b with
  | THide, THide | TUnhide, TUnhide | TInject, TInject | TUninject, TUninject
  | TProc, TProc | TProcExc, TProcExc => true
  | _, _ => false
  end.
(* SpecificFilterType: tag and content (selector / +js arguments / JSON, permission) *)
Definition kind := (tag * (str * N))%type.
Definition neg_tag (t : tag) : tag :=
  match t with
  | THide => TUnhide | TUnhide => THide | TInject => TUninject | TUninject => TInject
  | TProc => TProcExc | TProcExc => TProc
  end.
Definition negated (k : kind) : kind := (neg_tag (fst k), snd k).

(* the `match (script_inject, plain_css_selector, action)` of store_rule *)
Definition rule_kind (r : crule) : option kind :=
  match r_script r, r_plain r, r_action r with
  | false, Some sel, false => Some (THide, (sel, 0))
  | true, Some sel, false => Some (TInject, (sel, r_perm r))
  | false, _, _ => Some (TProc, (r_json r, 0))
  | true, _, _ => None
  end.
Definition rule_kind_signed (r : crule) : option kind :=
  match rule_kind r with
  | Some k => Some (if r_unhide r then negated k else k)
  | None => None
  end.

(* (location string, what is stored under it): tokens_to_insert then tokens_to_insert_negated *)
Definition contrib (r : crule) : list (str * kind) :=
  match rule_kind_signed r with
  | None => []
  | Some k => map (fun x => (x, k)) (r_hosts r ++ r_ents r) ++
              map (fun x => (x, negated k)) (r_nhosts r ++ r_nents r)
  end.

(* what a bin keeps of a kind: UninjectScript((s, _)) drops the permission *)
Definition payload (k : kind) : str * N :=
  match fst k with TInject => snd k | _ => (fst (snd k), 0) end.

(* ---------------------------------------------------------------- the six bins *)
(* HostnameRuleDb = six HashMap<Hash, Vec<T>>, modelled as one association list keyed by
   (which bin, hash); buckets keep insertion order. *)
Definition bkey := (tag * N)%type.
Definition bkey_eqb (a b : bkey) : bool := tag_eqb (fst a) (fst b) && N.eqb (snd a) (snd b).
Definition hdb := list (bkey * list (str * N)).
Fixpoint bget (k : bkey) (m : hdb) : list (str * N) :=
  match m with
  | [] => []
  | (k', b) :: r => if bkey_eqb k k' then b else bget k r
  end.
(* HostnameFilterBin::insert *)
Fixpoint bpush (k : bkey) (v : str * N) (m : hdb) : hdb :=
  match m with
  | [] => [(k, [v])]
  | (k', b) :: r => if bkey_eqb k k' then (k', b ++ [v]) :: r else (k', b) :: bpush k v r
  end.

(* ---------------------------------------------------------------- label functions *)
(* hostname[a..b] *)
Definition slice (s : str) (a b : nat) : str := take (b - a) (drop a s).

(* the while-let loop of get_hashes_from_labels: the strings it hashes, in order *)
Fixpoint label_loop (fuel : nat) (hostname : str) (e dot_ptr : nat) : list str :=
  match fuel with
  | O => []
  | S f =>
      match rfind_byte DOT (take dot_ptr hostname) with
      | Some i => slice hostname (S i) e :: label_loop f hostname e i
      | None => []
      end
  end.
Definition label_strings (hostname : str) (e start_of_domain : nat) : list str :=
  if Nat.eqb e 0 then []
  else label_loop (length hostname) hostname e start_of_domain ++ [take e hostname].

Definition get_hostname_without_public_suffix (hostname dom : str) : option (str * str) :=
  match find_byte DOT dom with
  | Some i =>
      let ps := drop (S i) dom in
      Some (take (length hostname - length ps - 1) hostname,
            drop (length hostname - length dom + i + 1) hostname)
  | None => None
  end.
Definition entity_strings (hostname dom : str) : list str :=
  match get_hostname_without_public_suffix hostname dom with
  | Some (hw, ps) => label_strings hw (length hw) (length hw) ++ [ps]
  | None => []
  end.
Definition hostname_strings (hostname dom : str) : list str :=
  label_strings hostname (length hostname) (length hostname - length dom).
(* request_entities.iter().chain(request_hostnames.iter()) *)
Definition lookup_strings (hostname dom : str) : list str :=
  entity_strings hostname dom ++ hostname_strings hostname dom.

(* ---------------------------------------------------------------- L0: label-aligned suffixes *)
Fixpoint after_dots (s : str) : list str :=
  match s with
  | [] => []
  | c :: r => (if N.eqb c DOT then [r] else []) ++ after_dots r
  end.
(* s itself and whatever follows one of its dots *)
Definition label_suffixes (s : str) : list str := s :: after_dots s.

(* S host (DESIGN.md §4 C16) for host = pre ++ dom, dom = l1 ++ "." ++ ps (or dom without a dot):
   the label-aligned suffixes of host that contain dom, the label-aligned suffixes of host minus
   ".ps", and ps itself. *)
Definition S_host (host dom : str) : list str :=
  filter (fun x => Nat.leb (length dom) (length x)) (label_suffixes host) ++
  match find_byte DOT dom with
  | Some i => let ps := drop (S i) dom in
              label_suffixes (take (length host - length ps - 1) host) ++ [ps]
  | None => []
  end.
(* psl answer contract: dom is a non-empty label-aligned suffix of host whose first label is not empty *)
Definition psl_contract (host dom : str) : Prop :=
  exists pre, host = pre ++ dom /\ (pre = [] \/ exists pre', pre = pre' ++ [DOT]) /\
              match dom with [] => False | c :: _ => c <> DOT end.

Section Hash.
Variable h : str -> N.
Variable uw : N -> bool.

Definition get_hashes_from_labels (hostname : str) (e start_of_domain : nat) : list N :=
  map h (label_strings hostname e start_of_domain).
Definition get_entity_hashes_from_labels (hostname dom : str) : list N := map h (entity_strings hostname dom).
Definition get_hostname_hashes_from_labels (hostname dom : str) : list N := map h (hostname_strings hostname dom).

(* ---------------------------------------------------------------- store_rule / add_filter *)
Definition entry := (bkey * (str * N))%type.
Definition rule_entries (r : crule) : list entry :=
  map (fun xk => ((fst (snd xk), h (fst xk)), payload (snd xk))) (contrib r).
Definition store (db : hdb) (e : entry) : hdb := bpush (fst e) (snd e) db.
Definition store_rule (db : hdb) (r : crule) : hdb := fold_left store (rule_entries r) db.

Record cache := mkCache { gen : stores; db : hdb }.
Definition empty_cache := mkCache empty_stores [].

Definition has_hostname_constraint (r : crule) : bool :=
  negb (null (r_hosts r)) || negb (null (r_ents r)) || negb (null (r_nents r)) || negb (null (r_nhosts r)).
(* hidden_generic_rule(..).is_some() *)
Definition hidden_generic (r : crule) : bool :=
  null (r_hosts r) && null (r_ents r) &&
  (negb (null (r_nhosts r)) || negb (null (r_nents r))) && negb (r_action r) && negb (r_script r).
(* add_generic_filter: rules without a plain selector are ignored *)
Definition add_generic_rule (st : stores) (r : crule) : stores :=
  match r_plain r with Some s => add_generic uw st s | None => st end.
Definition add_filter (c : cache) (r : crule) : cache :=
  if has_hostname_constraint r then
    mkCache (if hidden_generic r then add_generic_rule (gen c) r else gen c) (store_rule (db c) r)
  else mkCache (add_generic_rule (gen c) r) (db c).
Definition build_cache (rules : list crule) : cache := fold_left add_filter rules empty_cache.

(* ---------------------------------------------------------------- hostname_cosmetic_resources *)
Definition set_remove (x : str) (l : list str) : list str := filter (fun y => negb (str_eqb x y)) l.
(* script_injections.entry(s).and_modify(|e| *e |= mask).or_insert(mask) *)
Fixpoint script_or (s : str) (mask : N) (m : list (str * N)) : list (str * N) :=
  match m with
  | [] => [(s, mask)]
  | (s', p) :: r => if str_eqb s s' then (s', N.lor p mask) :: r else (s', p) :: script_or s mask r
  end.
Definition script_remove (s : str) (m : list (str * N)) : list (str * N) :=
  filter (fun e => negb (str_eqb s (fst e))) m.

Record state := mkState {
  st_hide : list str; st_proc : list str; st_scripts : list (str * N);
  st_exc : list str; st_except_all : bool }.
Definition init_state := mkState [] [] [] [] false.

Definition populate_step (d : hdb) (st : state) (hh : N) : state :=
  mkState
    (fold_left (fun acc e => set_insert (fst e) acc) (bget (THide, hh) d) (st_hide st))
    (fold_left (fun acc e => set_insert (fst e) acc) (bget (TProc, hh) d) (st_proc st))
    (fold_left (fun acc e => script_or (fst e) (snd e) acc) (bget (TInject, hh) d) (st_scripts st))
    (st_exc st) (st_except_all st).

Definition uninject_one (acc : list (str * N) * bool) (e : str * N) : list (str * N) * bool :=
  let s := fst e in
  let acc1 := if null s then ([], true) else acc in
  if snd acc1 then acc1 else (script_remove s (fst acc1), snd acc1).

Definition prune_step (d : hdb) (st : state) (hh : N) : state :=
  let un := bget (TUnhide, hh) d in
  let sc := fold_left uninject_one (bget (TUninject, hh) d) (st_scripts st, st_except_all st) in
  mkState
    (fold_left (fun acc e => set_remove (fst e) acc) un (st_hide st))
    (fold_left (fun acc e => set_remove (fst e) acc) (bget (TProcExc, hh) d) (st_proc st))
    (fst sc)
    (fold_left (fun acc e => set_insert (fst e) acc) un (st_exc st))
    (snd sc).

Record resources := mkRes {
  hide_selectors : list str; procedural_actions : list str; exceptions : list str;
  script_injections : list (str * N); generichide : bool }.

Definition hostname_cosmetic_resources (c : cache) (hostname dom : str) (gh : bool) : resources :=
  let hashes := get_entity_hashes_from_labels hostname dom ++ get_hostname_hashes_from_labels hostname dom in
  let st1 := fold_left (populate_step (db c)) hashes init_state in
  let st2 := fold_left (prune_step (db c)) hashes st1 in
  let hide :=
    if gh then st_hide st2
    else fold_left (fun acc s => set_insert s acc) (st_hide st2)
           (filter (fun s => negb (mem_str s (st_exc st2))) (misc (gen c))) in
  mkRes hide (st_proc st2) (st_exc st2) (st_scripts st2) gh.

(* ---------------------------------------------------------------- L0: covers semantics *)
(* a location x (written `x` or `x.*` in the rule) covers the page host *)
Definition covers (host dom x : str) : Prop := In x (lookup_strings host dom).
(* some rule stores content (s, p) with tag tg under a location covering the host *)
Definition applies (rules : list crule) (host dom : str) (tg : tag) (s : str) (p : N) : Prop :=
  exists r x, In r rules /\ In (x, (tg, (s, p))) (contrib r) /\ covers host dom x.
Definition applies_s rules host dom tg s : Prop := exists p, applies rules host dom tg s p.
(* selectors handed to add_generic_filter *)
Definition generic_selectors (rules : list crule) : list str :=
  flat_map (fun r =>
    if has_hostname_constraint r
    then (if hidden_generic r then match r_plain r with Some s => [s] | None => [] end else [])
    else match r_plain r with Some s => [s] | None => [] end) rules.
Definition all_locations (rules : list crule) : list str := flat_map (fun r => map fst (contrib r)) rules.
Definition inj_on (l : list str) : Prop := forall a b, In a l -> In b l -> h a = h b -> a = b.

(* ---------------------------------------------------------------- comparison helpers (harness) *)
Definition pair_sN_eqb (a b : str * N) : bool := str_eqb (fst a) (fst b) && N.eqb (snd a) (snd b).
(* a dumped bin (sorted by hash) against the model *)
Definition bin_eqb (tg : tag) (dump : list (N * list (str * N))) (d : hdb) : bool :=
  Nat.eqb (length dump) (length (filter (fun kb => tag_eqb (fst (fst kb)) tg) d)) &&
  forallb (fun hb => list_eqb pair_sN_eqb (bget (tg, fst hb) d) (snd hb)) dump.
Definition strs_eq := list_eqb str_eqb.
End Hash.

(* hash table supplied by the harness: strings not listed hash to 0 *)
Fixpoint table_hash (t : list (str * N)) (s : str) : N :=
  match t with
  | [] => 0
  | (x, v) :: r => if str_eqb s x then v else table_hash r s
  end.
Definition resources_eqb (r : resources) (hide proc exc scripts : list str) (gh : bool) : bool :=
  set_eqb hide (hide_selectors r) && set_eqb proc (procedural_actions r) &&
  set_eqb exc (exceptions r) && set_eqb scripts (map fst (script_injections r)) &&
  Bool.eqb gh (generichide r).
(* scriptlets observable in injected_script: those whose resource requirement [req] is met by the
   accumulated permission mask (PermissionMask::is_injectable_by) *)
Definition resources_eqb_req (req : str -> N) (r : resources) (hide proc exc scripts : list str) (gh : bool) : bool :=
  set_eqb hide (hide_selectors r) && set_eqb proc (procedural_actions r) &&
  set_eqb exc (exceptions r) &&
  set_eqb scripts (map fst (filter (fun e => N.eqb (N.land (req (fst e)) (snd e)) (req (fst e))) (script_injections r))) &&
  Bool.eqb gh (generichide r).
