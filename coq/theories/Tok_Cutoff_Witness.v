(* Tok_Cutoff_Witness.v — the 127-token cut-off of the tokenizer is a real limit of the index, not
   an artefact of the proofs: a plain rule matches a URL whose matching token lies beyond the
   cut-off, and that token is not among the request's tokens, so a rule filed under it is never
   probed (C01 restricts its quantifier to URLs below the cut-off; for C14 -- whose text has no such
   restriction -- the same input is the known finding C14_url_beyond_token_cutoff). *)
From Adb Require Import Base BaseProofs Generated Hashing Net_Model Tok_Proofs.

Fixpoint segs (n : nat) : str := match n with O => [] | S k => segs k ++ bs "/ab" end.
Definition long_url : str := bs "https://x.com" ++ segs 130 ++ bs "/zz9/".

Lemma cutoff_needed_refuted :
  plain_match false false (bs "/zz9/") long_url = true
  /\ tokenize_filter (bs "/zz9/") true true = [bs "zz9"]
  /\ ~ In (bs "zz9") (tokenize long_url)
  /\ In (bs "zz9") (tku false false long_url 0 None None)
  /\ length (tokenize long_url) = TOKENS_MAX.
Proof.
  split; [vm_compute; reflexivity|]. split; [vm_compute; reflexivity|]. split.
  - intros H. apply (proj2 (mem_str_In _ _)) in H. vm_compute in H. discriminate.
  - split; [apply (proj1 (mem_str_In _ _)); vm_compute; reflexivity|vm_compute; reflexivity].
Qed.
