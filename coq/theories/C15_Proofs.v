(* C15_Proofs.v — get_csp (model of Blocker::get_csp_directives) refines the set description:
   union of the matching csp directives minus the excepted ones, nothing under a blanket
   exception, nothing for non-document types; no duplicates; independent of rule order. *)
From Coq Require Import Permutation.
From Adb Require Import Base BaseProofs Generated C15_Model.
From Coq Require Import ZifyBool ZifyNat ZifyN.

(* ---------------------------------------------------------------- sets as lists *)
Lemma set_insert_In x s y : In y (set_insert x s) <-> y = x \/ In y s.
Proof.
  unfold set_insert. destruct (mem_str x s) eqn:E.
  - apply mem_str_In in E. split; [auto|]. intros [->|H]; auto.
  - rewrite in_app_iff. cbn. split.
    + intros [H|[H|[]]]; auto.
    + intros [->|H]; auto.
Qed.

Lemma set_insert_NoDup x s : NoDup s -> NoDup (set_insert x s).
Proof.
  intros H. unfold set_insert. destruct (mem_str x s) eqn:E; [exact H|].
  assert (Hn : ~ In x s).
  { intros G. apply mem_str_In in G. congruence. }
  apply (Permutation_NoDup (Permutation_cons_append s x)). constructor; assumption.
Qed.

Lemma set_difference_In en dis d :
  In d (set_difference en dis) <-> In d en /\ ~ In d dis.
Proof.
  unfold set_difference. rewrite filter_In. rewrite negb_true_iff.
  split; intros [H1 H2]; split; auto.
  - intros G. apply mem_str_In in G. congruence.
  - destruct (mem_str d dis) eqn:E; [|reflexivity]. apply mem_str_In in E. contradiction.
Qed.

Lemma set_difference_NoDup en dis : NoDup en -> NoDup (set_difference en dis).
Proof. intros H. unfold set_difference. apply NoDup_filter. exact H. Qed.

(* ---------------------------------------------------------------- L0 vocabulary *)
Lemma enabled_In m d :
  In d (enabled m) <-> exists r, In r m /\ csp_exception r = false /\ csp_directive r = Some d.
Proof.
  unfold enabled. rewrite in_flat_map. split.
  - intros (r & Hr & Hd). exists r. destruct (csp_exception r); [destruct Hd|].
    destruct (csp_directive r) as [e|]; [|destruct Hd]. destruct Hd as [<-|[]]. auto.
  - intros (r & Hr & He & Hd). exists r. rewrite He, Hd. cbn. auto.
Qed.

Lemma disabled_In m d :
  In d (disabled m) <-> exists r, In r m /\ csp_exception r = true /\ csp_directive r = Some d.
Proof.
  unfold disabled. rewrite in_flat_map. split.
  - intros (r & Hr & Hd). exists r. destruct (csp_exception r); [|destruct Hd].
    destruct (csp_directive r) as [e|]; [|destruct Hd]. destruct Hd as [<-|[]]. auto.
  - intros (r & Hr & He & Hd). exists r. rewrite He, Hd. cbn. auto.
Qed.

Lemma blanket_true m :
  blanket m = true <-> exists r, In r m /\ csp_exception r = true /\ csp_directive r = None.
Proof.
  unfold blanket. rewrite existsb_exists. split.
  - intros (r & Hr & H). exists r. apply andb_true_iff in H as [H1 H2].
    destruct (csp_directive r); [discriminate|]. auto.
  - intros (r & Hr & He & Hd). exists r. rewrite He, Hd. auto.
Qed.

(* ---------------------------------------------------------------- the loop *)
Lemma csp_loop_none fs : forall dis en,
  csp_loop fs dis en = None <-> blanket fs = true.
Proof.
  induction fs as [|f r IH]; intros dis en; cbn [csp_loop blanket existsb].
  - split; discriminate.
  - destruct (csp_exception f), (csp_directive f) as [d|]; cbn [andb orb].
    + apply IH.
    + split; reflexivity.
    + apply IH.
    + apply IH.
Qed.

Lemma csp_loop_some fs : forall dis en dis' en',
  csp_loop fs dis en = Some (dis', en') ->
  (forall d, In d dis' <-> In d dis \/ In d (disabled fs)) /\
  (forall d, In d en' <-> In d en \/ In d (enabled fs)) /\
  (NoDup dis -> NoDup dis') /\ (NoDup en -> NoDup en').
Proof.
  induction fs as [|f r IH]; intros dis en dis' en' H; cbn [csp_loop] in H.
  - inversion H; subst. unfold enabled, disabled. cbn [flat_map In]. repeat split; tauto.
  - unfold enabled, disabled. cbn [flat_map]. fold (enabled r). fold (disabled r).
    destruct (csp_exception f), (csp_directive f) as [d0|]; try discriminate.
    + destruct (IH _ _ _ _ H) as (A & B & C & D). repeat split.
      * intros G. apply A in G. rewrite set_insert_In in G. cbn. destruct G as [[G|G]|G]; subst; auto.
      * intros G. apply A. rewrite set_insert_In. cbn in G. destruct G as [G|[G|G]]; subst; auto.
      * intros G. apply B in G. cbn. exact G.
      * intros G. apply B. cbn in G. exact G.
      * intros G. apply C. apply set_insert_NoDup. exact G.
      * exact D.
    + destruct (IH _ _ _ _ H) as (A & B & C & D). repeat split.
      * intros G. apply A in G. cbn. exact G.
      * intros G. apply A. cbn in G. exact G.
      * intros G. apply B in G. rewrite set_insert_In in G. cbn. destruct G as [[G|G]|G]; subst; auto.
      * intros G. apply B. rewrite set_insert_In. cbn in G. destruct G as [G|[G|G]]; subst; auto.
      * exact C.
      * intros G. apply D. apply set_insert_NoDup. exact G.
    + destruct (IH _ _ _ _ H) as (A & B & C & D). cbn. repeat split; auto; apply A || apply B.
Qed.

(* ---------------------------------------------------------------- main characterisation *)
Lemma get_csp_unfold m :
  get_csp true m =
  match csp_loop m [] [] with
  | None => None
  | Some (dis, en) => match set_difference en dis with [] => None | ds => Some ds end
  end.
Proof.
  unfold get_csp. cbn [negb]. destruct m as [|f r]; [reflexivity|reflexivity].
Qed.

Theorem csp_some doc m ds :
  get_csp doc m = Some ds ->
  doc = true /\ blanket m = false /\ NoDup ds /\ ds <> [] /\ forall d, In d ds <-> in_policy m d.
Proof.
  intros H. destruct doc; [|discriminate]. rewrite get_csp_unfold in H.
  destruct (csp_loop m [] []) as [[dis en]|] eqn:L; [|discriminate].
  assert (Hb : blanket m = false).
  { destruct (blanket m) eqn:B; [|reflexivity]. apply (csp_loop_none m [] []) in B. congruence. }
  destruct (csp_loop_some _ _ _ _ _ L) as (A & B & C & D).
  assert (Hds : ds = set_difference en dis).
  { destruct (set_difference en dis); [discriminate|]. congruence. }
  split; [reflexivity|]. split; [exact Hb|]. split; [|split].
  - subst ds. apply set_difference_NoDup. apply D. constructor.
  - intros ->. destruct (set_difference en dis); discriminate.
  - intros d. subst ds. unfold in_policy. rewrite set_difference_In, A, B. cbn. tauto.
Qed.

Theorem csp_none_iff doc m :
  get_csp doc m = None <->
  doc = false \/ blanket m = true \/ (forall d, ~ in_policy m d).
Proof.
  split.
  - intros H. destruct doc; [|auto]. right. rewrite get_csp_unfold in H.
    destruct (csp_loop m [] []) as [[dis en]|] eqn:L.
    + right. destruct (csp_loop_some _ _ _ _ _ L) as (A & B & _ & _).
      intros d [G1 G2].
      assert (Hin : In d (set_difference en dis)).
      { rewrite set_difference_In, A, B. cbn. tauto. }
      destruct (set_difference en dis); [destruct Hin|discriminate].
    + left. apply (csp_loop_none m [] []). exact L.
  - intros [->|[H|H]]; [reflexivity| |].
    + destruct doc; [|reflexivity]. rewrite get_csp_unfold.
      apply (csp_loop_none m [] []) in H. rewrite H. reflexivity.
    + destruct (get_csp doc m) as [ds|] eqn:E; [|reflexivity]. exfalso.
      destruct (csp_some _ _ _ E) as (_ & _ & _ & Hne & Hin).
      destruct ds as [|d ds]; [congruence|]. apply (H d). apply Hin. left. reflexivity.
Qed.

Theorem csp_no_duplicates doc m ds : get_csp doc m = Some ds -> NoDup ds.
Proof. intros H. apply (csp_some _ _ _ H). Qed.

Theorem csp_non_document m : get_csp false m = None.
Proof. reflexivity. Qed.

Theorem csp_no_matching_rule doc : get_csp doc [] = None.
Proof. destruct doc; reflexivity. Qed.

Theorem csp_only_doc_or_subdoc t m :
  get_csp_for t m <> None -> t = RT_Document \/ t = RT_Subdocument.
Proof. unfold get_csp_for. destruct t; cbn; intros H; auto; congruence. Qed.

(* ---------------------------------------------------------------- order independence *)
Lemma in_policy_ext m1 m2 :
  (forall r, In r m1 <-> In r m2) -> forall d, in_policy m1 d <-> in_policy m2 d.
Proof.
  intros H d. unfold in_policy. rewrite !enabled_In, !disabled_In.
  split; intros [(r & Hr & He & Hd) Hn]; (split; [exists r; repeat split; auto; apply H; exact Hr|]);
    intros (r' & Hr' & He' & Hd'); apply Hn; exists r'; repeat split; auto; apply H; exact Hr'.
Qed.

Lemma blanket_ext m1 m2 :
  (forall r, In r m1 <-> In r m2) -> blanket m1 = blanket m2.
Proof.
  intros H. destruct (blanket m1) eqn:B1, (blanket m2) eqn:B2; try reflexivity; exfalso.
  - apply blanket_true in B1 as (r & Hr & He & Hd).
    assert (B : blanket m2 = true) by (apply blanket_true; exists r; repeat split; auto; apply H; exact Hr).
    congruence.
  - apply blanket_true in B2 as (r & Hr & He & Hd).
    assert (B : blanket m1 = true) by (apply blanket_true; exists r; repeat split; auto; apply H; exact Hr).
    congruence.
Qed.

(* The answer depends only on the SET of matching rules: neither the order in which check_all
   delivers them nor repeated deliveries of one rule matter. *)
Theorem csp_set_only doc m1 m2 :
  (forall r, In r m1 <-> In r m2) -> same_policy (get_csp doc m1) (get_csp doc m2).
Proof.
  intros H. pose proof (in_policy_ext _ _ H) as HP. pose proof (blanket_ext _ _ H) as HB.
  unfold same_policy.
  destruct (get_csp doc m1) as [a|] eqn:E1, (get_csp doc m2) as [b|] eqn:E2.
  - destruct (csp_some _ _ _ E1) as (_ & _ & Na & _ & Ia).
    destruct (csp_some _ _ _ E2) as (_ & _ & Nb & _ & Ib).
    apply NoDup_Permutation; auto. intros d. rewrite Ia, Ib. apply HP.
  - apply csp_none_iff in E2. destruct (csp_some _ _ _ E1) as (D & B & _ & Hne & Ia).
    destruct E2 as [E2|[E2|E2]]; [congruence|congruence|].
    destruct a as [|d a]; [congruence|]. apply (E2 d). apply HP. apply Ia. left. reflexivity.
  - apply csp_none_iff in E1. destruct (csp_some _ _ _ E2) as (D & B & _ & Hne & Ib).
    destruct E1 as [E1|[E1|E1]]; [congruence|congruence|].
    destruct b as [|d b]; [congruence|]. apply (E1 d). apply HP. apply Ib. left. reflexivity.
  - exact I.
Qed.

Theorem csp_order_independent doc m1 m2 :
  Permutation m1 m2 -> same_policy (get_csp doc m1) (get_csp doc m2).
Proof.
  intros P. apply csp_set_only. intros r. split; intros G.
  - eapply Permutation_in; eauto.
  - eapply Permutation_in; [apply Permutation_sym|]; eauto.
Qed.

(* ---------------------------------------------------------------- the merged string *)
Lemma split_on_notin c x : ~ In c x -> split_on c x = [x].
Proof.
  induction x as [|y x IH]; cbn; intros H; [reflexivity|].
  destruct (N.eqb y c) eqn:E; [apply N.eqb_eq in E; exfalso; apply H; auto|].
  rewrite IH by (intros G; apply H; auto). reflexivity.
Qed.

Lemma split_on_app_sep c x t : ~ In c x -> split_on c (x ++ c :: t) = x :: split_on c t.
Proof.
  induction x as [|y x IH]; cbn [app split_on]; intros H.
  - rewrite N.eqb_refl. reflexivity.
  - destruct (N.eqb y c) eqn:E; [apply N.eqb_eq in E; exfalso; apply H; left; auto|].
    rewrite IH by (intros G; apply H; right; exact G). reflexivity.
Qed.

Lemma split_join c l :
  l <> [] -> (forall x, In x l -> ~ In c x) -> split_on c (join_with [c] l) = l.
Proof.
  induction l as [|x l IH]; intros Hne Hc; [congruence|].
  destruct l as [|y l].
  - cbn. apply split_on_notin. apply Hc. left. reflexivity.
  - change (join_with [c] (x :: y :: l)) with (x ++ [c] ++ join_with [c] (y :: l)).
    cbn [app]. rewrite split_on_app_sep by (apply Hc; left; reflexivity).
    rewrite IH; [reflexivity|discriminate|]. intros z Hz. apply Hc. right. exact Hz.
Qed.

Section Order.
  Variable order : list str -> list str.
  Hypothesis order_perm : forall l, Permutation (order l) l.

  (* The comma-separated items of the returned string are exactly the policy set, each once. *)
  Theorem csp_string_items doc m s :
    (forall d, In d (enabled m) -> ~ In COMMA d) ->
    get_csp_string order doc m = Some s ->
    NoDup (split_on COMMA s) /\ forall d, In d (split_on COMMA s) <-> in_policy m d.
  Proof.
    intros Hc H. unfold get_csp_string in H.
    destruct (get_csp doc m) as [ds|] eqn:E; [|discriminate]. inversion H; subst s; clear H.
    destruct (csp_some _ _ _ E) as (_ & _ & Nd & Hne & Hin).
    pose proof (order_perm ds) as P.
    rewrite split_join.
    - split.
      + apply (Permutation_NoDup (Permutation_sym P)). exact Nd.
      + intros d. rewrite <- Hin. split; intros G.
        * eapply Permutation_in; eauto.
        * eapply Permutation_in; [apply Permutation_sym|]; eauto.
    - intros G. rewrite G in P. apply Permutation_nil in P. exact (Hne P).
    - intros x Hx. apply Hc. apply (Permutation_in _ P) in Hx. apply Hin in Hx. apply Hx.
  Qed.

  Theorem csp_string_none_iff doc m :
    get_csp_string order doc m = None <->
    doc = false \/ blanket m = true \/ (forall d, ~ in_policy m d).
  Proof.
    unfold get_csp_string. rewrite <- csp_none_iff.
    destruct (get_csp doc m); split; intros H; congruence.
  Qed.
End Order.

(* ---------------------------------------------------------------- type mask of a csp rule *)
(* finite: the 17 request types *)
Theorem csp_mask_allows_doc_subdoc t :
  doc_or_subdoc t = true -> check_cpt_allowed csp_type_mask t = true.
Proof. destruct t; cbn [doc_or_subdoc]; intros H; try discriminate; vm_compute; reflexivity. Qed.

(* The mask does NOT confine csp rules to document types: every network type passes, so the
   request-type test of get_csp_directives is the only gate. *)
Theorem csp_mask_allows t :
  check_cpt_allowed csp_type_mask t = negb (N.eqb (mask_of_request_type t) M_UNMATCHED).
Proof. destruct t; vm_compute; reflexivity. Qed.

(* ---------------------------------------------------------------- examples (hypotheses are satisfiable) *)
Example ex_csp_some :
  get_csp true [ mk_csp false (Some (bs "script-src 'none'")); mk_csp false (Some (bs "img-src *"));
                 mk_csp true (Some (bs "img-src *")); mk_csp false (Some (bs "script-src 'none'"));
                 mk_csp false None ]
  = Some [bs "script-src 'none'"].
Proof. vm_compute. reflexivity. Qed.

Example ex_csp_blanket :
  get_csp true [ mk_csp false (Some (bs "a")); mk_csp true None ] = None
  /\ blanket [ mk_csp false (Some (bs "a")); mk_csp true None ] = true.
Proof. vm_compute. split; reflexivity. Qed.

Example ex_csp_order :
  same_policy (get_csp true [mk_csp false (Some (bs "a")); mk_csp false (Some (bs "b"))])
              (get_csp true [mk_csp false (Some (bs "b")); mk_csp false (Some (bs "a")); mk_csp false (Some (bs "b"))]).
Proof.
  apply csp_set_only. intros r. cbn. tauto.
Qed.

Example ex_csp_string :
  get_csp_string (@rev str) true [mk_csp false (Some (bs "a")); mk_csp false (Some (bs "b"))] = Some (bs "b,a").
Proof. vm_compute. reflexivity. Qed.
