(* Props_C13.v — pinned statements for property C13 (the redirect of a verdict is the data-URL of
   the best permitted matching redirect resource).  Only statements, `exact`, Print Assumptions. *)
From Coq Require Import ZArith.
From Adb Require Import Base BaseProofs Generated C13_Model C13_Proofs.

(* ---- translated tables (src/resources/mod.rs) against the hand-written L0 tables ---- *)
Theorem C13_supports_redirect_table : forall k, supports_redirect k = l0_redirectable k.
Proof. exact supports_redirect_table. Qed.
Print Assumptions C13_supports_redirect_table.

Theorem C13_mime_names_agree : forall m, l0_name_of m l0_mime_names = Some (mime_to_string m).
Proof. exact mime_names_agree. Qed.
Print Assumptions C13_mime_names_agree.

Theorem C13_mime_roundtrip : forall m, mime_from_string (mime_to_string m) = m.
Proof. exact mime_roundtrip. Qed.
Print Assumptions C13_mime_roundtrip.

Theorem C13_mime_from_string_inverse : forall s m,
  table_lookup s mime_from_string_table = Some m -> mime_to_string m = s.
Proof. exact mime_from_string_inverse. Qed.
Print Assumptions C13_mime_from_string_inverse.

(* ---- blocking side: category assignment of Blocker::new ---- *)
(* redirect-rule never puts the rule into a list that can block — except together with
   `important` (carved out; see C13_redirect_rule_important_blocks_refuted). *)
Theorem C13_redirect_rule_never_blocks : forall s,
  is_redirect s = true -> also_block_redirect s = false -> is_important s = false ->
  blocking_category (category_of s) = false.
Proof. exact redirect_rule_never_blocks. Qed.
Print Assumptions C13_redirect_rule_never_blocks.

Theorem C13_redirect_rule_important_blocks_refuted :
  exists s, is_redirect s = true /\ also_block_redirect s = false /\ is_exception s = false /\
            blocking_category (category_of s) = true.
Proof. exact redirect_rule_important_blocks_refuted. Qed.
Print Assumptions C13_redirect_rule_important_blocks_refuted.

(* a redirect= rule (one modifier per rule, so neither csp nor removeparam) that is not an
   exception and not generichide sits in `redirects` AND in a blocking list *)
Theorem C13_redirect_blocks : forall s,
  is_redirect s = true -> also_block_redirect s = true ->
  is_csp s = false -> is_removeparam s = false -> is_generic_hide s = false -> is_exception s = false ->
  blocking_category (category_of s) = true /\ in_redirects s = true /\
  (category_of s = CatImportants \/ category_of s = CatFilters).
Proof. exact redirect_blocks. Qed.
Print Assumptions C13_redirect_blocks.

Theorem C13_redirect_option_flags : forall m,
  is_redirect (mk_shape (mask_redirect_option m) false) = true /\
  also_block_redirect (mk_shape (mask_redirect_option m) false) = true.
Proof. exact redirect_option_flags. Qed.
Print Assumptions C13_redirect_option_flags.

Theorem C13_redirect_rule_option_flags : forall m tagged,
  flag m M_ALSO_BLOCK_REDIRECT = false ->
  is_redirect (mk_shape (mask_redirect_rule_option m) tagged) = true /\
  also_block_redirect (mk_shape (mask_redirect_rule_option m) tagged) = false /\
  is_important (mk_shape (mask_redirect_rule_option m) tagged) = flag m M_IS_IMPORTANT.
Proof. exact redirect_rule_option_flags. Qed.
Print Assumptions C13_redirect_rule_option_flags.

(* ---- the redirect does not read the blocking side ---- *)
Theorem C13_redirect_independent_of_block : forall sup b1 b2 st m,
  v_redirect (check_verdict sup b1 st m) = v_redirect (check_verdict sup b2 st m).
Proof. exact redirect_independent_of_block. Qed.
Print Assumptions C13_redirect_independent_of_block.
