(* Props_C13.v — pinned statements for property C13 (the redirect of a verdict is the data-URL of
   the best permitted matching redirect resource).  Only statements, `exact`, Print Assumptions. *)
From Coq Require Import ZArith.
From Adb Require Import Base BaseProofs Generated C13_Model C13_Proofs.

(* ---- translated tables (src/resources/mod.rs) against the hand-written L0 tables ---- *)
Theorem C13_supports_redirect_table : forall k, supports_redirect k = l0_redirectable k.
Proof. exact supports_redirect_table. Qed.
Print Assumptions C13_supports_redirect_table.

Theorem C13_mime_names_agree : forall m, l0_name_of m l0_mime_names = Some (mime_to_string m).
Proof. exact mime_names_agree. Qed.
Print Assumptions C13_mime_names_agree.

Theorem C13_mime_roundtrip : forall m, mime_from_string (mime_to_string m) = m.
Proof. exact mime_roundtrip. Qed.
Print Assumptions C13_mime_roundtrip.

Theorem C13_mime_from_string_inverse : forall s m,
  table_lookup s mime_from_string_table = Some m -> mime_to_string m = s.
Proof. exact mime_from_string_inverse. Qed.
Print Assumptions C13_mime_from_string_inverse.

(* ---- blocking side: category assignment of Blocker::new ---- *)
(* redirect-rule never puts the rule into a list that can block, whatever else the rule carries
   (also with `important`: finding repaired in /repo b0d8343) *)
Theorem C13_redirect_rule_never_blocks : forall s,
  is_redirect s = true -> also_block_redirect s = false ->
  blocking_category (category_of s) = false.
Proof. exact redirect_rule_never_blocks. Qed.
Print Assumptions C13_redirect_rule_never_blocks.

(* ... a plain redirect-rule rule is stored in `redirects` only *)
Theorem C13_redirect_rule_goes_nowhere : forall s,
  is_redirect s = true -> also_block_redirect s = false ->
  is_csp s = false -> is_removeparam s = false -> is_generic_hide s = false ->
  is_exception s = false ->
  category_of s = CatNowhere /\ in_redirects s = true.
Proof. exact redirect_rule_goes_nowhere. Qed.
Print Assumptions C13_redirect_rule_goes_nowhere.

(* a redirect= rule (one modifier per rule, so neither csp nor removeparam) that is not an
   exception and not generichide sits in `redirects` AND in a blocking list *)
Theorem C13_redirect_blocks : forall s,
  is_redirect s = true -> also_block_redirect s = true ->
  is_csp s = false -> is_removeparam s = false -> is_generic_hide s = false -> is_exception s = false ->
  blocking_category (category_of s) = true /\ in_redirects s = true /\
  (category_of s = CatImportants \/ category_of s = CatFilters).
Proof. exact redirect_blocks. Qed.
Print Assumptions C13_redirect_blocks.

Theorem C13_redirect_option_flags : forall m,
  is_redirect (mk_shape (mask_redirect_option m) false) = true /\
  also_block_redirect (mk_shape (mask_redirect_option m) false) = true.
Proof. exact redirect_option_flags. Qed.
Print Assumptions C13_redirect_option_flags.

Theorem C13_redirect_rule_option_flags : forall m tagged,
  flag m M_ALSO_BLOCK_REDIRECT = false ->
  is_redirect (mk_shape (mask_redirect_rule_option m) tagged) = true /\
  also_block_redirect (mk_shape (mask_redirect_rule_option m) tagged) = false /\
  is_important (mk_shape (mask_redirect_rule_option m) tagged) = flag m M_IS_IMPORTANT.
Proof. exact redirect_rule_option_flags. Qed.
Print Assumptions C13_redirect_rule_option_flags.

(* ---- tags: the lists handed to the model are the UNTAGGED matching redirect rules ---- *)
Theorem C13_untagged_delivered : forall matches, delivered matches None NO_TAGS = matches.
Proof. exact untagged_delivered. Qed.
Print Assumptions C13_untagged_delivered.

(* carved-out class (known finding): a redirect rule with an enabled tag is never delivered *)
Theorem C13_tagged_redirect_inert_refuted :
  exists t enabled, In t enabled /\ delivered true (Some t) NO_TAGS = false.
Proof. exact tagged_redirect_inert_refuted. Qed.
Print Assumptions C13_tagged_redirect_inert_refuted.

(* ---- the redirect does not read the blocking side ---- *)
Theorem C13_redirect_independent_of_block : forall sup b1 b2 st m,
  v_redirect (check_verdict sup b1 st m) = v_redirect (check_verdict sup b2 st m).
Proof. exact redirect_independent_of_block. Qed.
Print Assumptions C13_redirect_independent_of_block.

Theorem C13_unsupported_request_no_redirect : forall b st m,
  v_redirect (check_verdict false b st m) = None /\ v_matched (check_verdict false b st m) = false.
Proof. exact unsupported_request_no_redirect. Qed.
Print Assumptions C13_unsupported_request_no_redirect.

(* ---- priority parsing: Rust's i32 grammar with the range modelled ---- *)
(* parse_i32 accepts exactly: one optional sign, at least one ASCII digit, nothing else, value
   within [-2^31, 2^31-1]; and returns that value *)
Theorem C13_parse_i32_spec : forall s z, parse_i32 s = Some z <-> i32_text s z.
Proof. exact parse_i32_spec. Qed.
Print Assumptions C13_parse_i32_spec.

Theorem C13_priority_no_colon : forall s, ~ In COLON s -> split_redirect_priority s = (s, 0%Z).
Proof. exact split_no_colon. Qed.
Print Assumptions C13_priority_no_colon.

Theorem C13_priority_well_formed : forall name suf p,
  ~ In COLON suf -> i32_text suf p -> split_redirect_priority (name ++ COLON :: suf) = (name, p).
Proof. exact split_with_priority. Qed.
Print Assumptions C13_priority_well_formed.

(* malformed / empty / out-of-range text after the last ':' : whole string is the name, priority 0 *)
Theorem C13_priority_malformed : forall name suf,
  ~ In COLON suf -> (forall p, ~ i32_text suf p) ->
  split_redirect_priority (name ++ COLON :: suf) = (name ++ COLON :: suf, 0%Z).
Proof. exact split_malformed. Qed.
Print Assumptions C13_priority_malformed.

Theorem C13_priority_parse : forall s name p,
  split_redirect_priority s = (name, p) ->
  (name = s /\ p = 0%Z) \/
  (exists suf, s = name ++ COLON :: suf /\ ~ In COLON suf /\ i32_text suf p).
Proof. exact split_spec. Qed.
Print Assumptions C13_priority_parse.

Theorem C13_priority_range : forall s,
  (I32_MIN <= snd (split_redirect_priority s) <= I32_MAX)%Z.
Proof. exact split_priority_range. Qed.
Print Assumptions C13_priority_range.

(* ---- choice of the resource ---- *)
(* a matching exception cancels by resource name, whatever priority suffix either side carries
   (finding F14, fixed in /repo) *)
Theorem C13_exception_by_name : forall m name,
  In name (exception_names m) <-> excepted m name.
Proof. exact exception_by_name. Qed.
Print Assumptions C13_exception_by_name.

(* the chosen name is offered by a matching redirect / redirect-rule option, is not excepted, and
   no non-excepted offer has a higher priority (membership in the arg-max set; among equal
   priorities the delivery order of check_all decides) *)
Theorem C13_redirect_choice : forall m name,
  pick_redirect m = Some name ->
  exists p, candidate m name p /\ forall n' p', candidate m n' p' -> (p' <= p)%Z.
Proof. exact pick_redirect_some. Qed.
Print Assumptions C13_redirect_choice.

Theorem C13_redirect_choice_none : forall m,
  pick_redirect m = None <-> forall name p, ~ candidate m name p.
Proof. exact pick_redirect_none. Qed.
Print Assumptions C13_redirect_choice_none.

Theorem C13_redirect_choice_unique : forall m name p,
  candidate m name p ->
  (forall n' p', candidate m n' p' -> n' = name \/ (p' < p)%Z) ->
  pick_redirect m = Some name.
Proof. exact pick_redirect_unique. Qed.
Print Assumptions C13_redirect_choice_unique.

(* ---- resource gate and the full statement ---- *)
Theorem C13_resource_gate : forall st ident url,
  get_redirect_resource st ident = Some url <->
  exists r m, loaded st ident r /\ r_permission r = 0%N /\ r_kind r = Kind_Mime m /\
              l0_redirectable (r_kind r) = true /\ url = data_url m (r_content r).
Proof. exact resource_gate. Qed.
Print Assumptions C13_resource_gate.

Theorem C13_redirect_spec : forall st m url,
  redirect_of st m = Some url <->
  exists name r mime,
    pick_redirect m = Some name /\ loaded st name r /\ r_permission r = 0%N /\
    r_kind r = Kind_Mime mime /\ l0_redirectable (r_kind r) = true /\
    url = data_url mime (r_content r).
Proof. exact redirect_spec. Qed.
Print Assumptions C13_redirect_spec.

Theorem C13_redirect_none : forall st m,
  redirect_of st m = None <->
  pick_redirect m = None \/
  exists name, pick_redirect m = Some name /\
    forall r, loaded st name r -> r_permission r <> 0%N \/ l0_redirectable (r_kind r) = false.
Proof. exact redirect_none. Qed.
Print Assumptions C13_redirect_none.

Theorem C13_redirect_of_verdict : forall b st m,
  v_redirect (check_verdict true b st m) = redirect_of st m.
Proof. exact redirect_of_verdict. Qed.
Print Assumptions C13_redirect_of_verdict.

(* "loaded" for a store built by use_resources: the answer is one of the resources handed in and
   it owns the identifier as name or alias *)
Theorem C13_loaded_from_resources : forall rs ident r,
  loaded (from_resources rs) ident r ->
  In r rs /\ (r_name r = ident \/ In ident (r_aliases r)).
Proof. exact loaded_from_resources. Qed.
Print Assumptions C13_loaded_from_resources.

(* ------------------------------------------------------------------ the choice in full (since
   /repo 8ebf406): highest priority, and among equal priorities the resource name that sorts first
   (bytewise); hence a function of the SET of matching redirect rules, independent of the order in
   which the index delivers them (batch or incremental construction, optimised or not) *)
Theorem C13_redirect_choice_best : forall m name,
  pick_redirect m = Some name <->
  exists p, candidate m name p /\ forall n' p', candidate m n' p' -> good (name, p) (n', p').
Proof. exact pick_redirect_best. Qed.
Print Assumptions C13_redirect_choice_best.

Theorem C13_redirect_choice_set_only : forall m1 m2,
  (forall r, In r m1 <-> In r m2) -> pick_redirect m1 = pick_redirect m2.
Proof. exact pick_redirect_set_only. Qed.
Print Assumptions C13_redirect_choice_set_only.

Theorem C13_offer_order_total : forall a b : str * Z, good a b \/ good b a.
Proof.
  intros [an ap] [bn bp]. unfold good. cbn [fst snd].
  destruct (Z.lt_trichotomy ap bp) as [H|[H|H]]; [right; left; exact H| |left; left; exact H].
  destruct (str_leb_total an bn) as [L|L]; [left|right]; right; split; auto.
Qed.
Print Assumptions C13_offer_order_total.

(* ------------------------------------------------------------------ translator tie: the replacement
   condition of the redirect loop of check_parameterised as extracted on this run
   (Generated.CheckGen.redirect_replace_cond) is the one of C13_Model.pick_loop: higher priority,
   or equal priority and a resource name that sorts first *)
From Adb Require Struct_Check_Proofs.
Theorem C13_src_redirect_replace_is_model : forall exceptions f r r1 p1 s,
  rr_exception f = false -> rr_option f = Some s ->
  mem_str (fst (split_redirect_priority s)) exceptions = false ->
  pick_loop exceptions (f :: r) (Some (r1, p1))
  = if Struct_Check_Proofs.qeval (Struct_Check_Proofs.redirect_env (split_redirect_priority s) r1 p1) CheckGen.redirect_replace_cond
    then pick_loop exceptions r (Some (split_redirect_priority s))
    else pick_loop exceptions r (Some (r1, p1)).
Proof. exact Struct_Check_Proofs.redirect_replace_is_model. Qed.
Print Assumptions C13_src_redirect_replace_is_model.

(* ---- the redirect side of the resource store, re-read from src/resources/resource_storage.rs on
   every run (tools/gen_fragments/c13_storage_structure.py -> Generated.Storage13Gen;
   c18_deps_structure.py -> Generated.AddResGen): the gates of get_redirect_resource in source order
   ARE the model's, a resource that requires any permission is never served, and the statements of
   add_resource ARE C13_Model.add_resource (a rejected resource changes nothing) ---- *)
From Adb Require Struct_Storage_Proofs.
Theorem C13_src_get_redirect_resource_is_model : forall (st : storage) (ident : str),
  Struct_Storage_Proofs.interp_get_redirect st ident = get_redirect_resource st ident.
Proof. exact Struct_Storage_Proofs.interp_get_redirect_is_model. Qed.
Print Assumptions C13_src_get_redirect_resource_is_model.

Theorem C13_src_permissioned_resource_is_never_served : forall (st : storage) (ident : str) (r : resource),
  get_internal_resource st ident = Some r -> N.eqb (r_permission r) 0 = false ->
  Struct_Storage_Proofs.interp_get_redirect st ident = None.
Proof. exact Struct_Storage_Proofs.permissioned_resource_is_never_served. Qed.
Print Assumptions C13_src_permissioned_resource_is_never_served.

Theorem C13_src_add_resource_is_model : forall (st : storage) (r : resource),
  exists rejected, Struct_Storage_Proofs.interp_add13 st r = Some (add_resource st r, rejected).
Proof. exact Struct_Storage_Proofs.interp_add13_is_model. Qed.
Print Assumptions C13_src_add_resource_is_model.
