(* C02_Proofs.v — proofs for property C02 (pattern semantics). *)
From Adb Require Import Base BaseProofs Generated C02_Model.
From Coq Require Import ZifyBool ZifyNat ZifyN Btauto.

Local Open Scope nat_scope.

(* ====================================================================================== *)
(* generic list / string lemmas                                                            *)
(* ====================================================================================== *)

Lemma nullb_true {A} (l : list A) : nullb l = true -> l = [].
Proof. destruct l; [reflexivity|discriminate]. Qed.

Lemma prefixb_app p t : prefixb p (p ++ t) = true.
Proof. induction p as [|x p IH]; cbn; [reflexivity|]. rewrite N.eqb_refl. exact IH. Qed.

Lemma prefixb_spec p s : prefixb p s = true <-> exists t, s = p ++ t.
Proof.
  split.
  - revert s; induction p as [|x p IH]; intros s H; [exists s; reflexivity|].
    destruct s as [|y s]; cbn in H; [discriminate|].
    apply andb_true_iff in H as [H1 H2]. apply N.eqb_eq in H1. subst y.
    destruct (IH s H2) as [t ->]. exists t. reflexivity.
  - intros [t ->]. apply prefixb_app.
Qed.

Lemma prefixb_length p s : prefixb p s = true -> length p <= length s.
Proof. intros H. apply prefixb_spec in H as [t ->]. rewrite app_length. lia. Qed.

Lemma prefixb_short p s : length s < length p -> prefixb p s = false.
Proof.
  intros H. destruct (prefixb p s) eqn:E; [|reflexivity]. apply prefixb_length in E. lia.
Qed.

Lemma drop_add {A} a b (l : list A) : drop (a + b) l = drop b (drop a l).
Proof.
  unfold drop. revert l; induction a as [|a IH]; intros l; [reflexivity|].
  destruct l as [|x l]; cbn [Nat.add skipn]; [destruct b; reflexivity|apply IH].
Qed.

Lemma drop_length {A} n (l : list A) : length (drop n l) = length l - n.
Proof. unfold drop. apply skipn_length. Qed.

Lemma drop_all' {A} n (l : list A) : length l <= n -> drop n l = [].
Proof. intros H. unfold drop. apply skipn_all2. exact H. Qed.

Lemma find_sub_Some p s j :
  find_sub p s = Some j ->
  prefixb p (drop j s) = true /\ forall i, i < j -> prefixb p (drop i s) = false.
Proof.
  revert j; induction s as [|x s IH]; intros j H.
  - cbn in H. destruct (prefixb p []) eqn:E; [|discriminate]. inversion H; subst.
    split; [exact E|]. intros i Hi. lia.
  - cbn [find_sub] in H. destruct (prefixb p (x :: s)) eqn:E.
    + inversion H; subst. split; [exact E|]. intros i Hi. lia.
    + destruct (find_sub p s) as [k|] eqn:F; [|discriminate]. inversion H; subst.
      destruct (IH k eq_refl) as [A B]. split; [exact A|].
      intros i Hi. destruct i as [|i]; [exact E|]. apply B. lia.
Qed.

Lemma find_sub_None p s : find_sub p s = None -> forall i, prefixb p (drop i s) = false.
Proof.
  induction s as [|x s IH]; intros H i.
  - cbn in H. destruct (prefixb p []) eqn:E; [discriminate|]. destruct i; exact E.
  - cbn [find_sub] in H. destruct (prefixb p (x :: s)) eqn:E; [discriminate|].
    destruct (find_sub p s) as [k|] eqn:F; [discriminate|].
    destruct i as [|i]; [exact E|]. apply IH. reflexivity.
Qed.

Lemma find_sub_first p s j :
  prefixb p (drop j s) = true -> (forall i, i < j -> prefixb p (drop i s) = false) ->
  find_sub p s = Some j.
Proof.
  intros A B. destruct (find_sub p s) as [k|] eqn:F.
  - destruct (find_sub_Some _ _ _ F) as [A' B'].
    destruct (Nat.lt_trichotomy k j) as [L|[L|L]]; [|congruence|].
    + rewrite (B k L) in A'. discriminate.
    + rewrite (B' j L) in A. discriminate.
  - rewrite (find_sub_None _ _ F j) in A. discriminate.
Qed.

Lemma find_all_false {A} (f : A -> bool) l : (forall x, In x l -> f x = false) -> find f l = None.
Proof.
  induction l as [|x l IH]; intros H; [reflexivity|]. cbn.
  rewrite (H x (or_introl eq_refl)). apply IH. intros y Hy. apply H. right. exact Hy.
Qed.

Lemma find_seq_skip (f : nat -> bool) j : forall a n,
  (forall i, a <= i < a + j -> f i = false) -> j <= n ->
  find f (seq a n) = find f (seq (a + j) (n - j)).
Proof.
  induction j as [|j IH]; intros a n H Hn.
  - rewrite Nat.add_0_r, Nat.sub_0_r. reflexivity.
  - destruct n as [|n]; [lia|]. cbn [seq find]. rewrite (H a) by lia.
    rewrite (IH (S a) n); [|intros i Hi; apply H; lia|lia].
    replace (S a + j) with (a + S j) by lia. reflexivity.
Qed.

Lemma find_seq_first (f : nat -> bool) n : forall a o,
  find f (seq a n) = Some o ->
  a <= o < a + n /\ f o = true /\ forall i, a <= i < o -> f i = false.
Proof.
  induction n as [|n IH]; intros a o H; [discriminate|].
  cbn [seq find] in H. destruct (f a) eqn:E.
  - inversion H; subst. split; [lia|]. split; [exact E|]. intros i Hi. lia.
  - destruct (IH (S a) o H) as (A & B & C). split; [lia|]. split; [exact B|].
    intros i Hi. destruct (Nat.eq_dec i a) as [->|Hne]; [exact E|]. apply C. lia.
Qed.

Lemma last_nth (l : str) : l <> [] -> last l 0%N = nth (length l - 1) l 0%N.
Proof.
  induction l as [|x l IH]; intros H; [congruence|].
  destruct l as [|y l]; [reflexivity|].
  change (last (x :: y :: l) 0%N) with (last (y :: l) 0%N). rewrite IH by discriminate.
  cbn [length]. replace (S (S (length l)) - 1) with (S (length l)) by lia.
  replace (S (length l) - 1) with (length l) by lia. reflexivity.
Qed.

(* ====================================================================================== *)
(* Part 1 — anchored_hostname_end                                                          *)
(* ====================================================================================== *)

Lemma anchor_atb_prefix_false h host w e i :
  prefixb h (drop i host) = false -> anchor_atb h host w e i = false.
Proof. intros H. unfold anchor_atb. rewrite H. reflexivity. Qed.

Lemma ahe_loop_spec h host w e : h <> [] -> forall fuel sf,
  S (length host) <= sf + fuel -> sf <= S (length host) ->
  ahe_loop fuel h host w e sf =
  match find (anchor_atb h host w e) (seq sf (S (length host) - sf)) with
  | Some o => Some (o + length h)
  | None => None
  end.
Proof.
  intros Hh. assert (Hlen : 1 <= length h) by (destruct h; [congruence|cbn; lia]).
  induction fuel as [|fuel IH]; intros sf Hfuel Hsf.
  - replace (S (length host) - sf) with 0 by lia. reflexivity.
  - cbn [ahe_loop]. destruct (Nat.leb (sf + length h) (length host)) eqn:Hle.
    + apply Nat.leb_le in Hle.
      destruct (find_sub h (drop sf host)) as [j|] eqn:F.
      * destruct (find_sub_Some _ _ _ F) as [A B].
        assert (Hj : sf + j + length h <= length host).
        { apply prefixb_length in A. rewrite !drop_length in A. lia. }
        rewrite (find_seq_skip _ j sf).
        2:{ intros i Hi. apply anchor_atb_prefix_false.
            replace i with (sf + (i - sf)) by lia. rewrite drop_add. apply B. lia. }
        2:{ lia. }
        replace (S (length host) - sf - j) with (S (length host - sf - j)) by lia.
        cbn [seq find].
        assert (Hat : anchor_atb h host w e (sf + j) =
                      (Nat.eqb (sf + j) 0 || head_is DOT h || N.eqb (nthb host (sf + j - 1)) DOT)
                      && (Nat.eqb (sf + j + length h) (length host)
                          || (negb e && (w || last_is DOT h || N.eqb (nthb host (sf + j + length h)) DOT)))).
        { unfold anchor_atb. rewrite drop_add, A. reflexivity. }
        rewrite Hat.
        destruct ((Nat.eqb (sf + j) 0 || head_is DOT h || N.eqb (nthb host (sf + j - 1)) DOT)
                  && (Nat.eqb (sf + j + length h) (length host)
                      || (negb e && (w || last_is DOT h || N.eqb (nthb host (sf + j + length h)) DOT)))) eqn:Hok.
        -- reflexivity.
        -- rewrite IH by lia.
           replace (S (length host) - S (sf + j)) with (length host - sf - j) by lia. reflexivity.
      * rewrite find_all_false; [reflexivity|].
        intros i Hi. apply in_seq in Hi. apply anchor_atb_prefix_false.
        replace i with (sf + (i - sf)) by lia. rewrite drop_add. apply (find_sub_None _ _ F).
    + apply Nat.leb_gt in Hle. rewrite find_all_false; [reflexivity|].
      intros i Hi. apply in_seq in Hi. apply anchor_atb_prefix_false.
      apply prefixb_short. rewrite drop_length. lia.
Qed.

(* the loop of the code finds exactly the first acceptable occurrence, for all strings *)
Theorem ahe_eq_ref h host w e :
  anchored_hostname_end h host w e = ref_anchor_end h host w e.
Proof.
  unfold anchored_hostname_end, ref_anchor_end.
  destruct h as [|x h]; [reflexivity|].
  change (Nat.eqb (length (x :: h)) 0) with false. cbn [nullb]. cbv iota.
  destruct (Nat.ltb (length host) (length (x :: h))) eqn:Hlt.
  - apply Nat.ltb_lt in Hlt. rewrite find_all_false; [reflexivity|].
    intros i Hi. apply anchor_atb_prefix_false. apply prefixb_short. rewrite drop_length. lia.
  - rewrite ahe_loop_spec; try lia; [|discriminate].
    rewrite Nat.sub_0_r. reflexivity.
Qed.

(* anchor_atb on a decomposition of the hostname *)
Lemma anchor_atb_split h pre post w e : h <> [] ->
  anchor_atb h (pre ++ h ++ post) w e (length pre) =
  (nullb pre || head_is DOT h || last_is DOT pre)
  && (nullb post || (negb e && (w || last_is DOT h || head_is DOT post))).
Proof.
  intros Hh. unfold anchor_atb.
  rewrite drop_app_length, prefixb_app. cbn [andb].
  f_equal.
  - destruct pre as [|x pre]; [reflexivity|].
    change (Nat.eqb (length (x :: pre)) 0) with false. cbn [nullb orb].
    f_equal. unfold last_is, nthb. rewrite last_nth by discriminate.
    rewrite app_nth1 by (cbn [length]; lia). reflexivity.
  - assert (Hn : Nat.eqb (length pre + length h) (length (pre ++ h ++ post)) = nullb post).
    { rewrite !app_length. destruct post; cbn [length nullb]; lia. }
    rewrite Hn. f_equal. f_equal. f_equal. f_equal.
    unfold nthb. rewrite app_nth2 by lia. rewrite app_nth2 by lia.
    replace (length pre + length h - length pre - length h) with 0 by lia.
    destruct post; reflexivity.
Qed.

Lemma anchor_atb_spec h host w e o : h <> [] ->
  (anchor_atb h host w e o = true <-> anchor_at h host w e o).
Proof.
  intros Hh. split.
  - intros H.
    assert (Hp : prefixb h (drop o host) = true).
    { unfold anchor_atb in H. destruct (prefixb h (drop o host)); [reflexivity|discriminate]. }
    apply prefixb_spec in Hp as [post Hpost].
    assert (Ho : o < length host).
    { assert (L : length (drop o host) = length (h ++ post)) by (rewrite Hpost; reflexivity).
      rewrite drop_length, app_length in L. destruct h; [congruence|]. cbn [length] in L. lia. }
    assert (Hhost : host = take o host ++ h ++ post) by (rewrite <- Hpost; symmetry; apply take_drop).
    assert (Hlen : length (take o host) = o) by (unfold take; rewrite firstn_length; lia).
    exists (take o host), post. split; [exact Hhost|]. split; [exact Hlen|].
    rewrite Hhost in H. rewrite <- Hlen in H at 2. rewrite anchor_atb_split in H by exact Hh.
    apply andb_true_iff in H as [H1 H2]. split.
    + apply orb_true_iff in H1 as [H1|H1]; [apply orb_true_iff in H1 as [H1|H1]|].
      * left. apply nullb_true. exact H1.
      * right. left. exact H1.
      * right. right. exact H1.
    + apply orb_true_iff in H2 as [H2|H2].
      * left. apply nullb_true. exact H2.
      * right. apply andb_true_iff in H2 as [He H2]. split; [destruct e; [discriminate|reflexivity]|].
        apply orb_true_iff in H2 as [H2|H2]; [apply orb_true_iff in H2 as [H2|H2]|]; auto.
  - intros (pre & post & Hhost & Hlen & Hs & He). subst host o.
    rewrite anchor_atb_split by exact Hh. apply andb_true_iff. split.
    + destruct Hs as [->|[Hs|Hs]]; [reflexivity|rewrite Hs; btauto|rewrite Hs; btauto].
    + destruct He as [->|[-> He]]; [reflexivity|]. cbn [negb andb].
      destruct He as [->|[He|He]]; [btauto|rewrite He; btauto|rewrite He; btauto].
Qed.

(* declarative characterisation of the result *)
Theorem ahe_some h host w e k : h <> [] ->
  anchored_hostname_end h host w e = Some k ->
  exists o, k = o + length h /\ anchor_at h host w e o /\
            forall o', o' < o -> ~ anchor_at h host w e o'.
Proof.
  intros Hh H. rewrite ahe_eq_ref in H. unfold ref_anchor_end in H.
  destruct h as [|x h]; [congruence|]. cbn [nullb] in H.
  destruct (find (anchor_atb (x :: h) host w e) (seq 0 (S (length host)))) as [o|] eqn:F; [|discriminate].
  inversion H; subst. destruct (find_seq_first _ _ _ _ F) as (A & B & C).
  exists o. split; [reflexivity|]. split; [apply anchor_atb_spec; [exact Hh|exact B]|].
  intros o' Ho' Hat. apply anchor_atb_spec in Hat; [|exact Hh]. rewrite C in Hat by lia. discriminate.
Qed.

Lemma anchor_at_bound h host w e o : h <> [] -> anchor_at h host w e o -> o + length h <= length host.
Proof.
  intros Hh (pre & post & -> & <- & _). rewrite !app_length. lia.
Qed.

Theorem ahe_none h host w e :
  anchored_hostname_end h host w e = None <-> h <> [] /\ forall o, ~ anchor_at h host w e o.
Proof.
  rewrite ahe_eq_ref. unfold ref_anchor_end. destruct h as [|x h].
  - cbn [nullb]. split; [discriminate|]. intros [H _]. congruence.
  - cbn [nullb]. split.
    + intros H. split; [discriminate|]. intros o Hat.
      destruct (find (anchor_atb (x :: h) host w e) (seq 0 (S (length host)))) as [o'|] eqn:F; [discriminate|].
      assert (Hne : x :: h <> []) by discriminate.
      pose proof (anchor_at_bound _ _ _ _ _ Hne Hat) as Hb.
      apply anchor_atb_spec in Hat; [|discriminate].
      pose proof (find_none _ _ F o) as G. rewrite G in Hat; [discriminate|].
      apply in_seq. cbn [length] in Hb. lia.
    + intros [_ H].
      destruct (find (anchor_atb (x :: h) host w e) (seq 0 (S (length host)))) as [o|] eqn:F; [|reflexivity].
      exfalso. destruct (find_seq_first _ _ _ _ F) as (_ & B & _).
      apply (H o). apply anchor_atb_spec; [discriminate|exact B].
Qed.

Theorem is_anchored_iff h host w : h <> [] ->
  (is_anchored_by_hostname h host w = true <-> exists o, anchor_at h host w false o).
Proof.
  intros Hh. unfold is_anchored_by_hostname.
  destruct (anchored_hostname_end h host w false) as [k|] eqn:E.
  - split; [|reflexivity]. intros _. destruct (ahe_some _ _ _ _ _ Hh E) as (o & _ & A & _). exists o. exact A.
  - split; [discriminate|]. intros [o Ho]. apply ahe_none in E as [_ E]. exfalso. exact (E o Ho).
Qed.

(* the empty filter hostname anchors everywhere (the code's corner case) *)
Lemma ahe_empty host w e : anchored_hostname_end [] host w e = Some 0.
Proof. reflexivity. Qed.

(* F5(a) and F5(b) of the design review are repaired in the modelled code *)
Example ahe_f5a : anchored_hostname_end (bs "ads.net") (bs "xads.net.ads.net") false false = Some 16.
Proof. vm_compute. reflexivity. Qed.
Example ahe_f5b : anchored_hostname_end (bs "net") (bs "ads.network") false false = None.
Proof. vm_compute. reflexivity. Qed.

(* ====================================================================================== *)
(* Part 2 — the pattern language                                                           *)
(* ====================================================================================== *)

Lemma mb_nil e s : mb e [] s = if e then nullb s else true.
Proof. reflexivity. Qed.
Lemma mb_lit e b p s : mb e (PLit b :: p) s = match s with x :: s' => N.eqb x b && mb e p s' | [] => false end.
Proof. reflexivity. Qed.
Lemma mb_sep e p s : mb e (PSep :: p) s = match s with x :: s' => is_sep x && mb e p s' | [] => nullb p end.
Proof. reflexivity. Qed.
Lemma mb_star e p s :
  mb e (PStar :: p) s = mb e p s || match s with [] => false | _ :: s' => mb e (PStar :: p) s' end.
Proof. destruct s; reflexivity. Qed.

Theorem mb_spec e p : forall s, mb e p s = true <-> m e p s.
Proof.
  induction p as [|t p IH]; intros s.
  - rewrite mb_nil. split.
    + destruct e eqn:He.
      * destruct s; [intros _; apply m_nil_end|discriminate].
      * intros _. apply m_nil_any. reflexivity.
    + intros H. inversion H; subst; try reflexivity. destruct e; reflexivity.
  - destruct t as [b| |].
    + rewrite mb_lit. destruct s as [|x s].
      * split; [discriminate|]. intros H. inversion H.
      * split.
        -- intros H. apply andb_true_iff in H as [H1 H2]. apply N.eqb_eq in H1. subst x.
           apply m_lit. apply IH. exact H2.
        -- intros H. inversion H; subst. rewrite N.eqb_refl. apply IH. assumption.
    + induction s as [|x s IHs].
      * rewrite mb_star. rewrite orb_false_r. split.
        -- intros H. apply m_star_skip. apply IH. exact H.
        -- intros H. inversion H; subst. apply IH. assumption.
      * rewrite mb_star. split.
        -- intros H. apply orb_true_iff in H as [H|H].
           ++ apply m_star_skip. apply IH. exact H.
           ++ apply m_star_eat. apply IHs. exact H.
        -- intros H. inversion H; subst.
           ++ apply orb_true_iff. left. apply IH. assumption.
           ++ apply orb_true_iff. right. apply IHs. assumption.
    + rewrite mb_sep. destruct s as [|x s].
      * split.
        -- intros H. destruct p; [apply m_sep_end|discriminate].
        -- intros H. inversion H; subst. reflexivity.
      * split.
        -- intros H. apply andb_true_iff in H as [H1 H2]. apply m_sep; [exact H1|]. apply IH. exact H2.
        -- intros H. inversion H; subst. apply andb_true_iff. split; [assumption|]. apply IH. assumption.
Qed.

Theorem mb_somewhere_spec e p s : mb_somewhere e p s = true <-> m_somewhere e p s.
Proof.
  induction s as [|x s IH].
  - cbn [mb_somewhere]. rewrite orb_false_r, mb_spec. split.
    + intros H. exists [], []. split; [reflexivity|exact H].
    + intros (pre & suf & E & H). symmetry in E. apply app_eq_nil in E as [-> ->]. exact H.
  - cbn [mb_somewhere]. rewrite orb_true_iff, mb_spec, IH. split.
    + intros [H|(pre & suf & E & H)].
      * exists [], (x :: s). split; [reflexivity|exact H].
      * exists (x :: pre), suf. split; [rewrite E; reflexivity|exact H].
    + intros (pre & suf & E & H). destruct pre as [|y pre].
      * left. cbn in E. subst suf. exact H.
      * right. cbn in E. inversion E; subst. exists pre, suf. split; [reflexivity|exact H].
Qed.

Theorem search_spec la e p s :
  search la e p s = true <-> if la then m e p s else m_somewhere e p s.
Proof. unfold search. destruct la; [apply mb_spec|apply mb_somewhere_spec]. Qed.

(* conditional theorems need satisfiable hypotheses: non-trivial instances *)
Example m_example : m false (toks (bs "/ads^*.js")) (bs "/ads/banner.js?x").
Proof. apply mb_spec. vm_compute. reflexivity. Qed.
Example anchor_at_example : anchor_at (bs "ads.net") (bs "xads.net.ads.net") false false 9.
Proof. apply anchor_atb_spec; [discriminate|]. vm_compute. reflexivity. Qed.
