(* C02_Proofs.v — proofs for property C02 (pattern semantics). *)
From Adb Require Import Base BaseProofs Generated C02_Model.
From Coq Require Import ZifyBool ZifyNat ZifyN Btauto.

Local Open Scope nat_scope.

(* ====================================================================================== *)
(* generic list / string lemmas                                                            *)
(* ====================================================================================== *)

Lemma nullb_true {A} (l : list A) : nullb l = true -> l = [].
Proof. destruct l; [reflexivity|discriminate]. Qed.

Lemma prefixb_app p t : prefixb p (p ++ t) = true.
Proof. induction p as [|x p IH]; cbn; [reflexivity|]. rewrite N.eqb_refl. exact IH. Qed.

Lemma prefixb_spec p s : prefixb p s = true <-> exists t, s = p ++ t.
Proof.
  split.
  - revert s; induction p as [|x p IH]; intros s H; [exists s; reflexivity|].
    destruct s as [|y s]; cbn in H; [discriminate|].
    apply andb_true_iff in H as [H1 H2]. apply N.eqb_eq in H1. subst y.
    destruct (IH s H2) as [t ->]. exists t. reflexivity.
  - intros [t ->]. apply prefixb_app.
Qed.

Lemma prefixb_length p s : prefixb p s = true -> length p <= length s.
Proof. intros H. apply prefixb_spec in H as [t ->]. rewrite app_length. lia. Qed.

Lemma prefixb_short p s : length s < length p -> prefixb p s = false.
Proof.
  intros H. destruct (prefixb p s) eqn:E; [|reflexivity]. apply prefixb_length in E. lia.
Qed.

Lemma drop_add {A} a b (l : list A) : drop (a + b) l = drop b (drop a l).
Proof.
  unfold drop. revert l; induction a as [|a IH]; intros l; [reflexivity|].
  destruct l as [|x l]; cbn [Nat.add skipn]; [destruct b; reflexivity|apply IH].
Qed.

Lemma drop_length {A} n (l : list A) : length (drop n l) = length l - n.
Proof. unfold drop. apply skipn_length. Qed.

Lemma drop_all' {A} n (l : list A) : length l <= n -> drop n l = [].
Proof. intros H. unfold drop. apply skipn_all2. exact H. Qed.

Lemma find_sub_Some p s j :
  find_sub p s = Some j ->
  prefixb p (drop j s) = true /\ forall i, i < j -> prefixb p (drop i s) = false.
Proof.
  revert j; induction s as [|x s IH]; intros j H.
  - cbn in H. destruct (prefixb p []) eqn:E; [|discriminate]. inversion H; subst.
    split; [exact E|]. intros i Hi. lia.
  - cbn [find_sub] in H. destruct (prefixb p (x :: s)) eqn:E.
    + inversion H; subst. split; [exact E|]. intros i Hi. lia.
    + destruct (find_sub p s) as [k|] eqn:F; [|discriminate]. inversion H; subst.
      destruct (IH k eq_refl) as [A B]. split; [exact A|].
      intros i Hi. destruct i as [|i]; [exact E|]. apply B. lia.
Qed.

Lemma find_sub_None p s : find_sub p s = None -> forall i, prefixb p (drop i s) = false.
Proof.
  induction s as [|x s IH]; intros H i.
  - cbn in H. destruct (prefixb p []) eqn:E; [discriminate|]. destruct i; exact E.
  - cbn [find_sub] in H. destruct (prefixb p (x :: s)) eqn:E; [discriminate|].
    destruct (find_sub p s) as [k|] eqn:F; [discriminate|].
    destruct i as [|i]; [exact E|]. apply IH. reflexivity.
Qed.

Lemma find_sub_first p s j :
  prefixb p (drop j s) = true -> (forall i, i < j -> prefixb p (drop i s) = false) ->
  find_sub p s = Some j.
Proof.
  intros A B. destruct (find_sub p s) as [k|] eqn:F.
  - destruct (find_sub_Some _ _ _ F) as [A' B'].
    destruct (Nat.lt_trichotomy k j) as [L|[L|L]]; [|congruence|].
    + rewrite (B k L) in A'. discriminate.
    + rewrite (B' j L) in A. discriminate.
  - rewrite (find_sub_None _ _ F j) in A. discriminate.
Qed.

Lemma find_all_false {A} (f : A -> bool) l : (forall x, In x l -> f x = false) -> find f l = None.
Proof.
  induction l as [|x l IH]; intros H; [reflexivity|]. cbn.
  rewrite (H x (or_introl eq_refl)). apply IH. intros y Hy. apply H. right. exact Hy.
Qed.

Lemma find_seq_skip (f : nat -> bool) j : forall a n,
  (forall i, a <= i < a + j -> f i = false) -> j <= n ->
  find f (seq a n) = find f (seq (a + j) (n - j)).
Proof.
  induction j as [|j IH]; intros a n H Hn.
  - rewrite Nat.add_0_r, Nat.sub_0_r. reflexivity.
  - destruct n as [|n]; [lia|]. cbn [seq find]. rewrite (H a) by lia.
    rewrite (IH (S a) n); [|intros i Hi; apply H; lia|lia].
    replace (S a + j) with (a + S j) by lia. reflexivity.
Qed.

Lemma find_seq_first (f : nat -> bool) n : forall a o,
  find f (seq a n) = Some o ->
  a <= o < a + n /\ f o = true /\ forall i, a <= i < o -> f i = false.
Proof.
  induction n as [|n IH]; intros a o H; [discriminate|].
  cbn [seq find] in H. destruct (f a) eqn:E.
  - inversion H; subst. split; [lia|]. split; [exact E|]. intros i Hi. lia.
  - destruct (IH (S a) o H) as (A & B & C). split; [lia|]. split; [exact B|].
    intros i Hi. destruct (Nat.eq_dec i a) as [->|Hne]; [exact E|]. apply C. lia.
Qed.

Lemma last_nth (l : str) : l <> [] -> last l 0%N = nth (length l - 1) l 0%N.
Proof.
  induction l as [|x l IH]; intros H; [congruence|].
  destruct l as [|y l]; [reflexivity|].
  change (last (x :: y :: l) 0%N) with (last (y :: l) 0%N). rewrite IH by discriminate.
  cbn [length]. replace (S (S (length l)) - 1) with (S (length l)) by lia.
  replace (S (length l) - 1) with (length l) by lia. reflexivity.
Qed.

(* ====================================================================================== *)
(* Part 1 — anchored_hostname_end                                                          *)
(* ====================================================================================== *)

Lemma anchor_atb_prefix_false h host w e i :
  prefixb h (drop i host) = false -> anchor_atb h host w e i = false.
Proof. intros H. unfold anchor_atb. rewrite H. reflexivity. Qed.

Lemma ahe_loop_spec h host w e : h <> [] -> forall fuel sf,
  S (length host) <= sf + fuel -> sf <= S (length host) ->
  ahe_loop fuel h host w e sf =
  match find (anchor_atb h host w e) (seq sf (S (length host) - sf)) with
  | Some o => Some (o + length h)
  | None => None
  end.
Proof.
  intros Hh. assert (Hlen : 1 <= length h) by (destruct h; [congruence|cbn; lia]).
  induction fuel as [|fuel IH]; intros sf Hfuel Hsf.
  - replace (S (length host) - sf) with 0 by lia. reflexivity.
  - cbn [ahe_loop]. destruct (Nat.leb (sf + length h) (length host)) eqn:Hle.
    + apply Nat.leb_le in Hle.
      destruct (find_sub h (drop sf host)) as [j|] eqn:F.
      * destruct (find_sub_Some _ _ _ F) as [A B].
        assert (Hj : sf + j + length h <= length host).
        { apply prefixb_length in A. rewrite !drop_length in A. lia. }
        rewrite (find_seq_skip _ j sf).
        2:{ intros i Hi. apply anchor_atb_prefix_false.
            replace i with (sf + (i - sf)) by lia. rewrite drop_add. apply B. lia. }
        2:{ lia. }
        replace (S (length host) - sf - j) with (S (length host - sf - j)) by lia.
        cbn [seq find].
        assert (Hat : anchor_atb h host w e (sf + j) =
                      (Nat.eqb (sf + j) 0 || head_is DOT h || N.eqb (nthb host (sf + j - 1)) DOT)
                      && (Nat.eqb (sf + j + length h) (length host)
                          || (negb e && (w || last_is DOT h || N.eqb (nthb host (sf + j + length h)) DOT)))).
        { unfold anchor_atb. rewrite drop_add, A. reflexivity. }
        rewrite Hat.
        destruct ((Nat.eqb (sf + j) 0 || head_is DOT h || N.eqb (nthb host (sf + j - 1)) DOT)
                  && (Nat.eqb (sf + j + length h) (length host)
                      || (negb e && (w || last_is DOT h || N.eqb (nthb host (sf + j + length h)) DOT)))) eqn:Hok.
        -- reflexivity.
        -- rewrite IH by lia.
           replace (S (length host) - S (sf + j)) with (length host - sf - j) by lia. reflexivity.
      * rewrite find_all_false; [reflexivity|].
        intros i Hi. apply in_seq in Hi. apply anchor_atb_prefix_false.
        replace i with (sf + (i - sf)) by lia. rewrite drop_add. apply (find_sub_None _ _ F).
    + apply Nat.leb_gt in Hle. rewrite find_all_false; [reflexivity|].
      intros i Hi. apply in_seq in Hi. apply anchor_atb_prefix_false.
      apply prefixb_short. rewrite drop_length. lia.
Qed.

(* the loop of the code finds exactly the first acceptable occurrence, for all strings *)
Theorem ahe_eq_ref h host w e :
  anchored_hostname_end h host w e = ref_anchor_end h host w e.
Proof.
  unfold anchored_hostname_end, ref_anchor_end.
  destruct h as [|x h]; [reflexivity|].
  change (Nat.eqb (length (x :: h)) 0) with false. cbn [nullb]. cbv iota.
  destruct (Nat.ltb (length host) (length (x :: h))) eqn:Hlt.
  - apply Nat.ltb_lt in Hlt. rewrite find_all_false; [reflexivity|].
    intros i Hi. apply anchor_atb_prefix_false. apply prefixb_short. rewrite drop_length. lia.
  - rewrite ahe_loop_spec; try lia; [|discriminate].
    rewrite Nat.sub_0_r. reflexivity.
Qed.

(* anchor_atb on a decomposition of the hostname *)
Lemma anchor_atb_split h pre post w e : h <> [] ->
  anchor_atb h (pre ++ h ++ post) w e (length pre) =
  (nullb pre || head_is DOT h || last_is DOT pre)
  && (nullb post || (negb e && (w || last_is DOT h || head_is DOT post))).
Proof.
  intros Hh. unfold anchor_atb.
  rewrite drop_app_length, prefixb_app. cbn [andb].
  f_equal.
  - destruct pre as [|x pre]; [reflexivity|].
    change (Nat.eqb (length (x :: pre)) 0) with false. cbn [nullb orb].
    f_equal. unfold last_is, nthb. rewrite last_nth by discriminate.
    rewrite app_nth1 by (cbn [length]; lia). reflexivity.
  - assert (Hn : Nat.eqb (length pre + length h) (length (pre ++ h ++ post)) = nullb post).
    { rewrite !app_length. destruct post; cbn [length nullb]; lia. }
    rewrite Hn. f_equal. f_equal. f_equal. f_equal.
    unfold nthb. rewrite app_nth2 by lia. rewrite app_nth2 by lia.
    replace (length pre + length h - length pre - length h) with 0 by lia.
    destruct post; reflexivity.
Qed.

Lemma anchor_atb_spec h host w e o : h <> [] ->
  (anchor_atb h host w e o = true <-> anchor_at h host w e o).
Proof.
  intros Hh. split.
  - intros H.
    assert (Hp : prefixb h (drop o host) = true).
    { unfold anchor_atb in H. destruct (prefixb h (drop o host)); [reflexivity|discriminate]. }
    apply prefixb_spec in Hp as [post Hpost].
    assert (Ho : o < length host).
    { assert (L : length (drop o host) = length (h ++ post)) by (rewrite Hpost; reflexivity).
      rewrite drop_length, app_length in L. destruct h; [congruence|]. cbn [length] in L. lia. }
    assert (Hhost : host = take o host ++ h ++ post) by (rewrite <- Hpost; symmetry; apply take_drop).
    assert (Hlen : length (take o host) = o) by (unfold take; rewrite firstn_length; lia).
    exists (take o host), post. split; [exact Hhost|]. split; [exact Hlen|].
    rewrite Hhost in H. rewrite <- Hlen in H at 2. rewrite anchor_atb_split in H by exact Hh.
    apply andb_true_iff in H as [H1 H2]. split.
    + apply orb_true_iff in H1 as [H1|H1]; [apply orb_true_iff in H1 as [H1|H1]|].
      * left. apply nullb_true. exact H1.
      * right. left. exact H1.
      * right. right. exact H1.
    + apply orb_true_iff in H2 as [H2|H2].
      * left. apply nullb_true. exact H2.
      * right. apply andb_true_iff in H2 as [He H2]. split; [destruct e; [discriminate|reflexivity]|].
        apply orb_true_iff in H2 as [H2|H2]; [apply orb_true_iff in H2 as [H2|H2]|]; auto.
  - intros (pre & post & Hhost & Hlen & Hs & He). subst host o.
    rewrite anchor_atb_split by exact Hh. apply andb_true_iff. split.
    + destruct Hs as [->|[Hs|Hs]]; [reflexivity|rewrite Hs; btauto|rewrite Hs; btauto].
    + destruct He as [->|[-> He]]; [reflexivity|]. cbn [negb andb].
      destruct He as [->|[He|He]]; [btauto|rewrite He; btauto|rewrite He; btauto].
Qed.

(* declarative characterisation of the result *)
Theorem ahe_some h host w e k : h <> [] ->
  anchored_hostname_end h host w e = Some k ->
  exists o, k = o + length h /\ anchor_at h host w e o /\
            forall o', o' < o -> ~ anchor_at h host w e o'.
Proof.
  intros Hh H. rewrite ahe_eq_ref in H. unfold ref_anchor_end in H.
  destruct h as [|x h]; [congruence|]. cbn [nullb] in H.
  destruct (find (anchor_atb (x :: h) host w e) (seq 0 (S (length host)))) as [o|] eqn:F; [|discriminate].
  inversion H; subst. destruct (find_seq_first _ _ _ _ F) as (A & B & C).
  exists o. split; [reflexivity|]. split; [apply anchor_atb_spec; [exact Hh|exact B]|].
  intros o' Ho' Hat. apply anchor_atb_spec in Hat; [|exact Hh]. rewrite C in Hat by lia. discriminate.
Qed.

Lemma anchor_at_bound h host w e o : h <> [] -> anchor_at h host w e o -> o + length h <= length host.
Proof.
  intros Hh (pre & post & -> & <- & _). rewrite !app_length. lia.
Qed.

Theorem ahe_none h host w e :
  anchored_hostname_end h host w e = None <-> h <> [] /\ forall o, ~ anchor_at h host w e o.
Proof.
  rewrite ahe_eq_ref. unfold ref_anchor_end. destruct h as [|x h].
  - cbn [nullb]. split; [discriminate|]. intros [H _]. congruence.
  - cbn [nullb]. split.
    + intros H. split; [discriminate|]. intros o Hat.
      destruct (find (anchor_atb (x :: h) host w e) (seq 0 (S (length host)))) as [o'|] eqn:F; [discriminate|].
      assert (Hne : x :: h <> []) by discriminate.
      pose proof (anchor_at_bound _ _ _ _ _ Hne Hat) as Hb.
      apply anchor_atb_spec in Hat; [|discriminate].
      pose proof (find_none _ _ F o) as G. rewrite G in Hat; [discriminate|].
      apply in_seq. cbn [length] in Hb. lia.
    + intros [_ H].
      destruct (find (anchor_atb (x :: h) host w e) (seq 0 (S (length host)))) as [o|] eqn:F; [|reflexivity].
      exfalso. destruct (find_seq_first _ _ _ _ F) as (_ & B & _).
      apply (H o). apply anchor_atb_spec; [discriminate|exact B].
Qed.

Theorem is_anchored_iff h host w : h <> [] ->
  (is_anchored_by_hostname h host w = true <-> exists o, anchor_at h host w false o).
Proof.
  intros Hh. unfold is_anchored_by_hostname.
  destruct (anchored_hostname_end h host w false) as [k|] eqn:E.
  - split; [|reflexivity]. intros _. destruct (ahe_some _ _ _ _ _ Hh E) as (o & _ & A & _). exists o. exact A.
  - split; [discriminate|]. intros [o Ho]. apply ahe_none in E as [_ E]. exfalso. exact (E o Ho).
Qed.

(* the empty filter hostname anchors everywhere (the code's corner case) *)
Lemma ahe_empty host w e : anchored_hostname_end [] host w e = Some 0.
Proof. reflexivity. Qed.

(* F5(a) and F5(b) of the design review are repaired in the modelled code *)
Example ahe_f5a : anchored_hostname_end (bs "ads.net") (bs "xads.net.ads.net") false false = Some 16.
Proof. vm_compute. reflexivity. Qed.
Example ahe_f5b : anchored_hostname_end (bs "net") (bs "ads.network") false false = None.
Proof. vm_compute. reflexivity. Qed.

(* ====================================================================================== *)
(* Part 2 — the pattern language                                                           *)
(* ====================================================================================== *)

Lemma mb_nil e s : mb e [] s = if e then nullb s else true.
Proof. reflexivity. Qed.
Lemma mb_lit e b p s : mb e (PLit b :: p) s = match s with x :: s' => N.eqb x b && mb e p s' | [] => false end.
Proof. reflexivity. Qed.
Lemma mb_sep e p s : mb e (PSep :: p) s = match s with x :: s' => is_sep x && mb e p s' | [] => nullb p end.
Proof. reflexivity. Qed.
Lemma mb_star e p s :
  mb e (PStar :: p) s = mb e p s || match s with [] => false | _ :: s' => mb e (PStar :: p) s' end.
Proof. destruct s; reflexivity. Qed.

Theorem mb_spec e p : forall s, mb e p s = true <-> m e p s.
Proof.
  induction p as [|t p IH]; intros s.
  - rewrite mb_nil. split.
    + destruct e eqn:He.
      * destruct s; [intros _; apply m_nil_end|discriminate].
      * intros _. apply m_nil_any. reflexivity.
    + intros H. inversion H; subst; try reflexivity. destruct e; reflexivity.
  - destruct t as [b| |].
    + rewrite mb_lit. destruct s as [|x s].
      * split; [discriminate|]. intros H. inversion H.
      * split.
        -- intros H. apply andb_true_iff in H as [H1 H2]. apply N.eqb_eq in H1. subst x.
           apply m_lit. apply IH. exact H2.
        -- intros H. inversion H; subst. rewrite N.eqb_refl. apply IH. assumption.
    + induction s as [|x s IHs].
      * rewrite mb_star. rewrite orb_false_r. split.
        -- intros H. apply m_star_skip. apply IH. exact H.
        -- intros H. inversion H; subst. apply IH. assumption.
      * rewrite mb_star. split.
        -- intros H. apply orb_true_iff in H as [H|H].
           ++ apply m_star_skip. apply IH. exact H.
           ++ apply m_star_eat. apply IHs. exact H.
        -- intros H. inversion H; subst.
           ++ apply orb_true_iff. left. apply IH. assumption.
           ++ apply orb_true_iff. right. apply IHs. assumption.
    + rewrite mb_sep. destruct s as [|x s].
      * split.
        -- intros H. destruct p; [apply m_sep_end|discriminate].
        -- intros H. inversion H; subst. reflexivity.
      * split.
        -- intros H. apply andb_true_iff in H as [H1 H2]. apply m_sep; [exact H1|]. apply IH. exact H2.
        -- intros H. inversion H; subst. apply andb_true_iff. split; [assumption|]. apply IH. assumption.
Qed.

Theorem mb_somewhere_spec e p s : mb_somewhere e p s = true <-> m_somewhere e p s.
Proof.
  induction s as [|x s IH].
  - cbn [mb_somewhere]. rewrite orb_false_r, mb_spec. split.
    + intros H. exists [], []. split; [reflexivity|exact H].
    + intros (pre & suf & E & H). symmetry in E. apply app_eq_nil in E as [-> ->]. exact H.
  - cbn [mb_somewhere]. rewrite orb_true_iff, mb_spec, IH. split.
    + intros [H|(pre & suf & E & H)].
      * exists [], (x :: s). split; [reflexivity|exact H].
      * exists (x :: pre), suf. split; [rewrite E; reflexivity|exact H].
    + intros (pre & suf & E & H). destruct pre as [|y pre].
      * left. cbn in E. subst suf. exact H.
      * right. cbn in E. inversion E; subst. exists pre, suf. split; [reflexivity|exact H].
Qed.

Theorem search_spec la e p s :
  search la e p s = true <-> if la then m e p s else m_somewhere e p s.
Proof. unfold search. destruct la; [apply mb_spec|apply mb_somewhere_spec]. Qed.

(* conditional theorems need satisfiable hypotheses: non-trivial instances *)
Example m_example : m false (toks (bs "/ads^*.js")) (bs "/ads/banner.js?x").
Proof. apply mb_spec. vm_compute. reflexivity. Qed.
Example anchor_at_example : anchor_at (bs "ads.net") (bs "xads.net.ads.net") false false 9.
Proof. apply anchor_atb_spec; [discriminate|]. vm_compute. reflexivity. Qed.

(* ====================================================================================== *)
(* Part 3 — the plain check_pattern_* tests are the token semantics of literal patterns     *)
(* ====================================================================================== *)

Lemma toks_lits f : all_lits f = true -> toks f = map PLit f.
Proof.
  induction f as [|x f IH]; intros H; [reflexivity|]. cbn [all_lits forallb] in H.
  apply andb_true_iff in H as [H1 H2]. cbn [toks map]. fold (toks f). rewrite (IH H2). f_equal.
  unfold tok_of. apply negb_true_iff in H1. apply orb_false_iff in H1 as [A B]. rewrite A, B. reflexivity.
Qed.

Lemma mb_lits_prefix f : forall s, mb false (map PLit f) s = prefixb f s.
Proof.
  induction f as [|x f IH]; intros s; [reflexivity|]. cbn [map]. rewrite mb_lit.
  destruct s as [|y s]; [reflexivity|]. cbn [prefixb]. rewrite IH, N.eqb_sym. reflexivity.
Qed.

Lemma mb_lits_eq f : forall s, mb true (map PLit f) s = str_eqb s f.
Proof.
  induction f as [|x f IH]; intros s; [destruct s; reflexivity|]. cbn [map]. rewrite mb_lit.
  destruct s as [|y s]; [reflexivity|]. cbn [str_eqb]. rewrite IH. reflexivity.
Qed.

Lemma containsb_unfold f s :
  containsb f s = prefixb f s || match s with [] => false | _ :: s' => containsb f s' end.
Proof.
  unfold containsb. destruct s as [|x s]; cbn [find_sub].
  - destruct (prefixb f []); reflexivity.
  - destruct (prefixb f (x :: s)); [reflexivity|]. destruct (find_sub f s); reflexivity.
Qed.

Lemma mb_somewhere_lits_contains f : forall s, mb_somewhere false (map PLit f) s = containsb f s.
Proof.
  induction s as [|x s IH]; rewrite containsb_unfold; cbn [mb_somewhere]; rewrite mb_lits_prefix; [reflexivity|].
  rewrite IH. reflexivity.
Qed.

Lemma suffixb_spec f s : suffixb f s = true <-> exists pre, s = pre ++ f.
Proof.
  unfold suffixb. split.
  - intros H. apply andb_true_iff in H as [H1 H2]. apply Nat.leb_le in H1. apply str_eqb_eq in H2.
    exists (take (length s - length f) s).
    transitivity (take (length s - length f) s ++ drop (length s - length f) s);
      [symmetry; apply take_drop|]. rewrite <- H2. reflexivity.
  - intros [pre ->]. apply andb_true_iff. split.
    + apply Nat.leb_le. rewrite app_length. lia.
    + apply str_eqb_eq. rewrite (drop_app_length' pre f); [reflexivity|]. rewrite app_length. lia.
Qed.

Lemma bool_eq_iff (a b : bool) : (a = true <-> b = true) -> a = b.
Proof.
  destruct a, b; intros [H1 H2]; try reflexivity;
    [symmetry; apply H1; reflexivity|apply H2; reflexivity].
Qed.

Lemma mb_somewhere_lits_suffix f s : mb_somewhere true (map PLit f) s = suffixb f s.
Proof.
  apply bool_eq_iff. rewrite mb_somewhere_spec, suffixb_spec. split.
  - intros (pre & suf & -> & H). apply mb_spec in H. rewrite mb_lits_eq in H. apply str_eqb_eq in H.
    subst suf. exists pre. reflexivity.
  - intros [pre ->]. exists pre, f. split; [reflexivity|]. apply mb_spec. rewrite mb_lits_eq. apply str_eqb_refl.
Qed.

(* substring / suffix / prefix / equality tests = the pattern semantics of a literal pattern *)
Theorem plain_tests_are_search (f s : str) : all_lits f = true ->
  containsb f s = search false false (toks f) s /\
  suffixb f s = search false true (toks f) s /\
  prefixb f s = search true false (toks f) s /\
  str_eqb s f = search true true (toks f) s.
Proof.
  intros H. rewrite (toks_lits _ H). unfold search.
  rewrite mb_somewhere_lits_contains, mb_somewhere_lits_suffix, mb_lits_prefix, mb_lits_eq. auto.
Qed.

Lemma mb_star_somewhere e p : forall s, mb e (PStar :: p) s = mb_somewhere e p s.
Proof.
  induction s as [|x s IH]; rewrite mb_star; cbn [mb_somewhere]; [reflexivity|]. rewrite IH. reflexivity.
Qed.

Lemma m_somewhere_drop_mono e p s a b : a <= b ->
  m_somewhere e p (drop b s) -> m_somewhere e p (drop a s).
Proof.
  intros Hab (pre & suf & E & H). exists (take (b - a) (drop a s) ++ pre), suf. split; [|exact H].
  rewrite <- app_assoc, <- E. replace b with (a + (b - a)) at 2 by lia. rewrite drop_add.
  symmetry. apply take_drop.
Qed.

(* ====================================================================================== *)
(* Part 4 — requests, get_url_after_anchor                                                  *)
(* ====================================================================================== *)

Lemma find_sub_split p s i : find_sub p s = Some i ->
  exists pre post, s = pre ++ p ++ post /\ length pre = i.
Proof.
  intros H. destruct (find_sub_Some _ _ _ H) as [A _]. apply prefixb_spec in A as [post Hpost].
  assert (Hi : i <= length s).
  { destruct (Nat.le_gt_cases i (length s)) as [L|L]; [exact L|].
    rewrite drop_all' in Hpost by lia. destruct p; [|discriminate].
    (* empty pattern is found at 0 *)
    destruct s; cbn in H; inversion H; subst; cbn in L; lia. }
  exists (take i s), post. split.
  - rewrite <- Hpost. symmetry. apply take_drop.
  - unfold take. rewrite firstn_length. lia.
Qed.

Lemma get_url_after_anchor_spec url host hs ae :
  host_search_start url <= hs ->
  find_sub host (drop (host_search_start url) url) = Some (hs - host_search_start url) ->
  0 < ae <= length host ->
  get_url_after_anchor url host ae = drop (hs + ae) url.
Proof.
  intros Hle F [Hae1 Hae2]. destruct (find_sub_Some _ _ _ F) as [A _].
  rewrite <- drop_add in A. replace (host_search_start url + (hs - host_search_start url)) with hs in A by lia.
  apply prefixb_length in A. rewrite drop_length in A.
  unfold get_url_after_anchor, get_url_after_hostname. rewrite F.
  destruct (Nat.eqb ae 0) eqn:Z; [apply Nat.eqb_eq in Z; lia|].
  rewrite !drop_length.
  destruct (Nat.leb (length url - host_search_start url - (hs - host_search_start url + length host)
                     + (length host - ae)) (length url)) eqn:Hl.
  - f_equal. lia.
  - apply Nat.leb_gt in Hl. lia.
Qed.

Lemma drop_in_host (pre host post : str) k : k <= length host ->
  drop (length pre + k) (pre ++ host ++ post) = drop k host ++ post.
Proof.
  intros Hk. rewrite drop_add, drop_app_length. unfold drop. rewrite skipn_app.
  replace (k - length host) with 0 by lia. reflexivity.
Qed.

Lemma no_nl_lower s : no_nl s = true -> no_nl (lower_str s) = true.
Proof.
  unfold no_nl, lower_str. intros H. rewrite forallb_forall in *. intros y Hy.
  apply in_map_iff in Hy as (x & <- & Hx). specialize (H x Hx).
  unfold to_lower, is_upper. unfold NL in *. destruct (N.leb 65 x && N.leb x 90) eqn:U; [|exact H]. lia.
Qed.

Lemma no_nl_drop s k : no_nl s = true -> no_nl (drop k s) = true.
Proof.
  unfold no_nl. intros H. rewrite forallb_forall in *. intros y Hy. apply H.
  unfold drop in Hy. eapply In_skipn_aux. exact Hy.
Qed.

(* ====================================================================================== *)
(* Part 5 — hostname-anchored paths                                                         *)
(* ====================================================================================== *)

Lemma wf_request_split r hs : wf_request r hs ->
  exists pre post,
    lower_str (r_url r) = pre ++ r_host r ++ post /\ length pre = hs /\
    forallb (fun b => negb (is_sep b)) (r_host r) = true /\
    (post = [] \/ exists b t, post = b :: t /\ is_sep b = true) /\
    no_nl (lower_str (r_url r)) = true.
Proof.
  intros (Hle & F & Hne & Hclean & Hpost & Hnl). cbv zeta in *.
  destruct (find_sub_Some _ _ _ F) as [A _].
  rewrite <- drop_add in A.
  replace (host_search_start (lower_str (r_url r)) + (hs - host_search_start (lower_str (r_url r)))) with hs in A by lia.
  pose proof (prefixb_length _ _ A) as L. rewrite drop_length in L.
  apply prefixb_spec in A as [post E].
  assert (Hhs : hs < length (lower_str (r_url r))).
  { destruct (r_host r); [congruence|]. cbn [length] in L. lia. }
  exists (take hs (lower_str (r_url r))), post.
  assert (Lpre : length (take hs (lower_str (r_url r))) = hs) by (unfold take; rewrite firstn_length; lia).
  assert (EU : lower_str (r_url r) = take hs (lower_str (r_url r)) ++ r_host r ++ post).
  { rewrite <- E. symmetry. apply take_drop. }
  split; [exact EU|]. split; [exact Lpre|]. split; [exact Hclean|]. split.
  - assert (Ep : drop (hs + length (r_host r)) (lower_str (r_url r)) = post).
    { rewrite drop_add, E. apply drop_app_length. }
    rewrite Ep in Hpost. exact Hpost.
  - apply no_nl_lower. exact Hnl.
Qed.

Lemma wf_requestb_spec r hs : wf_requestb r hs = true -> wf_request r hs.
Proof.
  unfold wf_requestb, wf_request. cbv zeta. intros H.
  apply andb_true_iff in H as [H H6]. apply andb_true_iff in H as [H H5].
  apply andb_true_iff in H as [H H4]. apply andb_true_iff in H as [H H3].
  apply andb_true_iff in H as [H1 H2].
  split; [apply Nat.leb_le; exact H1|]. split.
  { destruct (find_sub (r_host r) (drop (host_search_start (lower_str (r_url r))) (lower_str (r_url r)))) as [k|];
      cbn in H2; [|discriminate]. apply Nat.eqb_eq in H2. congruence. }
  split; [intros E; rewrite E in H3; discriminate|]. split; [exact H4|]. split; [|exact H6].
  destruct (drop (hs + length (r_host r)) (lower_str (r_url r))) as [|b t]; [left; reflexivity|].
  right. exists b, t. split; [reflexivity|exact H5].
Qed.

Lemma tail_after_occurrence (pre host post : str) o lh : o + lh <= length host ->
  drop (length pre + o + lh) (pre ++ host ++ post) = drop (o + lh) host ++ post.
Proof. intros H. rewrite <- Nat.add_assoc. apply drop_in_host. exact H. Qed.

Lemma host_byte_blocks (host post : str) k :
  forallb (fun b => negb (is_sep b)) host = true -> k < length host ->
  exists b t, drop k host ++ post = b :: t /\ is_sep b = false.
Proof.
  intros Hc Hk. destruct (drop k host) as [|b t] eqn:E.
  - assert (L : length (drop k host) = 0) by (rewrite E; reflexivity). rewrite drop_length in L. lia.
  - exists b, (t ++ post). split; [reflexivity|].
    assert (Hin : In b host). { unfold drop in E. apply (In_skipn_aux k). rewrite E. left. reflexivity. }
    rewrite forallb_forall in Hc. specialize (Hc b Hin). apply negb_true_iff in Hc. exact Hc.
Qed.

Lemma body_sep_blocked e p b t : body_starts_sep p = true -> is_sep b = false -> ~ m e p (b :: t).
Proof.
  intros Hb Hs H. destruct p as [|[c| |] p']; cbn in Hb; try discriminate.
  - inversion H; subst. congruence.
  - inversion H; subst. congruence.
Qed.

Lemma sep_at_host_end post :
  (post = [] \/ exists b t, post = b :: t /\ is_sep b = true) -> m false [PSep] post.
Proof.
  intros [->|(b & t & -> & Hs)]; [apply m_sep_end|]. apply m_sep; [exact Hs|]. apply m_nil_any. reflexivity.
Qed.

Lemma anchor_at_end_post h host w o : anchor_at h host w true o -> o + length h = length host.
Proof.
  intros (pre & post & -> & <- & _ & [->|[He _]]); [|discriminate]. rewrite !app_length. cbn. lia.
Qed.

Lemma anchor_at_at_end h host w e w' e' o :
  anchor_at h host w e o -> o + length h = length host -> anchor_at h host w' e' o.
Proof.
  intros (pre & post & E & L & Hs & _) Hend. exists pre, post. repeat split; auto.
  left. subst host o. rewrite !app_length in Hend. destruct post; [reflexivity|cbn in Hend; lia].
Qed.

Lemma ahe_bounds h host w e ae : h <> [] ->
  anchored_hostname_end h host w e = Some ae -> 0 < ae <= length host.
Proof.
  intros Hh E. destruct (ahe_some _ _ _ _ _ Hh E) as (o & -> & A & _).
  pose proof (anchor_at_bound _ _ _ _ _ Hh A). destruct h; [congruence|]. cbn [length] in *. lia.
Qed.

Lemma ahe_exists h host w e o : h <> [] -> anchor_at h host w e o ->
  exists o1, anchored_hostname_end h host w e = Some (o1 + length h) /\ o1 <= o /\ anchor_at h host w e o1.
Proof.
  intros Hh A. destruct (anchored_hostname_end h host w e) as [k|] eqn:E.
  - destruct (ahe_some _ _ _ _ _ Hh E) as (o1 & -> & A1 & Hfirst). exists o1. split; [reflexivity|].
    split; [|exact A1]. destruct (Nat.le_gt_cases o1 o) as [L|L]; [exact L|]. exfalso. exact (Hfirst o L A).
  - apply ahe_none in E as [_ E]. exfalso. exact (E o A).
Qed.

Section HostPaths.
  Variable r : request.
  Variable hs : nat.
  Hypothesis Hwf : wf_request r hs.
  Let U := lower_str (r_url r).
  Let H := r_host r.

  (* ||host + pattern pinned directly after the host (the occurrence has to end the hostname) *)
  Lemma hn_left_anchored h w ra p : h <> [] -> body_starts_sep p = true ->
    ((match anchored_hostname_end h H w true with
      | Some ae => mb ra p (drop (hs + ae) U) | None => false end) = true
     <-> exists o, anchor_at h H false false o /\ m ra p (drop (hs + o + length h) U)).
  Proof.
    intros Hh Hb. destruct (wf_request_split _ _ Hwf) as (pre & post & EU & Lpre & Hclean & Hpost & _).
    fold U H in EU, Hclean. split.
    - destruct (anchored_hostname_end h H w true) as [ae|] eqn:E; [|discriminate]. intros Hm.
      destruct (ahe_some _ _ _ _ _ Hh E) as (o & -> & A & _).
      exists o. split.
      + apply (anchor_at_at_end _ _ _ _ _ _ _ A). apply (anchor_at_end_post _ _ _ _ A).
      + apply mb_spec. rewrite Nat.add_assoc in Hm. exact Hm.
    - intros (o & A & Hm).
      pose proof (anchor_at_bound _ _ _ _ _ Hh A) as Hbound.
      assert (Hend : o + length h = length H).
      { destruct (Nat.eq_dec (o + length h) (length H)) as [e|ne]; [exact e|]. exfalso.
        rewrite EU, <- Lpre in Hm. rewrite tail_after_occurrence in Hm by exact Hbound.
        destruct (host_byte_blocks H post (o + length h) Hclean ltac:(lia)) as (b & t & Eb & Hs).
        rewrite Eb in Hm. exact (body_sep_blocked _ _ _ _ Hb Hs Hm). }
      pose proof (anchor_at_at_end _ _ _ _ w true _ A Hend) as A'.
      destruct (ahe_exists _ _ _ _ _ Hh A') as (o1 & E & _ & A1). rewrite E.
      pose proof (anchor_at_end_post _ _ _ _ A1) as Hend1.
      apply mb_spec. replace (hs + (o1 + length h)) with (hs + o + length h) by lia. exact Hm.
  Qed.

  (* ||host*pattern: the pattern may start anywhere after a label-bounded occurrence *)
  Lemma hn_floating h ra p : h <> [] ->
    ((match anchored_hostname_end h H true false with
      | Some ae => mb_somewhere ra p (drop (hs + ae) U) | None => false end) = true
     <-> exists o, anchor_at h H true false o /\ m ra (PStar :: p) (drop (hs + o + length h) U)).
  Proof.
    intros Hh. split.
    - destruct (anchored_hostname_end h H true false) as [ae|] eqn:E; [|discriminate]. intros Hm.
      destruct (ahe_some _ _ _ _ _ Hh E) as (o & -> & A & _). exists o. split; [exact A|].
      apply mb_spec. rewrite mb_star_somewhere. rewrite Nat.add_assoc in Hm. exact Hm.
    - intros (o & A & Hm). destruct (ahe_exists _ _ _ _ _ Hh A) as (o1 & E & Hle & _). rewrite E.
      apply mb_spec in Hm. rewrite mb_star_somewhere in Hm. apply mb_somewhere_spec in Hm.
      apply mb_somewhere_spec. apply (m_somewhere_drop_mono _ _ _ (hs + (o1 + length h)) (hs + o + length h)); [lia|exact Hm].
  Qed.

  (* ||host : any URL on the host or a subdomain *)
  Lemma hn_bare h : h <> [] ->
    ((match anchored_hostname_end h H false false with Some _ => true | None => false end) = true
     <-> exists o, anchor_at h H false false o /\ m false [] (drop (hs + o + length h) U)).
  Proof.
    intros Hh. split.
    - destruct (anchored_hostname_end h H false false) as [ae|] eqn:E; [|discriminate]. intros _.
      destruct (ahe_some _ _ _ _ _ Hh E) as (o & _ & A & _). exists o. split; [exact A|]. apply m_nil_any. reflexivity.
    - intros (o & A & _). destruct (ahe_exists _ _ _ _ _ Hh A) as (o1 & E & _). rewrite E. reflexivity.
  Qed.

  (* ||host^ : the parsed rule has no pattern and a right anchor; the occurrence has to end the
     request hostname *)
  Lemma hn_caret h w : h <> [] ->
    ((match anchored_hostname_end h H w true with Some _ => true | None => false end) = true
     <-> exists o, anchor_at h H false false o /\ m false [PSep] (drop (hs + o + length h) U)).
  Proof.
    intros Hh. destruct (wf_request_split _ _ Hwf) as (pre & post & EU & Lpre & Hclean & Hpost & _).
    fold U H in EU, Hclean.
    assert (Hafter : forall o, o + length h = length H -> m false [PSep] (drop (hs + o + length h) U)).
    { intros o Ho. rewrite EU, <- Lpre. rewrite tail_after_occurrence by lia.
      rewrite drop_all' by lia. apply sep_at_host_end. exact Hpost. }
    split.
    - destruct (anchored_hostname_end h H w true) as [ae|] eqn:E; [|discriminate]. intros _.
      destruct (ahe_some _ _ _ _ _ Hh E) as (o1 & _ & A1 & _).
      pose proof (anchor_at_end_post _ _ _ _ A1) as Hend.
      exists o1. split; [exact (anchor_at_at_end _ _ _ _ false false _ A1 Hend)|]. apply Hafter. exact Hend.
    - intros (o & A & Hm).
      pose proof (anchor_at_bound _ _ _ _ _ Hh A) as Hbound.
      assert (Hend : o + length h = length H).
      { destruct (Nat.eq_dec (o + length h) (length H)) as [e|ne]; [exact e|]. exfalso.
        rewrite EU, <- Lpre in Hm. rewrite tail_after_occurrence in Hm by exact Hbound.
        destruct (host_byte_blocks H post (o + length h) Hclean ltac:(lia)) as (b & t & Eb & Hs).
        rewrite Eb in Hm. exact (body_sep_blocked _ [PSep] _ _ eq_refl Hs Hm). }
      pose proof (anchor_at_at_end _ _ _ _ w true _ A Hend) as A'.
      destruct (ahe_exists _ _ _ _ _ Hh A') as (o1 & E & _). rewrite E. reflexivity.
  Qed.
End HostPaths.

(* ====================================================================================== *)
(* Part 6 — check_pattern against ref_match                                                 *)
(* ====================================================================================== *)

Section Dispatch.
  Variable re_ok : str -> bool.
  Variable re_match : str -> str -> bool.

  Lemma regex_tail sh (f s : str) : f <> [] -> s_rx sh = true -> s_cr sh = false ->
    re_std re_ok re_match (translate f (s_la sh) (s_ra sh)) (s_la sh) (s_ra sh) (toks f) ->
    no_nl s = true ->
    regex_manager_matches re_ok re_match sh [f] s = search (s_la sh) (s_ra sh) (toks f) s.
  Proof.
    intros Hf Hrx Hcr [Hok Hm] Hnl. unfold regex_manager_matches. rewrite Hrx, Hcr. cbn [negb andb].
    unfold compile_regex. cbn [compile_pats]. destruct f as [|x f]; [congruence|]. cbn [nullb].
    cbn [is_match]. rewrite Hok, (Hm s Hnl). reflexivity.
  Qed.

  (* the five hostname-anchored functions, for a parsed rule with a pattern: one normal form *)
  Lemma hn_paths_nf sh (f h : str) r hs :
    wf_request r hs -> h <> [] -> f <> [] ->
    s_hn sh = true -> s_cr sh = false -> s_mc sh = false ->
    s_rx sh = negb (all_lits f) ->
    negb (s_ra sh && negb (s_la sh) && negb (s_rx sh)) = true ->
    (s_rx sh = true -> re_std re_ok re_match (translate f (s_la sh) (s_ra sh)) (s_la sh) (s_ra sh) (toks f)) ->
    check_pattern_sh re_ok re_match sh [f] (Some h) r =
    match anchored_hostname_end h (r_host r) (s_wild sh) (s_la sh) with
    | Some ae => search (s_la sh) (s_ra sh) (toks f) (drop (hs + ae) (lower_str (r_url r)))
    | None => false
    end.
  Proof.
    intros Hwf Hh Hf Hhn Hcr Hmc Hrx Hnd Hre.
    destruct (wf_request_split _ _ Hwf) as (pre & post & EU & Lpre & _ & _ & Hnl).
    destruct Hwf as (Hle & F & _). cbv zeta in Hle, F.
    destruct sh as [hn rx cr la ra wild mc]. cbn [s_hn s_rx s_cr s_la s_ra s_wild s_mc] in *. subst hn cr mc.
    unfold check_pattern_sh, check_pattern_hostname_anchor_regex_filter,
      check_pattern_hostname_left_right_anchor_filter, check_pattern_hostname_right_anchor_filter,
      check_pattern_hostname_left_anchor_filter, check_pattern_hostname_anchor_filter,
      check_pattern_right_anchor_filter, check_pattern_regex_filter_at, at_hostname_end, get_url.
    cbn [s_hn s_rx s_cr s_la s_ra s_wild s_mc nullb negb orb]. rewrite andb_true_r.
    assert (Hafter : forall ae, anchored_hostname_end h (r_host r) wild la = Some ae ->
              get_url_after_anchor (lower_str (r_url r)) (r_host r) ae = drop (hs + ae) (lower_str (r_url r))
              /\ hs + ae <= length (lower_str (r_url r))).
    { intros ae E. pose proof (ahe_bounds _ _ _ _ _ Hh E) as B. split.
      - apply get_url_after_anchor_spec; assumption.
      - rewrite EU, !app_length. lia. }
    destruct rx.
    - (* regex *)
      destruct (anchored_hostname_end h (r_host r) wild la) as [ae|] eqn:E; [|destruct ra, la; reflexivity].
      destruct (Hafter ae eq_refl) as [Ha Hb]. rewrite Ha, drop_length.
      replace (length (lower_str (r_url r)) - (length (lower_str (r_url r)) - (hs + ae))) with (hs + ae) by lia.
      rewrite (regex_tail {| s_hn := true; s_rx := true; s_cr := false; s_la := la; s_ra := ra; s_wild := wild; s_mc := false |} f);
        auto using no_nl_drop.
    - (* plain *)
      symmetry in Hrx. apply negb_false_iff in Hrx.
      destruct (plain_tests_are_search f) with (s := lower_str (r_url r)) as (_ & _ & _ & _); [exact Hrx|].
      destruct (anchored_hostname_end h (r_host r) wild la) as [ae|] eqn:E; [|destruct ra, la; reflexivity].
      destruct (Hafter ae eq_refl) as [Ha Hb].
      destruct (plain_tests_are_search f (drop (hs + ae) (lower_str (r_url r))) Hrx) as (P1 & P2 & P3 & P4).
      destruct ra, la; cbn [andb negb] in *; try discriminate; cbn [existsb]; rewrite Ha, orb_false_r; assumption.
  Qed.

  Theorem check_pattern_ref sh filter hostname r hs :
    wf_fields sh filter hostname = true ->
    nondegenerate_fields sh filter hostname = true ->
    wf_request r hs ->
    (forall f, filter = Some f -> s_rx sh = true ->
               re_std re_ok re_match (translate f (s_la sh) (s_ra sh)) (s_la sh) (s_ra sh) (toks f)) ->
    (check_pattern_sh re_ok re_match sh (fs_of filter) hostname r = true <->
     ref_match (ast_of_fields sh filter hostname) (lower_str (r_url r)) (r_host r) hs).
  Proof.
    intros Hwff Hnd Hwf Hre.
    unfold wf_fields in Hwff. unfold nondegenerate_fields in Hnd.
    apply andb_true_iff in Hwff as [Hwff Hhost]. apply andb_true_iff in Hwff as [Hwff Hfilt].
    apply andb_true_iff in Hwff as [Hcr Hmc]. apply negb_true_iff in Hcr. apply negb_true_iff in Hmc.
    apply andb_true_iff in Hnd as [Hnd1 Hnd2].
    destruct filter as [f|].
    - (* a pattern *)
      apply andb_true_iff in Hfilt as [Hf Hrx]. apply negb_true_iff in Hf. apply eqb_prop in Hrx.
      assert (Hfne : f <> []) by (intros ->; discriminate).
      cbn [fs_of].
      destruct (s_hn sh) eqn:Hhn.
      + (* hostname anchored *)
        destruct hostname as [h|]; [|discriminate].
        apply negb_true_iff in Hnd2. assert (Hh : h <> []) by (intros ->; discriminate).
        rewrite (hn_paths_nf sh f h r hs); auto.
        unfold ast_of_fields, ref_match. rewrite Hhn. cbn [pa_left pa_body pa_right].
        destruct (s_la sh) eqn:Hla.
        * unfold search. rewrite (hn_left_anchored r hs Hwf h (s_wild sh) (s_ra sh) (toks f) Hh Hhost).
          assert (Hst : starts_with_star (toks f) = false).
          { destruct (toks f) as [|[c| |] t]; cbn in Hhost; try discriminate; reflexivity. }
          rewrite Hst. reflexivity.
        * rewrite Hhost. unfold search. cbn [starts_with_star].
          apply (hn_floating r hs h (s_ra sh) (toks f) Hh).
      + (* not hostname anchored *)
        unfold ast_of_fields, ref_match. rewrite Hhn. cbn [pa_left pa_body pa_right body_of].
        destruct (wf_request_split _ _ Hwf) as (_ & _ & _ & _ & _ & _ & Hnl).
        assert (Hnf : check_pattern_sh re_ok re_match sh [f] hostname r
                      = search (s_la sh) (s_ra sh) (toks f) (lower_str (r_url r))).
        { destruct sh as [hn rx cr la ra wild mc]. cbn [s_hn s_rx s_cr s_la s_ra s_wild s_mc] in *. subst hn cr mc.
          unfold check_pattern_sh, check_pattern_regex_filter, check_pattern_regex_filter_at,
            check_pattern_left_right_anchor_filter, check_pattern_left_anchor_filter,
            check_pattern_right_anchor_filter, check_pattern_plain_filter_filter, get_url.
          cbn [s_hn s_rx s_cr s_la s_ra s_wild s_mc nullb]. rewrite orb_false_r.
          destruct rx.
          - change (drop 0 (lower_str (r_url r))) with (lower_str (r_url r)).
            apply (regex_tail {| s_hn := false; s_rx := true; s_cr := false; s_la := la; s_ra := ra; s_wild := wild; s_mc := false |} f); auto.
          - symmetry in Hrx. apply negb_false_iff in Hrx.
            destruct (plain_tests_are_search f (lower_str (r_url r)) Hrx) as (P1 & P2 & P3 & P4).
            destruct la, ra; cbn [andb existsb]; rewrite orb_false_r; assumption. }
        rewrite Hnf, search_spec. destruct (s_la sh); reflexivity.
    - (* no pattern *)
      cbn [fs_of]. apply andb_true_iff in Hnd1 as [Hnd1 Hnd0]. apply andb_true_iff in Hnd1 as [Hla Hrx]. apply negb_true_iff in Hla. apply negb_true_iff in Hrx.
      destruct (s_hn sh) eqn:Hhn.
      + destruct hostname as [h|]; [|discriminate].
        apply negb_true_iff in Hnd2. assert (Hh : h <> []) by (intros ->; discriminate).
        unfold ast_of_fields, ref_match. rewrite Hhn. cbn [pa_left pa_body pa_right starts_with_star].
        destruct sh as [hn rx cr la ra wild mc]. cbn [s_hn s_rx s_cr s_la s_ra s_wild s_mc] in *. subst hn rx cr la mc.
        unfold check_pattern_sh, check_pattern_hostname_right_anchor_filter, check_pattern_hostname_anchor_filter,
          at_hostname_end.
        cbn [s_hn s_rx s_cr s_la s_ra s_wild s_mc nullb negb andb orb].
        destruct ra; cbn [andb].
        * apply (hn_caret r hs Hwf h wild Hh).
        * destruct wild; [discriminate Hnd0|]. apply (hn_bare r hs h Hh).
      + unfold ast_of_fields, ref_match. rewrite Hhn, Hla. cbn [pa_left pa_body pa_right body_of].
        destruct sh as [hn rx cr la ra wild mc]. cbn [s_hn s_rx s_cr s_la s_ra s_wild s_mc] in *. subst hn rx cr la mc.
        unfold check_pattern_sh, check_pattern_right_anchor_filter, check_pattern_plain_filter_filter.
        cbn [s_hn s_rx s_cr s_la s_ra s_wild s_mc nullb negb andb orb].
        split; [|destruct ra; reflexivity]. intros _.
        exists (lower_str (r_url r)), []. split; [symmetry; apply app_nil_r|apply m_nil_end].
  Qed.
End Dispatch.

(* ====================================================================================== *)
(* Part 7 — compile_regex's string translation is the canonical printing of the tokens      *)
(* ====================================================================================== *)

Definition gb (b : N) : str :=
  if is_special b then [BACKSLASH; b] else if N.eqb b STAR then DOTSTAR else [b].
Definition P12 (f : str) : str := pass_wildcard (pass_special f).

Lemma P12_cons b f : P12 (b :: f) = gb b ++ P12 f.
Proof.
  unfold P12, pass_special, pass_wildcard. cbn [flat_map]. rewrite flat_map_app. f_equal.
  unfold gb. destruct (is_special b) eqn:S.
  - cbn [flat_map]. change (N.eqb BACKSLASH STAR) with false. cbv iota.
    destruct (N.eqb_spec b STAR) as [->|ne]; [vm_compute in S; discriminate|]. reflexivity.
  - cbn [flat_map]. rewrite app_nil_r. reflexivity.
Qed.

Definition nocaret (s : str) : bool := forallb (fun x => negb (N.eqb x CARET)) s.

Lemma gb_nocaret b : N.eqb b CARET = false -> nocaret (gb b) = true.
Proof.
  intros H. unfold gb, nocaret. destruct (is_special b); [|destruct (N.eqb b STAR)]; cbn [forallb];
    rewrite ?H; reflexivity.
Qed.

Lemma pass_anchor_other x t : N.eqb x CARET = false -> pass_anchor (x :: t) = x :: pass_anchor t.
Proof. intros H. cbn [pass_anchor]. rewrite H. reflexivity. Qed.

Lemma pass_anchor_caret c t : N.eqb c NL = false ->
  pass_anchor (CARET :: c :: t) = SEP_TXT ++ c :: pass_anchor t.
Proof. intros H. cbn [pass_anchor]. rewrite N.eqb_refl, H. reflexivity. Qed.

Lemma pass_anchor_nocaret a Y : nocaret a = true -> pass_anchor (a ++ Y) = a ++ pass_anchor Y.
Proof.
  induction a as [|x a IH]; intros H; [reflexivity|]. cbn [nocaret forallb] in H.
  apply andb_true_iff in H as [H1 H2]. apply negb_true_iff in H1.
  cbn [app]. rewrite pass_anchor_other by exact H1. rewrite (IH H2). reflexivity.
Qed.

(* printing with the final '^' still raw (the state between ANCHOR_RE and ANCHOR_RE_EOL) *)
Fixpoint print3 (p : list ptok) : str :=
  match p with
  | [] => []
  | t :: r => match r with
              | [] => match t with PSep => [CARET] | _ => print_tok false t end
              | _ => print_tok false t ++ print3 r
              end
  end.

Lemma print_tok_gb b l : N.eqb b CARET = false -> print_tok l (tok_of b) = gb b.
Proof.
  intros H. unfold tok_of, gb. rewrite H. destruct (N.eqb b STAR) eqn:S.
  - apply N.eqb_eq in S. subst b. reflexivity.
  - reflexivity.
Qed.

Lemma print3_cons_other b f : N.eqb b CARET = false ->
  print3 (toks (b :: f)) = gb b ++ print3 (toks f).
Proof.
  intros H. cbn [toks map print3]. fold (toks f). destruct (toks f) as [|t r] eqn:E.
  - rewrite app_nil_r. rewrite <- (print_tok_gb b false H). unfold tok_of. rewrite H.
    destruct (N.eqb b STAR); reflexivity.
  - rewrite (print_tok_gb b false H). reflexivity.
Qed.

Lemma gb_head c : N.eqb c CARET = false -> N.eqb c NL = false ->
  exists d rest, gb c = d :: rest /\ N.eqb d CARET = false /\ N.eqb d NL = false.
Proof.
  intros H1 H2. unfold gb. destruct (is_special c); [|destruct (N.eqb c STAR)].
  - exists BACKSLASH, [c]. repeat split.
  - exists 46%N, [42%N]. repeat split.
  - exists c, []. repeat split; assumption.
Qed.

Lemma pass_anchor_P12 f : has_double_caret f = false -> no_nl f = true ->
  pass_anchor (P12 f) = print3 (toks f).
Proof.
  induction f as [|b f IH]; intros Hd Hn; [reflexivity|].
  cbn [has_double_caret] in Hd. apply orb_false_iff in Hd as [Hd1 Hd2].
  cbn [no_nl forallb] in Hn. apply andb_true_iff in Hn as [Hn1 Hn2]. apply negb_true_iff in Hn1.
  fold (no_nl f) in Hn2. specialize (IH Hd2 Hn2).
  rewrite P12_cons. destruct (N.eqb b CARET) eqn:Hb.
  - apply N.eqb_eq in Hb. subst b. cbn [andb] in Hd1. change (gb CARET) with [CARET]. cbn [app].
    destruct f as [|c f]; [reflexivity|].
    cbn [head_is] in Hd1.
    cbn [no_nl forallb] in Hn2. apply andb_true_iff in Hn2 as [Hc _]. apply negb_true_iff in Hc.
    destruct (gb_head c Hd1 Hc) as (d & rest & Eg & Hd' & Hn').
    rewrite P12_cons in IH |- *. rewrite Eg in IH |- *. cbn [app] in IH |- *.
    rewrite pass_anchor_caret by exact Hn'. rewrite pass_anchor_other in IH by exact Hd'.
    rewrite IH. cbn [toks map print3]. fold (toks f). reflexivity.
  - rewrite pass_anchor_nocaret by (apply gb_nocaret; exact Hb). rewrite IH.
    symmetry. apply print3_cons_other. exact Hb.
Qed.

Lemma pass_anchor_eol_cons x (t : str) : t <> [] -> pass_anchor_eol (x :: t) = x :: pass_anchor_eol t.
Proof. destruct t; [congruence|reflexivity]. Qed.

Lemma pass_anchor_eol_app (a b : str) : b <> [] -> pass_anchor_eol (a ++ b) = a ++ pass_anchor_eol b.
Proof.
  intros Hb. induction a as [|x a IH]; [reflexivity|]. cbn [app].
  rewrite pass_anchor_eol_cons, IH; [reflexivity|].
  intros E. apply app_eq_nil in E as [_ E]. congruence.
Qed.

Lemma pass_anchor_eol_gb b : N.eqb b CARET = false -> pass_anchor_eol (gb b) = gb b.
Proof.
  intros H. unfold gb. destruct (is_special b); [|destruct (N.eqb b STAR)]; cbn [pass_anchor_eol];
    rewrite ?H; reflexivity.
Qed.

Lemma toks_nonempty b f : toks (b :: f) <> [].
Proof. discriminate. Qed.

Lemma print3_nonempty b f : print3 (toks (b :: f)) <> [].
Proof.
  cbn [toks map print3]. fold (toks f). destruct (toks f) as [|t r].
  - unfold tok_of. destruct (N.eqb b STAR); [discriminate|]. destruct (N.eqb b CARET); [discriminate|].
    cbn [print_tok]. destruct (is_special b); discriminate.
  - unfold tok_of. destruct (N.eqb b STAR); [discriminate|]. destruct (N.eqb b CARET); [discriminate|].
    cbn [print_tok]. destruct (is_special b); discriminate.
Qed.

Lemma pass_anchor_eol_print3 f : pass_anchor_eol (print3 (toks f)) = print_toks (toks f).
Proof.
  induction f as [|b f IH]; [reflexivity|]. destruct f as [|c f].
  - cbn [toks map print3 print_toks]. unfold tok_of. destruct (N.eqb b STAR) eqn:S; [reflexivity|].
    destruct (N.eqb b CARET) eqn:C; [reflexivity|]. cbn [print_tok].
    destruct (is_special b); cbn [pass_anchor_eol]; rewrite ?C; reflexivity.
  - change (toks (b :: c :: f)) with (tok_of b :: toks (c :: f)).
    assert (E3 : print3 (tok_of b :: toks (c :: f)) = print_tok false (tok_of b) ++ print3 (toks (c :: f))) by reflexivity.
    assert (Ep : print_toks (tok_of b :: toks (c :: f)) = print_tok false (tok_of b) ++ print_toks (toks (c :: f))) by reflexivity.
    rewrite E3, Ep, pass_anchor_eol_app by apply print3_nonempty. rewrite IH. reflexivity.
Qed.

(* outside doubled '^' and line feeds, the four regex replacements produce exactly the text
   that prints the token list: escaped literals, ".*" for '*', the separator class for '^',
   "(?:sep|$)" for a final '^' *)
Theorem translate_is_print f la ra : has_double_caret f = false -> no_nl f = true ->
  translate f la ra = regex_text (toks f) la ra.
Proof.
  intros Hd Hn. unfold translate, regex_text. fold (P12 f).
  rewrite pass_anchor_P12 by assumption. rewrite pass_anchor_eol_print3. reflexivity.
Qed.

(* the degenerate spelling: a doubled '^' puts a start-of-text assertion into the regex *)
Example translate_double_caret :
  translate (bs "a^^b") false false = bs "a(?:[^\w\d\._%-])^b"
  /\ regex_text (toks (bs "a^^b")) false false = bs "a(?:[^\w\d\._%-])(?:[^\w\d\._%-])b".
Proof. split; vm_compute; reflexivity. Qed.

(* ====================================================================================== *)
(* Part 8 — executable reference, dispatch on the mask, witnesses                           *)
(* ====================================================================================== *)

Theorem ref_matchb_spec a url host hs :
  (forall h, pa_left a = LHost h -> h <> []) ->
  (ref_matchb a url host hs = true <-> ref_match a url host hs).
Proof.
  intros Hh. unfold ref_matchb, ref_match. destruct (pa_left a) as [| |h] eqn:E.
  - apply mb_somewhere_spec.
  - apply mb_spec.
  - specialize (Hh h eq_refl). rewrite existsb_exists. split.
    + intros (o & _ & Ho). apply andb_true_iff in Ho as [A B]. exists o. split.
      * apply anchor_atb_spec; assumption.
      * apply mb_spec. exact B.
    + intros (o & A & B). exists o. split.
      * apply in_seq. pose proof (anchor_at_bound _ _ _ _ _ Hh A). lia.
      * apply andb_true_iff. split; [apply anchor_atb_spec; assumption|apply mb_spec; exact B].
Qed.

(* the seven pattern bits of NetworkFilterMask (generated from the source) are independent:
   reading the shape of a mask built from a shape gives the shape back, for all 128 shapes *)
Theorem mask_bits_independent sh : shape_of_mask (mask_of_shape sh) = sh.
Proof. destruct sh as [[] [] [] [] [] [] []]; vm_compute; reflexivity. Qed.

(* the three facts about the parsed fields of a line that the parser has to establish *)
Definition parse_ok (line : str) : bool :=
  let pf := parse_line line in
  wf_fields (pf_shape pf) (pf_filter pf) (pf_hostname pf)
  && nondegenerate_fields (pf_shape pf) (pf_filter pf) (pf_hostname pf)
  && past_eqb (ast_of_fields (pf_shape pf) (pf_filter pf) (pf_hostname pf)) (ast_of_text line).

(* ---- witnesses ---- *)
Definition no_re_ok : str -> bool := fun _ => true.
Definition no_re_match : str -> str -> bool := fun _ _ => false.
Definition cp_line (line url host : str) : bool :=
  let pf := parse_line line in
  check_pattern_sh no_re_ok no_re_match (pf_shape pf) (fs_of (pf_filter pf)) (pf_hostname pf)
                   {| r_url := url; r_host := host |}.

(* F22: a right '|' after a bare ||host is parsed like '^': every URL on the host matches *)
Lemma host_right_pipe_witness :
  let line := bs "||ads.net|" in
  let url := bs "https://foo.com.ads.net/ad.foo" in
  let host := bs "foo.com.ads.net" in
  host_right_pipe line = true /\ nondegenerate_text line = true /\
  wf_request {| r_url := url; r_host := host |} 8 /\
  cp_line line url host = true /\
  ~ ref_match (ast_of_text line) url host 8.
Proof.
  cbv zeta. split; [vm_compute; reflexivity|]. split; [vm_compute; reflexivity|].
  split; [apply wf_requestb_spec; vm_compute; reflexivity|].
  split; [vm_compute; reflexivity|].
  intros H. apply ref_matchb_spec in H; [vm_compute in H; discriminate|].
  intros h E. vm_compute in E. inversion E. discriminate.
Qed.

(* repaired in /repo (the witnesses of the former findings now agree with the reference):
   ||ads.net^ on a host that ends in "ads.net" in the middle of a label; a hostname that also
   occurs in the scheme; ||WWW.host *)
Example suffix_mid_label_fixed :
  cp_line (bs "||ads.net^") (bs "https://ads.net.xads.net/x") (bs "ads.net.xads.net") = false
  /\ ref_matchb (ast_of_text (bs "||ads.net^")) (bs "https://ads.net.xads.net/x") (bs "ads.net.xads.net") 8 = false.
Proof. split; vm_compute; reflexivity. Qed.
Example host_in_url_prefix_fixed :
  wf_request {| r_url := bs "https://t/x"; r_host := bs "t" |} 8
  /\ cp_line (bs "||t/x") (bs "https://t/x") (bs "t") = true
  /\ ref_matchb (ast_of_text (bs "||t/x")) (bs "https://t/x") (bs "t") 8 = true.
Proof. split; [apply wf_requestb_spec; vm_compute; reflexivity|]. split; vm_compute; reflexivity. Qed.
Example www_strip_case_fixed :
  parse_ok (bs "||WWW.ads.net^") = true
  /\ cp_line (bs "||WWW.ads.net^") (bs "https://ads.net/x") (bs "ads.net") = true.
Proof. split; vm_compute; reflexivity. Qed.

(* the hypotheses of check_pattern_ref are satisfiable on a non-trivial rule and request: a
   hostname-anchored regex rule, with a regex oracle that implements the standard semantics *)
Example check_pattern_ref_example :
  let line := bs "||ads.net^banner*.js" in
  let pf := parse_line line in
  let sh := pf_shape pf in
  let r := {| r_url := bs "https://user@xads.net.ads.net/banner/160x600.js?x"; r_host := bs "xads.net.ads.net" |} in
  let re_match := fun (_ : str) s => search (s_la sh) (s_ra sh) (body_of (pf_filter pf)) s in
  wf_fields sh (pf_filter pf) (pf_hostname pf) = true /\
  nondegenerate_fields sh (pf_filter pf) (pf_hostname pf) = true /\
  wf_request r 13 /\
  (forall f, pf_filter pf = Some f -> s_rx sh = true ->
             re_std no_re_ok re_match (translate f (s_la sh) (s_ra sh)) (s_la sh) (s_ra sh) (toks f)) /\
  check_pattern_sh no_re_ok re_match sh (fs_of (pf_filter pf)) (pf_hostname pf) r = true.
Proof.
  cbv zeta. split; [vm_compute; reflexivity|]. split; [vm_compute; reflexivity|].
  split; [apply wf_requestb_spec; vm_compute; reflexivity|].
  split; [|vm_compute; reflexivity].
  intros f Ef _. split; [reflexivity|]. intros s _.
  vm_compute in Ef. inversion Ef; subst f. reflexivity.
Qed.

(* ====================================================================================== *)
(* Part 9 — from the text of a rule                                                         *)
(* ====================================================================================== *)

Lemma list_eqb_ptok_eq a : forall b, list_eqb ptok_eqb a b = true -> a = b.
Proof.
  induction a as [|x a IH]; intros [|y b] H; cbn in H; try discriminate; [reflexivity|].
  apply andb_true_iff in H as [H1 H2]. rewrite (IH b H2). f_equal.
  destruct x, y; cbn in H1; try discriminate; try reflexivity. apply N.eqb_eq in H1. congruence.
Qed.

Lemma past_eqb_eq a b : past_eqb a b = true -> a = b.
Proof.
  destruct a as [la pa ra], b as [lb pb rb]. unfold past_eqb. cbn [pa_left pa_body pa_right].
  intros H. apply andb_true_iff in H as [H H3]. apply andb_true_iff in H as [H1 H2].
  apply list_eqb_ptok_eq in H2. apply eqb_prop in H3. subst. f_equal.
  destruct la, lb; cbn in H1; try discriminate; try reflexivity. apply str_eqb_eq in H1. congruence.
Qed.


Section Line.
  Variable re_ok : str -> bool.
  Variable re_match : str -> str -> bool.

  Theorem check_line_ref line r hs :
    let pf := parse_line line in
    parse_ok line = true ->
    wf_request r hs ->
    (forall f, pf_filter pf = Some f -> s_rx (pf_shape pf) = true ->
               re_std re_ok re_match (translate f (s_la (pf_shape pf)) (s_ra (pf_shape pf)))
                      (s_la (pf_shape pf)) (s_ra (pf_shape pf)) (toks f)) ->
    (check_pattern_sh re_ok re_match (pf_shape pf) (fs_of (pf_filter pf)) (pf_hostname pf) r = true <->
     ref_match (ast_of_text line) (lower_str (r_url r)) (r_host r) hs).
  Proof.
    cbv zeta. intros Hok Hwf Hre. unfold parse_ok in Hok.
    apply andb_true_iff in Hok as [Hok H3]. apply andb_true_iff in Hok as [H1 H2].
    apply past_eqb_eq in H3. rewrite <- H3. apply check_pattern_ref; assumption.
  Qed.
End Line.

(* all lines over a small alphabet up to a length bound *)
Definition ALPHA : list N := [97; 98; 46; 47; 42; 94; 124]%N.     (* a b . / * ^ | *)
Fixpoint words (n : nat) : list str :=
  match n with
  | O => [[]]
  | S k => [] :: flat_map (fun w => map (fun c => c :: w) ALPHA) (words k)
  end.

Lemma words_complete n : forall w, length w <= n -> Forall (fun b => In b ALPHA) w -> In w (words n).
Proof.
  induction n as [|n IH]; intros w Hl Hf.
  - destruct w; [left; reflexivity|cbn in Hl; lia].
  - destruct w as [|c w]; [left; reflexivity|]. right. inversion Hf; subst.
    apply in_flat_map. exists w. split; [apply IH; [cbn in Hl; lia|assumption]|].
    apply in_map_iff. exists c. split; [reflexivity|assumption].
Qed.

Definition parse_claim (line : str) : bool :=
  implb (nondegenerate_text line && negb (host_right_pipe line)) (parse_ok line).

(* finite domain, bound in the statement: every line of at most 6 symbols over {a b . / * ^ |} *)
Theorem parse_preserves_ast_bounded line :
  length line <= 6 -> Forall (fun b => In b ALPHA) line ->
  nondegenerate_text line = true -> host_right_pipe line = false -> parse_ok line = true.
Proof.
  intros Hl Hf Hn Hp.
  assert (H : forallb parse_claim (words 6) = true) by (vm_compute; reflexivity).
  rewrite forallb_forall in H. specialize (H line (words_complete 6 line Hl Hf)).
  unfold parse_claim in H. rewrite Hn, Hp in H. exact H.
Qed.

(* ---- the refutation in existential form ---- *)
Lemma host_right_pipe_refuted :
  exists line url host hs,
    host_right_pipe line = true /\ nondegenerate_text line = true /\
    wf_request {| r_url := url; r_host := host |} hs /\
    cp_line line url host = true /\ ~ ref_match (ast_of_text line) url host hs.
Proof. eexists; eexists; eexists; eexists; exact host_right_pipe_witness. Qed.

Theorem check_pattern_ref_mask : forall re_ok re_match mask filter hostname r hs,
  let sh := shape_of_mask mask in
  wf_fields sh filter hostname = true ->
  nondegenerate_fields sh filter hostname = true ->
  wf_request r hs ->
  (forall f, filter = Some f -> s_rx sh = true ->
             re_std re_ok re_match (translate f (s_la sh) (s_ra sh)) (s_la sh) (s_ra sh) (toks f)) ->
  (check_pattern re_ok re_match mask (fs_of filter) hostname r = true <->
   ref_match (ast_of_fields sh filter hostname) (lower_str (r_url r)) (r_host r) hs).
Proof. intros re_ok re_match mask. exact (check_pattern_ref re_ok re_match (shape_of_mask mask)). Qed.
