(* Struct_Request12_Proofs.v — `Request::preparsed` as the translator extracts it on every run
   (Generated.RequestGen: the byte at which the scheme text is cut off the URL, the offset used
   when it is absent, the order of the arguments handed on) against C12_Model.Request_preparsed:
   the scheme is everything before the FIRST ':' (nothing, if there is none) — `data:...`,
   `about:...`, `blob:https://...` carry their scheme although no `//` follows. *)
From Coq Require Import String.
From Adb Require Import Base Generated C12_Model.
Import RequestGen.
Local Open Scope list_scope.

Definition interp_splitter (url : str) : nat :=
  match find_byte preparsed_split_byte url with Some i => i | None => N.to_nat preparsed_no_split end.

Section Hash.
  Variable h : str -> N.                  (* utils::fast_hash *)
  Variable tokenize : str -> list N.      (* utils::tokenize on the lower-cased URL *)
  Definition interp_preparsed (url hostname source_hostname request_type : str) (third_party : bool)
    : res request :=
    rbind (slice url 0 (interp_splitter url)) (fun schema =>
    from_detailed_parameters h tokenize request_type url schema hostname source_hostname third_party url).

  Theorem interp_preparsed_is_model url hostname source_hostname request_type third_party :
    interp_preparsed url hostname source_hostname request_type third_party =
    Request_preparsed h tokenize url hostname source_hostname request_type third_party.
  Proof. reflexivity. Qed.
End Hash.

Theorem preparsed_argument_order :
  preparsed_args = ["request_type"; "url"; "schema"; "hostname"; "source_hostname"; "third_party"; "url"]%string.
Proof. reflexivity. Qed.
