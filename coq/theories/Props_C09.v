(* Props_C09.v — pinned statements for property C09 (serialization is deterministic and a
   fixpoint under reload).  Only statements, `exact`, and Print Assumptions.

   In the model every HashMap / HashSet is a list in an arbitrary order with distinct keys
   (blocker_wf / cosmetic_wf / hostdb_wf say "distinct keys" and nothing else); "built
   independently from the same rule sequence" gives states that agree container by container up to
   that order (blocker_perm / cosmetic_perm).  The byte encoder IS modelled (Wire_Model.encode,
   tied byte for byte to Engine::serialize_raw by the correspondence run); the decoder is not. *)
From Adb Require Import Base BaseProofs Generated Wire_Model Wire_Proofs C09_Model C09_Proofs.
From Coq Require Import Permutation Sorted.

(* The ordered view (BTreeMap<&K,&V> / BTreeSet<&K> in data_format/utils.rs) of a container with
   distinct keys does not depend on the container's iteration order; for any total order. *)
Theorem C09_ordered_view_invariant : forall (A K : Type) (key : A -> K) (leb : K -> K -> bool),
  (forall a b, leb a b = true \/ leb b a = true) ->
  (forall a b c, leb a b = true -> leb b c = true -> leb a c = true) ->
  (forall a b, leb a b = true -> leb b a = true -> a = b) ->
  forall l l', Permutation l l' -> NoDup (map key l) -> isort key leb l = isort key leb l'.
Proof. exact @isort_perm_invariant. Qed.
Print Assumptions C09_ordered_view_invariant.

(* to_wire_perm_invariant: engine states that are permutation-equivalent container-wise give
   equal wire values (all seven serialized rule lists, the five generic cosmetic containers, the
   legacy per-host rule db with its interleaving, the two procedural maps). *)
Theorem C09_to_wire_perm_invariant : forall as_css b1 b2 c1 c2,
  blocker_wf b1 -> cosmetic_wf c1 -> blocker_perm b1 b2 -> cosmetic_perm c1 c2 ->
  to_wire as_css b1 c1 = to_wire as_css b2 c2.
Proof. exact to_wire_perm_invariant. Qed.
Print Assumptions C09_to_wire_perm_invariant.

(* ... hence equal bytes.  PARTIAL with respect to the property text: that the real process-wide
   hash seeds only permute iteration orders, and that rmp-serde's encoder is the modelled function
   of the wire value, is not a theorem; it is exercised by the cross-process runs and the
   byte-for-byte correspondence of harness/src/bin/c09.rs. *)
Theorem C09_serialize_deterministic_partial : forall as_css e1 e2,
  blocker_wf (e_blocker e1) -> cosmetic_wf (e_cosmetic e1) ->
  blocker_perm (e_blocker e1) (e_blocker e2) -> cosmetic_perm (e_cosmetic e1) (e_cosmetic e2) ->
  serialize as_css e1 = serialize as_css e2.
Proof. exact serialize_perm_invariant. Qed.
Print Assumptions C09_serialize_deterministic_partial.

(* bucket_order_canonical, part 1: insert_dup keeps every bucket strictly sorted by rule id,
   for every placement sequence; a strictly sorted bucket is determined by its set of rules. *)
Theorem C09_bucket_insert_sorted : forall v b, Sorted id_lt b -> Sorted id_lt (bucket_insert v b).
Proof. exact bucket_insert_sorted. Qed.
Print Assumptions C09_bucket_insert_sorted.

Theorem C09_buckets_sorted : forall placements, buckets_sorted (fl_insert_all placements).
Proof. exact fl_insert_all_sorted. Qed.
Print Assumptions C09_buckets_sorted.

Theorem C09_sorted_bucket_canonical : forall b b',
  Sorted id_lt b -> Sorted id_lt b' -> Permutation b b' -> NoDup (map r_id b) -> b = b'.
Proof. exact sorted_bucket_canonical. Qed.
Print Assumptions C09_sorted_bucket_canonical.

(* bucket_order_canonical, part 2: the optimizer iterates a hash map of fusion groups; because
   the result is re-sorted by id (ids distinct) that order does not reach the bucket; the drain
   order of the bucket map only permutes the (key, bucket) pairs. *)
Theorem C09_optimize_order_irrelevant : forall fuse neg g g',
  Permutation g g' -> NoDup (map r_id (fused_of fuse g ++ neg ++ singles_of g)) ->
  optimize_from fuse neg g = optimize_from fuse neg g'.
Proof. exact optimize_order_irrelevant. Qed.
Print Assumptions C09_optimize_order_irrelevant.

(* the same with the natural hypotheses: the rules entering the optimizer have distinct ids and
   fusion keeps the id of the first member of its group (`base_filter.clone()` in optimizer.rs) *)
Theorem C09_optimize_order_irrelevant_ids : forall fuse,
  (forall x rest, r_id (fuse (x :: rest)) = r_id x) ->
  forall neg g g', Permutation g g' -> NoDup (map r_id (neg ++ List.concat g)) ->
  optimize_from fuse neg g = optimize_from fuse neg g'.
Proof. exact optimize_order_irrelevant'. Qed.
Print Assumptions C09_optimize_order_irrelevant_ids.

Theorem C09_optimize_bucket_order_irrelevant : forall fuse shared split (o1 o2 : list (list rule) -> list (list rule)) b,
  (forall g, Permutation (o1 g) g) -> (forall g, Permutation (o2 g) g) ->
  (let own := filter (fun r => negb (shared r)) b in
   NoDup (map r_id (fused_of fuse (o1 (snd (split own))) ++ fst (split own) ++ singles_of (o1 (snd (split own)))))) ->
  optimize_bucket fuse shared split o1 b = optimize_bucket fuse shared split o2 b.
Proof. exact optimize_bucket_order_irrelevant. Qed.
Print Assumptions C09_optimize_bucket_order_irrelevant.

Theorem C09_fl_optimize_perm : forall fuse shared split o m m', Permutation m m' ->
  Permutation (fl_optimize fuse shared split o m) (fl_optimize fuse shared split o m').
Proof. exact fl_optimize_perm. Qed.
Print Assumptions C09_fl_optimize_perm.

(* wire_fixpoint: for every well-formed wire value (the exact well-formedness: wire_wf — sorted
   containers, rule redirect/csp fields consistent with the mask, `_bug` = None, the two legacy
   storages empty, every bin of the legacy db grouped by category with its Style entries equal
   to the CSS-expressible procedural entries under the same key, no empty bin) loaded with the
   tag set its filters_tagged was built from, re-serialization gives the same wire value. *)
Theorem C09_wire_fixpoint : forall as_css build_list tags w,
  wire_wf as_css w -> tagged_consistent build_list tags w ->
  to_wire as_css (use_tags build_list tags (from_wire_blocker w)) (from_wire_cosmetic w) = w.
Proof. exact wire_fixpoint. Qed.
Print Assumptions C09_wire_fixpoint.

(* every value in the image of to_wire is well-formed ... *)
Theorem C09_to_wire_wf : forall as_css b c, cosmetic_wf c -> wire_wf as_css (to_wire as_css b c).
Proof. exact to_wire_wf. Qed.
Print Assumptions C09_to_wire_wf.

(* ... so serialize . load . serialize = serialize (same enabled tags on both sides; a freshly
   built engine has none and an empty filters_tagged). *)
Theorem C09_reserialize_fixpoint : forall as_css build_list tags b c,
  cosmetic_wf c ->
  b_filters_tagged b = build_list (filter (tag_enabled tags) (b_tagged_all b)) (b_opt b) ->
  Forall mo_ok (b_tagged_all b) ->
  let w := to_wire as_css b c in
  to_wire as_css (use_tags build_list tags (from_wire_blocker w)) (from_wire_cosmetic w) = w.
Proof. exact reserialize_fixpoint. Qed.
Print Assumptions C09_reserialize_fixpoint.

(* translator ties: struct field order of the wire structs and enum variant order, as the
   encoder lays them out; the five header bytes *)
Theorem C09_wire_field_order : forall w, map fst (wire_fields w) = WIRE_FIELDS.
Proof. exact wire_field_order. Qed.
Print Assumptions C09_wire_field_order.

Theorem C09_wire_rule_field_order : forall w, map fst (wrule_fields w) = WIRE_RULE_FIELDS.
Proof. exact wire_rule_field_order. Qed.
Print Assumptions C09_wire_rule_field_order.

Theorem C09_variant_order : legacy_variant_names = LEGACY_VARIANTS /\
  FILTER_PART_VARIANTS = ["Empty"; "Simple"; "AnyOf"]%string.
Proof. exact legacy_variant_order. Qed.
Print Assumptions C09_variant_order.

Theorem C09_header_written : forall w, firstn 5 (serialize_wire w) = DAT_MAGIC ++ [V0_VERSION_BYTE].
Proof. exact header_written. Qed.
Print Assumptions C09_header_written.

(* ------------------------------------------------------------------ the msgpack codec: the DECODER
   model (Msgpack_Model.decode_mp on fuel, for the formats rmp accepts for these types) is a left
   inverse of the encoder on well-formed trees; the encoding is injective and prefix-free *)
From Adb Require Import Base Generated Wire_Model C10_Model Msgpack_Model Msgpack_Proofs.

Theorem C09_msgpack_roundtrip :
  forall t : mp,
  mp_wf t = true ->
  forall (fuel : nat) (rest : list N),
  (mp_size t <= fuel)%nat -> decode_mp fuel (encode t ++ rest) = Some (t, rest).
Proof. exact decode_encode_fuel. Qed.
Print Assumptions C09_msgpack_roundtrip.

Theorem C09_msgpack_decode_all_encode :
  forall t : mp, mp_wf t = true -> decode_all (encode t) = Some t.
Proof. exact decode_all_encode. Qed.
Print Assumptions C09_msgpack_decode_all_encode.

Theorem C09_msgpack_encode_injective :
  forall t t' : mp, mp_wf t = true -> mp_wf t' = true -> encode t = encode t' -> t = t'.
Proof. exact encode_injective. Qed.
Print Assumptions C09_msgpack_encode_injective.

Theorem C09_msgpack_encode_prefix_free :
  forall t t' : mp, mp_wf t = true -> mp_wf t' = true -> ~ strict_prefix (encode t') (encode t).
Proof. exact encode_prefix_free. Qed.
Print Assumptions C09_msgpack_encode_prefix_free.

Theorem C09_msgpack_wf_needed_refuted :
  exists t : mp, mp_wf t = false /\ decode_all (encode t) <> Some t.
Proof. exact decode_encode_wf_needed. Qed.
Print Assumptions C09_msgpack_wf_needed_refuted.

