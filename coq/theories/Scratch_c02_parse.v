(* c02-parse_PINS.v — pinned statements to merge into Props_C02.v.
   Merge: (1) add C02_Parse_Proofs to the import line of Props_C02.v:
            From Adb Require Import Base BaseProofs Generated C02_Model C02_Proofs C02_Parse_Proofs.
          (2) replace the comment block "---- from the text of a rule.  PARTIAL: ..." and the pin
              C02_check_line_ref_partial by the block below (C02_check_line_ref_partial and
              C02_parse_preserves_ast_bounded may stay as they are: both are now instances). *)
From Adb Require Import Base BaseProofs Generated C02_Model C02_Proofs C02_Parse_Proofs.

(* ---- the parse step, for ALL lines (no length bound, no alphabet restriction): outside the
   degenerate spellings (nondegenerate_text) and the known finding F22 (host_right_pipe), the
   fields the model of NetworkFilter::parse produces are well-formed (wf_fields), non-degenerate
   (nondegenerate_fields), and denote exactly the declarative reading of the text
   (ast_of_fields = ast_of_text).  No further side condition is needed. ---- *)
Theorem C02_parse_preserves_ast : forall line,
  nondegenerate_text line = true -> host_right_pipe line = false -> parse_ok line = true.
Proof. exact parse_preserves_ast. Qed.
Print Assumptions C02_parse_preserves_ast.

(* ---- from the text of a rule: check_pattern on the parsed fields of a line = ABP semantics of
   the text of the line.  The parse premise [parse_ok line] of C02_check_line_ref_partial is
   discharged by C02_parse_preserves_ast. ---- *)
Theorem C02_check_line_ref : forall re_ok re_match line r hs,
  let pf := parse_line line in
  nondegenerate_text line = true ->
  host_right_pipe line = false ->
  wf_request r hs ->
  (forall f, pf_filter pf = Some f -> s_rx (pf_shape pf) = true ->
             re_std re_ok re_match (translate f (s_la (pf_shape pf)) (s_ra (pf_shape pf)))
                    (s_la (pf_shape pf)) (s_ra (pf_shape pf)) (toks f)) ->
  (check_pattern_sh re_ok re_match (pf_shape pf) (fs_of (pf_filter pf)) (pf_hostname pf) r = true <->
   ref_match (ast_of_text line) (lower_str (r_url r)) (r_host r) hs).
Proof. exact check_line_ref_full. Qed.
Print Assumptions C02_check_line_ref.

(* ---- the per-rule check of the correspondence run (text_tie), on the model's own parse of
   any line, is always true ---- *)
Theorem C02_text_tie_parse_line : forall line,
  let pf := parse_line line in
  text_tie line (mask_of_shape (pf_shape pf)) (pf_filter pf) (pf_hostname pf) = true.
Proof. exact text_tie_parse_line. Qed.
Print Assumptions C02_text_tie_parse_line.

(* ---- regression: the former finite-domain statement follows from the general one ---- *)
Theorem C02_parse_preserves_ast_bounded_from_general : forall line,
  (length line <= 6)%nat -> Forall (fun b => In b ALPHA) line ->
  nondegenerate_text line = true -> host_right_pipe line = false -> parse_ok line = true.
Proof. exact parse_preserves_ast_implies_bounded. Qed.
Print Assumptions C02_parse_preserves_ast_bounded_from_general.
