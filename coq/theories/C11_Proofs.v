(* C11_Proofs.v — panic-freedom of the offset-based slicing in the list/rule parsers for every
   valid UTF-8 input, and the list-level theorems (line independence, rule types, hosts form). *)
From Adb Require Import Base BaseProofs Generated C11_Model.
From Coq Require Import ZifyBool ZifyNat ZifyN.

(* ------------------------------------------------------------------ safe / bind *)
Lemma safe_not_panic {A} (x : res A) : safe x <-> forall w, x <> Panic w.
Proof. destruct x; cbn; split; intros H; try congruence; try tauto. exfalso. eapply H. reflexivity. Qed.

Lemma safe_rbind {A B} (x : res A) (f : A -> res B) :
  safe x -> (forall a, x = Ok a -> safe (f a)) -> safe (rbind x f).
Proof. destruct x; cbn; intros H1 H2; [apply H2; reflexivity|contradiction]. Qed.

Lemma safe_pbind {A B} (x : pr A) (f : A -> pr B) :
  safe x -> (forall a, x = Ok (inl a) -> safe (f a)) -> safe (pbind x f).
Proof. destruct x as [[a|e]|w]; cbn; intros H1 H2; [apply H2; reflexivity|exact I|contradiction]. Qed.

Lemma safe_Ok {A} (a : A) : safe (Ok a).
Proof. exact I. Qed.
#[global] Hint Resolve safe_Ok : c11.

(* ------------------------------------------------------------------ the UTF-8 automaton *)
Lemma urun_app q a b : urun q (a ++ b) = urun (urun q a) b.
Proof. unfold urun. apply fold_left_app. Qed.

Lemma urun_UR s : urun UR s = UR.
Proof. induction s as [|x s IH]; cbn; auto. Qed.

Lemma valid_iff s : valid_utf8 s = true <-> urun UA s = UA.
Proof. unfold valid_utf8. destruct (urun UA s); split; congruence. Qed.

Lemma ustep_noncont q b : q <> UA -> is_cont b = false -> ustep q b = UR.
Proof.
  intros Hq Hb. unfold is_cont, rng in Hb.
  destruct q; try congruence; cbn [ustep]; try reflexivity; unfold is_cont, rng;
    match goal with |- (if ?c then _ else _) = _ => destruct c eqn:E end; try reflexivity; lia.
Qed.

Lemma ustep_UA_cont b : is_cont b = true -> ustep UA b = UR.
Proof.
  unfold is_cont, rng. intros Hb. cbn [ustep]. unfold rng.
  repeat match goal with |- (if ?c then _ else _) = _ => destruct c eqn:? end; try reflexivity; lia.
Qed.

Lemma ustep_UA_ascii b : b < 128 -> ustep UA b = UA.
Proof. intros H. cbn [ustep]. destruct (N.ltb b 128) eqn:E; [reflexivity|lia]. Qed.

(* a non-continuation byte can only be consumed between characters *)
Lemma urun_noncont_head q b r : is_cont b = false -> urun q (b :: r) = UA -> q = UA.
Proof.
  intros Hb H. destruct q; try reflexivity; exfalso;
    cbn [urun fold_left] in H; rewrite ustep_noncont in H by (congruence || assumption);
    fold (urun UR r) in H; rewrite urun_UR in H; discriminate.
Qed.

Lemma valid_app a b : valid_utf8 a = true -> valid_utf8 b = true -> valid_utf8 (a ++ b) = true.
Proof. rewrite !valid_iff, urun_app. intros -> ->. reflexivity. Qed.

Lemma valid_app_inv_l a b : valid_utf8 a = true -> valid_utf8 (a ++ b) = true -> valid_utf8 b = true.
Proof. rewrite !valid_iff, urun_app. intros ->. auto. Qed.

(* splitting before a non-continuation byte *)
Lemma valid_app_inv_head a b r :
  is_cont b = false -> valid_utf8 (a ++ b :: r) = true ->
  valid_utf8 a = true /\ valid_utf8 (b :: r) = true.
Proof.
  rewrite !valid_iff, urun_app. intros Hb H.
  pose proof (urun_noncont_head _ _ _ Hb H) as E. rewrite E in H. auto.
Qed.

Lemma valid_ascii s : all_ascii s = true -> valid_utf8 s = true.
Proof.
  rewrite valid_iff. induction s as [|x s IH]; [reflexivity|].
  intros H. cbn [all_ascii forallb] in H. apply andb_true_iff in H as [H1 H2]. unfold is_ascii in H1.
  unfold urun. cbn [fold_left]. rewrite ustep_UA_ascii by lia. apply IH. exact H2.
Qed.

Lemma valid_nil : valid_utf8 [] = true.
Proof. reflexivity. Qed.

(* ------------------------------------------------------------------ list plumbing *)
Lemma nth_error_drop {A} (s : list A) a j : nth_error (drop a s) j = nth_error s (a + j).
Proof.
  unfold drop. revert s; induction a as [|a IH]; intros s; cbn; [reflexivity|].
  destruct s as [|x s]; cbn; [destruct j; reflexivity|apply IH].
Qed.

Lemma nth_error_take {A} (s : list A) n j : (j < n)%nat -> nth_error (take n s) j = nth_error s j.
Proof.
  unfold take. revert s j; induction n as [|n IH]; intros s j H; [lia|].
  destruct s as [|x s]; cbn; [destruct j; reflexivity|].
  destruct j as [|j]; cbn; [reflexivity|apply IH; lia].
Qed.

Lemma nth_error_lt {A} (s : list A) i c : nth_error s i = Some c -> (i < length s)%nat.
Proof. intros H. apply nth_error_Some. congruence. Qed.

Lemma take_S_nth {A} (s : list A) i c : nth_error s i = Some c -> take (S i) s = take i s ++ [c].
Proof.
  unfold take. revert s; induction i as [|i IH]; intros [|x s] H; cbn in *; try discriminate.
  - congruence.
  - f_equal. apply IH. exact H.
Qed.

Lemma nth_split_take {A} (s : list A) i c :
  nth_error s i = Some c -> s = take i s ++ c :: drop (S i) s.
Proof.
  unfold take, drop. revert s; induction i as [|i IH]; intros [|x s] H; cbn in *; try discriminate.
  - congruence.
  - f_equal. apply IH. exact H.
Qed.

Lemma take_take_le {A} (s : list A) a b : (a <= b)%nat -> take a (take b s) = take a s.
Proof. intros H. unfold take. rewrite firstn_firstn. f_equal. lia. Qed.

Lemma take_split {A} (s : list A) a b :
  (a <= b)%nat -> take b s = take a s ++ take (b - a) (drop a s).
Proof.
  intros H. unfold take, drop.
  rewrite <- (firstn_skipn a (firstn b s)) at 1.
  rewrite firstn_firstn. replace (Nat.min a b) with a by lia.
  f_equal. rewrite firstn_skipn_comm. f_equal. f_equal. lia.
Qed.

Lemma length_take {A} (s : list A) n : (n <= length s)%nat -> length (take n s) = n.
Proof. intros H. unfold take. rewrite firstn_length. lia. Qed.
Lemma length_drop {A} (s : list A) n : length (drop n s) = (length s - n)%nat.
Proof. unfold drop. apply skipn_length. Qed.

Lemma take_all {A} (s : list A) n : (length s <= n)%nat -> take n s = s.
Proof. intros H. unfold take. apply firstn_all2. exact H. Qed.

Lemma find_byte_nth c s i : find_byte c s = Some i -> nth_error s i = Some c.
Proof.
  revert i; induction s as [|x s IH]; cbn; intros i H; [discriminate|].
  destruct (N.eqb x c) eqn:E.
  - inversion H; subst. apply N.eqb_eq in E. subst. reflexivity.
  - destruct (find_byte c s) as [j|]; [|discriminate]. inversion H; subst. cbn. apply IH. reflexivity.
Qed.

Lemma rfind_byte_nth c s i : rfind_byte c s = Some i -> nth_error s i = Some c.
Proof.
  revert i; induction s as [|x s IH]; cbn; intros i H; [discriminate|].
  destruct (rfind_byte c s) as [j|].
  - inversion H; subst. cbn. apply IH. reflexivity.
  - destruct (N.eqb x c) eqn:E; [|discriminate]. inversion H; subst.
    apply N.eqb_eq in E. subst. reflexivity.
Qed.

Lemma prefixb_nth p s j c : prefixb p s = true -> nth_error p j = Some c -> nth_error s j = Some c.
Proof.
  revert s j; induction p as [|x p IH]; intros s j H Hj; [destruct j; discriminate|].
  destruct s as [|y s]; cbn in H; [discriminate|].
  apply andb_true_iff in H as [H1 H2]. apply N.eqb_eq in H1. subst y.
  destruct j as [|j]; cbn in *; [exact Hj|]. apply IH; assumption.
Qed.

Lemma prefixb_take p s : prefixb p s = true -> take (length p) s = p.
Proof.
  unfold take. revert s; induction p as [|x p IH]; intros s H; [reflexivity|].
  destruct s as [|y s]; cbn in H; [discriminate|].
  apply andb_true_iff in H as [H1 H2]. apply N.eqb_eq in H1. subst y. cbn. f_equal. apply IH. exact H2.
Qed.

Lemma prefixb_length p s : prefixb p s = true -> (length p <= length s)%nat.
Proof.
  revert s; induction p as [|x p IH]; intros s H; cbn; [lia|].
  destruct s as [|y s]; cbn in H; [discriminate|].
  apply andb_true_iff in H as [_ H2]. apply IH in H2. cbn. lia.
Qed.

Lemma suffixb_inv p s : suffixb p s = true ->
  (length p <= length s)%nat /\ drop (length s - length p) s = p.
Proof.
  unfold suffixb. intros H. apply andb_true_iff in H as [H1 H2].
  apply Nat.leb_le in H1. apply str_eqb_eq in H2. auto.
Qed.

Lemma suffixb1_nth c s : suffixb [c] s = true ->
  (1 <= length s)%nat /\ nth_error s (length s - 1) = Some c.
Proof.
  intros H. apply suffixb_inv in H as [H1 H2]. cbn [length] in *. split; [exact H1|].
  replace (length s - 1)%nat with (length s - 1 + 0)%nat by lia.
  rewrite <- nth_error_drop. rewrite H2. reflexivity.
Qed.

(* ------------------------------------------------------------------ boundaries *)
Lemma state_at_byte s i b :
  urun UA s = UA -> nth_error s i = Some b ->
  (urun UA (take i s) = UA <-> is_cont b = false).
Proof.
  intros Hv Hn. pose proof (nth_split_take _ _ _ Hn) as E.
  rewrite E, urun_app in Hv. split; intros H.
  - rewrite H in Hv. destruct (is_cont b) eqn:Hc; [|reflexivity].
    cbn [urun fold_left] in Hv. rewrite ustep_UA_cont in Hv by exact Hc.
    fold (urun UR (drop (S i) s)) in Hv. rewrite urun_UR in Hv. discriminate.
  - eapply urun_noncont_head; eauto.
Qed.

Theorem boundary_state s i :
  valid_utf8 s = true -> (i <= length s)%nat ->
  (is_boundary s i = true <-> urun UA (take i s) = UA).
Proof.
  rewrite valid_iff. intros Hv Hi. destruct i as [|i]; [cbn; tauto|].
  unfold is_boundary. destruct (nth_error s (S i)) as [b|] eqn:Hn.
  - rewrite (state_at_byte s (S i) b Hv Hn). destruct (is_cont b); cbn; split; congruence.
  - apply nth_error_None in Hn. assert (S i = length s) as -> by lia.
    rewrite Nat.eqb_refl, take_all by lia. tauto.
Qed.

Lemma bnd_0 s : is_boundary s 0 = true.
Proof. reflexivity. Qed.

Lemma bnd_len s : is_boundary s (length s) = true.
Proof.
  unfold is_boundary. destruct (length s) eqn:E; [reflexivity|]. rewrite <- E.
  assert (nth_error s (length s) = None) as -> by (apply nth_error_None; lia).
  apply Nat.eqb_refl.
Qed.

Lemma bnd_ascii s i c : nth_error s i = Some c -> c < 128 -> is_boundary s i = true.
Proof.
  intros Hn Hc. unfold is_boundary. destruct i; [reflexivity|]. rewrite Hn.
  unfold is_cont, rng. lia.
Qed.

Lemma bnd_after_ascii s i c :
  valid_utf8 s = true -> nth_error s i = Some c -> c < 128 -> is_boundary s (S i) = true.
Proof.
  intros Hv Hn Hc. pose proof (nth_error_lt _ _ _ Hn) as Hl.
  apply boundary_state; [exact Hv|lia|].
  rewrite (take_S_nth _ _ _ Hn), urun_app.
  assert (urun UA (take i s) = UA) as ->.
  { apply boundary_state; [exact Hv|lia|]. eapply bnd_ascii; eauto. }
  cbn. apply ustep_UA_ascii. exact Hc.
Qed.

(* an offset usable as either end of a slice *)
Definition good (s : str) (i : nat) : Prop := (i <= length s)%nat /\ is_boundary s i = true.

Lemma good_0 s : good s 0.
Proof. split; [lia|reflexivity]. Qed.
Lemma good_len s : good s (length s).
Proof. split; [lia|apply bnd_len]. Qed.
Lemma good_ascii s i c : nth_error s i = Some c -> c < 128 -> good s i.
Proof. intros H1 H2. split; [apply nth_error_lt in H1; lia|eapply bnd_ascii; eauto]. Qed.
Lemma good_after_ascii s i c :
  valid_utf8 s = true -> nth_error s i = Some c -> c < 128 -> good s (S i).
Proof. intros H0 H1 H2. split; [apply nth_error_lt in H1; lia|eapply bnd_after_ascii; eauto]. Qed.

(* offsets found by searching for an ASCII byte, and the offset just after *)
Lemma good_find c s i : c < 128 -> find_byte c s = Some i -> good s i.
Proof. intros Hc H. eapply good_ascii; [apply find_byte_nth; exact H|exact Hc]. Qed.
Lemma good_find_next c s i : valid_utf8 s = true -> c < 128 -> find_byte c s = Some i -> good s (S i).
Proof. intros Hv Hc H. eapply good_after_ascii; [exact Hv|apply find_byte_nth; exact H|exact Hc]. Qed.
Lemma good_rfind c s i : c < 128 -> rfind_byte c s = Some i -> good s i.
Proof. intros Hc H. eapply good_ascii; [apply rfind_byte_nth; exact H|exact Hc]. Qed.
Lemma good_rfind_next c s i : valid_utf8 s = true -> c < 128 -> rfind_byte c s = Some i -> good s (S i).
Proof. intros Hv Hc H. eapply good_after_ascii; [exact Hv|apply rfind_byte_nth; exact H|exact Hc]. Qed.

(* len - k where an ASCII suffix of length k has just been matched *)
Lemma good_before_suffix p s :
  suffixb p s = true -> all_ascii p = true -> good s (length s - length p).
Proof.
  intros H Ha. apply suffixb_inv in H as [H1 H2]. destruct p as [|c p].
  - cbn. rewrite Nat.sub_0_r. apply good_len.
  - apply good_ascii with (c := c).
    + replace (length s - length (c :: p))%nat with (length s - length (c :: p) + 0)%nat by lia.
      rewrite <- nth_error_drop, H2. reflexivity.
    + cbn in Ha. apply andb_true_iff in Ha as [Ha _]. unfold is_ascii in Ha. lia.
Qed.

(* ------------------------------------------------------------------ slices *)
Lemma slice_ok s a b : good s a -> good s b -> (a <= b)%nat ->
  slice s a b = Ok (take (b - a) (drop a s)).
Proof.
  intros [Ha1 Ha2] [Hb1 Hb2] Hab. unfold slice. rewrite Ha2, Hb2.
  apply Nat.leb_le in Hab, Hb1. rewrite Hab, Hb1. reflexivity.
Qed.

Lemma slice_inv s a b r : slice s a b = Ok r ->
  good s a /\ good s b /\ (a <= b)%nat /\ r = take (b - a) (drop a s).
Proof.
  unfold slice. destruct (Nat.leb a b) eqn:E1; cbn; [|discriminate].
  destruct (Nat.leb b (length s)) eqn:E2; cbn; [|discriminate].
  destruct (is_boundary s a) eqn:E3; cbn; [|discriminate].
  destruct (is_boundary s b) eqn:E4; cbn; [|discriminate].
  intros H. inversion H. apply Nat.leb_le in E1, E2. unfold good. repeat split; auto; lia.
Qed.

Lemma slice_safe s a b : good s a -> good s b -> (a <= b)%nat -> safe (slice s a b).
Proof. intros. rewrite slice_ok by assumption. exact I. Qed.

Lemma slice_from_ok s a : good s a -> slice_from s a = Ok (drop a s).
Proof.
  intros H. unfold slice_from. rewrite slice_ok; [|exact H|apply good_len|destruct H; lia].
  f_equal. apply take_all. rewrite length_drop. lia.
Qed.

Lemma slice_to_ok s b : good s b -> slice_to s b = Ok (take b s).
Proof.
  intros H. unfold slice_to. rewrite slice_ok; [|apply good_0|exact H|lia].
  rewrite Nat.sub_0_r. reflexivity.
Qed.

Lemma slice_valid s a b r : valid_utf8 s = true -> slice s a b = Ok r -> valid_utf8 r = true.
Proof.
  intros Hv H. apply slice_inv in H as ([Ha1 Ha2] & [Hb1 Hb2] & Hab & ->).
  pose proof (proj1 (boundary_state s a Hv Ha1) Ha2) as Sa.
  pose proof (proj1 (boundary_state s b Hv Hb1) Hb2) as Sb.
  rewrite (take_split s a b Hab), urun_app, Sa in Sb. apply valid_iff. exact Sb.
Qed.

Lemma valid_drop s a : valid_utf8 s = true -> good s a -> valid_utf8 (drop a s) = true.
Proof. intros Hv H. eapply slice_valid; [exact Hv|apply slice_from_ok; exact H]. Qed.
Lemma valid_take s a : valid_utf8 s = true -> good s a -> valid_utf8 (take a s) = true.
Proof. intros Hv H. eapply slice_valid; [exact Hv|apply slice_to_ok; exact H]. Qed.

Lemma slice_length s a b r : slice s a b = Ok r -> length r = (b - a)%nat.
Proof.
  intros H. apply slice_inv in H as ([Ha1 _] & [Hb1 _] & Hab & ->).
  rewrite length_take; [reflexivity|]. rewrite length_drop. lia.
Qed.

(* good offsets of a slice are good offsets of the whole string *)
Lemma good_shift s a j : valid_utf8 s = true -> good s a -> good (drop a s) j -> good s (a + j).
Proof.
  intros Hv [Ha1 Ha2] [Hj1 Hj2]. rewrite length_drop in Hj1. split; [lia|].
  apply boundary_state; [exact Hv|lia|].
  rewrite (take_split s a (a + j)) by lia. rewrite urun_app.
  rewrite (proj1 (boundary_state s a Hv Ha1) Ha2).
  replace (a + j - a)%nat with j by lia.
  apply boundary_state; [apply valid_drop; [exact Hv|split; assumption]|rewrite length_drop; lia|exact Hj2].
Qed.

Ltac ascii_lt := (unfold c_TAB, c_BANG, c_HASH, c_DOLLAR, c_STAR, c_COMMA, c_DOT, c_SLASH, c_EQ, c_AT,
                  c_LBRACK, c_BSLASH, c_CARET, c_PIPE, c_TILDE, c_RPAREN, c_PLUS, c_SPACE; lia).

(* ------------------------------------------------------------------ detect_filter_type *)
Theorem detect_filter_type_safe s : valid_utf8 s = true -> safe (detect_filter_type s).
Proof.
  intros Hv. unfold detect_filter_type. apply safe_rbind.
  - destruct (Nat.eqb (length s) 1); [exact I|]. destruct (prefixb [c_BANG] s); [exact I|].
    destruct (prefixb [c_HASH] s) eqn:E; [|exact I].
    rewrite slice_from_ok; [exact I|].
    apply good_after_ascii with (c := c_HASH); [exact Hv| |ascii_lt].
    eapply prefixb_nth; [exact E|reflexivity].
  - intros c1 _. destruct (c1 || prefixb (bs "[Adblock") s); [exact I|].
    destruct (prefixb [c_PIPE] s || prefixb (bs "@@|") s); [exact I|].
    apply safe_rbind.
    + destruct (find_byte c_HASH s) as [i|] eqn:F; [|exact I].
      pose proof (nth_error_lt _ _ _ (find_byte_nth _ _ _ F)) as Hl.
      unfold bslice.
      assert (Nat.leb (S i) (Nat.min (S i + 4) (length s)) = true) as -> by (apply Nat.leb_le; lia).
      assert (Nat.leb (Nat.min (S i + 4) (length s)) (length s) = true) as -> by (apply Nat.leb_le; lia).
      exact I.
    + intros cosm _. destruct cosm; [exact I|]. destruct (containsb (bs "$$") s); exact I.
Qed.

(* ------------------------------------------------------------------ read_list_metadata *)
Lemma back_to_boundary_spec s c :
  exists k, back_to_boundary s c = Ok k /\ (k <= c)%nat /\ is_boundary s k = true /\
            (forall j, (k < j <= c)%nat -> is_boundary s j = false).
Proof.
  induction c as [|c IH].
  - exists O. cbn. repeat split; auto. intros j Hj; lia.
  - cbn [back_to_boundary]. destruct (is_boundary s (S c)) eqn:E.
    + exists (S c). repeat split; auto. intros j Hj; lia.
    + destruct IH as (k & H1 & H2 & H3 & H4). exists k. repeat split; auto.
      intros j Hj. destruct (Nat.eq_dec j (S c)) as [->|Hne]; [exact E|apply H4; lia].
Qed.

Theorem cutoff_spec s :
  exists k, cutoff s = Ok k /\ (k <= N.to_nat 1024)%nat /\ good s k /\
            (forall j, (k < j <= Nat.min (length s) (N.to_nat 1024))%nat -> is_boundary s j = false).
Proof.
  unfold cutoff. destruct (back_to_boundary_spec s (Nat.min (length s) (N.to_nat 1024))) as (k & H1 & H2 & H3 & H4).
  exists k. repeat split; auto; lia.
Qed.

Theorem read_list_metadata_safe s : safe (read_list_metadata s).
Proof.
  unfold read_list_metadata. destruct (cutoff_spec s) as (k & -> & _ & Hg & _). cbn [rbind].
  rewrite slice_ok; [exact I|apply good_0|exact Hg|lia].
Qed.

(* ------------------------------------------------------------------ AbstractNetworkFilter::parse *)
Definition anchor_bytes (l : str) : Prop := Forall (fun c => c = c_AT \/ c = c_PIPE) l.

Lemma anchor_bytes_no_dollar l i : anchor_bytes l -> nth_error l i = Some c_DOLLAR -> False.
Proof.
  intros H Hn. apply nth_error_In in Hn. unfold anchor_bytes in H. rewrite Forall_forall in H.
  destruct (H _ Hn) as [E|E]; vm_compute in E; discriminate.
Qed.

Lemma abstract_tail_props line exception fis0 fie0 options :
  valid_utf8 line = true ->
  good line fis0 -> anchor_bytes (take fis0 line) ->
  good line fie0 -> (fie0 = length line \/ nth_error line fie0 = Some c_DOLLAR) ->
  safe (abstract_tail line exception fis0 fie0 options) /\
  forall p, abstract_tail line exception fis0 fie0 options = Ok (inl p) -> valid_utf8 (af_pattern p) = true.
Proof.
  intros Hv G0 A0 G1 D1. unfold abstract_tail.
  rewrite !slice_from_ok by exact G0. cbn [rbind].
  (* the left anchor *)
  assert (exists fis left,
    (if prefixb (bs "||") (drop fis0 line) then Ok ((fis0 + 2)%nat, Some DoublePipe)
     else if prefixb [c_PIPE] (drop fis0 line) then Ok ((fis0 + 1)%nat, Some SinglePipe)
     else Ok (fis0, None)) = Ok (fis, left) /\ good line fis /\ anchor_bytes (take fis line))
    as (fis & left & -> & G2 & A2).
  { destruct (prefixb (bs "||") (drop fis0 line)) eqn:E2.
    - exists (fis0 + 2)%nat, (Some DoublePipe). split; [reflexivity|]. split.
      + replace (fis0 + 2)%nat with (S (fis0 + 1)) by lia.
        apply good_after_ascii with (c := c_PIPE); [exact Hv| |ascii_lt].
        rewrite <- nth_error_drop. eapply prefixb_nth; [exact E2|reflexivity].
      + rewrite (take_split line fis0 (fis0 + 2)) by lia. apply Forall_app. split; [exact A0|].
        replace (fis0 + 2 - fis0)%nat with (length (bs "||")) by (cbn; lia).
        rewrite prefixb_take by exact E2. repeat constructor; right; reflexivity.
    - destruct (prefixb [c_PIPE] (drop fis0 line)) eqn:E1.
      + exists (fis0 + 1)%nat, (Some SinglePipe). split; [reflexivity|]. split.
        * replace (fis0 + 1)%nat with (S fis0) by lia.
          apply good_after_ascii with (c := c_PIPE); [exact Hv| |ascii_lt].
          replace fis0 with (fis0 + 0)%nat at 1 by lia.
          rewrite <- nth_error_drop. eapply prefixb_nth; [exact E1|reflexivity].
        * rewrite (take_split line fis0 (fis0 + 1)) by lia. apply Forall_app. split; [exact A0|].
          replace (fis0 + 1 - fis0)%nat with (length [c_PIPE]) by (cbn; lia).
          rewrite prefixb_take by exact E1. repeat constructor; right; reflexivity.
      + exists fis0, None. auto. }
  cbn [rbind fst snd].
  (* fis <= fie0: the bytes before fis are '@' or '|', the byte at fie0 is '$' *)
  assert (Hle : (fis <= fie0)%nat).
  { destruct D1 as [->|D1]; [destruct G2; lia|].
    destruct (Nat.le_gt_cases fis fie0) as [H|H]; [exact H|exfalso].
    apply (anchor_bytes_no_dollar _ fie0 A2). rewrite nth_error_take by lia. exact D1. }
  destruct (Nat.ltb 0 fie0 && Nat.ltb fis fie0) eqn:Eg.
  - rewrite slice_to_ok by exact G1. cbn [rbind].
    destruct (suffixb [c_PIPE] (take fie0 line)) eqn:Es.
    + apply andb_true_iff in Eg as [Eg1 Eg2]. apply Nat.ltb_lt in Eg1, Eg2.
      apply suffixb1_nth in Es as [Es1 Es2]. destruct G1 as [G1a G1b].
      rewrite length_take in Es2 by exact G1a. rewrite nth_error_take in Es2 by lia.
      assert (G3 : good line (fie0 - 1)) by (eapply good_ascii; [exact Es2|ascii_lt]).
      rewrite slice_ok by (assumption || lia). cbn. split; [exact I|].
      intros p Hp. inversion Hp; subst p. cbn.
      eapply slice_valid; [exact Hv|apply slice_ok; assumption || lia].
    + rewrite slice_ok by (assumption || lia). cbn. split; [exact I|].
      intros p Hp. inversion Hp; subst p. cbn.
      eapply slice_valid; [exact Hv|apply slice_ok; assumption || lia].
  - cbn [rbind]. rewrite slice_ok by (assumption || lia). cbn. split; [exact I|].
    intros p Hp. inversion Hp; subst p. cbn.
    eapply slice_valid; [exact Hv|apply slice_ok; assumption || lia].
Qed.

Lemma abstract_parse_props line :
  valid_utf8 line = true ->
  safe (abstract_parse line) /\
  forall p, abstract_parse line = Ok (inl p) -> valid_utf8 (af_pattern p) = true.
Proof.
  intros Hv. unfold abstract_parse.
  assert (G0 : good line (if prefixb (bs "@@") line then 2%nat else O) /\
               anchor_bytes (take (if prefixb (bs "@@") line then 2%nat else O) line)).
  { destruct (prefixb (bs "@@") line) eqn:E; [|split; [apply good_0|constructor]]. split.
    - apply good_after_ascii with (c := c_AT); [exact Hv| |ascii_lt].
      eapply prefixb_nth; [exact E|reflexivity].
    - change 2%nat with (length (bs "@@")). rewrite prefixb_take by exact E.
      repeat constructor; left; reflexivity. }
  destruct G0 as [G0 A0].
  destruct (rfind_byte c_DOLLAR line) as [oi|] eqn:R.
  - rewrite slice_from_ok by (eapply good_rfind_next; [exact Hv| |exact R]; ascii_lt). cbn [rbind].
    destruct (parse_filter_options (drop (S oi) line)) as [os|e].
    + apply abstract_tail_props; auto.
      * eapply good_rfind; [|exact R]; ascii_lt.
      * right. apply rfind_byte_nth. exact R.
    + split; [exact I|]. intros p Hp. discriminate.
  - apply abstract_tail_props; auto. apply good_len.
Qed.

Theorem abstract_parse_safe line : valid_utf8 line = true -> safe (abstract_parse line).
Proof. intros Hv. apply abstract_parse_props. exact Hv. Qed.

(* ------------------------------------------------------------------ the list driver *)
Section DriverProofs.
Variable parse_line : str -> pr parsed_filter.

Definition keep (p : parsed_filter + string) (t : metadata * list net_rule * list cos_rule) :=
  let '(mm, ns, cs) := t in
  match p with
  | inl (PNetwork n) => (mm, n :: ns, cs)
  | inl (PCosmetic c) => (mm, ns, c :: cs)
  | inr _ => (mm, ns, cs)
  end.

Lemma parse_list_cons l r m :
  parse_list parse_line (l :: r) m =
  rbind (parse_line l) (fun p => rbind (parse_list parse_line r (try_add m l)) (fun t => Ok (keep p t))).
Proof.
  cbn [parse_list]. destruct (parse_line l) as [p|w]; cbn [rbind]; [|reflexivity].
  destruct (parse_list parse_line r (try_add m l)) as [[[mm ns] cs]|w]; reflexivity.
Qed.

Lemma rules_of_keep p t : 
  rules_of (Ok (keep p t)) = rbind (rules_of (Ok t)) (fun r => Ok (snd (fst (keep p (md_empty, fst r, snd r))), snd (keep p (md_empty, fst r, snd r)))).
Proof. destruct t as [[mm ns] cs]. destruct p as [[n|c]|e]; reflexivity. Qed.

(* the rules produced do not depend on the metadata collected so far *)
Lemma rules_indep_md ls m1 m2 :
  rules_of (parse_list parse_line ls m1) = rules_of (parse_list parse_line ls m2).
Proof.
  revert m1 m2; induction ls as [|l r IH]; intros m1 m2; [reflexivity|].
  rewrite !parse_list_cons. destruct (parse_line l) as [p|w]; cbn [rbind]; [|reflexivity].
  specialize (IH (try_add m1 l) (try_add m2 l)).
  destruct (parse_list parse_line r (try_add m1 l)) as [[[mm1 ns1] cs1]|w1];
    destruct (parse_list parse_line r (try_add m2 l)) as [[[mm2 ns2] cs2]|w2];
    cbn in IH |- *; try congruence.
  inversion IH; subst. destruct p as [[n|c]|e]; reflexivity.
Qed.

Theorem line_independent l1 bad l2 m e :
  parse_line bad = Ok (inr e) ->
  rules_of (parse_list parse_line (l1 ++ bad :: l2) m) = rules_of (parse_list parse_line (l1 ++ l2) m).
Proof.
  intros Hbad. revert m; induction l1 as [|l r IH]; intros m.
  - cbn [app]. rewrite parse_list_cons, Hbad. cbn [rbind].
    rewrite <- (rules_indep_md l2 (try_add m bad) m).
    destruct (parse_list parse_line l2 (try_add m bad)) as [[[mm ns] cs]|w]; reflexivity.
  - cbn [app]. rewrite !parse_list_cons. destruct (parse_line l) as [p|w]; cbn [rbind]; [|reflexivity].
    specialize (IH (try_add m l)).
    destruct (parse_list parse_line (r ++ bad :: l2) (try_add m l)) as [[[mm1 ns1] cs1]|w1];
      destruct (parse_list parse_line (r ++ l2) (try_add m l)) as [[[mm2 ns2] cs2]|w2];
      cbn in IH |- *; try congruence.
    inversion IH; subst. destruct p as [[n|c]|e']; reflexivity.
Qed.

(* with the metadata: equal outright when the rejected line is not a metadata comment *)
Theorem line_independent_full l1 bad l2 m e :
  parse_line bad = Ok (inr e) -> md_neutral bad ->
  parse_list parse_line (l1 ++ bad :: l2) m = parse_list parse_line (l1 ++ l2) m.
Proof.
  intros Hbad Hn. revert m; induction l1 as [|l r IH]; intros m.
  - cbn [app]. rewrite parse_list_cons, Hbad, Hn. cbn [rbind].
    destruct (parse_list parse_line l2 m) as [[[mm ns] cs]|w]; reflexivity.
  - cbn [app]. rewrite !parse_list_cons, IH. reflexivity.
Qed.

(* the driver is filter_map over the lines, and the metadata is a fold of try_add *)
Definition nets_of (ls : list str) : list net_rule :=
  flat_map (fun l => match parse_line l with Ok (inl (PNetwork n)) => [n] | _ => [] end) ls.
Definition cosms_of (ls : list str) : list cos_rule :=
  flat_map (fun l => match parse_line l with Ok (inl (PCosmetic c)) => [c] | _ => [] end) ls.

Theorem parse_list_spec ls m :
  (forall l, In l ls -> safe (parse_line l)) ->
  parse_list parse_line ls m = Ok (fold_left try_add ls m, nets_of ls, cosms_of ls).
Proof.
  revert m; induction ls as [|l r IH]; intros m Hs; [reflexivity|].
  rewrite parse_list_cons. pose proof (Hs l (or_introl eq_refl)) as Hl.
  destruct (parse_line l) as [p|w] eqn:E; [|contradiction]. cbn [rbind].
  rewrite IH by (intros x Hx; apply Hs; right; exact Hx). cbn [rbind fold_left].
  unfold nets_of, cosms_of. cbn [flat_map]. rewrite E.
  destruct p as [[n|c]|e]; reflexivity.
Qed.

Theorem parse_list_safe ls m :
  (forall l, In l ls -> safe (parse_line l)) -> safe (parse_list parse_line ls m).
Proof. intros H. rewrite parse_list_spec by exact H. exact I. Qed.

(* FilterSet::add_filter_list on two texts whose line lists differ by one rejected line *)
Theorem add_filter_list_independent fs text text' l1 bad l2 e :
  lines text = l1 ++ bad :: l2 -> lines text' = l1 ++ l2 -> parse_line bad = Ok (inr e) ->
  rbind (add_filter_list parse_line fs text) (fun x => Ok (snd x)) =
  rbind (add_filter_list parse_line fs text') (fun x => Ok (snd x)).
Proof.
  intros H1 H2 Hbad. unfold add_filter_list. rewrite H1, H2.
  pose proof (line_independent l1 bad l2 md_empty e Hbad) as H.
  destruct (parse_list parse_line (l1 ++ bad :: l2) md_empty) as [[[mm1 ns1] cs1]|w1];
    destruct (parse_list parse_line (l1 ++ l2) md_empty) as [[[mm2 ns2] cs2]|w2];
    cbn in H |- *; try congruence.
Qed.
End DriverProofs.

(* ------------------------------------------------------------------ rule types, hosts form *)
Section ParseFilterProofs.
Variable lower : str -> str.
Variable idna : str -> option str.

Theorem parse_filter_rule_types line fmt rt p :
  parse_filter lower idna line fmt rt = Ok (inl p) ->
  match p with
  | PNetwork _ => loads_network rt = true
  | PCosmetic _ => loads_cosmetic rt = true /\ fmt = FF_Standard
  end.
Proof.
  unfold parse_filter. destruct (null (trim line)); [discriminate|]. destruct fmt.
  - destruct (detect_filter_type (trim line)) as [ty|w]; cbn [rbind]; [|discriminate].
    destruct (N.eqb ty FT_NETWORK && loads_network rt) eqn:E1.
    + destruct (network_parse lower idna (trim line)) as [[f|e]|w]; cbn [pbind]; unfold ret; intros H;
        inversion H; subst. apply andb_true_iff in E1. tauto.
    + destruct (N.eqb ty FT_COSMETIC && loads_cosmetic rt) eqn:E2; [|discriminate].
      destruct (cosmetic_parse idna (trim line)) as [[f|e]|w]; cbn [pbind]; unfold ret; intros H;
        inversion H; subst. apply andb_true_iff in E2. tauto.
  - destruct (loads_network rt) eqn:E; cbn [negb]; [|discriminate].
    destruct (hosts_hostname (trim line)) as [[h|e]|w]; cbn [pbind]; try discriminate.
    destruct (parse_hosts_style lower idna h) as [[f|e]|w]; cbn [pbind]; unfold ret; intros H;
      inversion H; subst. reflexivity.
Qed.

(* a hosts-format entry is the rule  ||host^  with host = lower-cased, "www."-stripped, punycoded *)
Theorem hosts_equiv line rt p :
  parse_filter lower idna line FF_Hosts rt = Ok (inl p) ->
  exists h a f,
    hosts_hostname (trim line) = Ok (inl h) /\ norm_host lower idna h = Some a /\
    network_parse lower idna (bs "||" ++ a ++ bs "^") = Ok (inl f) /\ p = PNetwork f.
Proof.
  unfold parse_filter. destruct (null (trim line)); [discriminate|].
  destruct (negb (loads_network rt)); [discriminate|].
  destruct (hosts_hostname (trim line)) as [[h|e]|w]; cbn [pbind]; try discriminate.
  unfold parse_hosts_style. destruct (has_invalid_host_char h); [discriminate|].
  match goal with |- context[rbind ?x _] => destruct x as [bad|w] end; cbn [rbind pbind]; [|discriminate].
  destruct bad; [discriminate|]. unfold hosts_rule_text.
  destruct (norm_host lower idna h) as [a|] eqn:En; [|discriminate].
  destruct (network_parse lower idna (bs "||" ++ a ++ bs "^")) as [[f|e]|w] eqn:Ep; cbn [pbind];
    unfold ret; intros H; inversion H; subst.
  exists h, a, f. auto.
Qed.
End ParseFilterProofs.

Lemma parse_list_only_network parse_line ls m mm ns cs :
  (forall l p, parse_line l = Ok (inl p) -> exists n, p = PNetwork n) ->
  parse_list parse_line ls m = Ok (mm, ns, cs) -> cs = [].
Proof.
  intros Hp. revert m mm ns cs; induction ls as [|l r IH]; intros m mm ns cs.
  - cbn. intros H; inversion H; reflexivity.
  - rewrite parse_list_cons. destruct (parse_line l) as [p|w] eqn:E; cbn [rbind]; [|discriminate].
    destruct (parse_list parse_line r (try_add m l)) as [[[mm' ns'] cs']|w] eqn:E2; cbn [rbind]; [|discriminate].
    pose proof (IH _ _ _ _ E2) as ->. destruct p as [[n|c]|e]; cbn; intros H; inversion H; try reflexivity.
    destruct (Hp _ _ E) as [n Hn]. discriminate.
Qed.

Lemma parse_list_only_cosmetic parse_line ls m mm ns cs :
  (forall l p, parse_line l = Ok (inl p) -> exists c, p = PCosmetic c) ->
  parse_list parse_line ls m = Ok (mm, ns, cs) -> ns = [].
Proof.
  intros Hp. revert m mm ns cs; induction ls as [|l r IH]; intros m mm ns cs.
  - cbn. intros H; inversion H; reflexivity.
  - rewrite parse_list_cons. destruct (parse_line l) as [p|w] eqn:E; cbn [rbind]; [|discriminate].
    destruct (parse_list parse_line r (try_add m l)) as [[[mm' ns'] cs']|w] eqn:E2; cbn [rbind]; [|discriminate].
    pose proof (IH _ _ _ _ E2) as ->. destruct p as [[n|c]|e]; cbn; intros H; inversion H; try reflexivity.
    destruct (Hp _ _ E) as [c Hc]. discriminate.
Qed.

Theorem rule_types_respected lower idna fmt rt ls m mm ns cs :
  parse_list (fun l => parse_filter lower idna l fmt rt) ls m = Ok (mm, ns, cs) ->
  (loads_cosmetic rt = false \/ fmt = FF_Hosts -> cs = []) /\ (loads_network rt = false -> ns = []).
Proof.
  intros H. split.
  - intros Hc. eapply parse_list_only_network; [|exact H]. intros l p Hp. cbn beta in Hp.
    pose proof (parse_filter_rule_types _ _ _ _ _ _ Hp) as Hr. destruct p as [n|c]; [eauto|].
    destruct Hr as [Hr1 Hr2]. destruct Hc as [Hc|Hc]; congruence.
  - intros Hn. eapply parse_list_only_cosmetic; [|exact H]. intros l p Hp. cbn beta in Hp.
    pose proof (parse_filter_rule_types _ _ _ _ _ _ Hp) as Hr. destruct p as [n|c]; [congruence|eauto].
Qed.

(* ------------------------------------------------------------------ Unicode white space *)
Lemma ws3_inv a b c : ws3 a b c = true ->
  (a = 225 \/ a = 226 \/ a = 227) /\ is_cont b = true /\ is_cont c = true.
Proof. unfold ws3, is_cont, rng. intros H. lia. Qed.

Lemma lead3_run a b c : (a = 225 \/ a = 226 \/ a = 227) -> is_cont b = true -> is_cont c = true ->
  urun UA [a; b; c] = UA.
Proof.
  intros Ha Hb Hc. unfold urun. cbn [fold_left].
  assert (ustep UA a = U2) as -> by (destruct Ha as [->|[->| ->]]; reflexivity).
  cbn [ustep]. rewrite Hb. cbn [ustep]. rewrite Hc. reflexivity.
Qed.

Lemma ws_len_inv s k : ws_len s = S k ->
  (S k <= length s)%nat /\ urun UA (take (S k) s) = UA /\
  exists a r, s = a :: r /\ is_cont a = false.
Proof.
  unfold ws_len. destruct s as [|a r]; [discriminate|].
  destruct (ws1 a) eqn:E1.
  - intros H; inversion H; subst. unfold ws1, rng in E1. cbn [length take firstn]. split; [lia|]. split.
    + unfold urun. cbn [fold_left]. apply ustep_UA_ascii. lia.
    + exists a, r. split; [reflexivity|]. unfold is_cont, rng. lia.
  - destruct r as [|b r']; [discriminate|]. destruct (ws2 a b) eqn:E2.
    + intros H; inversion H; subst. unfold ws2 in E2. cbn [length take firstn]. split; [lia|]. split.
      * assert (a = 194) as -> by lia. unfold urun. cbn [fold_left]. change (ustep UA 194) with U1.
        cbn [ustep]. assert (is_cont b = true) as -> by (unfold is_cont, rng; lia). reflexivity.
      * exists a, (b :: r'). split; [reflexivity|]. unfold is_cont, rng. lia.
    + destruct r' as [|c r'']; [discriminate|]. destruct (ws3 a b c) eqn:E3; [|discriminate].
      intros H; inversion H; subst. apply ws3_inv in E3 as (Ha & Hb & Hc).
      cbn [length take firstn]. split; [lia|]. split.
      * apply lead3_run; assumption.
      * exists a, (b :: c :: r''). split; [reflexivity|]. unfold is_cont, rng. lia.
Qed.

Lemma ws_len_rev_inv r k : ws_len_rev r = S k ->
  (S k <= length r)%nat /\
  exists a w, rev (take (S k) r) = a :: w /\ is_cont a = false /\ urun UA (a :: w) = UA.
Proof.
  unfold ws_len_rev. destruct r as [|c r1]; [discriminate|].
  destruct (ws1 c) eqn:E1.
  - intros H; inversion H; subst. unfold ws1, rng in E1. cbn [length take firstn rev app]. split; [lia|].
    exists c, []. split; [reflexivity|]. split; [unfold is_cont, rng; lia|].
    unfold urun. cbn [fold_left]. apply ustep_UA_ascii. lia.
  - destruct r1 as [|b r2]; [discriminate|]. destruct (ws2 b c) eqn:E2.
    + intros H; inversion H; subst. unfold ws2 in E2. cbn [length take firstn rev app]. split; [lia|].
      exists b, [c]. split; [reflexivity|]. split; [unfold is_cont, rng; lia|].
      assert (b = 194) as -> by lia. unfold urun. cbn [fold_left]. change (ustep UA 194) with U1.
      cbn [ustep]. assert (is_cont c = true) as -> by (unfold is_cont, rng; lia). reflexivity.
    + destruct r2 as [|a r3]; [discriminate|]. destruct (ws3 a b c) eqn:E3; [|discriminate].
      intros H; inversion H; subst. apply ws3_inv in E3 as (Ha & Hb & Hc).
      cbn [length take firstn rev app]. split; [lia|].
      exists a, [b; c]. split; [reflexivity|]. split; [unfold is_cont, rng; lia|].
      apply lead3_run; assumption.
Qed.

Lemma valid_drop_ws s k : valid_utf8 s = true -> ws_len s = S k -> valid_utf8 (drop (S k) s) = true.
Proof.
  intros Hv H. apply ws_len_inv in H as (_ & Hr & _).
  apply valid_app_inv_l with (a := take (S k) s); [apply valid_iff; exact Hr|].
  rewrite take_drop. exact Hv.
Qed.

Lemma drop_drop {A} (l : list A) m n : drop n (drop m l) = drop (m + n) l.
Proof.
  unfold drop. revert l; induction m as [|m IH]; intros l; [reflexivity|].
  destruct l as [|x l]; cbn; [destruct n; reflexivity|apply IH].
Qed.

(* trim_start removes a prefix made of whole characters *)
Lemma trim_start_f_spec fuel s : valid_utf8 s = true ->
  exists n, trim_start_f fuel s = drop n s /\ (n <= length s)%nat /\ urun UA (take n s) = UA.
Proof.
  revert s; induction fuel as [|f IH]; intros s Hv.
  - exists O. cbn. repeat split; auto; lia.
  - cbn [trim_start_f]. destruct (ws_len s) as [|k] eqn:E.
    + exists O. cbn. repeat split; auto; lia.
    + destruct (ws_len_inv s k E) as (Hl & Hr & _).
      destruct (IH (drop (S k) s) (valid_drop_ws s k Hv E)) as (n & H1 & H2 & H3).
      rewrite length_drop in H2. exists (S k + n)%nat. split; [|split; [lia|]].
      * rewrite H1. apply drop_drop.
      * rewrite (take_split s (S k) (S k + n)) by lia. rewrite urun_app, Hr.
        replace (S k + n - S k)%nat with n by lia. exact H3.
Qed.

Lemma trim_start_spec s : valid_utf8 s = true ->
  trim_start s = drop (ws_prefix_len s) s /\ good s (ws_prefix_len s).
Proof.
  intros Hv. unfold ws_prefix_len, trim_start.
  destruct (trim_start_f_spec (length s) s Hv) as (n & H1 & H2 & H3). rewrite H1, length_drop.
  replace (length s - (length s - n))%nat with n by lia. split; [reflexivity|].
  split; [exact H2|]. apply boundary_state; assumption.
Qed.

Lemma valid_trim_start s : valid_utf8 s = true -> valid_utf8 (trim_start s) = true.
Proof.
  intros Hv. destruct (trim_start_spec s Hv) as [-> Hg]. apply valid_drop; assumption.
Qed.

Lemma trim_rev_f_valid fuel r : valid_utf8 (rev r) = true -> valid_utf8 (rev (trim_rev_f fuel r)) = true.
Proof.
  revert r; induction fuel as [|f IH]; intros r Hv; [exact Hv|].
  cbn [trim_rev_f]. destruct (ws_len_rev r) as [|k] eqn:E; [exact Hv|].
  apply IH. destruct (ws_len_rev_inv r k E) as (Hl & a & w & H1 & H2 & H3).
  rewrite <- (take_drop (S k) r), rev_app_distr, H1 in Hv.
  apply valid_app_inv_head in Hv; [tauto|exact H2].
Qed.

Lemma valid_trim_end s : valid_utf8 s = true -> valid_utf8 (trim_end s) = true.
Proof. intros Hv. unfold trim_end. apply trim_rev_f_valid. rewrite rev_involutive. exact Hv. Qed.

Lemma valid_trim s : valid_utf8 s = true -> valid_utf8 (trim s) = true.
Proof. intros Hv. unfold trim. apply valid_trim_end, valid_trim_start, Hv. Qed.

Lemma split_ws_f_valid fuel s cur :
  urun (urun UA (rev cur)) s = UA -> Forall (fun p => valid_utf8 p = true) (split_ws_f fuel s cur).
Proof.
  revert s cur; induction fuel as [|f IH]; intros s cur H; [constructor|].
  cbn [split_ws_f]. destruct s as [|b r].
  - cbn in H. destruct (null cur); [constructor|]. constructor; [apply valid_iff; exact H|constructor].
  - destruct (ws_len (b :: r)) as [|k] eqn:E.
    + apply IH. cbn [rev]. rewrite urun_app. exact H.
    + destruct (ws_len_inv _ _ E) as (_ & _ & a & r' & Hs & Hc). inversion Hs; subst a r'.
      pose proof (urun_noncont_head _ _ _ Hc H) as Hq.
      apply Forall_app. split.
      * destruct (null cur); [constructor|]. constructor; [apply valid_iff; exact Hq|constructor].
      * apply IH. cbn [rev urun fold_left]. fold (urun UA (drop (S k) (b :: r))).
        apply valid_iff. apply valid_drop_ws; [|exact E]. apply valid_iff. rewrite Hq in H. exact H.
Qed.

Lemma split_whitespace_valid s :
  valid_utf8 s = true -> Forall (fun p => valid_utf8 p = true) (split_whitespace s).
Proof. intros Hv. apply split_ws_f_valid. cbn. apply valid_iff. exact Hv. Qed.

(* ------------------------------------------------------------------ the hosts line *)
Theorem hosts_hostname_props s : valid_utf8 s = true ->
  safe (hosts_hostname s) /\ forall h, hosts_hostname s = Ok (inl h) -> valid_utf8 h = true.
Proof.
  intros Hv. unfold hosts_hostname. destruct (prefixb [c_BANG] s); [split; [exact I|discriminate]|].
  match goal with |- safe (pbind _ ?k) /\ _ => set (K := k) end.
  assert (HK : forall f2, valid_utf8 f2 = true ->
                 safe (K f2) /\ forall h, K f2 = Ok (inl h) -> valid_utf8 h = true).
  { intros f2 Hf2. subst K. cbn beta.
    pose proof (split_whitespace_valid f2 Hf2) as Hall.
    destruct (split_whitespace f2) as [|h1 [|h2 [|h3 rest]]]; cbn [pbind fail ret];
      try (split; [exact I|discriminate]).
    - inversion Hall; subst. destruct (str_eqb h1 (bs "localhost")); (split; [exact I|]); [discriminate|].
      intros h H; inversion H; subst. assumption.
    - inversion Hall as [|? ? _ Hall']; subst. inversion Hall'; subst.
      destruct (str_eqb h2 (bs "localhost")); (split; [exact I|]); [discriminate|].
      intros h H; inversion H; subst. assumption. }
  destruct (find_byte c_HASH s) as [h|] eqn:F.
  - assert (G : good s h) by (eapply good_find; [|exact F]; ascii_lt).
    rewrite slice_to_ok by exact G. cbn [rbind].
    destruct (null (trim (take h s))); cbn [pbind fail ret].
    + split; [exact I|discriminate].
    + apply HK. apply valid_trim, valid_take; assumption.
  - cbn [pbind ret]. apply HK. exact Hv.
Qed.

(* ------------------------------------------------------------------ scriptlet arguments *)
Lemma cte_safe fuel rest i t c :
  nth_error rest (i - t) = Some c -> c < 128 -> (t <= i)%nat ->
  safe (count_trailing_escapes fuel rest i t).
Proof.
  revert t c; induction fuel as [|f IH]; intros t c Hn Hc Ht; [exact I|].
  cbn [count_trailing_escapes]. destruct (Nat.ltb t i) eqn:E; [|exact I]. apply Nat.ltb_lt in E.
  assert (G : good rest (i - t)) by (eapply good_ascii; eauto).
  rewrite slice_to_ok by exact G. cbn [rbind].
  destruct (suffixb [c_BSLASH] (take (i - t) rest)) eqn:Es; [|exact I].
  apply suffixb1_nth in Es as [Es1 Es2]. destruct G as [G1 _].
  rewrite length_take in Es2 by exact G1. rewrite nth_error_take in Es2 by lia.
  apply IH with (c := c_BSLASH); [|ascii_lt|lia].
  replace (i - S t)%nat with (i - t - 1)%nat by lia. exact Es2.
Qed.

Lemma inus_loop_props fuel s sep nae nt :
  valid_utf8 s = true -> sep < 128 -> good s nae -> (length s - nae < fuel)%nat ->
  safe (inus_loop fuel s sep nae nt) /\
  forall k b, inus_loop fuel s sep nae nt = Ok (Some k, b) -> nth_error s k = Some sep.
Proof.
  intros Hv Hsep. revert nae nt; induction fuel as [|f IH]; intros nae nt G Hf; [lia|].
  cbn [inus_loop]. destruct (Nat.ltb nae (length s)) eqn:E.
  - apply Nat.ltb_lt in E. rewrite slice_from_ok by exact G. cbn [rbind].
    destruct (find_byte sep (drop nae s)) as [i|] eqn:F; [|split; [exact I|discriminate]].
    pose proof (find_byte_nth _ _ _ F) as Hn.
    pose proof (cte_safe (S i) (drop nae s) i O sep) as Hc.
    rewrite Nat.sub_0_r in Hc. specialize (Hc Hn Hsep (Nat.le_0_l _)).
    destruct (count_trailing_escapes (S i) (drop nae s) i 0) as [t|w]; [|contradiction]. cbn [rbind].
    rewrite nth_error_drop in Hn.
    destruct (Nat.even t).
    + split; [exact I|]. unfold inus_finish. intros k b H.
      destruct (Nat.leb (length s) (nae + i)); inversion H; subst. exact Hn.
    + apply IH.
      * replace (nae + i + 1)%nat with (nae + S i)%nat by lia.
        apply good_shift; [exact Hv|exact G|].
        eapply good_find_next; [apply valid_drop; assumption|exact Hsep|exact F].
      * lia.
  - split; [exact I|]. unfold inus_finish. apply Nat.ltb_ge in E.
    assert (Nat.leb (length s) nae = true) as -> by (apply Nat.leb_le; exact E). discriminate.
Qed.

Theorem inus_props s sep : valid_utf8 s = true -> sep < 128 ->
  safe (index_next_unescaped_separator s sep) /\
  forall k b, index_next_unescaped_separator s sep = Ok (Some k, b) -> nth_error s k = Some sep.
Proof.
  intros Hv Hsep. unfold index_next_unescaped_separator.
  apply inus_loop_props; auto; [apply good_0|lia].
Qed.

Lemma skip_ws_spec args : valid_utf8 args = true ->
  exists a', skip_ws args = Ok a' /\ valid_utf8 a' = true /\ (length a' <= length args)%nat.
Proof.
  intros Hv. unfold skip_ws. destruct (trim_start_spec args Hv) as [_ G].
  destruct (Nat.ltb (ws_prefix_len args) (length args)).
  - rewrite slice_from_ok by exact G. eexists. split; [reflexivity|]. split.
    + apply valid_drop; assumption.
    + rewrite length_drop. lia.
  - exists args. auto.
Qed.

Lemma is_quote_ascii c : is_quote c = true -> c < 128.
Proof. unfold is_quote. lia. Qed.

Lemma psa_loop_safe fuel args acc :
  valid_utf8 args = true -> (length args < fuel)%nat -> safe (psa_loop fuel args acc).
Proof.
  revert args acc; induction fuel as [|f IH]; intros args acc Hv Hf; [lia|].
  cbn [psa_loop]. destruct (skip_ws_spec args Hv) as (a1 & -> & Hv1 & Hl1). cbn [rbind].
  destruct a1 as [|qc r1] eqn:Ea1; [exact I|]. rewrite <- Ea1 in *.
  assert (Hq0 : nth_error a1 0 = Some qc) by (rewrite Ea1; reflexivity).
  assert (Hlen1 : (1 <= length a1)%nat) by (rewrite Ea1; cbn; lia).
  destruct (is_quote qc) eqn:Eq.
  - pose proof (is_quote_ascii _ Eq) as Hqa.
    assert (G1 : good a1 1) by (eapply good_after_ascii; eauto).
    rewrite slice_from_ok by exact G1. cbn [rbind].
    pose proof (valid_drop _ _ Hv1 G1) as Hv2.
    destruct (inus_props (drop 1 a1) qc Hv2 Hqa) as [Hs Hr].
    destruct (index_next_unescaped_separator (drop 1 a1) qc) as [[oi nt]|w]; [|contradiction].
    cbn [rbind fst snd]. destruct oi as [i|]; [|exact I].
    pose proof (Hr i nt eq_refl) as Hn.
    assert (Gi : good (drop 1 a1) i) by (eapply good_ascii; eauto).
    assert (Gi1 : good (drop 1 a1) (S i)) by (eapply good_after_ascii; eauto).
    rewrite slice_to_ok by exact Gi. cbn [rbind]. rewrite slice_from_ok by exact Gi1. cbn [rbind].
    pose proof (valid_drop _ _ Hv2 Gi1) as Hv3.
    destruct (skip_ws_spec _ Hv3) as (a3 & -> & Hv4 & Hl3). cbn [rbind].
    rewrite !length_drop in Hl3.
    destruct (prefixb [c_COMMA] a3) eqn:Ec.
    + assert (G4 : good a3 1).
      { eapply good_after_ascii with (c := c_COMMA); [exact Hv4| |ascii_lt].
        eapply prefixb_nth; [exact Ec|reflexivity]. }
      rewrite slice_from_ok by exact G4. cbn [rbind]. apply IH.
      * apply valid_drop; assumption.
      * rewrite length_drop. lia.
    + destruct (negb (null a3)); [exact I|]. apply IH; [exact Hv4|lia].
  - destruct (inus_props a1 c_COMMA Hv1 ltac:(ascii_lt)) as [Hs Hr].
    destruct (index_next_unescaped_separator a1 c_COMMA) as [[oi nt]|w]; [|contradiction].
    cbn [rbind fst snd]. destruct oi as [i|].
    + pose proof (Hr i nt eq_refl) as Hn.
      assert (Gi : good a1 i) by (eapply good_ascii; [exact Hn|ascii_lt]).
      assert (Gi1 : good a1 (S i)) by (eapply good_after_ascii; [exact Hv1|exact Hn|ascii_lt]).
      rewrite slice_to_ok by exact Gi. cbn [rbind]. rewrite slice_from_ok by exact Gi1. cbn [rbind].
      apply IH; [apply valid_drop; assumption|rewrite length_drop; lia].
    + rewrite slice_to_ok by apply good_len. cbn [rbind].
      rewrite slice_from_ok by apply good_len. cbn [rbind].
      apply IH; [apply valid_drop; [assumption|apply good_len]|rewrite length_drop; lia].
Qed.

Theorem parse_scriptlet_args_safe args : valid_utf8 args = true -> safe (parse_scriptlet_args args).
Proof.
  intros Hv. unfold parse_scriptlet_args. destruct (null (trim args)); [exact I|].
  apply psa_loop_safe; [exact Hv|lia].
Qed.

(* ------------------------------------------------------------------ NetworkFilter::parse *)
Lemma find_separator_nth s i : find_separator s = Some i -> exists c, nth_error s i = Some c /\ c < 128.
Proof.
  revert i; induction s as [|x s IH]; cbn [find_separator]; intros i H; [discriminate|].
  destruct (N.eqb x c_SLASH || N.eqb x c_CARET || N.eqb x c_STAR) eqn:E.
  - inversion H; subst. exists x. split; [reflexivity|]. unfold c_SLASH, c_CARET, c_STAR in E. lia.
  - destruct (find_separator s) as [j|]; [|discriminate]. inversion H; subst. cbn. apply IH. reflexivity.
Qed.

Section NetworkProofs.
Variable lower : str -> str.
Variable idna : str -> option str.

Lemma hostname_step_props p mask is_regex : valid_utf8 p = true ->
  exists m h fis, hostname_step p mask is_regex = Ok (m, h, fis) /\ good p fis.
Proof.
  intros Hv. unfold hostname_step. destruct is_regex.
  - destruct (find_separator p) as [sep|] eqn:F; [|do 3 eexists; split; [reflexivity|apply good_0]].
    destruct (find_separator_nth _ _ F) as (c & Hn & Hc).
    assert (G : good p sep) by (eapply good_ascii; eauto).
    assert (G1 : good p (S sep)) by (eapply good_after_ascii; eauto).
    pose proof (nth_error_lt _ _ _ Hn) as Hl.
    assert (Nat.ltb sep (length p) = true) as -> by (apply Nat.ltb_lt; exact Hl).
    rewrite slice_ok by (assumption || lia). cbn [rbind].
    rewrite slice_to_ok by exact G. cbn [rbind].
    destruct (Nat.eqb (length p - sep) 1).
    + rewrite slice_from_ok by exact G. cbn [rbind].
      destruct (prefixb [c_CARET] (drop sep p)).
      * do 3 eexists. split; [reflexivity|apply good_len].
      * rewrite slice_ok by (assumption || apply good_len || lia). cbn [rbind].
        do 3 eexists. split; [reflexivity|exact G].
    + cbn [rbind]. rewrite slice_ok by (assumption || apply good_len || lia). cbn [rbind].
      do 3 eexists. split; [reflexivity|exact G].
  - destruct (find_byte c_SLASH p) as [i|] eqn:F.
    + assert (G : good p i) by (eapply good_find; [|exact F]; ascii_lt).
      rewrite slice_to_ok by exact G. cbn [rbind]. do 3 eexists. split; [reflexivity|exact G].
    + do 3 eexists. split; [reflexivity|apply good_len].
Qed.

Lemma strip_stars_props p mask fis : valid_utf8 p = true -> good p fis ->
  exists m fis' fie', strip_stars p mask fis = Ok (m, fis', fie') /\ good p fis' /\ good p fie'.
Proof.
  intros Hv G. unfold strip_stars.
  set (fie := if Nat.ltb fis (length p) && suffixb [c_STAR] p then (length p - 1)%nat else length p).
  assert (Gfie : good p fie).
  { subst fie. destruct (Nat.ltb fis (length p) && suffixb [c_STAR] p) eqn:E; [|apply good_len].
    apply andb_true_iff in E as [_ E]. change 1%nat with (length [c_STAR]).
    apply good_before_suffix; [exact E|reflexivity]. }
  destruct (Nat.ltb fis fie) eqn:El.
  - rewrite slice_from_ok by exact G. cbn [rbind]. destruct (prefixb [c_STAR] (drop fis p)) eqn:Ep.
    + do 3 eexists. split; [reflexivity|]. split; [|exact Gfie].
      eapply good_after_ascii with (c := c_STAR); [exact Hv| |ascii_lt].
      replace fis with (fis + 0)%nat by lia. rewrite <- nth_error_drop.
      eapply prefixb_nth; [exact Ep|reflexivity].
    + do 3 eexists. split; [reflexivity|]. auto.
  - cbn [rbind]. do 3 eexists. split; [reflexivity|]. auto.
Qed.

Lemma guard_eq p fis (c : bool) pre : good p fis ->
  (if c then r <- slice_from p fis ;; Ok (prefixb pre r) else Ok false) = Ok (c && prefixb pre (drop fis p)).
Proof. intros G. destruct c; [|reflexivity]. rewrite slice_from_ok by exact G. reflexivity. Qed.

Lemma protocol_step_props p mask fis fie : good p fis ->
  exists m f', protocol_step p mask fis fie = Ok (m, f') /\ (f' = fis \/ f' = fie).
Proof.
  intros G. unfold protocol_step. destruct (mhas mask M_IS_LEFT_ANCHOR); [|eauto].
  rewrite guard_eq by exact G. cbn [rbind]. destruct (Nat.eqb fie (fis + 5) && _); [eauto|].
  rewrite guard_eq by exact G. cbn [rbind]. destruct (Nat.eqb fie (fis + 7) && _); [eauto|].
  rewrite guard_eq by exact G. cbn [rbind]. destruct (Nat.eqb fie (fis + 8) && _); [eauto|].
  rewrite guard_eq by exact G. cbn [rbind]. destruct (Nat.eqb fie (fis + 8) && _); eauto.
Qed.

Lemma final_filter_safe p mask fis fie : good p fis -> good p fie -> safe (final_filter p mask fis fie).
Proof.
  intros G1 G2. unfold final_filter. destruct (Nat.ltb fis fie) eqn:E; [|exact I].
  apply Nat.ltb_lt in E. rewrite slice_ok by (assumption || lia). exact I.
Qed.

Lemma pattern_pipeline_safe p mask ha is_regex :
  valid_utf8 p = true -> safe (pattern_pipeline p mask ha is_regex).
Proof.
  intros Hv. unfold pattern_pipeline.
  assert (exists m h fis, (if ha then hostname_step p mask is_regex else Ok (mask, None, O)) = Ok (m, h, fis)
                          /\ good p fis) as (m & h & fis & -> & G).
  { destruct ha; [apply hostname_step_props; exact Hv|]. do 3 eexists. split; [reflexivity|apply good_0]. }
  cbn [rbind]. destruct (strip_stars_props p m fis Hv G) as (m2 & fis2 & fie2 & -> & G2 & G3). cbn [rbind].
  destruct (protocol_step_props p m2 fis2 fie2 G2) as (m3 & f3 & -> & Hf3). cbn [rbind].
  assert (G4 : good p f3) by (destruct Hf3 as [->| ->]; assumption).
  pose proof (final_filter_safe p m3 f3 fie2 G4 G3) as Hs.
  destruct (final_filter p m3 f3 fie2) as [[m4 flt]|w]; [exact I|contradiction].
Qed.

Lemma network_build_safe line parsed :
  valid_utf8 (af_pattern parsed) = true -> safe (network_build lower idna line parsed).
Proof.
  intros Hv. unfold network_build. cbv zeta. apply safe_pbind.
  - destruct (af_options parsed) as [os|]; [|exact I]. destruct (validate_options os); exact I.
  - intros acc _.
    match goal with |- safe (if ?c then _ else _) => destruct c end; [exact I|].
    apply safe_rbind; [apply pattern_pipeline_safe; exact Hv|].
    intros [[m h] f] _.
    repeat match goal with
           | |- safe (if ?c then _ else _) => destruct c; try exact I
           | |- safe (match ?x with _ => _ end) => destruct x; try exact I
           end.
Qed.

Theorem network_parse_safe line : valid_utf8 line = true -> safe (network_parse lower idna line).
Proof.
  intros Hv. unfold network_parse. destruct (abstract_parse_props line Hv) as [Hs Hp].
  apply safe_pbind; [exact Hs|]. intros p Hpe. apply network_build_safe. apply Hp. exact Hpe.
Qed.

(* idna::domain_to_ascii returns a String: valid UTF-8 *)
Hypothesis idna_valid : forall s h, idna s = Some h -> valid_utf8 h = true.

Lemma norm_host_valid h a : norm_host lower idna h = Some a -> valid_utf8 a = true.
Proof.
  unfold norm_host.
  destruct (all_ascii (trim_start_matches (bs "www.") (to_lowercase lower h))) eqn:E.
  - intros H; inversion H; subst. apply valid_ascii. exact E.
  - apply idna_valid.
Qed.

Theorem parse_hosts_style_safe h : valid_utf8 h = true -> safe (parse_hosts_style lower idna h).
Proof.
  intros Hv. unfold parse_hosts_style. destruct (has_invalid_host_char h); [exact I|].
  apply safe_rbind.
  - destruct (find_byte c_DOT h); [|exact I]. apply safe_rbind; [|intros; exact I].
    destruct (prefixb [c_DOT] h) eqn:E; [|exact I].
    rewrite slice_from_ok; [exact I|].
    eapply good_after_ascii with (c := c_DOT); [exact Hv| |ascii_lt].
    eapply prefixb_nth; [exact E|reflexivity].
  - intros bad _. destruct bad; [exact I|]. unfold hosts_rule_text.
    destruct (norm_host lower idna h) as [a|] eqn:En; [|exact I].
    apply network_parse_safe. apply valid_app; [reflexivity|].
    apply valid_app; [eapply norm_host_valid; exact En|reflexivity].
Qed.
End NetworkProofs.

(* ------------------------------------------------------------------ CosmeticFilter::parse *)
Lemma split_on_run c s q : c < 128 -> urun q s = UA ->
  match split_on c s with
  | [] => False
  | p :: ps => urun q p = UA /\ Forall (fun x => valid_utf8 x = true) ps
  end.
Proof.
  intros Hc. revert q; induction s as [|x s IH]; intros q H; cbn [split_on].
  - split; [exact H|constructor].
  - destruct (N.eqb x c) eqn:E.
    + apply N.eqb_eq in E. subst x.
      assert (Hnc : is_cont c = false) by (unfold is_cont, rng; lia).
      pose proof (urun_noncont_head _ _ _ Hnc H) as ->. split; [reflexivity|].
      cbn [urun fold_left] in H. rewrite ustep_UA_ascii in H by exact Hc. fold (urun UA s) in H.
      specialize (IH UA H). destruct (split_on c s) as [|p ps]; [contradiction|].
      destruct IH as [H1 H2]. constructor; [apply valid_iff; exact H1|exact H2].
    + cbn [urun fold_left] in H. fold (urun (ustep q x) s) in H. specialize (IH _ H).
      destruct (split_on c s) as [|p ps]; [contradiction|]. destruct IH as [H1 H2].
      split; [|exact H2]. cbn [urun fold_left]. exact H1.
Qed.

Lemma split_on_valid c s : c < 128 -> valid_utf8 s = true ->
  Forall (fun x => valid_utf8 x = true) (split_on c s).
Proof.
  intros Hc Hv. apply valid_iff in Hv. pose proof (split_on_run c s UA Hc Hv) as H.
  destruct (split_on c s) as [|p ps]; [contradiction|]. destruct H as [H1 H2].
  constructor; [apply valid_iff; exact H1|exact H2].
Qed.

Lemma find_sub_prefix p s i : find_sub p s = Some i -> prefixb p (drop i s) = true.
Proof.
  revert i; induction s as [|x s IH]; intros i; cbn [find_sub].
  - destruct (prefixb p []) eqn:E; [|discriminate]. intros H; inversion H; subst. exact E.
  - destruct (prefixb p (x :: s)) eqn:E.
    + intros H; inversion H; subst. exact E.
    + destruct (find_sub p s) as [j|]; [|discriminate]. intros H; inversion H; subst. cbn. apply IH. reflexivity.
Qed.

Lemma location_of_props part : valid_utf8 part = true ->
  exists k loc, location_of part = Ok (k, loc).
Proof.
  intros Hv. unfold location_of.
  set (neg := prefixb [c_TILDE] part). set (ent := suffixb (bs ".*") part).
  assert (G1 : good part (if neg then 1%nat else O)).
  { subst neg. destruct (prefixb [c_TILDE] part) eqn:E; [|apply good_0].
    eapply good_after_ascii with (c := c_TILDE); [exact Hv| |ascii_lt]. eapply prefixb_nth; [exact E|reflexivity]. }
  assert (G2 : good part (if ent then (length part - 2)%nat else length part)).
  { subst ent. destruct (suffixb (bs ".*") part) eqn:E; [|apply good_len].
    change 2%nat with (length (bs ".*")). apply good_before_suffix; [exact E|reflexivity]. }
  assert (Hle : ((if neg then 1 else 0) <= (if ent then length part - 2 else length part))%nat).
  { subst neg ent. destruct (prefixb [c_TILDE] part) eqn:E1; [|lia].
    pose proof (prefixb_length _ _ E1) as Hl. cbn [length] in Hl.
    destruct (suffixb (bs ".*") part) eqn:E2; [|lia].
    apply suffixb_inv in E2 as [E2a E2b]. change (length (bs ".*")) with 2%nat in *.
    destruct (Nat.eq_dec (length part) 2) as [Heq|Hne]; [|lia]. exfalso.
    rewrite Heq in E2b. cbn in E2b. pose proof (prefixb_nth _ _ O c_TILDE E1 eq_refl) as Hn.
    rewrite E2b in Hn. discriminate. }
  rewrite slice_ok by assumption. cbn [rbind].
  destruct (prefixb [c_SLASH] _); eauto.
Qed.

Section CosmeticProofs.
Variable idna : str -> option str.

Lemma locations_loop_safe parts acc u :
  Forall (fun x => valid_utf8 x = true) parts -> safe (locations_loop idna parts acc u).
Proof.
  intros H. revert acc u; induction H as [|p r Hp Hr IH]; intros acc u; [exact I|].
  cbn [locations_loop]. destruct (null p); [apply IH|].
  destruct (location_of_props p Hp) as (k & loc & ->). cbn [rbind].
  destruct (all_ascii loc).
  - destruct (N.eqb k 4); apply IH.
  - destruct (idna loc) as [x|]; [|exact I]. destruct (null x); [exact I|].
    destruct (N.eqb k 4); apply IH.
Qed.

Lemma parse_before_sharp_safe line i : valid_utf8 line = true -> good line i ->
  safe (parse_before_sharp idna line i).
Proof.
  intros Hv G. unfold parse_before_sharp. destruct (prefixb [c_LBRACK] line); [exact I|].
  rewrite slice_ok by (apply good_0 || assumption || lia). cbn [rbind]. rewrite Nat.sub_0_r.
  apply safe_pbind.
  - apply locations_loop_safe. apply split_on_valid; [ascii_lt|]. apply valid_take; assumption.
  - intros lu _. destruct (snd lu && null (fst lu)); exact I.
Qed.

(* an action token: ASCII, ends with '(' *)
Definition tok_ok (t : string * N) : Prop :=
  all_ascii (bs (fst t)) = true /\ suffixb [40] (bs (fst t)) = true.

Lemma action_loop_safe toks after :
  valid_utf8 after = true -> Forall tok_ok toks -> safe (action_loop toks after).
Proof.
  intros Hv H. induction H as [|[tok kind] r [Ha Hs] Hr IH]; [exact I|].
  cbn [action_loop]. cbn [fst] in Ha, Hs. destruct (find_sub (bs tok) after) as [i|] eqn:F; [|exact IH].
  destruct (suffixb [c_RPAREN] after) eqn:Ep; [|exact I].
  pose proof (find_sub_prefix _ _ _ F) as Hp.
  pose proof (prefixb_length _ _ Hp) as Hl. rewrite length_drop in Hl.
  apply suffixb1_nth in Hs as [Hs1 Hs2]. apply suffixb1_nth in Ep as [Ep1 Ep2].
  set (n := length (bs tok)) in *.
  (* the '(' of the token sits at i + n - 1 *)
  assert (Hopen : nth_error after (i + (n - 1)) = Some 40).
  { rewrite <- nth_error_drop. eapply prefixb_nth; [exact Hp|exact Hs2]. }
  assert (Hi : (i + n <= length after - 1)%nat).
  { destruct (Nat.eq_dec (i + (n - 1)) (length after - 1)) as [Heq|Hne]; [|lia].
    rewrite Heq, Ep2 in Hopen. discriminate. }
  assert (G1 : good after (i + n)).
  { replace (i + n)%nat with (S (i + (n - 1))) by lia. eapply good_after_ascii; [exact Hv|exact Hopen|lia]. }
  assert (G2 : good after (length after - 1)) by (eapply good_ascii; [exact Ep2|ascii_lt]).
  assert (G3 : good after i).
  { destruct (bs tok) as [|c0 t0] eqn:Et; [cbn in Hs1; lia|].
    eapply good_ascii with (c := c0).
    - replace i with (i + 0)%nat by lia. rewrite <- nth_error_drop. eapply prefixb_nth; [exact Hp|reflexivity].
    - cbn in Ha. apply andb_true_iff in Ha as [Ha _]. unfold is_ascii in Ha. lia. }
  rewrite slice_ok by assumption. cbn [rbind].
  destruct (negb (N.eqb kind 1) && forbid_regex_or_quoted _); [exact I|].
  rewrite slice_to_ok by exact G3. exact I.
Qed.

Lemma action_tokens_ok : Forall tok_ok action_tokens.
Proof. repeat constructor. Qed.

Lemma parse_after_sharp_nonscript_safe after :
  valid_utf8 after = true -> safe (parse_after_sharp_nonscript after).
Proof.
  intros Hv. unfold parse_after_sharp_nonscript. destruct (prefixb [c_CARET] after); [exact I|].
  apply safe_pbind; [apply action_loop_safe; [exact Hv|apply action_tokens_ok]|].
  intros [x|] _; [exact I|]. destruct (suffixb (bs ":remove()") after); exact I.
Qed.

Theorem cosmetic_parse_safe line : valid_utf8 line = true -> safe (cosmetic_parse idna line).
Proof.
  intros Hv. unfold cosmetic_parse.
  destruct (find_byte c_HASH line) as [i0|] eqn:F0; [|exact I].
  assert (Gs : good line i0) by (eapply good_find; [|exact F0]; ascii_lt).
  assert (Ga : good line (S i0)) by (eapply good_find_next; [exact Hv| |exact F0]; ascii_lt).
  rewrite slice_from_ok by exact Ga. cbn [rbind].
  pose proof (valid_drop _ _ Hv Ga) as Hvr.
  destruct (find_byte c_HASH (drop (S i0) line)) as [i|] eqn:F1; [|exact I].
  assert (Gss : good line (i + S i0)).
  { rewrite Nat.add_comm. apply good_shift; [exact Hv|exact Ga|]. eapply good_find; [|exact F1]; ascii_lt. }
  assert (Hsecond : nth_error line (i + S i0) = Some c_HASH).
  { rewrite Nat.add_comm, <- nth_error_drop. apply find_byte_nth. exact F1. }
  assert (Gnext : good line (S (i + S i0))) by (eapply good_after_ascii; [exact Hv|exact Hsecond|ascii_lt]).
  pose proof (slice_ok line (S i0) (i + S i0) Ga Gss ltac:(lia)) as Hb. rewrite Hb. cbn [rbind].
  pose proof (slice_valid _ _ _ _ Hv Hb) as Hvb.
  set (between := take (i + S i0 - S i0) (drop (S i0) line)) in *.
  apply safe_pbind.
  - destruct (prefixb [c_AT] between) eqn:Eat; [|exact I].
    destruct (Nat.eqb i0 0); [exact I|].
    rewrite slice_from_ok; [exact I|].
    eapply good_after_ascii with (c := c_AT); [exact Hvb| |ascii_lt]. eapply prefixb_nth; [exact Eat|reflexivity].
  - intros [unhide b2] Hub. cbn [fst snd].
    assert (Hvb2 : valid_utf8 b2 = true).
    { destruct (prefixb [c_AT] between) eqn:Eat.
      - destruct (Nat.eqb i0 0); [discriminate|].
        assert (G : good between 1).
        { eapply good_after_ascii with (c := c_AT); [exact Hvb| |ascii_lt]. eapply prefixb_nth; [exact Eat|reflexivity]. }
        rewrite slice_from_ok in Hub by exact G. cbn [rbind] in Hub. unfold ret in Hub. inversion Hub; subst.
        change (valid_utf8 (drop 1 between) = true). apply valid_drop; assumption.
      - inversion Hub; subst. exact Hvb. }
    destruct (prefixb [37] b2); [exact I|]. destruct (prefixb [c_DOLLAR] b2); [exact I|].
    apply safe_rbind.
    + destruct (prefixb [63] b2) eqn:Eq; [|exact I]. rewrite slice_from_ok; [exact I|].
      eapply good_after_ascii with (c := 63); [exact Hvb2| |lia]. eapply prefixb_nth; [exact Eq|reflexivity].
    + intros b3 _. destruct (negb (null b3)); [exact I|].
      apply safe_pbind.
      * destruct (Nat.ltb 0 i0); [|exact I]. apply parse_before_sharp_safe; assumption.
      * intros locs _. rewrite !slice_from_ok by exact Gnext. cbn [rbind].
        pose proof (valid_drop _ _ Hv Gnext) as Hvt.
        destruct (null (trim (drop (S (i + S i0)) line))); [exact I|].
        set (ss := S (i + S i0)) in *.
        destruct (Nat.ltb 4 (length line - ss)) eqn:E4; cbn [rbind].
        -- destruct (prefixb (bs "+js(") (drop ss line) && suffixb [c_RPAREN] line) eqn:Ejs.
           ++ apply andb_true_iff in Ejs as [Ej1 Ej2]. apply Nat.ltb_lt in E4.
              apply safe_pbind.
              ** destruct (Nat.eqb i0 0); [exact I|].
                 assert (Gargs : good line (ss + 4)).
                 { replace (ss + 4)%nat with (S (ss + 3)) by lia.
                   eapply good_after_ascii with (c := 40); [exact Hv| |lia].
                   rewrite <- nth_error_drop. eapply prefixb_nth; [exact Ej1|reflexivity]. }
                 apply suffixb1_nth in Ej2 as [_ Ej2].
                 assert (Gend : good line (length line - 1)) by (eapply good_ascii; [exact Ej2|ascii_lt]).
                 pose proof (slice_ok line (ss + 4) (length line - 1) Gargs Gend ltac:(lia)) as Hsl.
                 rewrite !Hsl. cbn [rbind].
                 pose proof (parse_scriptlet_args_safe _ (slice_valid _ _ _ _ Hv Hsl)) as Hps.
                 destruct (parse_scriptlet_args _) as [[v|]|w]; cbn [rbind]; try exact I. contradiction.
              ** intros [[sc sel] act] _.
                 repeat match goal with |- safe (if ?c then _ else _) => destruct c; try exact I end.
           ++ apply safe_pbind.
              ** apply safe_pbind; [apply parse_after_sharp_nonscript_safe; apply valid_trim; exact Hvt|].
                 intros sa _. match goal with |- safe (if ?c then _ else _) => destruct c end; exact I.
              ** intros [[sc sel] act] _.
                 repeat match goal with |- safe (if ?c then _ else _) => destruct c; try exact I end.
        -- apply safe_pbind.
           ++ apply safe_pbind; [apply parse_after_sharp_nonscript_safe; apply valid_trim; exact Hvt|].
              intros sa _. match goal with |- safe (if ?c then _ else _) => destruct c end; exact I.
           ++ intros [[sc sel] act] _.
              repeat match goal with |- safe (if ?c then _ else _) => destruct c; try exact I end.
Qed.
End CosmeticProofs.

(* ------------------------------------------------------------------ parse_filter and whole lists *)
Lemma Forall_removelast {A} (P : A -> Prop) l : Forall P l -> Forall P (removelast l).
Proof.
  induction 1 as [|x l Hx Hl IH]; [constructor|]. cbn [removelast].
  destruct l; [constructor|]. constructor; assumption.
Qed.
Lemma Forall_last {A} (P : A -> Prop) l d : Forall P l -> P d -> P (last l d).
Proof.
  induction 1 as [|x l Hx Hl IH]; intros Hd; [exact Hd|]. cbn [last]. destruct l; [exact Hx|]. apply IH. exact Hd.
Qed.

Lemma strip_cr_valid l : valid_utf8 l = true -> valid_utf8 (strip_cr l) = true.
Proof.
  intros Hv. unfold strip_cr. destruct (suffixb [13] l) eqn:E; [|exact Hv].
  apply valid_take; [exact Hv|]. change 1%nat with (length [13]).
  apply good_before_suffix; [exact E|reflexivity].
Qed.

Theorem lines_valid s : valid_utf8 s = true -> Forall (fun l => valid_utf8 l = true) (lines s).
Proof.
  intros Hv. unfold lines. pose proof (split_on_valid 10 s ltac:(lia) Hv) as H.
  apply Forall_app. split.
  - apply Forall_forall. intros x Hx. apply in_map_iff in Hx as (y & <- & Hy).
    apply strip_cr_valid. pose proof (Forall_removelast _ _ H) as H'.
    rewrite Forall_forall in H'. apply H'. exact Hy.
  - destruct (null (last (split_on 10 s) [])); [constructor|].
    constructor; [|constructor]. apply Forall_last; [exact H|reflexivity].
Qed.

Section TotalProofs.
Variable lower : str -> str.
Variable idna : str -> option str.
Hypothesis idna_valid : forall s h, idna s = Some h -> valid_utf8 h = true.

Theorem parse_filter_safe line fmt rt :
  valid_utf8 line = true -> safe (parse_filter lower idna line fmt rt).
Proof.
  intros Hv. unfold parse_filter. pose proof (valid_trim line Hv) as Ht.
  destruct (null (trim line)); [exact I|]. destruct fmt.
  - apply safe_rbind; [apply detect_filter_type_safe; exact Ht|]. intros ty _.
    destruct (N.eqb ty FT_NETWORK && loads_network rt).
    + apply safe_pbind; [apply network_parse_safe; exact Ht|]. intros; exact I.
    + destruct (N.eqb ty FT_COSMETIC && loads_cosmetic rt); [|exact I].
      apply safe_pbind; [apply cosmetic_parse_safe; exact Ht|]. intros; exact I.
  - destruct (negb (loads_network rt)); [exact I|].
    destruct (hosts_hostname_props _ Ht) as [Hs Hh].
    apply safe_pbind; [exact Hs|]. intros h Hhe.
    apply safe_pbind; [apply parse_hosts_style_safe; [exact idna_valid|apply Hh; exact Hhe]|].
    intros; exact I.
Qed.

Theorem add_filter_list_safe fs text fmt rt :
  valid_utf8 text = true ->
  safe (add_filter_list (fun l => parse_filter lower idna l fmt rt) fs text).
Proof.
  intros Hv. unfold add_filter_list. apply safe_rbind.
  - apply parse_list_safe. intros l Hl. apply parse_filter_safe.
    pose proof (lines_valid text Hv) as H. rewrite Forall_forall in H. apply H. exact Hl.
  - intros [[m ns] cs] _. exact I.
Qed.
End TotalProofs.

(* ------------------------------------------------------------------ the hypotheses are satisfiable *)
Definition ex_parse (l : str) := parse_filter (lower_of []) (idna_of []) l FF_Standard RT_All.

(* a valid multi-byte text on which the slicing code really cuts next to 2-, 3- and 4-byte characters *)
Example ex_valid_multibyte :
  valid_utf8 (hx "40407c7cc3a92e636f6d5ee6bca224f09f9880") = true /\
  slice (hx "40407c7cc3a92e636f6d5ee6bca224f09f9880") 5 6 = Panic "str slice" /\
  is_ok (abstract_parse (hx "40407c7cc3a92e636f6d5ee6bca224f09f9880")) = true.
Proof. vm_compute. auto. Qed.

(* line_independent: a rejected line between two accepted ones *)
Example ex_line_independent :
  ex_parse (bs "ads$unknownoption") = Ok (inr "UnrecognisedOption"%string) /\
  md_neutral (bs "ads$unknownoption") /\
  exists n c, parse_list ex_parse [bs "||ads.net^"; bs "ads$unknownoption"; bs "a.com##.ad"] md_empty
              = Ok (md_empty, [n], [c]).
Proof.
  split; [vm_compute; reflexivity|]. split; [intros m; reflexivity|].
  eexists. eexists. vm_compute. reflexivity.
Qed.

(* hosts_equiv / rule types: a hosts line with an address, upper case, "www." and a comment *)
Example ex_hosts :
  exists f, parse_filter (lower_of []) (idna_of []) (bs " 127.0.0.1 www.Foo.com # c") FF_Hosts RT_NetworkOnly
            = Ok (inl (PNetwork f)) /\ nr_raw_line f = bs "||foo.com^".
Proof. eexists. vm_compute. split; reflexivity. Qed.

Example ex_rule_types :
  parse_filter (lower_of []) (idna_of []) (bs "a.com##.ad") FF_Standard RT_NetworkOnly = Ok (inr "Unsupported"%string) /\
  parse_filter (lower_of []) (idna_of []) (bs "||a.com^") FF_Standard RT_CosmeticOnly = Ok (inr "Unsupported"%string).
Proof. vm_compute. auto. Qed.

(* the idna contract holds for the table oracles the harness passes when the table entries are valid *)
Example ex_idna_contract : forall s h, idna_of [(hx "c3bc2e636f6d", Some (bs "xn--tda.com"))] s = Some h -> valid_utf8 h = true.
Proof.
  intros s h. unfold idna_of. cbn [assoc_str]. destruct (str_eqb s (hx "c3bc2e636f6d")).
  - intros H; inversion H; subst. reflexivity.
  - intros H; inversion H; subst. reflexivity.
Qed.

(* ------------------------------------------------------------------ tie to the crate's option table *)
(* [c11_option_arms] / [c11_cpt_bits] are regenerated from the match arms in /repo/src on every run;
   the hand-written [parse_option] must classify every (name, negation) of the source the same way. *)
Definition kind_of (r : nf_option + string) : string :=
  match r with
  | inr e => String.append "err:" e
  | inl o =>
      match o with
      | ODomain _ => "Domain" | OBadfilter => "Badfilter" | OImportant => "Important"
      | OMatchCase => "MatchCase" | OThirdParty _ => "ThirdParty" | OFirstParty _ => "FirstParty"
      | OTag _ => "Tag" | ORedirect _ => "Redirect" | ORedirectRule _ => "RedirectRule"
      | OCsp _ => "Csp" | ORemoveparam _ => "Removeparam" | OGenerichide => "Generichide"
      | ODocument => "Document"
      | OCpt bit _ => match find (fun x => N.eqb (snd x) bit) c11_cpt_bits with
                      | Some x => fst x | None => "?" end
      end
  end%string.

Definition polarity_ok (neg : bool) (r : nf_option + string) : bool :=
  match r with
  | inl (OCpt _ e) | inl (OThirdParty e) | inl (OFirstParty e) => Bool.eqb e (negb neg)
  | _ => true
  end.

Definition arm_agrees (arm : string * option bool * string) : bool :=
  let '(name, np, kind) := arm in
  forallb (fun neg : bool =>
             let r := parse_option ((if neg then [c_TILDE] else []) ++ bs name ++ bs "=x") in
             String.eqb (kind_of r) kind && polarity_ok neg r)
          (match np with Some b => [b] | None => [true; false] end).

Definition model_option_names : list string :=
  app (["domain"; "from"; "badfilter"; "important"; "match-case"; "third-party"; "3p"; "first-party"; "1p";
        "tag"; "redirect"; "redirect-rule"; "csp"; "removeparam"; "generichide"; "ghide"; "document"; "doc"]%string)
      (map fst cpt_options).

Theorem option_table_agrees :
  forallb arm_agrees c11_option_arms = true /\
  forallb (fun n => existsb (fun a => String.eqb n (fst (fst a))) c11_option_arms) model_option_names = true /\
  forallb (fun a => existsb (String.eqb (fst (fst a))) model_option_names) c11_option_arms = true /\
  parse_option (bs "no-such-option") = inr "UnrecognisedOption"%string.
Proof. vm_compute. auto. Qed.
