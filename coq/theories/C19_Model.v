(* C19_Model.v — lock-protocol model of the thread-safe build (src/blocker.rs: the regex-manager
   cell is a std::sync::Mutex; `borrow_regex_manager` = lock().unwrap(); update_time(); every query
   method takes the guard at its top and holds it to its end — premise checked by the translator
   fragment tools/gen_fragments/c19_lock_lint.py, whose output is imported from Generated.v).

   Shared state  = regex cache (finite map key -> compiled | discarded, src/regex_manager.rs)
                   + the mutex: `poisoned` flag and the lock owner.
   Thread        = list of queries still to run + answers received so far + a program counter.
   Query         = Acquire ; Body ; Release ; Post   (Post = work outside the lock, e.g. the
                   cosmetic-cache lookup of Engine::url_cosmetic_resources; it touches no shared
                   mutable state).
   Small-step interleaving semantics: `step s i` lets thread i do its next event, if enabled.
   Definitions only. *)
From Adb Require Import Base Generated.

(* ------------------------------------------------------------------ the shared regex cache *)
Definition key := N.                     (* the address of the rule (RegexManager map key) *)
Inductive entry := Compiled (rx : N) | Discarded.     (* RegexEntry.regex : Option<CompiledRegex> *)
Definition cache := list (key * entry).

Fixpoint lookup (c : cache) (k : key) : option entry :=
  match c with
  | [] => None
  | (k', e) :: r => if N.eqb k' k then Some e else lookup r k
  end.

Fixpoint set_entry (c : cache) (k : key) (e : entry) : cache :=
  match c with
  | [] => [(k, e)]
  | (k', e') :: r => if N.eqb k' k then (k', e) :: r else (k', e') :: set_entry r k e
  end.

(* RegexManager::cleanup with discard_unused_time = 0: every entry loses its regex, keys stay *)
Definition discard_all (c : cache) : cache := map (fun p => (fst p, Discarded)) c.

Fixpoint set_nth {X} (l : list X) (i : nat) (x : X) : list X :=
  match l, i with
  | [], _ => []
  | _ :: r, O => x :: r
  | y :: r, S i' => y :: set_nth r i' x
  end.

(* ------------------------------------------------------------------ the protocol, generic in Body *)
Inductive pc := AtAcquire | AtBody | AtRelease | AtPost | Crashed.

Definition pc_eqb (a b : pc) : bool :=
  match a, b with
  | AtAcquire, AtAcquire | AtBody, AtBody | AtRelease, AtRelease | AtPost, AtPost | Crashed, Crashed => true
  | _, _ => false
  end.

Section Protocol.
  Variables Q A : Type.
  (* the critical section of one query: deterministic in (cache, query); may panic *)
  Variable body : cache -> Q -> res (cache * A).

  Record thread := mkT { t_pc : pc; t_todo : list Q; t_done : list A }.
  Record state := mkS { s_cache : cache; s_poisoned : bool; s_owner : option nat;
                        s_threads : list thread }.

  Definition owner_is (s : state) (i : nat) : bool :=
    match s_owner s with Some j => Nat.eqb i j | None => false end.

  Definition upd (s : state) (i : nat) (t : thread) : list thread := set_nth (s_threads s) i t.

  (* one event of thread i; None = thread i has no enabled event in s *)
  Definition step (s : state) (i : nat) : option state :=
    match nth_error (s_threads s) i with
    | None => None
    | Some t =>
      match t_pc t with
      | AtAcquire =>
          match t_todo t with
          | [] => None                                     (* all queries done *)
          | _ :: _ =>
              match s_owner s with
              | Some _ => None                             (* blocked in lock() *)
              | None =>
                  if s_poisoned s
                  then (* lock() returns Err(PoisonError); .unwrap() panics; the guard inside the
                          error is dropped, so the mutex stays free and poisoned *)
                       Some (mkS (s_cache s) true None (upd s i (mkT Crashed (t_todo t) (t_done t))))
                  else Some (mkS (s_cache s) false (Some i) (upd s i (mkT AtBody (t_todo t) (t_done t))))
              end
          end
      | AtBody =>
          if owner_is s i then
            match t_todo t with
            | [] => None
            | q :: rest =>
                match body (s_cache s) q with
                | Ok (c', a) =>
                    Some (mkS c' (s_poisoned s) (s_owner s) (upd s i (mkT AtRelease rest (t_done t ++ [a]))))
                | Panic _ =>
                    (* unwinding drops the MutexGuard: the mutex is poisoned and released *)
                    Some (mkS (s_cache s) true None (upd s i (mkT Crashed (t_todo t) (t_done t))))
                end
            end
          else None
      | AtRelease =>
          if owner_is s i
          then Some (mkS (s_cache s) (s_poisoned s) None (upd s i (mkT AtPost (t_todo t) (t_done t))))
          else None
      | AtPost => Some (mkS (s_cache s) (s_poisoned s) (s_owner s) (upd s i (mkT AtAcquire (t_todo t) (t_done t))))
      | Crashed => None
      end
    end.

  (* a schedule is the list of thread ids that move, in order; every move must be enabled *)
  Fixpoint run (s : state) (sched : list nat) : option state :=
    match sched with
    | [] => Some s
    | i :: r => match step s i with Some s' => run s' r | None => None end
    end.

  Definition init (c : cache) (qss : list (list Q)) : state :=
    mkS c false None (map (fun qs => mkT AtAcquire qs []) qss).

  Definition reachable (s0 s : state) : Prop := exists sched, run s0 sched = Some s.

  (* vocabulary of the theorems *)
  Definition holdingb (t : thread) : bool :=
    match t_pc t with AtBody | AtRelease => true | _ => false end.
  Definition holding (s : state) (i : nat) : Prop :=
    exists t, nth_error (s_threads s) i = Some t /\ holdingb t = true.

  Definition finishedb (t : thread) : bool :=
    match t_pc t with
    | Crashed => true
    | AtAcquire => match t_todo t with [] => true | _ => false end
    | _ => false
    end.
  Definition final (s : state) : bool := forallb finishedb (s_threads s).

  Definition completedb (t : thread) : bool :=
    match t_pc t, t_todo t with AtAcquire, [] => true | _, _ => false end.
  (* every thread ran all of its queries *)
  Definition complete (s : state) : bool := forallb completedb (s_threads s).

  Definition crashedb (t : thread) : bool := pc_eqb (t_pc t) Crashed.
  Definition any_crashed (s : state) : bool := existsb crashedb (s_threads s).

  Definition answers (s : state) : list (list A) := map t_done (s_threads s).

  (* a single thread running its queries one after the other on its own engine *)
  Fixpoint seq_run (c : cache) (qs : list Q) : res (cache * list A) :=
    match qs with
    | [] => Ok (c, [])
    | q :: r =>
        match body c q with
        | Panic w => Panic w
        | Ok (c', a) =>
            match seq_run c' r with
            | Panic w => Panic w
            | Ok (c'', l) => Ok (c'', a :: l)
            end
        end
    end.

  (* remaining events of a thread: every enabled step decreases the sum by one *)
  Definition t_measure (t : thread) : nat :=
    match t_pc t with
    | Crashed => 0
    | AtAcquire => 4 * length (t_todo t)
    | AtBody => 4 * length (t_todo t) - 1
    | AtRelease => 4 * length (t_todo t) + 2
    | AtPost => 4 * length (t_todo t) + 1
    end.
  Definition measure (s : state) : nat := list_sum (map t_measure (s_threads s)).

  (* boolean well-formedness, evaluated by the correspondence cases on every replayed state:
     the owner is a holding thread and nobody else holds *)
  Definition wfb (s : state) : bool :=
    let hs := map holdingb (s_threads s) in
    match s_owner s with
    | None => negb (existsb id hs)
    | Some i =>
        match nth_error (s_threads s) i with
        | Some t => holdingb t && Nat.eqb (length (filter id hs)) 1
        | None => false
        end
    end.

  (* all intermediate states of a run satisfy p *)
  Fixpoint run_all (p : state -> bool) (s : state) (sched : list nat) : bool :=
    p s && match sched with
           | [] => true
           | i :: r => match step s i with Some s' => run_all p s' r | None => false end
           end.
End Protocol.

Arguments mkT {Q A}.  Arguments t_pc {Q A}.  Arguments t_todo {Q A}.  Arguments t_done {Q A}.
Arguments mkS {Q A}.  Arguments s_cache {Q A}.  Arguments s_poisoned {Q A}.
Arguments s_owner {Q A}.  Arguments s_threads {Q A}.
Arguments step {Q A}.  Arguments run {Q A}.  Arguments init {Q A}.  Arguments reachable {Q A}.
Arguments holding {Q A}.  Arguments holdingb {Q A}.  Arguments final {Q A}.  Arguments finishedb {Q A}.
Arguments complete {Q A}.  Arguments completedb {Q A}.  Arguments any_crashed {Q A}.
Arguments crashedb {Q A}.  Arguments answers {Q A}.  Arguments seq_run {Q A}.
Arguments measure {Q A}.  Arguments t_measure {Q A}.  Arguments wfb {Q A}.  Arguments run_all {Q A}.
Arguments owner_is {Q A}.  Arguments upd {Q A}.

(* ------------------------------------------------------------------ the regex-manager body *)
(* What one critical section does to the cache (RegexManager::update_time + ::matches), and how
   the answer is obtained *through* the cache: a cached regex is used when present. *)
Inductive qkind := QNetwork | QCsp | QGenericHide.

Record rq := mkQ {
  q_kind : qkind;
  q_url : N;                 (* identifies the request *)
  q_touch : list key;        (* regex rules consulted, in order (a function of rules and request) *)
  q_cleanup : bool           (* clock oracle: does update_time() run cleanup() in this section *)
}.

Section RegexBody.
  Variable compile : key -> N.           (* the regex compiled from the rule stored at that key *)
  Variable is_match : N -> N -> bool.    (* regex, request *)

  (* C06 cache invariant: a cached regex is always the one compiled from the rule at that key *)
  Definition cache_ok (c : cache) : Prop :=
    forall k r, lookup c k = Some (Compiled r) -> r = compile k.

  Definition use_key (u : N) (st : cache * list bool) (k : key) : cache * list bool :=
    match lookup (fst st) k with
    | Some (Compiled r) => (fst st, snd st ++ [is_match r u])
    | _ => (set_entry (fst st) k (Compiled (compile k)), snd st ++ [is_match (compile k) u])
    end.

  Definition rm_matches (c : cache) (q : rq) : cache * list bool :=
    fold_left (use_key (q_url q)) (q_touch q) (if q_cleanup q then discard_all c else c, []).

  (* the answer abstracted to one bit: did some consulted regex rule match
     (network: matched; csp: Some(_); generichide: true) *)
  Definition rm_body (c : cache) (q : rq) : res (cache * bool) :=
    let r := rm_matches c q in Ok (fst r, existsb id (snd r)).

  (* the answer a fresh engine gives: no cache involved at all *)
  Definition fresh_answer (q : rq) : bool :=
    existsb (fun k => is_match (compile k) (q_url q)) (q_touch q).
End RegexBody.

(* tables supplied by the harness *)
Definition compile_of (tbl : list (key * N)) (k : key) : N :=
  match find (fun p => N.eqb (fst p) k) tbl with Some p => snd p | None => k end.
Definition match_of (mt : list (N * N)) (r u : N) : bool :=
  existsb (fun p => N.eqb (fst p) r && N.eqb (snd p) u) mt.

Definition cache_okb (tbl : list (key * N)) (c : cache) : bool :=
  forallb (fun p => match snd p with
                    | Compiled r => N.eqb r (compile_of tbl (fst p))
                    | Discarded => true
                    end) c.

(* the Blocker method each query kind goes through; tied to the lint output in C19_Proofs *)
Definition fn_of_kind (k : qkind) : string :=
  match k with
  | QNetwork => "check_parameterised"
  | QCsp => "get_csp_directives"
  | QGenericHide => "check_generic_hide"
  end%string.
(* hand-written L0 table: the three query methods of Blocker that consult rule lists *)
Definition spec_locked_query_fns : list string :=
  ["check_generic_hide"; "check_parameterised"; "get_csp_directives"]%string.

(* ------------------------------------------------------------------ correspondence helpers *)
Definition rstate := state rq bool.

(* replay a recorded fine-grained schedule; compare the answers every thread received with the
   implementation's, and check lock/poison/cache invariants on every intermediate state *)
Definition replay_ok (tbl : list (key * N)) (mt : list (N * N)) (qss : list (list rq))
           (sched : list nat) (impl : list (list bool)) : bool :=
  let b := rm_body (compile_of tbl) (match_of mt) in
  let s0 := init [] qss in
  match run b s0 sched with
  | None => false
  | Some s =>
      list_eqb (list_eqb Bool.eqb) (answers s) impl
      && run_all b (fun s => wfb s && negb (s_poisoned s) && cache_okb tbl (s_cache s)) s0 sched
      && negb (any_crashed s)
  end.

(* the whole run: the schedule is complete and every thread got the fresh answers *)
Definition replay_complete (tbl : list (key * N)) (mt : list (N * N)) (qss : list (list rq))
           (sched : list nat) : bool :=
  match run (rm_body (compile_of tbl) (match_of mt)) (init [] qss) sched with
  | None => false
  | Some s => complete s
              && list_eqb (list_eqb Bool.eqb) (answers s)
                          (map (map (fresh_answer (compile_of tbl) (match_of mt))) qss)
  end.

(* the cache after a single thread ran [qs] on it *)
Definition seq_cache (b : cache -> rq -> res (cache * bool)) (c : cache) (qs : list rq) : cache :=
  match seq_run b c qs with Ok (c', _) => c' | Panic _ => c end.

(* same keys, same compiled/discarded status as a dump [(key, compiled?)] of the implementation *)
Definition cache_equiv (c : cache) (d : list (key * bool)) : bool :=
  forallb (fun p => match lookup c (fst p) with
                    | Some (Compiled _) => snd p
                    | Some Discarded => negb (snd p)
                    | None => false
                    end) d
  && forallb (fun e => existsb (fun p => N.eqb (fst p) (fst e)) d) c.

(* a small run replayed to its end: complete, fresh answers for everybody, equal to what the
   implementation's threads received, and — after the post phase (one cleanup-only critical
   section = the policy switch, then [post] without cleanup) — the model's cache is the
   implementation's dumped cache, entry by entry *)
Definition replay_final (tbl : list (key * N)) (mt : list (N * N)) (qss : list (list rq))
           (sched : list nat) (impl : list (list bool)) (post : list rq) (dump : list (key * bool)) : bool :=
  let b := rm_body (compile_of tbl) (match_of mt) in
  match run b (init [] qss) sched with
  | None => false
  | Some s =>
      complete s
      && list_eqb (list_eqb Bool.eqb) (answers s) impl
      && list_eqb (list_eqb Bool.eqb) (answers s) (map (map (fresh_answer (compile_of tbl) (match_of mt))) qss)
      && run_all b (fun s => wfb s && negb (s_poisoned s) && cache_okb tbl (s_cache s)) (init [] qss) sched
      && cache_equiv (seq_cache b (s_cache s) (mkQ QNetwork 0 [] true :: post)) dump
  end.

(* ------------------------------------------------------------------ fine-grained critical section *)
(* In the model above Body is ONE event, so its atomicity is built in.  Here the critical section
   is split into the three phases the Rust code goes through with the guard in hand,
       Tick   (borrow_regex_manager: update_time, possibly cleanup)      mutates the cache
       Probe  (RegexManager::matches: look the entries up)               reads the cache
       Commit (use the entry found / compile and insert, produce answer) mutates the cache; may
              panic when what Probe saw is no longer there (`v.regex.as_ref().unwrap()`)
   each a separate event that other threads' events may interleave with, and the mutex can be
   switched off ([locked = false]) to show what it is needed for.  C19_Proofs: with the lock every
   fine-grained run is simulated by a run of the atomic model (so all theorems carry over);
   without it a thread panics on a consistent cache. *)
Inductive fpc (L : Type) : Type :=
  FAcquire | FTick | FProbe | FCommit (l : L) | FRelease | FPost | FCrashed.
Arguments FAcquire {L}.  Arguments FTick {L}.  Arguments FProbe {L}.  Arguments FCommit {L} l.
Arguments FRelease {L}.  Arguments FPost {L}.  Arguments FCrashed {L}.

Section FineProtocol.
  Variables Q A L : Type.
  Variable tick : cache -> Q -> cache.
  Variable probe : cache -> Q -> L.
  Variable commit : cache -> Q -> L -> res (cache * A).
  Variable locked : bool.

  (* what the three phases amount to when nothing interleaves *)
  Definition atomic_body (c : cache) (q : Q) : res (cache * A) :=
    commit (tick c q) q (probe (tick c q) q).

  Record fthread := mkFT { ft_pc : fpc L; ft_todo : list Q; ft_done : list A }.
  Record fstate := mkFS { fs_cache : cache; fs_poisoned : bool; fs_owner : option nat;
                          fs_threads : list fthread }.

  Definition fowner_is (s : fstate) (i : nat) : bool :=
    match fs_owner s with Some j => Nat.eqb i j | None => false end.
  Definition may_enter (s : fstate) : bool :=
    if locked then match fs_owner s with None => true | Some _ => false end else true.
  Definition is_mine (s : fstate) (i : nat) : bool := if locked then fowner_is s i else true.
  Definition fupd (s : fstate) (i : nat) (t : fthread) : list fthread := set_nth (fs_threads s) i t.

  Definition fstep (s : fstate) (i : nat) : option fstate :=
    match nth_error (fs_threads s) i with
    | None => None
    | Some t =>
      match ft_pc t, ft_todo t with
      | FAcquire, _ :: _ =>
          if may_enter s then
            if locked && fs_poisoned s
            then Some (mkFS (fs_cache s) true None (fupd s i (mkFT FCrashed (ft_todo t) (ft_done t))))
            else Some (mkFS (fs_cache s) (fs_poisoned s) (Some i) (fupd s i (mkFT FTick (ft_todo t) (ft_done t))))
          else None
      | FTick, q :: _ =>
          if is_mine s i
          then Some (mkFS (tick (fs_cache s) q) (fs_poisoned s) (fs_owner s) (fupd s i (mkFT FProbe (ft_todo t) (ft_done t))))
          else None
      | FProbe, q :: _ =>
          if is_mine s i
          then Some (mkFS (fs_cache s) (fs_poisoned s) (fs_owner s)
                          (fupd s i (mkFT (FCommit (probe (fs_cache s) q)) (ft_todo t) (ft_done t))))
          else None
      | FCommit l, q :: rest =>
          if is_mine s i then
            match commit (fs_cache s) q l with
            | Ok (c', a) => Some (mkFS c' (fs_poisoned s) (fs_owner s) (fupd s i (mkFT FRelease rest (ft_done t ++ [a]))))
            | Panic _ => Some (mkFS (fs_cache s) true None (fupd s i (mkFT FCrashed (ft_todo t) (ft_done t))))
            end
          else None
      | FRelease, _ =>
          if is_mine s i
          then Some (mkFS (fs_cache s) (fs_poisoned s) None (fupd s i (mkFT FPost (ft_todo t) (ft_done t))))
          else None
      | FPost, _ => Some (mkFS (fs_cache s) (fs_poisoned s) (fs_owner s) (fupd s i (mkFT FAcquire (ft_todo t) (ft_done t))))
      | _, _ => None
      end
    end.

  Fixpoint frun (s : fstate) (sched : list nat) : option fstate :=
    match sched with
    | [] => Some s
    | i :: r => match fstep s i with Some s' => frun s' r | None => None end
    end.

  Definition finit (c : cache) (qss : list (list Q)) : fstate :=
    mkFS c false None (map (fun qs => mkFT FAcquire qs []) qss).

  Definition in_critical (t : fthread) : bool :=
    match ft_pc t with FTick | FProbe | FCommit _ | FRelease => true | _ => false end.
  Definition fcrashed (t : fthread) : bool := match ft_pc t with FCrashed => true | _ => false end.
  Definition fany_crashed (s : fstate) : bool := existsb fcrashed (fs_threads s).
  Definition fanswers (s : fstate) : list (list A) := map ft_done (fs_threads s).
  Definition ffinishedb (t : fthread) : bool :=
    match ft_pc t, ft_todo t with
    | FCrashed, _ => true
    | FAcquire, [] => true
    | _, _ => false
    end.
  Definition ffinal (s : fstate) : bool := forallb ffinishedb (fs_threads s).
End FineProtocol.

Arguments mkFT {Q A L}.  Arguments ft_pc {Q A L}.  Arguments ft_todo {Q A L}.  Arguments ft_done {Q A L}.
Arguments mkFS {Q A L}.  Arguments fs_cache {Q A L}.  Arguments fs_poisoned {Q A L}.
Arguments fs_owner {Q A L}.  Arguments fs_threads {Q A L}.
Arguments fstep {Q A L}.  Arguments frun {Q A L}.  Arguments finit {Q A L}.  Arguments atomic_body {Q A L}.
Arguments in_critical {Q A L}.  Arguments fany_crashed {Q A L}.  Arguments fcrashed {Q A L}.
Arguments fanswers {Q A L}.  Arguments ffinal {Q A L}.  Arguments ffinishedb {Q A L}.  Arguments fupd {Q A L}.  Arguments fowner_is {Q A L}.

(* the regex manager, phase by phase *)
Section RegexPhases.
  Variable compile : key -> N.
  Variable is_match : N -> N -> bool.

  Definition rm_tick (c : cache) (q : rq) : cache := if q_cleanup q then discard_all c else c.
  Definition rm_probe (c : cache) (q : rq) : list (option entry) := map (lookup c) (q_touch q).

  (* Entry::Occupied with a regex: `v.regex.as_ref().unwrap()`; otherwise compile and store *)
  Definition commit_key (u : N) (st : res (cache * list bool)) (ks : key * option entry)
    : res (cache * list bool) :=
    match st with
    | Panic w => Panic w
    | Ok (c, acc) =>
        match snd ks with
        | Some (Compiled _) =>
            match lookup c (fst ks) with
            | Some (Compiled r) => Ok (c, acc ++ [is_match r u])
            | _ => Panic "called `Option::unwrap()` on a `None` value"
            end
        | _ => Ok (set_entry c (fst ks) (Compiled (compile (fst ks))),
                   acc ++ [is_match (compile (fst ks)) u])
        end
    end.

  Definition rm_commit (c : cache) (q : rq) (l : list (option entry)) : res (cache * bool) :=
    match fold_left (commit_key (q_url q)) (combine (q_touch q) l) (Ok (c, [])) with
    | Ok (c', ms) => Ok (c', existsb id ms)
    | Panic w => Panic w
    end.
End RegexPhases.

(* replay of a phase-level schedule (Acquire, Tick, Probe, Commit, Release, Post events) of a
   complete small run through the fine-grained model with the mutex on *)
Definition freplay_complete (tbl : list (key * N)) (mt : list (N * N)) (qss : list (list rq))
           (sched : list nat) (impl : list (list bool)) : bool :=
  match frun rm_tick rm_probe (rm_commit (compile_of tbl) (match_of mt)) true (finit [] qss) sched with
  | None => false
  | Some fs =>
      ffinal fs && negb (fany_crashed fs) && negb (fs_poisoned fs)
      && list_eqb (list_eqb Bool.eqb) (fanswers fs) impl
      && cache_okb tbl (fs_cache fs)
  end.
