(* Struct_Options_Proofs.v — tie between check_options (src/filters/network_matchers.rs) as the
   translator extracts it on every run (Generated.OptsGen: the two rejection formulas, the
   quantifier and per-hash predicate of the union short-cut and of the exact test in the included-
   and the excluded-domains block) and the hand-written C03_Model.check_options.
   [interp_check_options] runs the extracted structure over the model's request and hash arrays;
   [interp_check_options_is_model] shows that it IS check_options for every mask, array, union and
   request.  A dropped disjunct of the cheap rejection, `all` turned into `any`, a union test that
   compares with `==` where it must compare with `!=`, or an exact test that forgets the negation
   changes the generated data and breaks the proof. *)
From Coq Require Import String.
From Adb Require Import Base Generated C03_Model.
Import OptsGen.
Local Open Scope string_scope.
Local Open Scope list_scope.

Definition oatom_val (m : N) (r : request) (a : oatom) : bool :=
  match a with
  | O_badfilter => is_badfilter m
  | O_cpt_allowed => check_cpt_allowed m (rq_type r)
  | O_req_https => rq_https r
  | O_req_http => rq_http r
  | O_for_https => for_https m
  | O_for_http => for_http m
  | O_first_party => first_party m
  | O_third_party => third_party m
  | O_req_third => rq_third r
  end.
Fixpoint oeval (m : N) (r : request) (c : ocond) : bool :=
  match c with
  | OAtom a => oatom_val m r a
  | ONot c => negb (oeval m r c)
  | OAnd a b => oeval m r a && oeval m r b
  | OOr a b => oeval m r a || oeval m r b
  end.

(* the per-hash predicates by name; [l] = the rule's hash array, [u] = its recorded union *)
Definition pred_named (n : string) (l : list N) (u : N) : option (N -> bool) :=
  if String.eqb n "not_in_union" then Some (not_in_union u)
  else if String.eqb n "not_listed" then Some (fun x => negb (bin_lookup l x))
  else if String.eqb n "in_union_and_listed" then Some (fun x => N.eqb (N.land x u) x && bin_lookup l x)
  else if String.eqb n "listed" then Some (fun x => bin_lookup l x)
  else None.
Definition quantified (qp : string * string) (l : list N) (u : N) (hs : list N) : option bool :=
  match pred_named (snd qp) l u with
  | Some p => if String.eqb (fst qp) "all" then Some (forallb p hs)
              else if String.eqb (fst qp) "any" then Some (existsb p hs) else None
  | None => None
  end.

(* the included-domains block rejects *)
Definition interp_included (od : option (list N)) (odu : option N) (src : option (list N)) : option bool :=
  match od, src with
  | Some inc, Some hs =>
      match (match odu with Some u => quantified included_union_test inc u hs | None => Some false end),
            quantified included_exact_test inc 0 hs with
      | Some a, Some b => Some (a || b)
      | _, _ => None
      end
  | _, _ => Some false
  end.
(* the excluded-domains block rejects *)
Definition interp_excluded (ond : option (list N)) (ondu : option N) (src : option (list N)) : option bool :=
  match ond, src with
  | Some exc, Some hs =>
      match ondu with
      | Some u => quantified excluded_with_union exc u hs
      | None => quantified excluded_without_union exc 0 hs
      end
  | _, _ => Some false
  end.

Definition interp_check_options (m : N) (od : option (list N)) (odu : option N)
           (ond : option (list N)) (ondu : option N) (r : request) : option bool :=
  if oeval m r reject_first then Some false
  else if oeval m r reject_cheap then Some false
  else match interp_included od odu (rq_src r), interp_excluded ond ondu (rq_src r) with
       | Some a, Some b => Some (if a then false else if b then false else otherwise_accepts)
       | _, _ => None
       end.

Lemma interp_included_is_model od odu src : interp_included od odu src = Some (included_rejects od odu src).
Proof.
  unfold interp_included, included_rejects, included_union_test, included_exact_test, quantified.
  destruct od as [inc|], src as [hs|]; try reflexivity.
  destruct odu as [u|]; cbn [fst snd pred_named String.eqb Ascii.eqb Bool.eqb]; reflexivity.
Qed.
Lemma interp_excluded_is_model ond ondu src : interp_excluded ond ondu src = Some (excluded_rejects ond ondu src).
Proof.
  unfold interp_excluded, excluded_rejects, excluded_with_union, excluded_without_union, quantified.
  destruct ond as [exc|], src as [hs|]; try reflexivity.
  destruct ondu as [u|]; cbn [fst snd pred_named String.eqb Ascii.eqb Bool.eqb]; reflexivity.
Qed.

Theorem interp_check_options_is_model m od odu ond ondu r :
  interp_check_options m od odu ond ondu r = Some (check_options m od odu ond ondu r).
Proof.
  unfold interp_check_options, check_options, reject_first, reject_cheap, otherwise_accepts.
  rewrite interp_included_is_model, interp_excluded_is_model.
  cbn [oeval oatom_val].
  (* by cases on every atom: reordered disjuncts in the source stay harmless *)
  destruct (is_badfilter m), (check_cpt_allowed m (rq_type r)), (rq_https r), (rq_http r), (for_https m),
    (for_http m), (first_party m), (third_party m), (rq_third r); cbn [negb andb orb]; reflexivity.
Qed.

(* ====================================================================================== *)
(* validate_options (Generated.ValidateGen)                                                *)
(* ====================================================================================== *)
Import ValidateGen.

Definition vatom_val (o : nfopt) (a : vatom) : bool :=
  match a with
  | V_csp => is_csp o
  | V_content_type => is_content_type o
  | V_redirection => is_redirection o
  | V_removeparam => is_removeparam_opt o
  end.
Definition apply_effect (acc : bool * bool * nat) (e : veffect) : bool * bool * nat :=
  let '(csp, ct, n) := acc in
  match e with
  | E_has_csp => (true, ct, n)
  | E_has_content_type => (csp, true, n)
  | E_modifier => (csp, ct, S n)
  end.
(* the if-chain of the loop body: first entry one of whose atoms holds *)
Fixpoint scan_one (entries : list (list vatom * list veffect)) (o : nfopt) (acc : bool * bool * nat)
  : bool * bool * nat :=
  match entries with
  | [] => acc
  | (atoms, effs) :: rest =>
      if existsb (vatom_val o) atoms then fold_left apply_effect effs acc else scan_one rest o acc
  end.
Fixpoint interp_scan (opts : list nfopt) (acc : bool * bool * nat) : bool * bool * nat :=
  match opts with
  | [] => acc
  | o :: r => interp_scan r (scan_one scan o acc)
  end.
Definition interp_validate (opts : list nfopt) : perr unit :=
  let '(c0, t0, n0) := start in
  let '(csp, ct, n) := interp_scan opts (c0, t0, N.to_nat n0) in
  if csp && ct then PErr reject_csp_with_type
  else if Nat.ltb (N.to_nat modifier_limit) n then PErr reject_modifiers
  else POk tt.

Lemma interp_scan_is_model opts : forall acc, interp_scan opts acc = validate_scan opts acc.
Proof.
  induction opts as [|o r IH]; intros [[csp ct] n]; [reflexivity|].
  cbn [interp_scan validate_scan]. rewrite IH. f_equal.
  unfold scan. cbn [scan_one existsb vatom_val fold_left apply_effect].
  destruct (is_csp o); [reflexivity|]. cbn [orb].
  destruct (is_content_type o); [reflexivity|]. cbn [orb].
  rewrite orb_false_r. destruct (is_redirection o || is_removeparam_opt o); reflexivity.
Qed.

Theorem interp_validate_is_model opts : interp_validate opts = validate_options opts.
Proof.
  unfold interp_validate, validate_options, start. rewrite interp_scan_is_model.
  change (N.to_nat 0) with O.
  destruct (validate_scan opts (false, false, O)) as [[csp ct] n]. reflexivity.
Qed.

(* ====================================================================================== *)
(* Request::from_detailed_parameters — scheme handling (Generated.RequestGen)              *)
(* ====================================================================================== *)
Import RequestGen.

Fixpoint rval (schema : str) (env : list (string * bool)) (f : rform) : option bool :=
  match f with
  | RSchemeIs s => Some (str_eqb schema (bs s))
  | RFlag n => (fix look (e : list (string * bool)) : option bool :=
                  match e with
                  | [] => None                          (* a flag used before it is defined *)
                  | (k, v) :: r => if String.eqb k n then Some v else look r
                  end) env
  | RNot g => match rval schema env g with Some b => Some (negb b) | None => None end
  | RAnd a b => match rval schema env a, rval schema env b with
                | Some x, Some y => Some (x && y) | _, _ => None end
  | ROr a b => match rval schema env a, rval schema env b with
               | Some x, Some y => Some (x || y) | _, _ => None end
  end.
(* the `let`s in source order: each may use the flags defined before it *)
Fixpoint run_defs (schema : str) (ds : list (string * rform)) (env : list (string * bool))
  : option (list (string * bool)) :=
  match ds with
  | [] => Some env
  | (n, f) :: r => match rval schema env f with
                   | Some v => run_defs schema r ((n, v) :: env)
                   | None => None
                   end
  end.
Fixpoint env_get (env : list (string * bool)) (n : string) : option bool :=
  match env with [] => None | (k, v) :: r => if String.eqb k n then Some v else env_get r n end.

Definition interp_request (h : str -> N) (raw_type schema source_hostname : str) (third : bool)
  : option request :=
  if is_nil schema then
    let '(ht, hs, sup) := no_scheme_flags in
    Some (mkReq (cpt_match_type raw_type) ht hs sup third (source_hostname_hashes h source_hostname))
  else
    match run_defs schema defs [] with
    | None => None
    | Some env =>
        match env_get env "is_http", env_get env "is_https", env_get env "is_supported",
              env_get env websocket_type_forced_by with
        | Some ht, Some hs, Some sup, Some ws =>
            Some (mkReq (if ws then RT_Websocket else cpt_match_type raw_type) ht hs sup third
                        (source_hostname_hashes h source_hostname))
        | _, _, _, _ => None
        end
    end.

Theorem interp_request_is_model h raw_type schema source_hostname third :
  interp_request h raw_type schema source_hostname third =
  Some (from_detailed_parameters h raw_type schema source_hostname third).
Proof.
  unfold interp_request, from_detailed_parameters, no_scheme_flags.
  destruct (is_nil schema); [reflexivity|].
  unfold defs. cbn [run_defs rval String.eqb Ascii.eqb Bool.eqb env_get websocket_type_forced_by].
  reflexivity.
Qed.
