(* BaseProofs.v — lemmas about Base.v used across properties. *)
From Adb Require Import Base.
From Coq Require Import ZifyBool ZifyNat ZifyN.

Lemma str_eqb_refl s : str_eqb s s = true.
Proof. induction s as [|x s IH]; cbn; [reflexivity|]. rewrite N.eqb_refl, IH. reflexivity. Qed.

Lemma str_eqb_eq a b : str_eqb a b = true <-> a = b.
Proof.
  revert b; induction a as [|x a IH]; intros [|y b]; cbn; split; intros H; try congruence; try reflexivity.
  - apply andb_true_iff in H as [H1 H2]. apply N.eqb_eq in H1. apply IH in H2. congruence.
  - inversion H; subst. rewrite N.eqb_refl. cbn. apply IH. reflexivity.
Qed.

Lemma str_eqb_neq a b : str_eqb a b = false <-> a <> b.
Proof.
  split; intros H.
  - intros E. apply str_eqb_eq in E. congruence.
  - destruct (str_eqb a b) eqn:E; [|reflexivity]. apply str_eqb_eq in E. contradiction.
Qed.

Lemma mem_str_In x l : mem_str x l = true <-> In x l.
Proof.
  induction l as [|y l IH]; cbn; [split; [discriminate|tauto]|].
  rewrite orb_true_iff, IH, str_eqb_eq. split; intros [H|H]; auto.
Qed.

Lemma memN_In x l : memN x l = true <-> In x l.
Proof.
  induction l as [|y l IH]; cbn; [split; [discriminate|tauto]|].
  rewrite orb_true_iff, IH, N.eqb_eq. split; intros [H|H]; auto.
Qed.

(* ---- find_byte ---- *)
Lemma find_byte_Some c s i :
  find_byte c s = Some i ->
  (i < length s)%nat /\ nth i s 0 = c /\ find_byte c (take i s) = None /\
  s = take i s ++ c :: drop (S i) s.
Proof.
  revert i; induction s as [|x s IH]; cbn; intros i H; [discriminate|].
  destruct (N.eqb x c) eqn:E.
  - inversion H; subst. apply N.eqb_eq in E. subst. cbn. repeat split; auto; lia.
  - destruct (find_byte c s) as [j|] eqn:F; [|discriminate]. inversion H; subst.
    destruct (IH j eq_refl) as (A & B & C & D). unfold take, drop in *. cbn. rewrite E.
    unfold take in C. rewrite C. repeat split; auto; try lia. f_equal. exact D.
Qed.

Lemma find_byte_None c s : find_byte c s = None <-> ~ In c s.
Proof.
  induction s as [|x s IH]; cbn; [tauto|].
  destruct (N.eqb x c) eqn:E.
  - apply N.eqb_eq in E. split; [discriminate|]. intros H; exfalso; apply H; auto.
  - apply N.eqb_neq in E. destruct (find_byte c s) as [j|].
    + split; [discriminate|]. intros H. exfalso. apply H. right.
      destruct (in_dec N.eq_dec c s) as [G|G]; [exact G|]. apply IH in G. discriminate.
    + split; [|reflexivity]. intros _ [G|G]; [congruence|]. apply IH in G; auto.
Qed.

Lemma find_byte_app_notin c a b : ~ In c a ->
  find_byte c (a ++ b) = match find_byte c b with Some i => Some (length a + i)%nat | None => None end.
Proof.
  induction a as [|x a IH]; cbn; intros H.
  - destruct (find_byte c b); reflexivity.
  - destruct (N.eqb x c) eqn:E; [apply N.eqb_eq in E; exfalso; apply H; auto|].
    rewrite IH by (intros G; apply H; auto). destruct (find_byte c b); reflexivity.
Qed.

Lemma find_byte_app_in c a b i : find_byte c a = Some i -> find_byte c (a ++ b) = Some i.
Proof.
  revert i; induction a as [|x a IH]; cbn; intros i H; [discriminate|].
  destruct (N.eqb x c); [exact H|]. destruct (find_byte c a) as [j|]; [|discriminate].
  rewrite (IH j eq_refl). exact H.
Qed.

(* ---- take / drop ---- *)
Lemma take_drop {A} n (l : list A) : take n l ++ drop n l = l.
Proof. apply firstn_skipn. Qed.

Lemma take_app_length {A} (a b : list A) : take (length a) (a ++ b) = a.
Proof. unfold take. rewrite firstn_app, Nat.sub_diag, firstn_all. cbn. apply app_nil_r. Qed.

Lemma drop_app_length {A} (a b : list A) : drop (length a) (a ++ b) = b.
Proof. unfold drop. rewrite skipn_app, Nat.sub_diag, skipn_all. reflexivity. Qed.

(* ---- split / join ---- *)
Lemma split_on_nonempty c s : split_on c s <> [].
Proof.
  induction s as [|x s IH]; cbn; [discriminate|].
  destruct (N.eqb x c); [discriminate|]. destruct (split_on c s); [contradiction|discriminate].
Qed.

Lemma join_split c s : join_with [c] (split_on c s) = s.
Proof.
  induction s as [|x s IH]; cbn; [reflexivity|].
  destruct (N.eqb x c) eqn:E.
  - apply N.eqb_eq in E. subst x. destruct (split_on c s) as [|p ps] eqn:F.
    + exfalso. eapply split_on_nonempty; eauto.
    + cbn in *. rewrite IH. reflexivity.
  - destruct (split_on c s) as [|p ps] eqn:F.
    + exfalso. eapply split_on_nonempty; eauto.
    + destruct ps; cbn in *; rewrite <- IH; reflexivity.
Qed.

Lemma split_on_no_sep c s p : In p (split_on c s) -> ~ In c p.
Proof.
  revert p; induction s as [|x s IH]; cbn; intros p H.
  - destruct H as [<-|[]]. auto.
  - destruct (N.eqb x c) eqn:E.
    + destruct H as [<-|H]; [auto|]. apply IH; auto.
    + apply N.eqb_neq in E. destruct (split_on c s) as [|q qs] eqn:F.
      * destruct H as [<-|[]]. intros [G|[]]. congruence.
      * destruct H as [<-|H].
        -- intros [G|G]; [congruence|]. revert G. apply IH. left. reflexivity.
        -- apply IH. right. exact H.
Qed.

Lemma In_firstn_aux {A} n (l : list A) (x : A) : In x (firstn n l) -> In x l.
Proof. intros H. rewrite <- (firstn_skipn n l). apply in_or_app. left. exact H. Qed.
Lemma In_skipn_aux {A} n (l : list A) (x : A) : In x (skipn n l) -> In x l.
Proof. intros H. rewrite <- (firstn_skipn n l). apply in_or_app. right. exact H. Qed.
Lemma drop_app_length' {A} (a b : list A) n : n = length a -> drop n (a ++ b) = b.
Proof. intros ->. apply drop_app_length. Qed.
