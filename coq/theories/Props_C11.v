(* Props_C11.v — pinned statements for property C11 (list parsing: no panic on any text, a
   rejected line influences nothing, hosts entries are ||host^, rule types are respected).
   Only statements, `exact`, and Print Assumptions. *)
From Adb Require Import Base BaseProofs Generated C11_Model C11_Proofs.

(* ---- the shared lemma family: which offsets are char boundaries of a valid UTF-8 string *)
Theorem C11_boundary_is_parser_state : forall s i,
  valid_utf8 s = true -> (i <= length s)%nat ->
  (is_boundary s i = true <-> valid_utf8 (take i s) = true).
Proof. intros s i Hv Hi. rewrite valid_iff. exact (boundary_state s i Hv Hi). Qed.
Print Assumptions C11_boundary_is_parser_state.

Theorem C11_ascii_search_offsets_are_boundaries : forall c s i,
  valid_utf8 s = true -> c < 128 -> (find_byte c s = Some i \/ rfind_byte c s = Some i) ->
  (is_boundary s i = true /\ is_boundary s (S i) = true /\ (S i <= length s)%nat)
  /\ is_boundary s 0 = true /\ is_boundary s (length s) = true.
Proof.
  intros c s i Hv Hc [H|H]; (split; [|split; [reflexivity|apply bnd_len]]).
  - destruct (good_find c s i Hc H), (good_find_next c s i Hv Hc H). auto.
  - destruct (good_rfind c s i Hc H), (good_rfind_next c s i Hv Hc H). auto.
Qed.
Print Assumptions C11_ascii_search_offsets_are_boundaries.

Theorem C11_before_ascii_suffix_is_boundary : forall p s,
  suffixb p s = true -> all_ascii p = true -> is_boundary s (length s - length p) = true.
Proof. intros p s H1 H2. exact (proj2 (good_before_suffix p s H1 H2)). Qed.
Print Assumptions C11_before_ascii_suffix_is_boundary.

Theorem C11_slice_of_valid_is_valid : forall s a b r,
  valid_utf8 s = true -> slice s a b = Ok r -> valid_utf8 r = true.
Proof. exact slice_valid. Qed.
Print Assumptions C11_slice_of_valid_is_valid.

(* ---- panic-freedom of the modelled slicing code, for every valid UTF-8 input *)
Theorem C11_detect_filter_type_total : forall s w,
  valid_utf8 s = true -> detect_filter_type s <> Panic w.
Proof. intros s w Hv. apply safe_not_panic. apply detect_filter_type_safe. exact Hv. Qed.
Print Assumptions C11_detect_filter_type_total.

Theorem C11_abstract_parse_total : forall line w,
  valid_utf8 line = true -> abstract_parse line <> Panic w.
Proof. intros s w Hv. apply safe_not_panic. apply abstract_parse_safe. exact Hv. Qed.
Print Assumptions C11_abstract_parse_total.

(* read_list_metadata never panics (even on invalid bytes), and cuts at the last char boundary
   not after byte 1024 *)
Theorem C11_metadata_total : forall s,
  (forall w, read_list_metadata s <> Panic w) /\
  exists k, cutoff s = Ok k /\ (k <= N.to_nat 1024)%nat /\ (k <= length s)%nat /\
            is_boundary s k = true /\
            (forall j, (k < j <= Nat.min (length s) (N.to_nat 1024))%nat -> is_boundary s j = false).
Proof.
  intros s. split; [apply safe_not_panic; apply read_list_metadata_safe|].
  destruct (cutoff_spec s) as (k & H1 & H2 & [H3 H4] & H5). exists k. auto.
Qed.
Print Assumptions C11_metadata_total.

(* ---- the list driver (parse_filters_with_metadata / FilterSet::add_filter_list), for any
   per-line parser *)
Theorem C11_line_independent : forall parse_line l1 bad l2 m e,
  parse_line bad = Ok (inr e) ->
  rules_of (parse_list parse_line (l1 ++ bad :: l2) m) = rules_of (parse_list parse_line (l1 ++ l2) m).
Proof. exact line_independent. Qed.
Print Assumptions C11_line_independent.

Theorem C11_line_independent_with_metadata : forall parse_line l1 bad l2 m e,
  parse_line bad = Ok (inr e) -> md_neutral bad ->
  parse_list parse_line (l1 ++ bad :: l2) m = parse_list parse_line (l1 ++ l2) m.
Proof. exact line_independent_full. Qed.
Print Assumptions C11_line_independent_with_metadata.

Theorem C11_driver_is_filter_map : forall parse_line ls m,
  (forall l, In l ls -> forall w, parse_line l <> Panic w) ->
  parse_list parse_line ls m =
  Ok (fold_left try_add ls m, nets_of parse_line ls, cosms_of parse_line ls).
Proof.
  intros pl ls m H. apply parse_list_spec. intros l Hl. apply safe_not_panic. exact (H l Hl).
Qed.
Print Assumptions C11_driver_is_filter_map.

Theorem C11_add_filter_list_independent : forall parse_line fs text text' l1 bad l2 e,
  lines text = l1 ++ bad :: l2 -> lines text' = l1 ++ l2 -> parse_line bad = Ok (inr e) ->
  rbind (add_filter_list parse_line fs text) (fun x => Ok (snd x)) =
  rbind (add_filter_list parse_line fs text') (fun x => Ok (snd x)).
Proof. exact add_filter_list_independent. Qed.
Print Assumptions C11_add_filter_list_independent.

(* ---- the remaining slicing code: hosts-line normalisation, scriptlet arguments,
   NetworkFilter::parse, CosmeticFilter::parse (default build: no CSS validation) *)
Theorem C11_hosts_line_total : forall s w,
  valid_utf8 s = true -> hosts_hostname s <> Panic w.
Proof. intros s w Hv. apply safe_not_panic. apply hosts_hostname_props. exact Hv. Qed.
Print Assumptions C11_hosts_line_total.

Theorem C11_index_next_unescaped_separator_total : forall s sep w,
  valid_utf8 s = true -> sep < 128 -> index_next_unescaped_separator s sep <> Panic w.
Proof. intros s sep w Hv Hs. apply safe_not_panic. apply inus_props; assumption. Qed.
Print Assumptions C11_index_next_unescaped_separator_total.

Theorem C11_parse_scriptlet_args_total : forall s w,
  valid_utf8 s = true -> parse_scriptlet_args s <> Panic w.
Proof. intros s w Hv. apply safe_not_panic. apply parse_scriptlet_args_safe. exact Hv. Qed.
Print Assumptions C11_parse_scriptlet_args_total.

Theorem C11_network_parse_total : forall lower idna line w,
  valid_utf8 line = true -> network_parse lower idna line <> Panic w.
Proof. intros lower idna s w Hv. apply safe_not_panic. apply network_parse_safe. exact Hv. Qed.
Print Assumptions C11_network_parse_total.

Theorem C11_cosmetic_parse_total : forall idna line w,
  valid_utf8 line = true -> cosmetic_parse idna line <> Panic w.
Proof. intros idna s w Hv. apply safe_not_panic. apply cosmetic_parse_safe. exact Hv. Qed.
Print Assumptions C11_cosmetic_parse_total.

(* ---- parse_filter, both formats, all rule types; the only contract on third-party code is
   that idna returns valid UTF-8 (a Rust String); str::to_lowercase may return anything *)
Theorem C11_parse_filter_total : forall lower idna,
  (forall s h, idna s = Some h -> valid_utf8 h = true) ->
  forall line fmt rt w, valid_utf8 line = true -> parse_filter lower idna line fmt rt <> Panic w.
Proof.
  intros lower idna Hi line fmt rt w Hv. apply safe_not_panic. apply parse_filter_safe; assumption.
Qed.
Print Assumptions C11_parse_filter_total.

Theorem C11_add_filter_list_total : forall lower idna,
  (forall s h, idna s = Some h -> valid_utf8 h = true) ->
  forall fs text fmt rt w, valid_utf8 text = true ->
  add_filter_list (fun l => parse_filter lower idna l fmt rt) fs text <> Panic w.
Proof.
  intros lower idna Hi fs text fmt rt w Hv. apply safe_not_panic. apply add_filter_list_safe; assumption.
Qed.
Print Assumptions C11_add_filter_list_total.

(* ---- hosts entries and rule types *)
Theorem C11_hosts_equiv : forall lower idna line rt p,
  parse_filter lower idna line FF_Hosts rt = Ok (inl p) ->
  exists h a f,
    hosts_hostname (trim line) = Ok (inl h) /\ norm_host lower idna h = Some a /\
    network_parse lower idna (bs "||" ++ a ++ bs "^") = Ok (inl f) /\ p = PNetwork f.
Proof. exact hosts_equiv. Qed.
Print Assumptions C11_hosts_equiv.

Theorem C11_rule_types_respected_line : forall lower idna line fmt rt p,
  parse_filter lower idna line fmt rt = Ok (inl p) ->
  match p with
  | PNetwork _ => loads_network rt = true
  | PCosmetic _ => loads_cosmetic rt = true /\ fmt = FF_Standard
  end.
Proof. exact parse_filter_rule_types. Qed.
Print Assumptions C11_rule_types_respected_line.

Theorem C11_rule_types_respected : forall lower idna fmt rt ls m mm ns cs,
  parse_list (fun l => parse_filter lower idna l fmt rt) ls m = Ok (mm, ns, cs) ->
  (loads_cosmetic rt = false \/ fmt = FF_Hosts -> cs = []) /\ (loads_network rt = false -> ns = []).
Proof. exact rule_types_respected. Qed.
Print Assumptions C11_rule_types_respected.

(* ---- tie: the option table of the model agrees with the match arms extracted from
   /repo/src/filters/abstract_network.rs and network.rs on this run (a finite table) *)
Theorem C11_option_table_agrees :
  forallb arm_agrees c11_option_arms = true /\
  forallb (fun n => existsb (fun a => String.eqb n (fst (fst a))) c11_option_arms) model_option_names = true /\
  forallb (fun a => existsb (String.eqb (fst (fst a))) model_option_names) c11_option_arms = true /\
  parse_option (bs "no-such-option") = inr "UnrecognisedOption"%string.
Proof. exact option_table_agrees. Qed.
Print Assumptions C11_option_table_agrees.
