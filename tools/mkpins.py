#!/usr/bin/env python3
"""mkpins.py <imports file> name=lemma ...  — prints paste-ready pins (Theorem name : <type of lemma>.
Proof. exact lemma. Qed. Print Assumptions name.) with the statement as `Check lemma` prints it.
Run from /verif/coq after the lemma's file has been compiled."""
import re, subprocess, sys, tempfile, os
imports = open(sys.argv[1]).read()
pairs = [a.split("=", 1) for a in sys.argv[2:]]
src = imports + "\nSet Printing Width 110.\n" + "".join("Check %s.\n" % l for _, l in pairs)
d = tempfile.mkdtemp()
f = os.path.join(d, "q.v")
open(f, "w").write(src)
out = subprocess.run(["coqc", "-Q", "theories", "Adb", f], capture_output=True, text=True)
if out.returncode != 0:
    sys.stderr.write(out.stderr + out.stdout)
    sys.exit(1)
blocks = re.split(r"(?m)^(?=[\w.]+\n     : )", out.stdout)
types = {}
for b in blocks:
    m = re.match(r"([\w.]+)\n     : (.*)", b, re.S)
    if m:
        types[m.group(1)] = m.group(2).rstrip()
print(imports.rstrip() + "\n")
for name, lemma in pairs:
    ty = types[lemma].replace("\n       ", "\n  ")
    print("Theorem %s :\n  %s.\nProof. exact %s. Qed.\nPrint Assumptions %s.\n" % (name, ty, lemma, name))
