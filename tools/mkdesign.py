#!/usr/bin/env python3
"""Assemble DESIGN.md from design/*.md, props/*.json, known_findings.json, seeded/RESULTS.json."""
import json, os, re, glob
V = os.path.dirname(os.path.dirname(os.path.abspath(__file__)))
def rd(p): return open(os.path.join(V, p)).read()
out = [rd("design/00_head.md")]
out.append("---------------------------------------------------------------------------------------\n\n## 4. Per-property summary (generated from props/*.json and Props_*.v)\n")
props = [json.loads(l) for l in open(os.path.join(V, "properties.jsonl"))]
kf = json.load(open(os.path.join(V, "known_findings.json")))
for p in props:
    pid = p["id"]
    f = os.path.join(V, "props", pid + ".json")
    if not os.path.exists(f):
        out.append("### %s – %s\n\nnot built.\n" % (pid, p["title"])); continue
    spec = json.load(open(f))
    pf = os.path.join(V, "coq", "theories", "Props_%s.v" % pid)
    thms = re.findall(r"^\s*Theorem\s+([A-Za-z0-9_']+)", open(pf).read(), re.M) if os.path.exists(pf) else []
    known = [k["class"] for k in kf.get("findings", []) if k["property"] == pid]
    out.append("### %s – %s\n" % (pid, p["title"]))
    out.append(spec.get("level_text", "").strip() + "\n")
    out.append("*Assumed / trusted:* " + spec.get("level_note", "").strip() + "\n")
    out.append("*Pinned theorems (%d):* %s\n" % (len(thms), ", ".join("`%s`" % t for t in thms)))
    out.append("*Files:* `coq/theories/%s_*.v` (C01/C04–C07 also `Net_*`, `Tok_Proofs`), `Props_%s.v`, `harness/src/bin/%s.rs`.  *Known-finding classes:* %s\n" % (pid, pid, pid.lower(), ", ".join(known) or "none"))
out.append(rd("design/50_tail.md"))
rf = os.path.join(V, "seeded", "RESULTS.json")
out.append("\n---------------------------------------------------------------------------------------\n\n## 7. Seeded changes and which checks catch them\n")
out.append(rd("design/70_seeded_intro.md") if os.path.exists(os.path.join(V, "design/70_seeded_intro.md")) else "")
if os.path.exists(rf):
    res = json.load(open(rf))
    out.append("| seeded change | site | what it breaks / what it needs | caught by (baseline) | own check after strengthening | last full re-run (all 237, after wave 7) |\n|---|---|---|---|---|---|")
    for k in sorted(res):
        r = res[k]
        out.append("| %s | %s | %s — needs: %s | %s | %s | %s |" % (k, r.get("site", ""), r.get("what_breaks", "").replace("|", "\\|"), r.get("needs_to_manifest", "").replace("|", "\\|"), r.get("caught_by", ""), r.get("after_strengthening", "not re-run"), r.get("full_rerun_after_wave7", "")))
else:
    out.append("(runs pending)\n")
open(os.path.join(V, "DESIGN.md"), "w").write("\n".join(out) + "\n")
print("DESIGN.md written")
