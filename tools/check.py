#!/usr/bin/env python3
"""Single entry point of the verification machinery:  ./check <ID> [--tier quick|thorough]
[--seed N] [--replay FILE].

Stages (DESIGN.md §3):
  T  translator      tools/gen_tables.py regenerates coq/theories/Generated.v from /repo/src
  P  proof           make coq/theories/Props_<ID>.vo (full .vo build), Print Assumptions audit
  H  harness         cargo build of /verif/harness against /repo's working tree (hooks on)
  C  correspondence  harness runs the implementation and writes cases_*.v; coqc evaluates the
                     model on the same inputs (vm_compute) and reports disagreeing case numbers
  S  search          implementation-side oracle (part of the harness run; intensified when
                     T, P or C broke) looks for a concrete failing input
Exit 0 iff the property held on everything explored; otherwise a line
`VIOLATION property=<id> replay=<path>[ no-failing-input-found]` and exit 1.
"""
import fcntl
import glob
import hashlib
import json
import os
import re
import shutil
import subprocess
import sys
import time

VERIF = os.path.dirname(os.path.dirname(os.path.abspath(__file__)))
COQ = os.path.join(VERIF, "coq")
TH = os.path.join(COQ, "theories")
HARNESS = os.path.join(VERIF, "harness")
WORK = os.path.join(VERIF, "work")
REPO = os.environ.get("VERIF_REPO", "/repo")   # overridden only by tools/seeded_all.sh (background runs on a snapshot)
FORBIDDEN = re.compile(
    r"\b(Admitted|admit|Axiom|Axioms|Parameter|Parameters|Conjecture|Conjectures|Hypothesis|"
    r"Hypotheses|Variable|Variables|bypass_check|Unset\s+Guard|Unset\s+Positivity|"
    r"Unset\s+Universe|type-in-type|Admit\s+Obligations)\b")
ALLOWED_AXIOMS = set()  # no axiom is used by any property theorem; see DESIGN.md §5

TRUSTED_BASE = [
    "Coq 8.16.1 kernel + coqc (vm_compute used for evaluation; no native_compute)",
    "Print Assumptions of every pinned theorem: Closed under the global context (no axioms)",
    "translator tools/gen_tables.py (regex-anchored extraction of tables from /repo/src; fails closed)",
    "correspondence check: differential run of the hand-written Gallina model (vm_compute in coqc) "
    "against the crate built from /repo with --cfg brave_adblock_rust_verif; bounded by the generators",
    "Rust harness /verif/harness (input generation, Coq literal printing, implementation-side oracles)",
    "third-party code is modelled, not verified: seahash, regex, idna, addr/psl, rmp-serde, std HashMap",
]


def log(*a):
    print(*a, file=sys.stderr, flush=True)


def run(cmd, timeout, cwd=None, env=None, capture=True):
    e = dict(os.environ)
    e.update({"CARGO_NET_OFFLINE": "true"})
    if env:
        e.update(env)
    try:
        p = subprocess.run(cmd, cwd=cwd, env=e, timeout=timeout, shell=isinstance(cmd, str),
                           stdout=subprocess.PIPE if capture else None,
                           stderr=subprocess.STDOUT if capture else None, text=True,
                           errors="replace")
        return p.returncode, p.stdout or ""
    except subprocess.TimeoutExpired as ex:
        out = ex.stdout if isinstance(ex.stdout, str) else (ex.stdout or b"").decode("utf8", "replace")
        return 124, (out or "") + "\n[timeout after %ss]" % timeout


class Lock:
    def __init__(self, name):
        os.makedirs(WORK, exist_ok=True)
        self.f = open(os.path.join(WORK, name + ".lock"), "w")

    def __enter__(self):
        fcntl.flock(self.f, fcntl.LOCK_EX)

    def __exit__(self, *a):
        fcntl.flock(self.f, fcntl.LOCK_UN)


# ----------------------------------------------------------------------------- stage T
def stage_translator(pid):
    rc, out = run([sys.executable, os.path.join(VERIF, "tools", "gen_tables.py")], 120)
    if rc != 0:
        return False, out
    try:
        st = json.load(open(os.path.join(WORK, "translator_status.json")))
    except (OSError, ValueError):
        st = {}
    mine = {k: v for k, v in st.items()
            if k.lower().startswith(pid.lower() + "_") or (isinstance(v, dict) and pid in v.get("properties", []))}
    if mine:
        return False, json.dumps(mine)
    return True, out


# ----------------------------------------------------------------------------- stage P
def coq_files():
    return sorted(glob.glob(os.path.join(TH, "*.v")))


def ensure_makefile():
    files = [os.path.relpath(f, COQ) for f in coq_files()]
    proj = open(os.path.join(COQ, "_CoqProject")).read().split("\n")
    head = [l for l in proj if l.startswith("-")]
    want = "\n".join(head + files) + "\n"
    full = os.path.join(COQ, "_CoqProject.full")
    if not os.path.exists(full) or open(full).read() != want or not os.path.exists(
            os.path.join(COQ, "Makefile")):
        open(full, "w").write(want)
        rc, out = run(["coq_makefile", "-f", "_CoqProject.full", "-o", "Makefile"], 120, cwd=COQ)
        if rc != 0:
            return False, out
    return True, ""


def pinned_theorems(props_file):
    src = open(props_file).read()
    src_nc = strip_comments(src)
    names = re.findall(r"^\s*(?:Theorem|Lemma|Corollary)\s+([A-Za-z0-9_']+)", src_nc, re.M)
    printed = re.findall(r"Print\s+Assumptions\s+([A-Za-z0-9_']+)\s*\.", src_nc)
    return names, printed


def strip_comments(s):
    out, depth, i = [], 0, 0
    while i < len(s):
        if s.startswith("(*", i):
            depth += 1
            i += 2
        elif s.startswith("*)", i) and depth > 0:
            depth -= 1
            i += 2
        else:
            if depth == 0:
                out.append(s[i])
            i += 1
    return "".join(out)


def forbidden_scan():
    bad = []
    for f in coq_files():
        txt = strip_comments(open(f).read())
        in_section = 0
        for ln, line in enumerate(txt.split("\n"), 1):
            if re.match(r"\s*Section\b", line):
                in_section += 1
            if re.match(r"\s*End\b", line) and in_section:
                in_section -= 1
            for m in FORBIDDEN.finditer(line):
                w = m.group(1)
                if w in ("Variable", "Variables", "Hypothesis", "Hypotheses") and in_section:
                    continue  # Section-local, discharged at End: not an axiom
                bad.append("%s:%d: %s" % (os.path.basename(f), ln, w))
    return bad


def stage_proof(pid):
    target = "Props_%s" % pid
    props_file = os.path.join(TH, target + ".v")
    res = {"ok": False, "obligations": 0, "discharged": 0, "detail": "", "theorems": []}
    if not os.path.exists(props_file):
        res["detail"] = "missing " + props_file
        return res
    with Lock("coq"):
        ok, out = ensure_makefile()
        if not ok:
            res["detail"] = "coq_makefile failed: " + out[-2000:]
            return res
        vo = "theories/%s.vo" % target
        for ext in (".vo", ".glob", ".vos", ".vok"):
            try:
                os.remove(os.path.join(TH, target + ext))
            except OSError:
                pass
        rc, out = run(["make", "-j16", vo], 3000, cwd=COQ)
    res["log"] = out[-6000:]
    names, printed = pinned_theorems(props_file)
    res["theorems"] = names
    res["obligations"] = len(names)
    if rc != 0:
        m = re.search(r'File "([^"]+)", line (\d+)[^\n]*\n(?:.*\n){0,12}?Error:?([^\n]*(?:\n[^\n]+){0,6})', out)
        res["detail"] = "proof build failed: " + (m.group(0)[-1500:] if m else out[-1500:])
        return res
    # Print Assumptions blocks, in order of the `Print Assumptions` commands
    blocks = re.findall(r"(Closed under the global context|Axioms:\n(?:.+\n?)+?(?=\n|\Z|Closed under|Axioms:))", out)
    closed = 0
    notes = []
    if len(blocks) < len(printed):
        notes.append("only %d Print Assumptions outputs for %d commands" % (len(blocks), len(printed)))
    for name, blk in zip(printed, blocks):
        if blk.startswith("Closed"):
            closed += 1
        else:
            ax = set(re.findall(r"^([A-Za-z0-9_.']+)\s*:", blk, re.M))
            if ax <= ALLOWED_AXIOMS:
                closed += 1
            else:
                notes.append("%s depends on %s" % (name, sorted(ax - ALLOWED_AXIOMS)))
    missing = [n for n in names if n not in printed]
    if missing:
        notes.append("no Print Assumptions for " + ",".join(missing))
    bad = forbidden_scan()
    if bad:
        notes.append("forbidden: " + "; ".join(bad[:10]))
    res["discharged"] = closed if not (missing or bad) else 0
    res["ok"] = (not notes) and closed == len(names) and len(names) > 0
    res["detail"] = "; ".join(notes)
    return res


# ----------------------------------------------------------------------------- stage H
def stage_harness(binname):
    with Lock("cargo"):
        lock_src = os.path.join(REPO, "Cargo.lock")
        lock_dst = os.path.join(HARNESS, "Cargo.lock")
        if not os.path.exists(lock_dst):
            shutil.copy(lock_src, lock_dst)
        rc, out = run(["cargo", "build", "--release", "--offline", "--bin", binname], 3000, cwd=HARNESS)
        if rc != 0 and "Cargo.lock" in out:
            shutil.copy(lock_src, lock_dst)
            rc, out = run(["cargo", "build", "--release", "--offline", "--bin", binname], 3000, cwd=HARNESS)
    return rc == 0, out


# ----------------------------------------------------------------------------- stage C
def run_cases(outdir):
    files = sorted(glob.glob(os.path.join(outdir, "cases_*.v")))
    failing, errors = [], []
    procs = []
    maxp = 16

    def start(f):
        return f, subprocess.Popen(
            ["timeout", "900", "coqc", "-noglob", "-w", "none", "-Q", TH, "Adb", f],
            stdout=subprocess.PIPE, stderr=subprocess.STDOUT, text=True, errors="replace")

    pending = list(files)
    while pending or procs:
        while pending and len(procs) < maxp:
            procs.append(start(pending.pop(0)))
        f, p = procs.pop(0)
        out, _ = p.communicate()
        m = re.search(r"=\s*\(\s*(\d+)(?:%N)?\s*,\s*(\[[^\]]*\]|nil)", out)
        if p.returncode != 0 or not m:
            errors.append("%s: rc=%s %s" % (os.path.basename(f), p.returncode, out[-1500:]))
            continue
        base = int(m.group(1))
        idx = [int(x) for x in re.findall(r"\d+", m.group(2))]
        failing.extend(base + i for i in idx)
    for f in glob.glob(os.path.join(outdir, "cases_*.vo*")) + glob.glob(os.path.join(outdir, ".cases_*.aux")):
        try:
            os.remove(f)
        except OSError:
            pass
    return sorted(failing), errors


def load_cases(outdir, wanted):
    res = {}
    w = set(wanted)
    p = os.path.join(outdir, "cases.jsonl")
    if not os.path.exists(p):
        return res
    with open(p) as fh:
        for line in fh:
            try:
                r = json.loads(line)
            except ValueError:
                continue
            if r.get("i") in w:
                res[r["i"]] = r
    return res


# ----------------------------------------------------------------------------- main
def known_findings(pid):
    p = os.path.join(VERIF, "known_findings.json")
    if not os.path.exists(p):
        return []
    data = json.load(open(p))
    return [f for f in data.get("findings", []) if f.get("property") == pid]


def write_replay(pid, payload):
    os.makedirs(os.path.join(VERIF, "replays"), exist_ok=True)
    h = hashlib.sha1(json.dumps(payload, sort_keys=True).encode()).hexdigest()[:12]
    path = os.path.join(VERIF, "replays", "%s-%s.json" % (pid, h))
    json.dump(payload, open(path, "w"), indent=1)
    return path


def main():
    args = sys.argv[1:]
    if not args:
        print(__doc__)
        return 2
    pid = args[0]
    tier = os.environ.get("VERIF_TIER", "quick")
    seed = int(os.environ.get("VERIF_SEED", "1") or 1)
    replay = None
    i = 1
    while i < len(args):
        if args[i] == "--tier":
            tier = args[i + 1]; i += 1
        elif args[i] == "--seed":
            seed = int(args[i + 1]); i += 1
        elif args[i] == "--replay":
            replay = args[i + 1]; i += 1
        i += 1
    if tier not in ("quick", "thorough"):
        tier = "quick"
    t0 = time.time()
    spec_path = os.path.join(VERIF, "props", pid + ".json")
    spec = json.load(open(spec_path)) if os.path.exists(spec_path) else {}
    binname = spec.get("harness_bin", pid.lower())
    outdir = os.path.join(WORK, pid)
    os.makedirs(outdir, exist_ok=True)
    evidence_path = os.path.join(VERIF, "evidence", pid + ".json")
    os.makedirs(os.path.dirname(evidence_path), exist_ok=True)

    broken = []          # (stage, what)
    # T
    ok, out = stage_translator(pid)
    if not ok:
        broken.append(("translator", "tools/gen_tables.py no longer recognises a source fragment: " + out[-1500:]))
    # P
    proof = stage_proof(pid)
    if not proof["ok"]:
        broken.append(("proof", "Props_%s: %s" % (pid, proof["detail"])))
    # H
    ok, out = stage_harness(binname)
    if not ok:
        broken.append(("harness-build", out[-3000:]))
        impl = {}
        failing, cerrors = [], []
    else:
        exe = os.path.join(HARNESS, "target", "release", binname)
        if replay:
            rc, out = run([exe, "--replay", replay, "--out", outdir, "--seed", str(seed)], 1800)
            sys.stdout.write(out)
            return 0 if rc == 0 else 1
        for f in ("impl.json", "cases.jsonl", "current_case.json"):
            try:
                os.remove(os.path.join(outdir, f))
            except OSError:
                pass
        rc, out = run([exe, "--seed", str(seed), "--tier", tier, "--out", outdir],
                      1500 if tier == "quick" else 7200)
        if rc != 0 or not os.path.exists(os.path.join(outdir, "impl.json")):
            broken.append(("harness-run", "rc=%s %s" % (rc, out[-3000:])))
            impl = {}
            failing, cerrors = [], []
            # the process died (abort, stack overflow, kill): the input it was evaluating, if the
            # binary recorded one (implrun::crash_guard), is a concrete failing input
            cur = os.path.join(outdir, "current_case.json")
            if os.path.exists(cur):
                try:
                    c = json.load(open(cur))
                    impl = {"oracle_failures": [{"class": None,
                                                 "what": "the process died (rc=%s) while evaluating this input: %s" % (rc, c.get("what", "")),
                                                 "replay": c.get("replay")}]}
                except (OSError, ValueError):
                    pass
        else:
            impl = json.load(open(os.path.join(outdir, "impl.json")))
            # C (under the Coq lock: another check rebuilding Generated.vo meanwhile would make
            # the case files fail with "inconsistent assumptions")
            with Lock("coq"):
                failing, cerrors = run_cases(outdir)
            if cerrors and any("nconsistent assumptions" in e for e in cerrors):
                # a dependency was rebuilt between our proof stage and the evaluation: rebuild and retry once
                stage_proof(pid)
                with Lock("coq"):
                    failing, cerrors = run_cases(outdir)
            if cerrors:
                broken.append(("correspondence", "model evaluation failed: " + " | ".join(cerrors)[:3000]))
            if failing:
                cs = load_cases(outdir, failing[:5])
                broken.append(("correspondence", "model and implementation disagree on %d case(s); first: %s"
                               % (len(failing), json.dumps(cs.get(failing[0], {}))[:3000])))

    violations = []
    listed = known_findings(pid)
    listed_classes = {f["class"] for f in listed if not f.get("fixed")}
    oracle_fail = list(impl.get("oracle_failures", []))
    hits = impl.get("known_hits", [])
    hit_classes = {}
    for h in hits:
        c = h.get("class")
        if c in listed_classes:
            hit_classes.setdefault(c, h)
        else:
            oracle_fail.append(h)      # a class the findings file does not list is a violation
    for f in listed:
        if f.get("fixed"):
            continue
        if f["class"] in hit_classes:
            print("KNOWN-FINDING: property=%s %s" % (pid, f["what_fails"]))

    # S: intensified search when a tie broke and the normal run found no failing input
    if broken and not oracle_fail and impl is not None and os.path.exists(os.path.join(HARNESS, "target", "release", binname)) \
            and not any(b[0] in ("harness-build",) for b in broken):
        sdir = os.path.join(outdir, "search")
        os.makedirs(sdir, exist_ok=True)
        rc, out = run([os.path.join(HARNESS, "target", "release", binname), "--seed", str(seed + 7919),
                       "--tier", "thorough", "--out", sdir], 1200)
        try:
            simpl = json.load(open(os.path.join(sdir, "impl.json")))
            oracle_fail.extend(simpl.get("oracle_failures", []))
            for h in simpl.get("known_hits", []):
                if h.get("class") not in listed_classes:
                    oracle_fail.append(h)
        except (OSError, ValueError):
            pass
        shutil.rmtree(sdir, ignore_errors=True)

    rcode = 0
    if oracle_fail:
        f0 = oracle_fail[0]
        path = write_replay(pid, {"property": pid, "kind": "failing-input", "what": f0.get("what"),
                                  "replay": f0.get("replay"), "class": f0.get("class"),
                                  "broken": [list(b) for b in broken], "seed": seed, "tier": tier})
        print("VIOLATION property=%s replay=%s" % (pid, path))
        violations = oracle_fail
        rcode = 1
    elif broken:
        path = write_replay(pid, {"property": pid, "kind": "broken-obligation",
                                  "no_longer_checks": [{"stage": s, "what": w} for s, w in broken],
                                  "mismatching_cases": list(load_cases(outdir, failing[:5]).values()),
                                  "seed": seed, "tier": tier})
        print("VIOLATION property=%s replay=%s no-failing-input-found" % (pid, path))
        violations = broken
        rcode = 1

    wall = time.time() - t0
    samples = impl.get("samples") or []
    if not samples:
        samples = [{"theorem": n} for n in proof.get("theorems", [])[:3]] or [{"note": "no sample"}]
    cov = {
        "obligations": max(proof["obligations"], 1),
        "discharged": proof["discharged"] if proof["ok"] else 0,
        "checker_cmd": "make -C /verif/coq theories/Props_%s.vo  (coqc 8.16.1, full .vo build; Print Assumptions per theorem)" % pid,
        "trusted_base": TRUSTED_BASE + spec.get("trusted_base_extra", []),
        "theorems": proof.get("theorems", []),
        "evaluations": int(impl.get("evaluations", 0)),
        "correspondence_cases": int(impl.get("correspondence_cases", 0)),
        "correspondence_disagreements": len(failing),
        "oracle_evaluations": int(impl.get("oracle_evaluations", 0)),
        "distinct_nontrivial": int(impl.get("distinct_nontrivial", 0)),
        "rule": impl.get("rule", ""),
        "samples": samples,
        "generator_stats": impl.get("generator_stats", {}),
        "known_finding_classes_hit": sorted(hit_classes),
        "extra": impl.get("extra", {}),
        "stages_broken": [b[0] for b in broken],
    }
    ev = {
        "property_id": pid, "tier": tier, "seed": seed, "level": "proof", "coverage": cov,
        "assumptions": spec.get("assumptions", []), "wall_s": round(wall, 2),
        "violations": len(violations),
    }
    json.dump(ev, open(evidence_path, "w"), indent=1)
    log("[%s] tier=%s seed=%d proof=%s(%d/%d) cases=%d disagree=%d oracle=%d viol=%d wall=%.1fs" % (
        pid, tier, seed, proof["ok"], proof["discharged"], proof["obligations"],
        cov["correspondence_cases"], len(failing), cov["oracle_evaluations"], len(violations), wall))
    if broken:
        for s, w in broken:
            log("  broken[%s]: %s" % (s, w[:1200]))
    return rcode


if __name__ == "__main__":
    sys.exit(main())
