#!/bin/bash
# Runs every seeded change (or the ones named) against the checks, on SNAPSHOTS, so that /repo and
# /verif stay free:   vp run --with-repo --timeout 3h -- tools/seeded_all.sh [C01-1 ...]
# The snapshot of /verif (cwd) is pointed at the snapshot of /repo ($VP_RUN_REPO) by rewriting the
# path dependency of the two harness crates; results go to seeded_results.txt in the snapshot.
set -u
R=${VP_RUN_REPO:?run under vp run --with-repo}
cd "$(dirname "$0")/.."
sed -i "s|path = \"/repo\"|path = \"$R\"|" harness/Cargo.toml harness_sync/Cargo.toml
export VERIF_REPO=$R
./setup.sh > setup.log 2>&1 || { echo "setup failed"; tail -20 setup.log; exit 2; }
LIST="$@"
[ -z "$LIST" ] && LIST=$(ls seeded | grep -E '^C[0-9]+-[0-9]+$')
: > seeded_results.txt
for m in $LIST; do
  D=seeded/$m
  P=$(python3 -c "import json;print(json.load(open('$D/meta.json'))['property'])")
  git -C $R checkout -q -- . ; git -C $R apply "$PWD/$D/patch.diff" || { echo "$m patch-does-not-apply" | tee -a seeded_results.txt; continue; }
  out=$(./check $P 2>&1); rc=$?
  v=$(echo "$out" | grep -E "^VIOLATION" | head -1)
  s=$(echo "$out" | grep -E "^\[$P\]" | head -1)
  echo "$m check=$P rc=$rc | $v | $s" | tee -a seeded_results.txt
  git -C $R checkout -q -- .
done
# the unchanged tree must stay quiet
for P in $(echo $LIST | tr ' ' '\n' | sed 's/-.*//' | sort -u); do
  out=$(./check $P 2>&1); rc=$?
  echo "UNCHANGED check=$P rc=$rc | $(echo "$out" | grep -E "^\[$P\]" | head -1)" | tee -a seeded_results.txt
done
