#!/bin/bash
# tools/verify_wave.sh <out dir> <log> <slot> Cxx-n ...  — confirms delivered seeded changes
# (<out>/<Cxx>/<n>/) one after the other in the scratch worktree /tmp/wt/v<slot>; appends
# "<Cxx-n> <json>" lines to <log>.  Several slots may run side by side.
OUT=$1; LOG=$2; SLOT=$3; shift 3
export WT=/tmp/wt/v$SLOT JOBS=${JOBS:-5}
for id in "$@"; do
  P=${id%%-*}; n=${id##*-}; D=$OUT/$P/$n
  [ -f $D/patch.diff ] || { echo "$id {\"ok\": false, \"why\": \"not delivered\"}" >> $LOG; continue; }
  flags=$(python3 -c "import json;print(json.load(open('$D/meta.json')).get('demo_flags','') or '')" 2>/dev/null)
  r=$(/verif/tools/verify_seed.sh $D "$flags" 2>/dev/null | tail -1)
  echo "$id $r" >> $LOG
done
