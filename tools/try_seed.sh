#!/bin/bash
# tools/try_seed.sh <seeded id> [check id]: apply the seeded change to /repo, run the check, undo.
# (coordinator only; never leaves /repo modified)
id=$1; chk=${2:-${id%%-*}}
git -C /repo apply /verif/seeded/$id/patch.diff || exit 2
# the evidence file committed must come from the UNCHANGED tree: keep it aside while the changed tree is checked
cp /verif/evidence/$chk.json /tmp/.evidence_$chk.keep 2>/dev/null
/verif/check $chk 2>&1 | grep -v "^KNOWN-FINDING" | tail -2 | cut -c1-${COLS:-330}
git -C /repo checkout -- .
[ -f /tmp/.evidence_$chk.keep ] && mv /tmp/.evidence_$chk.keep /verif/evidence/$chk.json
