#!/usr/bin/env python3
"""Record the outcome of background seeded runs in seeded/RESULTS.json.
usage: record_wave.py baseline|after <wave> <seeded_results.txt>...
Each line of a results file (written by tools/seeded_all.sh):
  <id> check=<Cxx> rc=<n> | <VIOLATION line or empty> | <summary line of ./check>
Later files win; 'after' never overwrites a baseline entry."""
import json, os, re, sys
V = os.path.dirname(os.path.dirname(os.path.abspath(__file__)))
mode, wave = sys.argv[1], int(sys.argv[2])
rf = os.path.join(V, "seeded", "RESULTS.json")
res = json.load(open(rf))
for fn in sys.argv[3:]:
    for line in open(fn):
        m = re.match(r"(C\d\d-\d+) check=(C\d\d) rc=(\d+) \| (.*?) \| (.*)$", line.strip())
        if not m:
            continue
        sid, chk, rc, vio, summ = m.groups()
        meta = json.load(open(os.path.join(V, "seeded", sid, "meta.json")))
        e = res.setdefault(sid, {})
        if "wave" in meta:
            e["wave"] = meta["wave"]
        e.update({"site": meta.get("site", ""), "what_breaks": meta.get("what_breaks", ""),
                  "needs_to_manifest": meta.get("needs_to_manifest", "")})
        caught = rc != "0" and "VIOLATION" in vio
        nofail = "no-failing-input-found" in vio
        proof = re.search(r"proof=(\w+)\((\d+)/(\d+)\)", summ)
        dis = re.search(r"disagree=(\d+)", summ)
        nviol = re.search(r"viol=(\d+)", summ)
        parts = []
        if proof and proof.group(1) == "False":
            parts.append("translator/proof obligation")
        if dis and int(dis.group(1)) > 0:
            parts.append("correspondence (%s cases)" % dis.group(1))
        if caught and not nofail:
            parts.append("concrete failing input")
        if nofail:
            parts.append("no-failing-input-found")
        text = ("%s: %s" % (chk, "; ".join(parts))) if caught else "**MISSED by own check %s**" % chk
        if mode == "baseline":
            e["baseline_own_check_caught"] = caught
            e["caught_by"] = text + " (baseline of wave %d)" % wave
        else:
            e["after_strengthening_own_check_caught"] = caught
            e["after_strengthening"] = text
json.dump(res, open(rf, "w"), indent=1, sort_keys=True)
w = [k for k, v in res.items() if v.get("wave") == wave]
print("wave %d: %d entries; baseline caught %d; after strengthening caught %d" % (
    wave, len(w), sum(1 for k in w if res[k].get("baseline_own_check_caught")),
    sum(1 for k in w if res[k].get("after_strengthening_own_check_caught", res[k].get("baseline_own_check_caught")))))
