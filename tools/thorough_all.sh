#!/bin/bash
# Runs every check at the thorough tier on a snapshot:  vp run --timeout 8h -- tools/thorough_all.sh [ids]
# (uses /repo itself, read-only). Results: thorough_results.txt in the snapshot.
cd "$(dirname "$0")/.."
./setup.sh > setup.log 2>&1 || { echo "setup failed"; tail -20 setup.log; exit 2; }
LIST="$@"
[ -z "$LIST" ] && LIST="C01 C02 C03 C04 C05 C06 C07 C08 C09 C10 C11 C12 C13 C14 C15 C16 C17 C18 C19 C20"
: > thorough_results.txt
for P in $LIST; do
  out=$(timeout 7000 ./check $P --tier thorough 2>&1); rc=$?
  echo "$P rc=$rc | $(echo "$out" | grep -E "^VIOLATION" | head -1) | $(echo "$out" | grep -E "^\[$P\]" | head -1)" | tee -a thorough_results.txt
  [ $rc -ne 0 ] && cp work/$P/impl.json thorough_$P.impl.json 2>/dev/null
done
