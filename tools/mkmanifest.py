#!/usr/bin/env python3
"""Assemble MANIFEST.json from props/*.json (one fragment per property) and properties.jsonl."""
import json, os, glob
V = os.path.dirname(os.path.dirname(os.path.abspath(__file__)))
props = [json.loads(l) for l in open(os.path.join(V, "properties.jsonl"))]
hooks = json.load(open(os.path.join(V, "props", "_hooks.json")))
checks, na = [], []
for p in props:
    pid = p["id"]
    f = os.path.join(V, "props", pid + ".json")
    spec = json.load(open(f)) if os.path.exists(f) else None
    if not spec or spec.get("not_applicable") or "level_text" not in spec:
        na.append({"property_id": pid, "reason": (spec or {}).get("not_applicable", "check not built yet in this round; no claim is made")})
        continue
    checks.append({
        "property_id": pid,
        "quick_cmd": "./check %s --tier quick" % pid,
        "thorough_cmd": "./check %s --tier thorough" % pid,
        "evidence_file": "/verif/evidence/%s.json" % pid,
        "replay_cmd_template": "./check %s --replay {path}" % pid,
        "engine": "coq-proof+correspondence",
        "level_claimed": {"category": "proof", "text": spec["level_text"], "design_ref": spec.get("design_ref", "DESIGN.md §4 " + pid)},
        "level_note": spec["level_note"],
        "technique": spec.get("technique", "Coq 8.16 theorems about a Gallina model; model tied to the code by a translator re-run on every check (tables, and the control structure of the anchored functions extracted and interpreted in Coq, proved equal to the model) and a vm_compute correspondence check against the instrumented crate"),
    })
m = {
    "version": 1,
    "setup_cmd": "./setup.sh",
    "hooks": hooks,
    "engines": [{"name": "coq-proof+correspondence", "path": "/verif/check",
                 "serves_properties": [c["property_id"] for c in checks],
                 "kind_free_text": "Coq 8.16.1 proofs over hand-written Gallina models (coq/theories), tables regenerated from /repo/src (tools/gen_tables.py), differential correspondence + implementation-side oracle search (harness/)"}],
    "checks": checks,
    "not_applicable": na,
    "notes": "See DESIGN.md. Every check: translator -> proof build + Print Assumptions audit -> harness build from /repo working tree (hooks on) -> correspondence (vm_compute) -> failing-input search.",
}
json.dump(m, open(os.path.join(V, "MANIFEST.json"), "w"), indent=1)
# known findings: merged from props/*.known.json (committed; never written by a check run)
kf = {"findings": []}
for f in sorted(glob.glob(os.path.join(V, "props", "*.known.json"))):
    kf["findings"].extend(json.load(open(f)).get("findings", []))
    kf.setdefault("fixed", []).extend(json.load(open(f)).get("fixed", []))
json.dump(kf, open(os.path.join(V, "known_findings.json"), "w"), indent=1)
print("MANIFEST: %d checks, %d not_applicable" % (len(checks), len(na)))
