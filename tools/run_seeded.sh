#!/bin/bash
# Usage: tools/run_seeded.sh <seeded dir> [PROP ...]   — applies the change to /repo, runs the
# checks of the given properties (default: the one in meta.json), restores /repo.
set -u
D=$(realpath "$1"); shift
PROPS="$@"
[ -z "$PROPS" ] && PROPS=$(python3 -c "import json;print(json.load(open('$D/meta.json'))['property'])")
cd /verif
git -C /repo diff --quiet || { echo "/repo is not clean"; exit 2; }
git -C /repo apply "$D/patch.diff" || { echo "patch does not apply"; exit 2; }
for P in $PROPS; do
  cp evidence/$P.json /tmp/.evidence_$P.keep 2>/dev/null   # committed evidence must come from the unchanged tree
  out=$(./check $P 2>&1); rc=$?
  echo "== $(basename $D) check=$P rc=$rc"
  echo "$out" | grep -E "^VIOLATION|^\[$P\]|broken\[" | cut -c1-400
done
git -C /repo checkout -- .
for P in $PROPS; do [ -f /tmp/.evidence_$P.keep ] && mv /tmp/.evidence_$P.keep evidence/$P.json; done
