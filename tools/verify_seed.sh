#!/bin/bash
# Usage: tools/verify_seed.sh <dir with patch.diff and demo.rs>
# Confirms in a scratch worktree (outside /repo and /verif) that the change compiles, leaves the
# baseline suite as it is (only the six network tests fail), and that the demonstration passes
# without the change and fails with it.  Prints one JSON line.
set -u
D=$(realpath "$1"); WT=${WT:-/tmp/wt/verify}
DEMOFLAGS="${2:-}"   # extra cargo flags for the demo (e.g. --features content-blocking)
export CARGO_NET_OFFLINE=true
if [ ! -d $WT ]; then git -C /repo worktree add -q --detach $WT HEAD; fi
cd $WT && git checkout -q --detach $(git -C /repo rev-parse HEAD) 2>/dev/null; git checkout -q -- . ; rm -f tests/seeded_demo.rs
cp "$D/demo.rs" tests/seeded_demo.rs
base_demo=$(timeout 3000 cargo test --offline -j ${JOBS:-8} $DEMOFLAGS --test seeded_demo 2>&1 | grep -E "^test result:" | head -1)
git apply "$D/patch.diff" || { echo '{"ok": false, "why": "patch does not apply"}'; exit 1; }
mut_out=$(timeout 3000 cargo test --offline -j ${JOBS:-8} $DEMOFLAGS --test seeded_demo 2>&1)
mut_demo=$(echo "$mut_out" | grep -E "^test result:" | head -1)
[ -z "$mut_demo" ] && mut_demo=$(echo "$mut_out" | grep -E "^error(\[|:)" | head -1)
rm -f tests/seeded_demo.rs
failed=$(timeout 3000 cargo test --offline --workspace --no-fail-fast -j ${JOBS:-8} 2>&1 | grep -E "^test .* \.\.\. FAILED" | sed 's/ \.\.\. FAILED//; s/^test //' | sort | tr '\n' ' ')
git checkout -q -- . ; rm -f tests/seeded_demo.rs
python3 - "$base_demo" "$mut_demo" "$failed" <<'PY'
import sys, json
base, mut, failed = sys.argv[1:4]
exp = "check_live_from_filterlists check_live_specific_urls check_matching_equivalent check_matching_hostnames stable_serialization stable_serialization_through_load"
ok = (" 0 failed" in base and "ok." in base) and ("FAILED" in mut) and failed.strip() == exp
print(json.dumps({"ok": ok, "demo_unchanged": base, "demo_changed": mut, "suite_failures_with_change": failed.strip()}))
PY
