#!/usr/bin/env python3
"""import_wave.py <out dir> <verify.log> <offset> P1 P2 ...  — copies confirmed seeded changes
<out>/<P>/<n>/{patch.diff,demo.rs,meta.json} to seeded/<P>-<n+offset>/ with the coordinator's
confirmation (one JSON line per change in verify.log, written by tools/verify_seed.sh)."""
import json, os, shutil, sys
out, log, off = sys.argv[1], sys.argv[2], int(sys.argv[3])
V = os.path.dirname(os.path.dirname(os.path.abspath(__file__)))
conf = {}
for line in open(log):
    k, _, rest = line.partition(" ")
    if rest.strip().startswith("{"):
        conf[k] = json.loads(rest)
for P in sys.argv[4:]:
    for n in (1, 2):
        src = os.path.join(out, P, str(n))
        c = conf.get("%s-%d" % (P, n))
        if not c or not c.get("ok"):
            print("%s-%d NOT imported (%s)" % (P, n, (c or {}).get("suite_failures_with_change", "no confirmation")))
            continue
        dst = os.path.join(V, "seeded", "%s-%d" % (P, n + off))
        os.makedirs(dst, exist_ok=True)
        for f in ("patch.diff", "demo.rs"):
            shutil.copy(os.path.join(src, f), os.path.join(dst, f))
        m = json.load(open(os.path.join(src, "meta.json")))
        m["property"] = P
        m["wave"] = int(os.environ.get("WAVE", "3"))
        m["confirmed_by_coordinator"] = dict(c, script="tools/verify_seed.sh (scratch worktree /tmp/wt/verify at /repo HEAD)")
        json.dump(m, open(os.path.join(dst, "meta.json"), "w"), indent=1, ensure_ascii=False)
        print("%s-%d -> %s" % (P, n, os.path.basename(dst)))
