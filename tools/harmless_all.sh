#!/bin/bash
# Harmless rewrites of the crate (harmless/*.diff: behaviour-preserving for every property) must NOT
# raise an alarm:   vp run --with-repo --timeout 4h -- tools/harmless_all.sh
set -u
R=${VP_RUN_REPO:?run under vp run --with-repo}
cd "$(dirname "$0")/.."
sed -i "s|path = \"/repo\"|path = \"$R\"|" harness/Cargo.toml harness_sync/Cargo.toml
export VERIF_REPO=$R
./setup.sh > setup.log 2>&1 || { echo "setup failed"; tail -20 setup.log; exit 2; }
: > harmless_results.txt
run() { # patch, checks...
  local P=$1; shift
  # ONLY="H1 H3" restricts the run to the patches whose name starts with one of these
  if [ -n "${ONLY:-}" ]; then local ok=0; for o in $ONLY; do case "$P" in ${o}_*) ok=1;; esac; done; [ $ok = 1 ] || return; fi
  git -C $R checkout -q -- . ; git -C $R apply "$PWD/harmless/$P.diff" || { echo "$P patch-does-not-apply" | tee -a harmless_results.txt; return; }
  for C in "$@"; do
    out=$(./check $C 2>&1); rc=$?
    echo "$P check=$C rc=$rc | $(echo "$out" | grep -E "^VIOLATION" | head -1) | $(echo "$out" | grep -E "^\[$C\]" | head -1) $(echo "$out" | grep -E "broken\[" | head -2 | cut -c1-300)" | tee -a harmless_results.txt
  done
  git -C $R checkout -q -- .
}
run H1_best_token_tie C01 C04 C05 C06 C07 C08 C09 C13 C14 C15
run H2_blocker_renames_reorders C01 C04 C05 C06 C07 C13 C14 C15
run H3_check_tag_first C01 C05 C06 C07 C13 C15
run H4_removeparam_redirect_rewrite C01 C05 C13 C14
run H5_request_hashes_special_re_order C01 C02 C03 C05 C12 C20
run H6_get_tokens_tautology_reorder C01 C05 C14
run H7_check_parameterised_let_order C01 C04 C07 C13
run H8_optimizer_select_reordered C05
run H9_tokenizer_push_condition_reordered C01 C02
run H10_enable_tags_union_other_way C06 C07
run H11_removeparam_renames_reorder C14
run H12_matchers_reordered C02
run H13_cosmetic_collect_reordered C16
