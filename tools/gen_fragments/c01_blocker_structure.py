"""Translator fragment: the control structure of src/blocker.rs that the network properties rest on.

Extracted (by a small brace/expression parser, not by line patterns):
  * the category if-chains of Blocker::new, Blocker::add_filter and Blocker::filter_exists as
    decision lists  (condition AST over NetworkFilter predicates, name of the list the rule goes to),
    with the skip condition and the independent `redirects` membership;
  * which lists Blocker::optimize optimizes and which lists Blocker::new builds with
    options.enable_optimizations;
  * for every `self.<list>.check / check_all` call of check_parameterised, get_csp_directives,
    check_generic_hide and apply_removeparam: the tag set handed over (enabled tags or none).
Struct_Proofs.v proves that these generated structures denote exactly the hand-written model
(category_of, blocker_optimize, the tag arguments of blocker_check_p / *_hits): a reordered branch,
an extra optimize() call or a call site switched to NO_TAGS breaks a proof.
"""
import re

PROPERTIES = ["C01", "C04", "C05", "C06", "C07", "C13", "C14", "C15"]

ATOMS = {
    "filter.is_csp()": "A_is_csp",
    "filter.is_removeparam()": "A_is_removeparam",
    "filter.is_generic_hide()": "A_is_generic_hide",
    "filter.is_exception()": "A_is_exception",
    "filter.is_important()": "A_is_important",
    "filter.is_redirect()": "A_is_redirect",
    "filter.also_block_redirect()": "A_also_block_redirect",
    "filter.is_badfilter()": "A_is_badfilter",
    "filter.tag.is_some()": "A_has_tag",
    "badfilter_ids.contains(&filter_id)": "A_id_cancelled",
    "self.filter_exists(&filter)": "A_exists",
}


def strip_comments(s):
    s = re.sub(r"//[^\n]*", "", s)
    return re.sub(r"/\*.*?\*/", "", s, flags=re.S)


def block_at(s, i, die):
    """s[i] == '{' -> (inner text, index after the closing brace)"""
    if s[i] != "{":
        die("expected '{' at %d: %r" % (i, s[i:i + 30]))
    depth = 0
    for j in range(i, len(s)):
        if s[j] == "{":
            depth += 1
        elif s[j] == "}":
            depth -= 1
            if depth == 0:
                return s[i + 1:j], j + 1
    die("unbalanced braces")


def fn_body(src, header_re, die):
    m = re.search(header_re, src)
    if not m:
        die("function not found: " + header_re)
    i = src.index("{", m.end() - 1)
    return block_at(src, i, die)[0]


# ---------------------------------------------------------------- conditions
def parse_cond(text, die):
    t = "".join(text.split())
    pos = [0]

    def peek(k=1):
        return t[pos[0]:pos[0] + k]

    def atom():
        if peek() == "!":
            pos[0] += 1
            return ("not", atom())
        if peek() == "(":
            pos[0] += 1
            e = disj()
            if peek() != ")":
                die("condition: ')' expected in %r" % text)
            pos[0] += 1
            return e
        for k, v in ATOMS.items():
            kk = "".join(k.split())
            if t.startswith(kk, pos[0]):
                pos[0] += len(kk)
                return ("atom", v)
        die("condition: unknown atom at %r in %r" % (t[pos[0]:pos[0] + 40], text))

    def conj():
        e = atom()
        while peek(2) == "&&":
            pos[0] += 2
            e = ("and", e, atom())
        return e

    def disj():
        e = conj()
        while peek(2) == "||":
            pos[0] += 2
            e = ("or", e, conj())
        return e

    e = disj()
    if pos[0] != len(t):
        die("condition: trailing text %r in %r" % (t[pos[0]:], text))
    return e


def coq_cond(e):
    if e[0] == "atom":
        return "(PAtom %s)" % e[1]
    if e[0] == "not":
        return "(PNot %s)" % coq_cond(e[1])
    return "(%s %s %s)" % ("PAnd" if e[0] == "and" else "POr", coq_cond(e[1]), coq_cond(e[2]))


# ---------------------------------------------------------------- statements
def parse_if(s, i, die):
    """s[i:] starts with 'if'. Returns (list of (cond_text, block_text), else_block_text or None, next index)."""
    arms = []
    while True:
        assert s.startswith("if", i)
        j = s.index("{", i)
        cond = s[i + 2:j]
        blk, k = block_at(s, j, die)
        arms.append((cond, blk))
        rest = s[k:].lstrip()
        k = len(s) - len(rest)
        if rest.startswith("else"):
            rest2 = rest[4:].lstrip()
            k = len(s) - len(rest2)
            if rest2.startswith("if"):
                i = k
                continue
            blk, k = block_at(s, k, die)
            return arms, blk, k
        return arms, None, k


def statements(body, die):
    """top-level statements of a block: ('if', arms, else) | ('other', text)"""
    out = []
    i = 0
    n = len(body)
    while i < n:
        if body[i].isspace():
            i += 1
            continue
        if re.match(r"if\b", body[i:]):
            arms, els, i = parse_if(body, i, die)
            out.append(("if", arms, els))
            continue
        # other statement: up to ';' at depth 0 (or a block)
        depth = 0
        j = i
        while j < n:
            c = body[j]
            if c in "{([":
                depth += 1
            elif c in "})]":
                depth -= 1
            elif c == ";" and depth == 0:
                break
            j += 1
        out.append(("other", body[i:j + 1]))
        i = j + 1
    return out


ACTION_RES = [
    (re.compile(r"^\s*continue\s*;?\s*$"), lambda m: "skip"),
    (re.compile(r"return\s+Err\(\s*BlockerError::(\w+)\s*\)"), lambda m: "err:" + m.group(1)),
    (re.compile(r"self\.tagged_filters_all\.iter\(\)\.any\("), lambda m: "tagged_filters_all"),
    (re.compile(r"(?:self\.)?(\w+)\.(?:push|add_filter|filter_exists)\(\s*&?filter(?:\.clone\(\))?\s*\)"), lambda m: m.group(1)),
]


def action_of(block, die):
    st = statements(block, die)
    ifs = [x for x in st if x[0] == "if"]
    if len(ifs) == 1 and len(st) == 1:
        return ("nested", ifs[0])
    txt = block
    for rx, f in ACTION_RES:
        m = rx.search(txt)
        if m:
            return ("act", f(m))
    if re.fullmatch(r"\s*(Ok\(\(\)\))?\s*", txt):
        return ("act", "none")
    die("unrecognised branch body: %r" % block[:120])


def flatten_chain(ifstmt, die):
    """('if', arms, else) -> [(cond AST, action)], with a nested single-if else-branch flattened"""
    _, arms, els = ifstmt
    out = []
    for cond, blk in arms:
        a = action_of(blk, die)
        if a[0] != "act":
            die("nested if in a then-branch")
        out.append((parse_cond(cond, die), a[1]))
    if els is not None:
        a = action_of(els, die)
        if a[0] == "nested":
            out.extend(flatten_chain(a[1], die))
        elif a[1] != "none":
            out.append((None, a[1]))
    return out


def coq_chain(name, chain):
    items = []
    for c, a in chain:
        items.append("(%s, \"%s\")" % ("PTrue" if c is None else coq_cond(c), a))
    return "Definition %s : list (pcond * string) := [%s]." % (name, "; ".join(items))


def generate(src, die, coq_str):
    b = strip_comments(src("src/blocker.rs"))
    out = ["Module BlockerGen.",
           "Inductive patom := A_is_csp | A_is_removeparam | A_is_generic_hide | A_is_exception | A_is_important",
           "  | A_is_redirect | A_also_block_redirect | A_is_badfilter | A_has_tag | A_id_cancelled | A_exists.",
           "Inductive pcond := PTrue | PAtom (a : patom) | PNot (c : pcond) | PAnd (a b : pcond) | POr (a b : pcond)."]

    # (a renamed loop variable / parameter is not a change of structure: normalise it to `filter`)
    def rename(text, var):
        return text if var == "filter" else re.sub(r"\b%s\b" % re.escape(var), "filter", text)

    # ---- Blocker::new
    m = re.search(r"pub fn new\(\s*(\w+): Vec<NetworkFilter>,\s*(\w+): &BlockerOptions\s*\)\s*->\s*Blocker\s*\{", b)
    if not m:
        die("Blocker::new not found")
    vec_name, opt_name = m.group(1), m.group(2)
    body = fn_body(b, r"pub fn new\(\s*\w+: Vec<NetworkFilter>,\s*\w+: &BlockerOptions\s*\)\s*->\s*Blocker\s*\{", die)
    body = re.sub(r"\b%s\b" % re.escape(opt_name), "options", body)
    m = re.search(r"for (\w+) in %s\s*\{" % re.escape(vec_name), body)
    if not m:
        die("Blocker::new: main loop not found")
    loop, _ = block_at(body, m.end() - 1, die)
    loop = rename(loop, m.group(1))
    sts = [x for x in statements(loop, die) if x[0] == "if"]
    if len(sts) != 3:
        die("Blocker::new: expected skip / redirects / category if-statements, found %d" % len(sts))
    skip = flatten_chain(sts[0], die)
    pre = flatten_chain(sts[1], die)
    chain = flatten_chain(sts[2], die)
    if [a for _, a in skip] != ["skip"] or len(pre) != 1:
        die("Blocker::new: skip / redirects statements not recognised: %r %r" % (skip, pre))
    out.append("(* Blocker::new, loop over the rules: `continue` condition, independent pushes, category chain *)")
    out.append("Definition new_skip : pcond := %s." % coq_cond(skip[0][0]))
    out.append(coq_chain("new_pre", pre))
    out.append(coq_chain("new_chain", chain))
    # which lists are built optimized
    built = re.findall(r"(\w+):\s*NetworkFilterList::new\(\s*([\w:()]+)\s*,\s*([\w.]+)\s*\)", body)
    if len(built) != 8:
        die("Blocker::new: expected 8 NetworkFilterList::new fields, found %d" % len(built))
    out.append("(* Blocker::new: (field, source vector, optimize flag = options.enable_optimizations?) *)")
    built = sorted(built)   # the order of the struct literal's fields is immaterial
    out.append("Definition new_lists : list (string * string * bool) := [%s]." % "; ".join(
        "(\"%s\", \"%s\", %s)" % (f, "" if v.startswith("Vec") else v, "true" if o == "options.enable_optimizations" else "false")
        for f, v, o in built))
    for f, v, o in built:
        if o not in ("options.enable_optimizations", "false"):
            die("Blocker::new: unknown optimize flag %r" % o)

    # ---- Blocker::add_filter
    m = re.search(r"pub fn add_filter\(&mut self, (\w+): NetworkFilter\)", b)
    if not m:
        die("Blocker::add_filter not found")
    body = rename(fn_body(b, r"pub fn add_filter\(&mut self, \w+: NetworkFilter\)\s*->\s*Result<\(\), BlockerError>\s*\{", die), m.group(1))
    sts = [x for x in statements(body, die) if x[0] == "if"]
    if len(sts) != 3:
        die("Blocker::add_filter: expected guard / redirects / category if-statements, found %d" % len(sts))
    out.append("(* Blocker::add_filter *)")
    out.append(coq_chain("add_guard", flatten_chain(sts[0], die)))
    out.append(coq_chain("add_pre", flatten_chain(sts[1], die)))
    out.append(coq_chain("add_chain", flatten_chain(sts[2], die)))

    # ---- Blocker::filter_exists
    m = re.search(r"pub fn filter_exists\(&self, (\w+): &NetworkFilter\)", b)
    if not m:
        die("Blocker::filter_exists not found")
    body = rename(fn_body(b, r"pub fn filter_exists\(&self, \w+: &NetworkFilter\)\s*->\s*bool\s*\{", die), m.group(1))
    sts = [x for x in statements(body, die) if x[0] == "if"]
    if len(sts) != 1:
        die("Blocker::filter_exists: expected one if-chain")
    out.append("(* Blocker::filter_exists *)")
    out.append(coq_chain("exists_chain", flatten_chain(sts[0], die)))

    # ---- Blocker::optimize
    body = fn_body(b, r"pub fn optimize\(&mut self\)\s*\{", die)
    opt = re.findall(r"self\.(\w+)\.optimize\(\)", body)
    if not opt:
        die("Blocker::optimize: no list optimized")
    out.append("(* Blocker::optimize: the lists it optimizes, in order *)")
    out.append("Definition optimize_lists : list string := [%s]." % "; ".join(coq_str(x) for x in opt))
    out.append("Definition optimize_clears_regex_cache : bool := %s." % ("true" if re.search(r"borrow_regex_manager\(\)\s*\.clear\(\)", body) else "false"))

    # ---- tag set handed to every list query
    sites = []
    for fn, hdr in [("check_parameterised", r"pub fn check_parameterised\("), ("get_csp_directives", r"pub fn get_csp_directives\("),
                    ("check_generic_hide", r"pub fn check_generic_hide\("), ("apply_removeparam", r"fn apply_removeparam\(")]:
        m = re.search(hdr, b)
        if not m:
            die("function not found: " + fn)
        i = b.index("{", b.index(")", m.end()) if fn != "check_parameterised" and fn != "apply_removeparam" else m.end())
        # skip the parameter list: find the '{' that opens the body (after '->' type or ')')
        depth = 0
        j = m.end() - 1
        while j < len(b):
            if b[j] == "(":
                depth += 1
            elif b[j] == ")":
                depth -= 1
                if depth == 0:
                    break
            j += 1
        i = b.index("{", j)
        body, _ = block_at(b, i, die)
        for mm in re.finditer(r"(?:self\s*\.\s*)?(\w+)\s*\.\s*(check_all|check)\(\s*(\w+)\s*,\s*&\s*([\w:.()]+)\s*,", body):
            lst, kind, _req, tags = mm.groups()
            tags = "".join(tags.split())
            if tags == "self.tags_enabled":
                t = "true"
            elif tags in ("NO_TAGS", "HashSet::new()"):
                t = "false"
            else:
                die("%s: unknown tag-set argument %r" % (fn, tags))
            sites.append((fn, lst, kind, t))
    if len(sites) < 8:
        die("too few list queries found: %r" % sites)
    out.append("(* every list query: (function, list, check | check_all, does it receive the enabled tags?) *)")
    out.append("Definition tag_sites : list (string * string * string * bool) := [%s]." % "; ".join(
        "(\"%s\", \"%s\", \"%s\", %s)" % s for s in sites))
    # apply_removeparam is called on self.removeparam
    m = re.search(r"Self::apply_removeparam\(\s*&self\.(\w+)\s*,", b)
    if not m:
        die("call of apply_removeparam not found")
    out.append("Definition removeparam_source : string := \"%s\"." % m.group(1))
    # rewritten_url is suppressed by `important`
    m = re.search(r"let rewritten_url = if (\w+) \{\s*None\s*\} else \{", b)
    if not m:
        die("rewritten_url guard not recognised")
    out.append("Definition rewrite_suppressed_by : string := \"%s\"." % m.group(1))
    out.append("End BlockerGen.")
    return out
