"""C19 translator fragment: the lock-protocol premises of the concurrency model, checked
syntactically on src/blocker.rs, src/regex_manager.rs, src/engine.rs and Cargo.toml.  This is a
LINT (regex-anchored, brace counting), stated as such in props/C19.json; it fails closed.

Premise of C19_Model.v: every query is the event sequence  Acquire ; Body ; Release  on ONE lock,
i.e. "the guard is taken at the top of each query method and lives to its end".  Checked here:

 1. the regex-manager cell of `Blocker` is `std::sync::Mutex<RegexManager>` under
    `cfg(not(feature = "unsync-regex-caching"))` and `RefCell<RegexManager>` otherwise, and there is
    exactly one such cell;
 2. the thread-safe `borrow_regex_manager` is `self.regex_manager.lock().unwrap()` (so Acquire on a
    poisoned mutex panics: the model's `Crashed` transition) followed by `update_time()`;
 3. every fn of `impl Blocker` with a `&self` receiver whose body calls `.check(`/`.check_all(` on
    one of the `NetworkFilterList` fields binds `self.borrow_regex_manager()` to a local at
    brace depth 1 *before* the first such call, never drops/shadows it, and calls
    `borrow_regex_manager` only once (a second call in the same thread would self-deadlock on a
    std Mutex: the model has no re-entrant Acquire);
 4. private helpers that call `.check`/`.check_all` without a `self` receiver take the manager as a
    `&mut RegexManager` parameter (they run inside a caller's critical section);
 5. `&mut self` methods that take the guard (`optimize`, `tags_with_set`) use it in a single
    statement (temporary guard), so they cannot hold it across another acquire;
 6. src/engine.rs never reaches a `NetworkFilterList` of the blocker directly (only `Blocker`
    methods), and still carries the static `Send + Sync` assertion for the thread-safe build;
 7. `unsafe impl Send for RegexManager` is the only `unsafe impl` in regex_manager.rs, and the
    default feature set contains `unsync-regex-caching`.

Emitted into Generated.v: the function lists, used by C19_Model.v / C19_Proofs.v (a changed list
breaks `lock_lint_table`).
"""
import re


def _strip_comments(s):
    s = re.sub(r"//[^\n]*", "", s)
    return re.sub(r"/\*.*?\*/", "", s, flags=re.S)


def _match_brace(s, i, die, what):
    """s[i] == '{' -> index just after the matching '}' (string/char literals are skipped)."""
    depth = 0
    j = i
    n = len(s)
    while j < n:
        c = s[j]
        if c == '"':
            j += 1
            while j < n and s[j] != '"':
                j += 2 if s[j] == "\\" else 1
        elif c == "'":
            # char literal or lifetime: a literal is '\x' / 'x' closed by a quote within 3 chars
            m = re.match(r"'(?:\\.|[^'\\])'", s[j:])
            if m:
                j += len(m.group(0)) - 1
        elif c == "{":
            depth += 1
        elif c == "}":
            depth -= 1
            if depth == 0:
                return j + 1
        j += 1
    die("c19_lock_lint: unbalanced braces in %s" % what)


def _impl_body(txt, die):
    m = re.search(r"\nimpl Blocker \{", txt)
    if not m:
        die("c19_lock_lint: `impl Blocker {` not found in src/blocker.rs")
    if len(re.findall(r"\nimpl(?:<[^>]*>)? Blocker \{", txt)) != 1:
        die("c19_lock_lint: expected exactly one `impl Blocker` block in src/blocker.rs")
    start = m.end() - 1
    end = _match_brace(txt, start, die, "impl Blocker")
    return txt[start + 1:end - 1]


def _functions(body, die):
    """top-level fns of an impl body: (attrs, is_pub, name, params, fn_body)"""
    fns = []
    pos = 0
    rx = re.compile(r"((?:#\[[^\]]*\]\s*)*)((?:pub(?:\([a-z]+\))?\s+)?)fn\s+(\w+)\s*(?:<[^>]*>)?\s*\(")
    while True:
        m = rx.search(body, pos)
        if not m:
            break
        # parameters up to the matching ')'
        j = m.end()
        depth = 1
        while depth:
            if body[j] == "(":
                depth += 1
            elif body[j] == ")":
                depth -= 1
            j += 1
        params = body[m.end():j - 1]
        k = body.find("{", j)
        semi = body.find(";", j)
        if k < 0 or (0 <= semi < k):
            die("c19_lock_lint: fn %s has no body" % m.group(3))
        end = _match_brace(body, k, die, "fn " + m.group(3))
        fns.append((m.group(1), bool(m.group(2).strip()), m.group(3), params, body[k + 1:end - 1]))
        pos = end
    return fns


def _depth_at(s, idx):
    d = 0
    for c in s[:idx]:
        if c == "{":
            d += 1
        elif c == "}":
            d -= 1
    return d


def generate(src, die, coq_str):
    raw = src("src/blocker.rs")
    txt = _strip_comments(raw)
    out = ["(* src/blocker.rs, src/regex_manager.rs, src/engine.rs, Cargo.toml: lock-protocol lint (C19) *)"]

    # -- 1. the cell
    m = re.search(r"pub struct Blocker \{(.*?)\n\}", txt, re.S)
    if not m:
        die("c19_lock_lint: struct Blocker not found")
    struct = m.group(1)
    lists = re.findall(r"pub\(crate\)\s+(\w+):\s*NetworkFilterList,", struct)
    if len(lists) < 8:
        die("c19_lock_lint: expected 8 NetworkFilterList fields in Blocker, got %r" % (lists,))
    cells = re.findall(r"#\[cfg\((not\()?feature = \"unsync-regex-caching\"\)?\)\]\s*pub\(crate\)\s+regex_manager:\s*([\w:]+)<RegexManager>,", struct)
    if sorted(cells) != sorted([("", "std::cell::RefCell"), ("not(", "std::sync::Mutex")]):
        die("c19_lock_lint: regex_manager cell is not RefCell (unsync) / std::sync::Mutex (sync): %r" % (cells,))
    if len(re.findall(r"\bregex_manager\s*:", struct)) != 2 or re.search(r"Mutex|RwLock|RefCell|Cell<|Atomic", re.sub(
            r"regex_manager:\s*[\w:]+<RegexManager>", "", struct)):
        die("c19_lock_lint: Blocker has another interior-mutability cell besides regex_manager")

    body = _impl_body(txt, die)
    fns = _functions(body, die)
    names = [f[2] for f in fns]

    # -- 2. borrow_regex_manager (thread-safe variant)
    sync_variants = [f for f in fns if f[2] == "borrow_regex_manager" and "not(feature = \"unsync-regex-caching\")" in f[0]]
    unsync_variants = [f for f in fns if f[2] == "borrow_regex_manager" and "not(feature" not in f[0]]
    if len(sync_variants) != 1 or len(unsync_variants) != 1:
        die("c19_lock_lint: expected one sync and one unsync borrow_regex_manager")
    sb = " ".join(sync_variants[0][4].split())
    if not re.fullmatch(r"let mut manager = self\.regex_manager\.lock\(\)\.unwrap\(\); manager\.update_time\(\); manager", sb):
        die("c19_lock_lint: thread-safe borrow_regex_manager is not lock().unwrap(); update_time(); guard: " + sb)
    if "MutexGuard<RegexManager>" not in body:
        die("c19_lock_lint: borrow_regex_manager no longer returns the MutexGuard")
    ub = " ".join(unsync_variants[0][4].split())
    if "self.regex_manager.borrow_mut()" not in ub or "manager.update_time();" not in ub:
        die("c19_lock_lint: single-thread borrow_regex_manager changed: " + ub)
    # nothing else touches the cell
    for _, _, name, _, fb in fns:
        if name != "borrow_regex_manager" and re.search(r"\bregex_manager\s*\.\s*(lock|try_lock|borrow_mut|borrow|get_mut|into_inner)\b", fb):
            die("c19_lock_lint: fn %s accesses the regex_manager cell without borrow_regex_manager" % name)
        if name != "borrow_regex_manager" and re.search(r"self\s*\.\s*regex_manager\b", fb):
            die("c19_lock_lint: fn %s mentions self.regex_manager directly" % name)

    # -- 3./4./5.
    call_rx = re.compile(r"\b(\w+)\s*\.\s*(?:check|check_all)\s*\(")
    list_call_rx = re.compile(r"(?:self\s*\.\s*)?\b(%s|\w*_filters)\s*\.\s*(?:check|check_all)\s*\(" % "|".join(lists))
    acquire_rx = re.compile(r"self\s*\.\s*borrow_regex_manager\s*\(\s*\)")
    locked_query, guard_only, mut_guard, helpers = [], [], [], []
    for attrs, is_pub, name, params, fb in fns:
        if name == "borrow_regex_manager":
            continue
        recv = params.split(",")[0].strip()
        touches = [m_ for m_ in list_call_rx.finditer(fb)]
        acquires = [m_ for m_ in acquire_rx.finditer(fb)]
        if recv == "&self":
            if touches:
                if len(acquires) != 1:
                    die("c19_lock_lint: fn %s(&self) queries a NetworkFilterList but calls borrow_regex_manager %d times" % (name, len(acquires)))
                a = acquires[0]
                stmt = fb[fb.rfind(";", 0, a.start()) + 1 if ";" in fb[:a.start()] else 0:a.end()]
                mm = re.search(r"let\s+(?:mut\s+)?(\w+)\s*=\s*self\s*\.\s*borrow_regex_manager\s*\(\s*\)$", stmt.strip())
                if not mm:
                    die("c19_lock_lint: fn %s does not bind the guard to a local: `%s`" % (name, stmt.strip()))
                guard = mm.group(1)
                if not fb[a.end():].lstrip().startswith(";"):
                    die("c19_lock_lint: fn %s: guard expression is not a plain `let g = self.borrow_regex_manager();`" % name)
                if _depth_at(fb, a.start()) != 0:
                    die("c19_lock_lint: fn %s takes the guard inside a nested block (it would not live to the end)" % name)
                if a.start() > touches[0].start():
                    die("c19_lock_lint: fn %s queries a NetworkFilterList before taking the guard" % name)
                if re.search(r"\bdrop\s*\(\s*%s\s*\)" % guard, fb) or len(re.findall(r"let\s+(?:mut\s+)?%s\b" % guard, fb)) != 1:
                    die("c19_lock_lint: fn %s drops or shadows the guard" % name)
                if re.search(r"\bself\s*\.\s*(check|check_parameterised|check_generic_hide|get_csp_directives|set_regex_discard_policy|discard_regex|get_regex_debug_info)\s*\(", fb[a.end():]):
                    die("c19_lock_lint: fn %s calls another locking method while holding the guard (self-deadlock)" % name)
                locked_query.append(name)
            elif acquires:
                if len(acquires) != 1:
                    die("c19_lock_lint: fn %s(&self) calls borrow_regex_manager %d times" % (name, len(acquires)))
                guard_only.append(name)
        elif recv == "&mut self":
            if touches:
                die("c19_lock_lint: fn %s(&mut self) queries a NetworkFilterList (unexpected)" % name)
            if acquires:
                for a in acquires:
                    tail = fb[a.end():]
                    if not re.match(r"\s*\.\s*\w+\s*\([^;{}]*\)\s*;", tail):
                        die("c19_lock_lint: fn %s(&mut self) keeps the guard beyond one statement" % name)
                mut_guard.append(name)
        else:
            if touches:
                if not re.search(r"\w+\s*:\s*&mut RegexManager", params):
                    die("c19_lock_lint: helper fn %s calls .check/.check_all without a &mut RegexManager parameter" % name)
                if acquires:
                    die("c19_lock_lint: helper fn %s takes the guard itself" % name)
                helpers.append(name)
            elif acquires:
                die("c19_lock_lint: fn %s without &self receiver calls borrow_regex_manager" % name)
    # helpers are only called from locked query fns, after the guard
    for h in helpers:
        for _, _, name, _, fb in fns:
            if name == h:
                continue
            mh = re.search(r"\bSelf::%s\s*\(|\bself\s*\.\s*%s\s*\(" % (h, h), fb)
            if mh:
                if name not in locked_query:
                    die("c19_lock_lint: helper %s is called from %s which does not hold the guard" % (h, name))
                if mh.start() < acquire_rx.search(fb).start():
                    die("c19_lock_lint: helper %s is called in %s before the guard is taken" % (h, name))
    # wrappers: &self fns that call a locked fn must not hold a guard themselves (checked above for
    # locked fns; guard_only fns must not call locked fns at all)
    for _, _, name, _, fb in fns:
        if name in guard_only and re.search(r"\bself\s*\.\s*(%s)\s*\(" % "|".join(locked_query or ["-"]), fb):
            die("c19_lock_lint: fn %s holds the guard and calls a locking query method" % name)
    if not locked_query:
        die("c19_lock_lint: no locked query function recognised")

    # -- 6. engine.rs
    eng = _strip_comments(src("src/engine.rs"))
    if re.search(r"blocker\s*\.\s*(%s|regex_manager)\b" % "|".join(lists), re.sub(r"#\[cfg\(brave_adblock_rust_verif\)\].*", "", eng, flags=re.S)):
        die("c19_lock_lint: src/engine.rs reaches into a NetworkFilterList / the regex cell of the blocker")
    if not re.search(r"#\[cfg\(not\(feature = \"unsync-regex-caching\"\)\)\]\s*fn _assertions\(\) \{.*?_assert_send::<Engine>\(\);\s*_assert_sync::<Engine>\(\);", eng, re.S):
        die("c19_lock_lint: static Send+Sync assertion for Engine not found in src/engine.rs")
    used = sorted(set(re.findall(r"self\s*\.\s*blocker\s*\.\s*(\w+)\s*\(", eng)))
    engine_entry = [u for u in used if u in locked_query or u == "check"]

    # -- 7. regex_manager.rs, Cargo.toml
    rm = _strip_comments(src("src/regex_manager.rs"))
    unsafe_impls = re.findall(r"unsafe impl\s+(\w+)\s+for\s+(\w+)", rm)
    if unsafe_impls != [("Send", "RegexManager")]:
        die("c19_lock_lint: unsafe impls in regex_manager.rs changed: %r" % (unsafe_impls,))
    if re.search(r"\bunsafe\s*\{", rm) or re.search(r"\bstatic\s+mut\b", rm):
        die("c19_lock_lint: regex_manager.rs contains unsafe blocks / static mut")
    cargo = src("Cargo.toml")
    m = re.search(r"^default = \[(.*?)\]", cargo, re.M)
    if not m or "\"unsync-regex-caching\"" not in m.group(1):
        die("c19_lock_lint: default features no longer contain unsync-regex-caching")
    if not re.search(r"^unsync-regex-caching = \[\]", cargo, re.M):
        die("c19_lock_lint: feature unsync-regex-caching not found")

    def lst(v):
        return "[%s]" % "; ".join(coq_str(x) + "%string" for x in v)

    out.append("Definition c19_filter_lists : list string := %s." % lst(lists))
    out.append("Definition c19_locked_query_fns : list string := %s." % lst(locked_query))
    out.append("Definition c19_guard_only_fns : list string := %s." % lst(guard_only))
    out.append("Definition c19_mut_guard_fns : list string := %s." % lst(mut_guard))
    out.append("Definition c19_guarded_helpers : list string := %s." % lst(helpers))
    out.append("Definition c19_engine_query_entry : list string := %s." % lst(engine_entry))
    out.append("Definition c19_acquire_is_lock_unwrap : bool := true.")
    out.append("Definition c19_blocker_fns : list string := %s." % lst(names))
    return out
