"""Translator fragment for C03 (option semantics).

Extracts from /repo/src/filters/abstract_network.rs
  * `enum NetworkFilterOption`            -> Inductive nf_option_ctor (OC_<Variant>) + payload kind
  * `is_content_type` / `is_redirection`  -> content_type_ctors / redirection_ctors
  * the `match (option, negation)` of `parse_filter_options`
                                          -> option_table : (name, negated?) -> outcome
and from /repo/src/filters/network.rs (`NetworkFilter::parse`)
  * `NetworkFilterOption::X(enabled) => apply_content_type!(FROM_X, enabled)`
    and `NetworkFilterOption::Document => cpt_mask_positive.set(FROM_DOCUMENT, true)`
                                          -> ctor_type_mask : nf_option_ctor -> mask constant.
Every extractor fails loudly when the source no longer has the expected shape.
"""
import re


def generate(src, die, coq_str):
    out = []
    an = src("src/filters/abstract_network.rs")
    an_nc = re.sub(r"//[^\n]*", "", an)

    # ---------------------------------------------------------------- enum NetworkFilterOption
    m = re.search(r"pub\(crate\) enum NetworkFilterOption \{(.*?)\n\}", an_nc, re.S)
    if not m:
        die("c03: enum NetworkFilterOption not found")
    variants = re.findall(r"^\s*(\w+)(\(.*\))?,\s*$", m.group(1), re.M)
    if len(variants) < 20:
        die("c03: too few NetworkFilterOption variants: %d" % len(variants))
    kinds = {}
    for name, payload in variants:
        p = payload[1:-1] if payload else ""
        if p == "":
            kinds[name] = "PK_unit"
        elif p == "bool":
            kinds[name] = "PK_bool"
        elif p == "String":
            kinds[name] = "PK_value"
        elif p == "Option<String>":
            kinds[name] = "PK_optvalue"
        elif p == "Vec<(bool, String)>":
            kinds[name] = "PK_domains"
        else:
            die("c03: unknown payload %r of NetworkFilterOption::%s" % (payload, name))
    names = [v[0] for v in variants]
    out.append("(* src/filters/abstract_network.rs: enum NetworkFilterOption *)")
    out.append("Inductive nf_option_ctor := %s." % " | ".join("OC_" + n for n in names))
    out.append("Definition all_option_ctors : list nf_option_ctor := [%s]." % "; ".join("OC_" + n for n in names))
    out.append("Inductive payload_kind := PK_unit | PK_bool | PK_value | PK_optvalue | PK_domains.")
    out.append("Definition ctor_payload (c : nf_option_ctor) : payload_kind :=\n  match c with\n%s\n  end." % "\n".join(
        "  | OC_%s => %s" % (n, kinds[n]) for n in names))

    # ---------------------------------------------------------------- is_content_type / is_redirection
    def matches_list(fn):
        mm = re.search(r"pub fn %s\(&self\) -> bool \{\s*matches!\(\s*self,(.*?)\)\s*\}" % fn, an_nc, re.S)
        if not mm:
            die("c03: %s not recognised" % fn)
        vs = re.findall(r"Self::(\w+)(?:\(\.\.\))?", mm.group(1))
        rest = re.sub(r"Self::\w+(\(\.\.\))?", "", mm.group(1))
        if rest.replace("|", "").strip() != "" or not vs:
            die("c03: unexpected text in %s: %r" % (fn, rest))
        for v in vs:
            if v not in kinds:
                die("c03: %s mentions unknown variant %s" % (fn, v))
        return vs
    ct = matches_list("is_content_type")
    rd = matches_list("is_redirection")
    out.append("Definition content_type_ctors : list nf_option_ctor := [%s]." % "; ".join("OC_" + v for v in ct))
    out.append("Definition redirection_ctors : list nf_option_ctor := [%s]." % "; ".join("OC_" + v for v in rd))

    # ---------------------------------------------------------------- parse_filter_options match table
    m = re.search(r"fn parse_filter_options\(.*?result\.push\(match \(option, negation\) \{(.*?)\n        \}\);", an_nc, re.S)
    if not m:
        die("c03: parse_filter_options match not found")
    body = m.group(1)
    # split into arms: an arm starts at a line beginning (12 spaces) with `("` or `(_`
    starts = [mm.start() for mm in re.finditer(r"^            \((?:\"|_)", body, re.M)]
    if len(starts) < 30:
        die("c03: too few match arms in parse_filter_options: %d" % len(starts))
    arms = [body[a:b] for a, b in zip(starts, starts[1:] + [len(body)])]
    rows = []          # (name, negated_bool, outcome_coq)
    seen = set()
    default_err = None
    for arm in arms:
        if "=>" not in arm:
            die("c03: arm without =>: %r" % arm[:80])
        lhs, rhs = arm.split("=>", 1)
        rhs = " ".join(rhs.split())
        pats = re.findall(r"\(\s*(\"[^\"]*\"|_)\s*,\s*(\w+)\s*\)", lhs)
        if not pats or re.sub(r"\(\s*(\"[^\"]*\"|_)\s*,\s*\w+\s*\)", "", lhs).replace("|", "").strip() != "":
            die("c03: unrecognised arm pattern: %r" % lhs)
        # classify the right-hand side
        if pats[0][0] == "_":
            mm = re.fullmatch(r"return Err\(NetworkFilterError::(\w+)\),?", rhs)
            if not mm or len(pats) != 1:
                die("c03: unrecognised default arm %r" % rhs)
            default_err = mm.group(1)
            continue
        binders = set(p[1] for p in pats)
        if len(binders) != 1:
            die("c03: mixed negation binders in one arm: %r" % lhs)
        binder = binders.pop()
        mm_err = re.fullmatch(r"(?:\{ )?return Err\(NetworkFilterError::(\w+)\),?(?: \})?,?", rhs)
        mm_ctor = re.search(r"NetworkFilterOption::(\w+)(\((.*?)\))?", rhs)
        if mm_err:
            def outcome(neg, e=mm_err.group(1)):
                return "OO_Err %s" % coq_str(e)
        elif mm_ctor:
            ctor = mm_ctor.group(1)
            if ctor not in kinds:
                die("c03: arm constructs unknown variant %s" % ctor)
            all_ctors = set(re.findall(r"NetworkFilterOption::(\w+)", rhs))
            if all_ctors != {ctor}:
                die("c03: arm constructs several variants: %r" % sorted(all_ctors))
            k = kinds[ctor]
            if k == "PK_unit":
                if not re.fullmatch(r"(?:\{ )?NetworkFilterOption::%s,?(?: \})?,?" % ctor, rhs):
                    die("c03: unit arm with extra code: %r" % rhs)
                def outcome(neg, c=ctor):
                    return "OO_Unit OC_%s" % c
            elif k == "PK_bool":
                if binder in ("true", "false", "_"):
                    die("c03: bool option %s does not bind the negation" % ctor)
                if not re.fullmatch(r"(?:\{ )?NetworkFilterOption::%s\(!%s\),?(?: \})?,?" % (ctor, binder), rhs):
                    die("c03: bool arm is not Ctor(!negation): %r" % rhs)
                def outcome(neg, c=ctor):
                    return "OO_Bool OC_%s %s" % (c, "false" if neg else "true")
            else:
                # value-carrying options: the value handling (empty checks, domain list syntax,
                # VALID_PARAM) is modelled by hand in C03_Model.v; here only name -> constructor
                def outcome(neg, c=ctor):
                    return "OO_Value OC_%s" % c
        else:
            die("c03: unrecognised arm body: %r" % rhs[:120])
        for name_lit, b in pats:
            name = name_lit.strip('"')
            if b == "true":
                negs = [True]
            elif b == "false":
                negs = [False]
            else:
                negs = [False, True]
            for neg in negs:
                if (name, neg) in seen:
                    continue      # Rust: first matching arm wins
                seen.add((name, neg))
                rows.append((name, neg, outcome(neg)))
    if default_err is None:
        die("c03: no default arm in parse_filter_options")
    out.append("(* src/filters/abstract_network.rs: parse_filter_options, match (option, negation) *)")
    out.append("Inductive opt_outcome := OO_Err (e : string) | OO_Unit (c : nf_option_ctor) | OO_Bool (c : nf_option_ctor) (b : bool) | OO_Value (c : nf_option_ctor).")
    out.append("Definition option_table : list (string * bool * opt_outcome) := [\n  %s]." % ";\n  ".join(
        "(%s, %s, %s)" % (coq_str(n), "true" if neg else "false", o) for n, neg, o in rows))
    out.append("Definition option_default_error : string := %s." % coq_str(default_err))

    # value-level error names used by the hand-written part of the option parser
    for e in ("NoSupportedDomains", "EmptyRedirection", "EmptyRemoveparam", "RemoveparamRegexUnsupported"):
        if ("NetworkFilterError::" + e) not in body:
            die("c03: parse_filter_options no longer mentions error %s" % e)
    mm = re.search(r'static VALID_PARAM: Lazy<Regex> = Lazy::new\(\|\| Regex::new\(r"([^"]*)"\)', an)
    if not mm or mm.group(1) != r"^[a-zA-Z0-9_\-]+$":
        die("c03: VALID_PARAM regex changed: %r" % (mm.group(1) if mm else None))
    out.append("Definition valid_param_regex : string := %s." % coq_str(mm.group(1)))

    # ---------------------------------------------------------------- option ctor -> type mask (NetworkFilter::parse)
    net = src("src/filters/network.rs")
    net_nc = re.sub(r"//[^\n]*", "", net)
    pairs = re.findall(r"NetworkFilterOption::(\w+)\(enabled\)\s*=>\s*\{?\s*apply_content_type!\((\w+),\s*enabled\)", net_nc)
    mm = re.search(r"NetworkFilterOption::Document\s*=>\s*\{?\s*cpt_mask_positive\.set\(NetworkFilterMask::(\w+),\s*true\)", net_nc)
    if not mm:
        die("c03: Document option handling not recognised")
    mac = re.search(r"macro_rules! apply_content_type \{\s*\(\$content_type:ident, \$enabled:ident\) => \{\s*if \$enabled \{\s*"
                    r"cpt_mask_positive\.set\(NetworkFilterMask::\$content_type, true\);\s*\} else \{\s*"
                    r"cpt_mask_negative\.set\(NetworkFilterMask::\$content_type, true\);\s*\}\s*\};\s*\}", net_nc)
    if not mac:
        die("c03: apply_content_type! macro changed")
    table = [("Document", mm.group(1))] + pairs
    if sorted(t[0] for t in table) != sorted(ct):
        die("c03: content-type options handled in NetworkFilter::parse (%s) differ from is_content_type (%s)" % (
            sorted(t[0] for t in table), sorted(ct)))
    out.append("(* src/filters/network.rs: NetworkFilter::parse, content-type options -> mask bit *)")
    out.append("Definition ctor_type_mask (c : nf_option_ctor) : option N :=\n  match c with\n%s\n  | _ => None\n  end." % "\n".join(
        "  | OC_%s => Some M_%s" % (a, b) for a, b in table))
    return out
