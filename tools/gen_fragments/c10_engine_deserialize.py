"""Translator fragment: `Engine::deserialize` (src/engine.rs), statement by statement.

Each statement is matched literally and named; their ORDER is read off the source: the caller's
enabled tags are read (a copy), the buffer is decoded (the only fallible step, `?`), the parts are
built, the blocker is replaced, the caller's tags are re-applied with `use_tags`, the cosmetic
cache is replaced.  Struct_Load_Proofs.v runs the list over Wire_Model's engine and proves: a
rejected buffer returns the engine exactly as it was (nothing is assigned before the decode has
succeeded), an accepted one gives Wire_Model.install — the blocker of the buffer under the CALLER's
enabled tags, re-filtered by `use_tags` (seeded C07-13 / C10-13 move the tags out before the decode,
C08-14 writes them into the field without `use_tags`: other spellings, the fragment fails closed).
"""
import importlib.util
import os
import re

PROPERTIES = ["C07", "C08", "C10"]

_here = os.path.dirname(os.path.abspath(__file__))
_spec = importlib.util.spec_from_file_location("c01_blocker_structure", os.path.join(_here, "c01_blocker_structure.py"))
_bs = importlib.util.module_from_spec(_spec)
_spec.loader.exec_module(_bs)

STMTS = [
    (r"usecrate::data_format::DeserializeFormat;", None),
    (r"letcurrent_tags=self\.blocker\.tags_enabled\(\);", "S_read_tags"),
    (r"letdeserialize_format=DeserializeFormat::deserialize\(serialized\)\?;", "S_decode_fallible"),
    (r"let\(blocker,cosmetic_cache\)=deserialize_format\.build\(\);", "S_build"),
    (r"self\.blocker=blocker;", "S_assign_blocker"),
    (r"self\.blocker\.use_tags\(&current_tags\.iter\(\)\.map\(\|s\|&\*\*s\)\.collect::<Vec<_>>\(\)\);", "S_use_tags_current"),
    (r"self\.cosmetic_cache=cosmetic_cache;", "S_assign_cosmetic"),
    (r"Ok\(\(\)\)$", "S_ok"),
]


def generate(src, die, coq_str):
    b = _bs.strip_comments(src("src/engine.rs"))
    t = "".join(_bs.fn_body(b, r"pub fn deserialize\(\s*&mut self,\s*serialized: &\[u8\],\s*\)\s*->\s*Result<\(\), crate::data_format::DeserializationError>\s*\{", die).split())
    steps = []
    while t:
        for rx, name in STMTS:
            m = re.match(rx, t)
            if m:
                if name:
                    steps.append(name)
                t = t[m.end():]
                break
        else:
            die("Engine::deserialize: statement not recognised at %r" % t[:160])
    tb = "".join(_bs.fn_body(_bs.strip_comments(src("src/blocker.rs")), r"pub fn tags_enabled\(&self\)\s*->\s*Vec<String>\s*\{", die).split())
    if tb != "self.tags_enabled.iter().cloned().collect()":
        die("Blocker::tags_enabled: not a copy of the enabled set: %r" % tb)
    return ["Module LoadGen.",
            "Inductive estep := S_read_tags | S_decode_fallible | S_build | S_assign_blocker | S_use_tags_current | S_assign_cosmetic | S_ok.",
            "Definition steps : list estep := [%s]." % "; ".join(steps),
            "Definition tags_enabled_is_a_copy : bool := true.",
            "End LoadGen."]
