"""Translator fragment: Blocker::apply_removeparam (src/blocker.rs) — the string surgery of the
`$removeparam` rewrite, statement by statement.

Extracted (with the brace parser of c01_blocker_structure.py and a small parser for index
expressions `a + b`, `url.len()`, integers and slices `url[a..b]`):
  * `fragment_start`: the byte searched and the default when it is absent;
  * the `if let Some(i) = find_char(b'?', url[..fragment_start]…)` gate: the byte, the slice that is
    searched, the bound name; no `?` before the fragment = `None`;
  * `params_start`, `hash_index` (byte searched, slice searched, both arms), `qparams` (slice);
  * how the query is cut into parameters (`split` byte, `split_once` byte, which variant each case
    builds, every parameter initially kept);
  * the `Display` of a parameter (format string of each variant, arguments resolved to the
    variant's fields);
  * that the hits are `removeparam_filters.check_all(request, &NO_TAGS, …)`, the marking loop
    (only rules with a modifier option; only key=value parameters; the condition as a conjunction
    of literals over "value is empty" / "key equals the rule's name"; the two assignments);
  * the answer: `None` unless something was marked; the kept parameters joined with the extracted
    separator; the text that replaces the query when nothing / something is left; the three pieces
    of the rewritten URL.
Struct_Rp_Proofs.v interprets this structure (slices are bounds-checked as in Rust) and proves that
for every URL and every list of rule names it IS C14_Model.apply_removeparam — in particular no
slice is ever out of range.  Any other spelling fails closed.
"""
import importlib.util
import os
import re

PROPERTIES = ["C14"]

_here = os.path.dirname(os.path.abspath(__file__))
_spec = importlib.util.spec_from_file_location("c01_blocker_structure", os.path.join(_here, "c01_blocker_structure.py"))
_bs = importlib.util.module_from_spec(_spec)
_spec.loader.exec_module(_bs)


def norm(t):
    return "".join(t.split())


def iexp(text, die, coq_str):
    """index expression over whitespace-free text: term ('+' term)*"""
    terms = text.split("+")
    out = None
    for t in terms:
        if t == "url.len()":
            e = "ILen"
        elif re.fullmatch(r"\d+", t):
            e = "(IConst %d)" % int(t)
        elif re.fullmatch(r"[a-z_][a-z0-9_]*", t):
            e = "(IVar %s)" % coq_str(t)
        else:
            die("apply_removeparam: index expression not recognised: %r" % text)
        out = e if out is None else "(IAdd %s %s)" % (out, e)
    return out


def slice_(text, die, coq_str):
    """`url[a..b]` (either bound may be missing) -> Coq pair of option iexp"""
    m = re.fullmatch(r"&?url\[([^\[\]]*?)\.\.([^\[\]]*?)\]", text)
    if not m:
        die("apply_removeparam: slice not recognised: %r" % text)
    lo, hi = m.group(1), m.group(2)
    return "(%s, %s)" % ("Some %s" % iexp(lo, die, coq_str) if lo else "None",
                         "Some %s" % iexp(hi, die, coq_str) if hi else "None")


def byte_lit(t, die):
    m = re.fullmatch(r"b?'(\\?.)'", t)
    if not m:
        die("apply_removeparam: byte literal not recognised: %r" % t)
    c = m.group(1)
    if len(c) == 2:
        c = {"\\n": "\n", "\\t": "\t", "\\\\": "\\", "\\'": "'"}.get(c) or die("escape %r" % c)
    return ord(c)


def bytes_list(s):
    return "[%s]" % "; ".join(str(b) for b in s.encode("utf-8"))


def fmt_parts(fmt, args, resolve, die):
    """format string with `{}` holes + argument names -> Coq list of parts"""
    pieces = fmt.split("{}")
    if len(pieces) - 1 != len(args):
        die("apply_removeparam: format %r does not take %d arguments" % (fmt, len(args)))
    if "{" in fmt.replace("{}", "") or "}" in fmt.replace("{}", ""):
        die("apply_removeparam: format %r uses more than plain {} holes" % fmt)
    out = []
    for k, p in enumerate(pieces):
        if p:
            out.append("F_lit %s" % bytes_list(p))
        if k < len(args):
            out.append(resolve(args[k]))
    return "[%s]" % "; ".join(out)


LITS = {"v.is_empty()": "L_value_empty", "k==removeparam": "L_key_is_name", "removeparam==k": "L_key_is_name",
        "*k==removeparam": "L_key_is_name"}


def generate(src, die, coq_str):
    b = _bs.strip_comments(src("src/blocker.rs"))
    body = norm(_bs.fn_body(
        b, r"fn apply_removeparam\(\s*removeparam_filters: &NetworkFilterList,\s*request: &Request,\s*regex_manager: &mut RegexManager,\s*\)\s*->\s*Option<String>\s*\{", die))

    def eat(pattern, what):
        nonlocal body
        m = re.match(pattern, body)
        if not m:
            die("apply_removeparam: %s not recognised at %r" % (what, body[:160]))
        body = body[m.end():]
        return m

    eat(r"enumQParam<'a>\{KeyOnly\(&'astr\),KeyValue\(&'astr,&'astr\),\}", "the QParam enum")
    m = eat(r"impl<'a>std::fmt::DisplayforQParam<'a>\{fnfmt\(&self,f:&mutstd::fmt::Formatter<'_>\)->std::fmt::Result\{"
            r"matchself\{Self::KeyOnly\((\w+)\)=>write!\(f,\"([^\"]*)\",([\w,]*)\),"
            r"Self::KeyValue\((\w+),(\w+)\)=>write!\(f,\"([^\"]*)\",([\w,]*)\),\}\}\}", "Display for QParam")
    ko_b, ko_fmt, ko_args, kv_k, kv_v, kv_fmt, kv_args = m.groups()

    def res_ko(a):
        if a != ko_b:
            die("Display KeyOnly prints %r" % a)
        return "F_key"

    def res_kv(a):
        if a == kv_k:
            return "F_key"
        if a == kv_v:
            return "F_value"
        die("Display KeyValue prints %r" % a)
    show_keyonly = fmt_parts(ko_fmt, [a for a in ko_args.split(",") if a], res_ko, die)
    show_keyvalue = fmt_parts(kv_fmt, [a for a in kv_args.split(",") if a], res_kv, die)

    eat(r"leturl=&request\.original_url;", "`let url = &request.original_url`")
    m = eat(r"let(\w+)=find_char\((b'\\?.'),url\.as_bytes\(\)\)\.unwrap_or\(([\w.()+]+)\);", "fragment_start")
    bind_fragment, frag_byte, frag_default = m.group(1), byte_lit(m.group(2), die), iexp(m.group(3), die, coq_str)
    m = eat(r"ifletSome\((\w+)\)=find_char\((b'\\?.'),(url\[[^\]]*\])\.as_bytes\(\)\)", "the query gate")
    bind_query, query_byte, query_slice = m.group(1), byte_lit(m.group(2), die), slice_(m.group(3), die, coq_str)
    inner, end = _bs.block_at(body, 0, die)
    if body[end:] != "else{None}":
        die("apply_removeparam: the else of the query gate is not `None`: %r" % body[end:end + 80])
    body = inner

    m = eat(r"let(\w+)=([\w.()+]+);", "params_start")
    bind_ps, ps_exp = m.group(1), iexp(m.group(2), die, coq_str)
    m = eat(r"let(\w+)=ifletSome\((\w+)\)=find_char\((b'\\?.'),(url\[[^\]]*\])\.as_bytes\(\)\)\{([\w.()+]+)\}else\{([\w.()+]+)\};",
            "hash_index")
    bind_hi, bind_j, hash_byte, hash_slice = m.group(1), m.group(2), byte_lit(m.group(3), die), slice_(m.group(4), die, coq_str)
    hash_some, hash_none = iexp(m.group(5), die, coq_str), iexp(m.group(6), die, coq_str)
    m = eat(r"letqparams=(&url\[[^\]]*\]);", "qparams")
    qparams_slice = slice_(m.group(1), die, coq_str)
    m = eat(r"letmutparams:Vec<\(QParam,bool\)>=qparams\.split\(('\\?.')\)\.map\(\|pair\|\{"
            r"ifletSome\(\(k,v\)\)=pair\.split_once\(('\\?.')\)\{QParam::KeyValue\(k,v\)\}else\{QParam::KeyOnly\(pair\)\}\}\)"
            r"\.map\(\|param\|\(param,(true|false)\)\)\.collect\(\);", "the parameter list")
    param_sep, kv_sep, initially = byte_lit(m.group(1), die), byte_lit(m.group(2), die), m.group(3)
    eat(r"letfilters=removeparam_filters\.check_all\(request,&NO_TAGS,regex_manager\);", "the hits (check_all with NO_TAGS)")
    m = eat(r"letmutrewrite=(true|false);", "the rewrite flag")
    rewrite0 = m.group(1)
    m = eat(r"forremoveparam_filterinfilters\{ifletSome\(removeparam\)=&removeparam_filter\.modifier_option\{"
            r"params\.iter_mut\(\)\.for_each\(\|\(param,include\)\|\{ifletQParam::KeyValue\(k,v\)=param\{"
            r"if([^{}]+)\{\*include=(true|false);rewrite=(true|false);\}\}\}\);\}\}", "the marking loop")
    cond, inc_set, rw_set = m.groups()
    lits = []
    for c in cond.split("&&"):
        pos = True
        while c.startswith("!"):
            pos = not pos
            c = c[1:]
        if c.startswith("(") and c.endswith(")"):
            c = c[1:-1]
        a = LITS.get(c)
        if a is None:
            die("apply_removeparam: literal of the marking condition not recognised: %r" % c)
        lits.append("(%s, %s)" % (a, "true" if pos else "false"))
    m = eat(r"ifrewrite\{letp=itertools::join\(params\.into_iter\(\)\.filter\(\|\(_,include\)\|\*include\)"
            r"\.map\(\|\(param,_\)\|param\.to_string\(\)\),\"([^\"]*)\",\);"
            r"letnew_param_str=ifp\.is_empty\(\)\{String::from\(\"([^\"]*)\"\)\}else\{format!\(\"([^\"]*)\",p\)\};"
            r"Some\(format!\(\"([^\"]*)\",((?:[^,()]|\[[^\]]*\])+),((?:[^,()]|\[[^\]]*\])+),((?:[^,()]|\[[^\]]*\])+)\)\)\}else\{None\}$",
            "the answer")
    join_sep, np_empty, np_fmt, out_fmt, a1, a2, a3 = m.groups()

    def res_p(a):
        return "F_joined"
    np_parts = fmt_parts(np_fmt, ["p"], res_p, die)

    def res_out(a):
        if a == "new_param_str":
            return "O_new_param_str"
        return "O_slice %s" % slice_(a, die, coq_str)
    pieces = out_fmt.split("{}")
    if len(pieces) != 4:
        die("apply_removeparam: the result format %r does not take three arguments" % out_fmt)
    oparts = []
    for k, p in enumerate(pieces):
        if p:
            oparts.append("O_lit %s" % bytes_list(p))
        if k < 3:
            oparts.append(res_out([a1, a2, a3][k]))

    out = ["Module RpGen.",
           "Inductive iexp := IVar (v : string) | ILen | IConst (n : N) | IAdd (a b : iexp).",
           "Inductive fpart := F_lit (s : list N) | F_key | F_value | F_joined.",
           "Inductive opart := O_lit (s : list N) | O_slice (sl : option iexp * option iexp) | O_new_param_str.",
           "Inductive rlit := L_value_empty | L_key_is_name.",
           "Definition bind_fragment : string := %s." % coq_str(bind_fragment),
           "Definition fragment_byte : N := %d." % frag_byte,
           "Definition fragment_default : iexp := %s." % frag_default,
           "Definition bind_query : string := %s." % coq_str(bind_query),
           "Definition query_byte : N := %d." % query_byte,
           "Definition query_slice : option iexp * option iexp := %s." % query_slice,
           "Definition no_query_is_none : bool := true.",
           "Definition bind_params_start : string := %s." % coq_str(bind_ps),
           "Definition params_start : iexp := %s." % ps_exp,
           "Definition bind_hash_index : string := %s." % coq_str(bind_hi),
           "Definition bind_hash_j : string := %s." % coq_str(bind_j),
           "Definition hash_byte : N := %d." % hash_byte,
           "Definition hash_slice : option iexp * option iexp := %s." % hash_slice,
           "Definition hash_some : iexp := %s." % hash_some,
           "Definition hash_none : iexp := %s." % hash_none,
           "Definition qparams_slice : option iexp * option iexp := %s." % qparams_slice,
           "Definition param_sep : N := %d." % param_sep,
           "Definition kv_sep : N := %d." % kv_sep,
           "Definition initially_kept : bool := %s." % initially,
           "Definition show_keyonly : list fpart := %s." % show_keyonly,
           "Definition show_keyvalue : list fpart := %s." % show_keyvalue,
           "Definition hits_tags : string := \"NO_TAGS\".",
           "Definition rewrite_start : bool := %s." % rewrite0,
           "Definition mark_only_keyvalue : bool := true.",
           "Definition mark_cond : list (rlit * bool) := [%s]." % "; ".join(lits),
           "Definition mark_sets_include : bool := %s." % inc_set,
           "Definition mark_sets_rewrite : bool := %s." % rw_set,
           "Definition join_sep : list N := %s." % bytes_list(join_sep),
           "Definition new_param_empty : list N := %s." % bytes_list(np_empty),
           "Definition new_param_nonempty : list fpart := %s." % np_parts,
           "Definition out_parts : list opart := [%s]." % "; ".join(oparts),
           "Definition no_rewrite_is_none : bool := true.",
           "End RpGen."]
    return out
