"""C18 translator fragment: MimeType / ResourceType tables of src/resources/mod.rs:
the enum variants, `is_textual`, `supports_dependencies`, the Display strings
(`From<&MimeType> for &str`), `ResourceType::supports_redirect` and
`supports_scriptlet_injection`, and the order of the refusal tests in `get_redirect_resource`.
"""
import re


def generate(src, die, coq_str):
    s = src("src/resources/mod.rs")
    m = re.search(r"pub enum MimeType \{(.*?)\n\}", s, re.S)
    if not m:
        die("c18_mime: enum MimeType not found")
    body = re.sub(r"///[^\n]*", "", m.group(1))
    variants = re.findall(r"(\w+),", body)
    if len(variants) < 10 or "FnJavascript" not in variants or "ApplicationJavascript" not in variants:
        die("c18_mime: MimeType variants not recognised: %r" % variants)
    out = ["(* src/resources/mod.rs: MimeType, ResourceType *)",
           "Inductive c18_mime := %s." % " | ".join("MT_" + v for v in variants),
           "Definition c18_all_mimes : list c18_mime := [%s]." % "; ".join("MT_" + v for v in variants),
           "Inductive c18_rtype := RK_Mime (m : c18_mime) | RK_Template."]
    m = re.search(r"pub enum ResourceType \{(.*?)\n\}", s, re.S)
    if not m or re.findall(r"^\s*(\w+)(?:\(MimeType\))?,", re.sub(r"///[^\n]*", "", m.group(1)), re.M) != ["Mime", "Template"]:
        die("c18_mime: enum ResourceType changed")

    def mime_pred(fn, coqname):
        mm = re.search(r"pub fn %s\(&self\) -> bool \{\s*matches!\(\s*self,\s*(.*?)\s*\)\s*\}" % fn, s, re.S)
        if not mm:
            die("c18_mime: %s not recognised" % fn)
        alts = [a.strip() for a in mm.group(1).split("|")]
        names = []
        for a in alts:
            ma = re.fullmatch(r"Self::(\w+)", a)
            if not ma or ma.group(1) not in variants:
                die("c18_mime: %s: alternative %r not understood" % (fn, a))
            names.append(ma.group(1))
        out.append("Definition %s (m : c18_mime) : bool :=\n  match m with %s => true | _ => false end." % (
            coqname, " | ".join("MT_" + n for n in names)))

    mime_pred("is_textual", "c18_is_textual")
    mime_pred("supports_dependencies", "c18_supports_dependencies")

    def rt_pred(fn, coqname, negated):
        mm = re.search(r"pub fn %s\(&self\) -> bool \{\s*(!?)matches!\(\s*self,\s*(.*?)\s*\)\s*\}" % fn, s, re.S)
        if not mm or (mm.group(1) == "!") != negated:
            die("c18_mime: %s not recognised" % fn)
        pats = []
        for a in [a.strip() for a in mm.group(2).split("|")]:
            if a == "ResourceType::Template":
                pats.append("RK_Template")
            else:
                ma = re.fullmatch(r"ResourceType::Mime\(MimeType::(\w+)\)", a)
                if not ma or ma.group(1) not in variants:
                    die("c18_mime: %s: alternative %r not understood" % (fn, a))
                pats.append("RK_Mime MT_" + ma.group(1))
        t, f = ("false", "true") if negated else ("true", "false")
        out.append("Definition %s (k : c18_rtype) : bool :=\n  match k with %s => %s | _ => %s end." % (
            coqname, " | ".join(pats), t, f))

    rt_pred("supports_redirect", "c18_supports_redirect", True)
    rt_pred("supports_scriptlet_injection", "c18_supports_scriptlet_injection", False)

    m = re.search(r"impl From<&MimeType> for &str \{\s*fn from\(v: &MimeType\) -> Self \{\s*match v \{(.*?)\n        \}", s, re.S)
    if not m:
        die("c18_mime: From<&MimeType> for &str not found")
    arms = re.findall(r"MimeType::(\w+)\s*=>\s*\"([^\"]*)\"", m.group(1))
    if [a for a, _ in arms] != variants:
        die("c18_mime: Display arms and variants disagree")
    out.append("Definition c18_mime_str (m : c18_mime) : string :=\n  match m with\n%s\n  end." % "\n".join(
        "  | MT_%s => %s" % (a, coq_str(b)) for a, b in arms))

    # get_redirect_resource: permission test, then kind test, then the data: URL
    r = src("src/resources/resource_storage.rs")
    m = re.search(r"pub fn get_redirect_resource\(&self, resource_ident: &str\) -> Option<String> \{(.*?)\n    \}\n", r, re.S)
    if not m:
        die("c18_mime: get_redirect_resource not found")
    g = m.group(1)
    i1 = g.find("if !resource.permission.is_default() {\n                return None;")
    i2 = g.find("if !resource.kind.supports_redirect() {\n                return None;")
    i3 = g.find('Some(format!("data:{};base64,{}", mime, &resource.content))')
    if not (0 <= i1 < i2 < i3):
        die("c18_mime: get_redirect_resource: refusal tests / data URL not recognised")
    out.append("Definition c18_data_url_prefix : string := \"data:\".")
    out.append("Definition c18_data_url_infix : string := \";base64,\".")
    return out
