"""C11 fragment: the (option name, negation) -> constructor / error table of
parse_filter_options (src/filters/abstract_network.rs) and the constructor -> mask bit table of the
content-type options in NetworkFilter::parse (src/filters/network.rs)."""
import re


def generate(src, die, coq_str):
    text = src("src/filters/abstract_network.rs")
    m = re.search(r"result\.push\(match \(option, negation\) \{(.*?)\n        \}\);", text, re.S)
    if not m:
        die("c11_option_table: match (option, negation) block not found in abstract_network.rs")
    body = m.group(1)
    # split into arms at lines that start a pattern list
    arm_re = re.compile(r'^\s{12}((?:\("[a-z0-9-]+", \w+\)(?:\s*\|\s*)?)+)\s*=>', re.M)
    starts = [(mm.start(), mm.end(), mm.group(1)) for mm in arm_re.finditer(body)]
    if len(starts) < 30:
        die("c11_option_table: only %d option arms recognised" % len(starts))
    if not re.search(r"\(_, _\) => return Err\(NetworkFilterError::UnrecognisedOption\)", body):
        die("c11_option_table: catch-all UnrecognisedOption arm not found")
    rows = []
    for k, (s, e, pats) in enumerate(starts):
        end = starts[k + 1][0] if k + 1 < len(starts) else body.index("(_, _) =>")
        rhs = body[e:end]
        head = rhs.strip()
        if head.startswith("return Err(") or re.match(r"\{\s*return Err\(", head):
            em = re.search(r"NetworkFilterError::(\w+)", head)
            kind = "err:" + em.group(1)
        else:
            opts = re.findall(r"NetworkFilterOption::(\w+)", rhs)
            if not opts:
                die("c11_option_table: no constructor in arm " + pats)
            kind = opts[-1]
        for name, neg in re.findall(r'\("([a-z0-9-]+)", (\w+)\)', pats):
            negc = {"true": "Some true", "false": "Some false"}.get(neg, "None")
            rows.append('(%s, %s, %s)' % (coq_str(name), negc, coq_str(kind)))
    out = ["(* src/filters/abstract_network.rs: parse_filter_options match arms: (name, negation pattern, constructor or err:Variant) *)",
           "Definition c11_option_arms : list (string * option bool * string) := ["]
    out.append("  " + ";\n  ".join(rows))
    out.append("]%string.")
    net = src("src/filters/network.rs")
    bits = re.findall(r"NetworkFilterOption::(\w+)\(enabled\) =>\s*\{?\s*apply_content_type!\((FROM_\w+), enabled\)", net)
    if len(bits) < 11:
        die("c11_option_table: only %d apply_content_type! arms recognised" % len(bits))
    out.append("(* src/filters/network.rs: content-type constructor -> mask bit *)")
    out.append("Definition c11_cpt_bits : list (string * N) := [")
    out.append("  " + "; ".join('(%s, M_%s)' % (coq_str(c), b) for c, b in bits))
    out.append("]%string.")
    return out
