"""Translator fragment: the scheme handling of `Request::from_detailed_parameters`
(src/request.rs) — what makes a request http / https / websocket / supported, and when the
websocket type is forced.

Extracted: the values assigned in the "no scheme" arm; in the other arm the defining expression of
`is_http`, `is_https`, `is_websocket` and `is_supported` as formulas over `schema == "<text>"` and the
earlier flags, and the `if is_websocket { Websocket } else { cpt_match_type(raw_type) }` choice.
Struct_Options_Proofs.v evaluates the formulas in source order and proves the resulting flags and
type to be C03_Model.from_detailed_parameters', for every scheme text and raw type.
"""
import importlib.util
import os
import re

PROPERTIES = ["C03", "C12"]

_here = os.path.dirname(os.path.abspath(__file__))
_spec = importlib.util.spec_from_file_location("c01_blocker_structure", os.path.join(_here, "c01_blocker_structure.py"))
_bs = importlib.util.module_from_spec(_spec)
_spec.loader.exec_module(_bs)


def norm(t):
    return "".join(t.split())


def parse_form(text, die, coq_str):
    t = text
    pos = [0]

    def peek(k=1):
        return t[pos[0]:pos[0] + k]

    def atom():
        if peek() == "!":
            pos[0] += 1
            return "(RNot %s)" % atom()
        if peek() == "(":
            pos[0] += 1
            e = disj()
            if peek() != ")":
                die("from_detailed_parameters: ')' expected in %r" % text)
            pos[0] += 1
            return e
        m = re.match(r'schema=="([a-z]*)"', t[pos[0]:])
        if m:
            pos[0] += m.end()
            return "(RSchemeIs %s)" % coq_str(m.group(1))
        m = re.match(r"(is_http|is_https|is_websocket)\b", t[pos[0]:])
        if m:
            pos[0] += m.end()
            return "(RFlag %s)" % coq_str(m.group(1))
        die("from_detailed_parameters: atom not recognised at %r" % t[pos[0]:pos[0] + 40])

    def conj():
        e = atom()
        while peek(2) == "&&":
            pos[0] += 2
            e = "(RAnd %s %s)" % (e, atom())
        return e

    def disj():
        e = conj()
        while peek(2) == "||":
            pos[0] += 2
            e = "(ROr %s %s)" % (e, conj())
        return e

    e = disj()
    if pos[0] != len(t):
        die("from_detailed_parameters: trailing text %r" % t[pos[0]:])
    return e


def generate(src, die, coq_str):
    b = _bs.strip_comments(src("src/request.rs"))
    t = norm(_bs.fn_body(b, r"fn from_detailed_parameters\(", die))
    m = re.match(
        r"letis_http:bool;letis_https:bool;letis_supported:bool;letrequest_type:RequestType;"
        r"ifschema\.is_empty\(\)\{is_https=(true|false);is_http=(true|false);is_supported=(true|false);request_type=cpt_match_type\(raw_type\);\}"
        r"else\{is_http=([^;]+);is_https=([^;]+);letis_websocket=([^;]+);is_supported=([^;]+);"
        r"ifis_websocket\{request_type=RequestType::Websocket;\}else\{request_type=cpt_match_type\(raw_type\);\}\}", t)
    if not m:
        die("from_detailed_parameters: the scheme handling is not recognised: %r" % t[:400])
    e_https, e_http, e_sup, f_http, f_https, f_ws, f_sup = m.groups()
    # ---- Request::preparsed: where the scheme text is cut off the URL
    tp = norm(_bs.fn_body(b, r"pub fn preparsed\(\s*url: &str,\s*hostname: &str,\s*source_hostname: &str,\s*request_type: &str,\s*third_party: bool,\s*\)\s*->\s*Request\s*\{", die))
    mp = re.fullmatch(r"letsplitter=memchr::memchr\(b'(.)',url\.as_bytes\(\)\)\.unwrap_or\((\d+)\);letschema:&str=&url\[\.\.splitter\];"
                      r"Request::from_detailed_parameters\(request_type,url,schema,hostname,source_hostname,third_party,url\.to_string\(\),\)", tp)
    if not mp:
        die("Request::preparsed: not recognised: %r" % tp[:300])
    split_byte, no_split = ord(mp.group(1)), int(mp.group(2))
    return ["Module RequestGen.",
            "Definition preparsed_split_byte : N := %d." % split_byte,
            "Definition preparsed_no_split : N := %d." % no_split,
            "Definition preparsed_args : list string := [\"request_type\"; \"url\"; \"schema\"; \"hostname\"; \"source_hostname\"; \"third_party\"; \"url\"].",
            "Inductive rform := RSchemeIs (s : string) | RFlag (name : string) | RNot (f : rform) | RAnd (a b : rform) | ROr (a b : rform).",
            "(* no scheme at all: (is_http, is_https, is_supported), type from the raw type *)",
            "Definition no_scheme_flags : bool * bool * bool := (%s, %s, %s)." % (e_http, e_https, e_sup),
            "(* otherwise, in source order *)",
            "Definition defs : list (string * rform) := [(\"is_http\", %s); (\"is_https\", %s); (\"is_websocket\", %s); (\"is_supported\", %s)]."
            % tuple(parse_form(x, die, coq_str) for x in (f_http, f_https, f_ws, f_sup)),
            "Definition websocket_type_forced_by : string := \"is_websocket\".",
            "End RequestGen."]
