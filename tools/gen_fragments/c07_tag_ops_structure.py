"""Translator fragment: the tag operations of src/blocker.rs (`use_tags`, `enable_tags`,
`disable_tags`, `tags_with_set`) and their forwarders in src/engine.rs.

Extracted with the brace parser of c01_blocker_structure.py:
  * for each of the three public operations: the set handed to `tags_with_set`, as a set expression
    over `given` (the argument) and `enabled` (self.tags_enabled): `given`, `given+enabled`
    (union), `enabled-given` (difference) — and that nothing else happens;
  * for `tags_with_set`: that the enabled set is replaced by the argument, which vector the tagged
    list is rebuilt from, the predicate that keeps a rule, the list that is rebuilt, the optimize flag
    it is built with, and that the address-keyed regex cache is cleared afterwards;
  * for `Engine::use_tags / enable_tags / disable_tags`: that each forwards to the blocker's
    operation of the same name and does nothing else; `Engine::tag_exists` reads the enabled set.
Struct_Tags_Proofs.v interprets this over the model's blocker and proves it IS
Net_Model.use_tags / enable_tags / disable_tags / tags_with_set.
"""
import importlib.util
import os
import re

PROPERTIES = ["C06", "C07"]

_here = os.path.dirname(os.path.abspath(__file__))
_spec = importlib.util.spec_from_file_location("c01_blocker_structure", os.path.join(_here, "c01_blocker_structure.py"))
_bs = importlib.util.module_from_spec(_spec)
_spec.loader.exec_module(_bs)


def norm(t):
    return "".join(t.split())


GIVEN = r"tags\.iter\(\)\.map\(\|&t\|String::from\(t\)\)"


def set_expr(body, fn, die):
    """`let tag_set: HashSet<String> = <expr>; self.tags_with_set(tag_set);` -> set expression"""
    b = norm(body)
    m = re.fullmatch(r"lettag_set:HashSet<String>=(.*?);self\.tags_with_set\(tag_set\);", b)
    if not m:
        die("%s: not `let tag_set = ..; self.tags_with_set(tag_set);`: %r" % (fn, body[:160]))
    e = m.group(1)
    if re.fullmatch(GIVEN + r"\.collect\(\)", e):
        return "given"
    if re.fullmatch(GIVEN + r"\.collect::<HashSet<_>>\(\)\.union\(&self\.tags_enabled\)\.cloned\(\)\.collect\(\)", e):
        return "given+enabled"
    if re.fullmatch(r"self\.tags_enabled\.union\(&" + GIVEN + r"\.collect\(\)\)\.cloned\(\)\.collect\(\)", e):
        return "given+enabled"
    if re.fullmatch(r"self\.tags_enabled\.difference\(&" + GIVEN + r"\.collect\(\)\)\.cloned\(\)\.collect\(\)", e):
        return "enabled-given"
    die("%s: set expression not recognised: %r" % (fn, e))


def generate(src, die, coq_str):
    b = _bs.strip_comments(src("src/blocker.rs"))
    out = ["Module TagGen.", "(* Blocker: the set each operation hands to tags_with_set *)"]
    for fn in ["use_tags", "enable_tags", "disable_tags"]:
        body = _bs.fn_body(b, r"pub fn %s\(&mut self, tags: &\[&str\]\)\s*\{" % fn, die)
        out.append("Definition %s_set : string := %s." % (fn, coq_str(set_expr(body, fn, die))))

    body = _bs.fn_body(b, r"fn tags_with_set\(&mut self, tags_enabled: HashSet<String>\)\s*\{", die)
    nb = norm(body)
    stmts = [x for x in nb.split(";") if x]
    if len(stmts) != 4:
        die("tags_with_set: %d statements, 4 expected: %r" % (len(stmts), stmts))
    if stmts[0] != "self.tags_enabled=tags_enabled":
        die("tags_with_set: the enabled set is not replaced by the argument first: %r" % stmts[0])
    m = re.fullmatch(r"letfilters:Vec<NetworkFilter>=self\.(\w+)\.iter\(\)\.filter\(\|n\|(.*)\)\.cloned\(\)\.collect\(\)", stmts[1])
    if not m:
        die("tags_with_set: selection of the active tagged rules not recognised: %r" % stmts[1])
    source, pred = m.group(1), m.group(2)
    if pred == "n.tag.is_some()&&self.tags_enabled.contains(n.tag.as_ref().unwrap())":
        keep = "tag_some&&enabled_contains_tag"
    elif pred == "n.tag.as_ref().map(|t|self.tags_enabled.contains(t)).unwrap_or(false)":
        keep = "tag_some&&enabled_contains_tag"
    else:
        die("tags_with_set: keep predicate not recognised: %r" % pred)
    m = re.fullmatch(r"self\.(\w+)=NetworkFilterList::new\(filters,self\.(\w+)\)", stmts[2])
    if not m:
        die("tags_with_set: rebuild of the tagged list not recognised: %r" % stmts[2])
    rebuilt, flag = m.group(1), m.group(2)
    if stmts[3] != "self.borrow_regex_manager().clear()":
        die("tags_with_set: the regex cache is not cleared last: %r" % stmts[3])
    out += ["(* Blocker::tags_with_set *)",
            "Definition tws_first_assigns_enabled : bool := true.",
            "Definition tws_source : string := %s." % coq_str(source),
            "Definition tws_keep : string := %s." % coq_str(keep),
            "Definition tws_rebuilds : string := %s." % coq_str(rebuilt),
            "Definition tws_optimize_flag : string := %s." % coq_str(flag),
            "Definition tws_clears_regex_cache : bool := true."]

    e = _bs.strip_comments(src("src/engine.rs"))
    fw = []
    for fn in ["use_tags", "enable_tags", "disable_tags"]:
        body = _bs.fn_body(e, r"pub fn %s\(&mut self, tags: &\[&str\]\)\s*\{" % fn, die)
        m = re.fullmatch(r"self\.blocker\.(\w+)\(tags\);", norm(body))
        if not m:
            die("Engine::%s: not a plain forwarder: %r" % (fn, body[:120]))
        fw.append((fn, m.group(1)))
    body = _bs.fn_body(e, r"pub fn tag_exists\(&self, tag: &str\)\s*->\s*bool\s*\{", die)
    if norm(body) != "self.blocker.tags_enabled().contains(&tag.to_owned())":
        die("Engine::tag_exists: not a membership test on the enabled tags: %r" % body[:120])
    body = _bs.fn_body(b, r"pub fn tags_enabled\(&self\)\s*->\s*Vec<String>\s*\{", die)
    if norm(body) != "self.tags_enabled.iter().cloned().collect()":
        die("Blocker::tags_enabled: not the enabled set: %r" % body[:120])
    out += ["(* Engine: (operation, blocker operation it forwards to) *)",
            "Definition engine_forwards : list (string * string) := [%s]." % "; ".join(
                "(%s, %s)" % (coq_str(a), coq_str(c)) for a, c in fw),
            "Definition tag_exists_reads : string := \"tags_enabled\".",
            "End TagGen."]
    return out
