"""Translator fragment: the control structure of NetworkFilter::get_tokens (src/filters/network.rs),
the function that decides under which tokens a rule is indexed (C01's token guarantee is a statement
about exactly these tokens).

Extracted by the brace / expression parser of c01_blocker_structure.py (not by line patterns):
  * the top-level statements in source order: which token source each one appends (the single
    $domain, the pattern, the hostname, the $removeparam name) and under which condition;
  * the skip_first / skip_last expressions and the argument order of utils::tokenize_filter;
  * whether the parameter name is validated and lower-cased before it is tokenized;
  * the condition of the per-domain dispatch and the scheme-token chain of the else branch.
Struct_Tokens_Proofs.v interprets this structure over the model's rule record and proves that the
interpretation IS Net_Model.get_tokens for every rule: a reordered statement, an altered guard or
swapped tokenizer flags changes the generated data and breaks that proof.
"""
import importlib.util
import os
import re

PROPERTIES = ["C01", "C05", "C14"]

_here = os.path.dirname(os.path.abspath(__file__))
_spec = importlib.util.spec_from_file_location("c01_blocker_structure", os.path.join(_here, "c01_blocker_structure.py"))
_bs = importlib.util.module_from_spec(_spec)
_spec.loader.exec_module(_bs)

ATOMS = {
    "self.opt_domains.is_some()": "T_domains_some",
    "self.opt_not_domains.is_none()": "T_not_domains_none",
    "self.opt_domains.as_ref().map(|d| d.len()) == Some(1)": "T_one_domain",
    "self.is_complete_regex()": "T_complete_regex",
    "self.is_plain()": "T_plain",
    "self.is_regex()": "T_regex",
    "self.is_right_anchor()": "T_right_anchor",
    "self.is_left_anchor()": "T_left_anchor",
    "self.mask.contains(NetworkFilterMask::IS_HOSTNAME_REGEX)": "T_hostname_regex",
    "self.mask.contains(NetworkFilterMask::IS_REMOVEPARAM)": "T_removeparam",
    "self.is_removeparam()": "T_removeparam",
    "tokens.is_empty()": "T_tokens_empty",
    "self.for_http()": "T_for_http",
    "self.for_https()": "T_for_https",
}


def parse_cond(text, die):
    saved = _bs.ATOMS
    _bs.ATOMS = ATOMS
    try:
        return _bs.parse_cond(text, die)
    finally:
        _bs.ATOMS = saved


def coq_cond(e):
    if e[0] == "atom":
        return "(TAtom %s)" % e[1]
    if e[0] == "not":
        return "(TNot %s)" % coq_cond(e[1])
    return "(%s %s %s)" % ("TAnd" if e[0] == "and" else "TOr", coq_cond(e[1]), coq_cond(e[2]))


def statements(body, die):
    """top-level statements: ('if', arms, else) | ('match', head, block) | ('other', text)"""
    out = []
    i, n = 0, len(body)
    while i < n:
        if body[i].isspace():
            i += 1
            continue
        if re.match(r"if\b", body[i:]):
            arms, els, i = _bs.parse_if(body, i, die)
            out.append(("if", arms, els))
            continue
        m = re.match(r"(match|for|while|loop)\b", body[i:])
        if m:
            j = body.index("{", i)
            blk, k = _bs.block_at(body, j, die)
            out.append((m.group(1), body[i + len(m.group(1)):j].strip(), blk))
            i = k
            continue
        depth, j = 0, i
        while j < n:
            c = body[j]
            if c in "{([":
                depth += 1
            elif c in "})]":
                depth -= 1
            elif c == ";" and depth == 0:
                break
            j += 1
        out.append(("other", body[i:j + 1]))
        i = j + 1
    return out


def generate(src, die, coq_str):
    s = _bs.strip_comments(src("src/filters/network.rs"))
    body = _bs.fn_body(s, r"pub fn get_tokens\(&self\)\s*->\s*Vec<Vec<Hash>>\s*\{", die)
    sts = [x for x in statements(body, die) if not (x[0] == "other" and re.match(r"\s*let\s+mut\s+tokens\b", x[1]))]
    if not sts or sts[-1][0] != "if" or sts[-1][2] is None or len(sts[-1][1]) != 1:
        die("get_tokens: the final dispatch if/else was not recognised")
    steps = []
    skip_first = skip_last = None
    param_validated = param_lower = None
    for st in sts[:-1]:
        if st[0] == "if":
            arms, els = st[1], st[2]
            if len(arms) != 1 or els is not None:
                die("get_tokens: unexpected else / else-if on a token source")
            cond, blk = arms[0]
            flat = "".join(blk.split())
            if "tokens.push(*domain)" in flat:
                if not re.search(r"ifletSome\(domain\)=domains\.first\(\)", flat):
                    die("get_tokens: the pushed domain is not domains.first()")
                steps.append(("domain", parse_cond(cond, die)))
            elif re.search(r"utils::tokenize\(hostname\)", flat):
                if not re.search(r"ifletSome\(hostname\)=self\.hostname\.as_ref\(\)", flat):
                    die("get_tokens: hostname source not recognised")
                steps.append(("hostname", parse_cond(cond, die)))
            elif "removeparam" in flat:
                if not re.search(r"ifletSome\(removeparam\)=&self\.modifier_option", flat):
                    die("get_tokens: removeparam source not recognised")
                param_validated = bool(re.search(r"ifVALID_PARAM\.is_match\(removeparam\)\{", flat))
                m = re.search(r"utils::tokenize\(&?removeparam(\.to_ascii_lowercase\(\))?\)", flat)
                if not m:
                    die("get_tokens: removeparam tokenization not recognised")
                param_lower = m.group(1) is not None
                steps.append(("param", parse_cond(cond, die)))
            else:
                die("get_tokens: unknown token source: %r" % blk[:100])
        elif st[0] == "match":
            if "".join(st[1].split()) != "&self.filter":
                die("get_tokens: match on %r" % st[1])
            blk = st[2]
            m = re.search(r"FilterPart::Simple\((\w+)\)\s*=>\s*\{", blk)
            if not m:
                die("get_tokens: Simple arm not found")
            var = m.group(1)
            arm, end = _bs.block_at(blk, m.end() - 1, die)
            rest = "".join((blk[:m.start()] + blk[end:]).split())
            for piece in [p for p in rest.split(",") if p]:
                if not re.fullmatch(r"(FilterPart::AnyOf\(_\)|FilterPart::Empty|_)=>\(\)", piece):
                    die("get_tokens: another arm of the match produces something: %r" % piece)
            inner = statements(arm, die)
            if len(inner) != 1 or inner[0][0] != "if" or len(inner[0][1]) != 1 or inner[0][2] is not None:
                die("get_tokens: Simple arm is not a single guarded block")
            cond, gblk = inner[0][1][0]
            lets = dict(re.findall(r"let\s+(skip_\w+)\s*=\s*([^;]+);", gblk))
            m = re.search(r"utils::tokenize_filter\(\s*(\w+)\s*,\s*(\w+)\s*,\s*(\w+)\s*\)", gblk)
            if not m or m.group(1) != var or m.group(2) not in lets or m.group(3) not in lets:
                die("get_tokens: tokenize_filter call not recognised")
            skip_first = parse_cond(lets[m.group(2)], die)
            skip_last = parse_cond(lets[m.group(3)], die)
            if not re.search(r"tokens\.append\(&mut\s+filter_tokens\)", gblk):
                die("get_tokens: pattern tokens are not appended")
            steps.append(("pattern", parse_cond(cond, die)))
        else:
            die("get_tokens: unexpected statement %r" % (st[1][:80],))
    if [n for n, _ in steps].count("pattern") != 1 or skip_first is None or param_validated is None:
        die("get_tokens: token sources incomplete: %r" % [n for n, _ in steps])
    # final if / else
    _, arms, els = sts[-1]
    dcond, dblk = arms[0]
    if not re.search(r"self\.opt_domains\.as_ref\(\)\.unwrap_or\(&vec!\[\]\)\.iter\(\)\.map\(\|&d\|vec!\[d\]\)\.collect\(\)", "".join(dblk.split())):
        die("get_tokens: dispatch branch not recognised")
    est = statements(els, die)
    chain = [x for x in est if x[0] == "if"]
    if len(chain) != 1 or chain[0][2] is not None:
        die("get_tokens: scheme chain not recognised")
    sch = []
    for cond, blk in chain[0][1]:
        m = re.fullmatch(r'tokens\.push\(utils::fast_hash\("(\w+)"\)\);?', "".join(blk.split()))
        if not m:
            die("get_tokens: scheme branch not recognised: %r" % blk)
        sch.append((parse_cond(cond, die), m.group(1)))
    if not re.search(r"vec!\[tokens\]\s*$", els.strip()):
        die("get_tokens: the else branch does not return vec![tokens]")

    out = ["Module TokensGen.",
           "Inductive tatom := T_domains_some | T_not_domains_none | T_one_domain | T_complete_regex | T_plain | T_regex",
           "  | T_right_anchor | T_left_anchor | T_hostname_regex | T_removeparam | T_tokens_empty | T_for_http | T_for_https.",
           "Inductive tcond := TTrue | TAtom (a : tatom) | TNot (c : tcond) | TAnd (a b : tcond) | TOr (a b : tcond).",
           "(* NetworkFilter::get_tokens: token sources in source order with their guards *)",
           "Definition steps : list (string * tcond) := [%s]." % "; ".join("(\"%s\", %s)" % (n, coq_cond(c)) for n, c in steps),
           "Definition skip_first : tcond := %s." % coq_cond(skip_first),
           "Definition skip_last : tcond := %s." % coq_cond(skip_last),
           "Definition param_validated : bool := %s." % ("true" if param_validated else "false"),
           "Definition param_lowercased : bool := %s." % ("true" if param_lower else "false"),
           "Definition dispatch : tcond := %s." % coq_cond(parse_cond(dcond, die)),
           "Definition scheme_chain : list (tcond * string) := [%s]." % "; ".join("(%s, \"%s\")" % (coq_cond(c), n) for c, n in sch),
           "End TokensGen."]
    return out
