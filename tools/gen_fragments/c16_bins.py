"""C16 translator fragment: the arm tables of `SpecificFilterType::negated` and of
`HostnameRuleDb::store` (src/cosmetic_filter_cache.rs) and the order in which
`hostname_cosmetic_resources` chains the two hash lists.  The pinned theorem
`C16_tables_as_modelled` relates them to `neg_tag` and the bin tags of C16_Model.v."""
import re


def generate(src, die, coq_str):
    text = src("src/cosmetic_filter_cache.rs")
    m = re.search(r"fn negated\(self\) -> Self \{\s*match self \{(.*?)\}\s*\}", text, re.S)
    if not m:
        die("c16_bins: fn negated not found")
    neg = re.findall(r"Self::(\w+)\(s\)\s*=>\s*Self::(\w+)\(s\)", m.group(1))
    if len(neg) != 6:
        die("c16_bins: expected 6 arms in negated, found %d" % len(neg))
    m = re.search(r"fn store\(&mut self, token: &Hash, kind: SpecificFilterType\) \{.*?match kind \{(.*?)\}\s*\}", text, re.S)
    if not m:
        die("c16_bins: fn store not found")
    st = re.findall(r"(\w+)\((?:\(s, _\)|s)\)\s*=>\s*self\.(\w+)\.insert\(token, s\)", m.group(1))
    if len(st) != 6:
        die("c16_bins: expected 6 arms in store, found %d" % len(st))
    ch = re.search(r"let hashes: Vec<&Hash> = (\w+)\s*\.iter\(\)\s*\.chain\((\w+)\.iter\(\)\)", text)
    if not ch:
        die("c16_bins: hash chaining not found")
    pair = lambda a, b: "(%s, %s)" % (coq_str(a), coq_str(b))
    return [
        "Definition c16_negated_table : list (string * string) := [%s]." % "; ".join(pair(a, b) for a, b in neg),
        "Definition c16_store_table : list (string * string) := [%s]." % "; ".join(pair(a, b) for a, b in st),
        "Definition c16_hash_chain : list string := [%s]." % "; ".join(coq_str(x) for x in ch.groups()),
    ]
