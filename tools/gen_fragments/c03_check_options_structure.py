"""Translator fragment: check_options (src/filters/network_matchers.rs) — the option test every
rule runs against a request.

Extracted with the brace / expression parser of c01_blocker_structure.py:
  * the first rejection (`mask.is_badfilter()`) and the "cheap" rejection: a disjunction over the
    request's type / scheme / party facts and the mask's bits, as a formula over named atoms;
  * the included-domains block and the excluded-domains block, each matched against its shape:
    both need a source (`source_hostname_hashes`), the quantifier (`all` / `any`) and the
    per-hash predicate of the union short-cut and of the exact test, and how the two combine
    (included: union short-cut rejects, then the exact test rejects; excluded: with a union the
    conjunction of both per hash, without it the exact test alone);
  * that `true` is returned when nothing rejected.
Struct_Options_Proofs.v interprets this structure over the model's request and hash arrays and
proves that it IS C03_Model.check_options for every mask, array, union and request.
"""
import importlib.util
import os
import re

PROPERTIES = ["C03"]

_here = os.path.dirname(os.path.abspath(__file__))
_spec = importlib.util.spec_from_file_location("c01_blocker_structure", os.path.join(_here, "c01_blocker_structure.py"))
_bs = importlib.util.module_from_spec(_spec)
_spec.loader.exec_module(_bs)

ATOMS = {
    "mask.is_badfilter()": "O_badfilter",
    "mask.check_cpt_allowed(&request.request_type)": "O_cpt_allowed",
    "request.is_https": "O_req_https",
    "request.is_http": "O_req_http",
    "mask.for_https()": "O_for_https",
    "mask.for_http()": "O_for_http",
    "mask.first_party()": "O_first_party",
    "mask.third_party()": "O_third_party",
    "request.is_third_party": "O_req_third",
}
ATOM_NAMES = ["O_badfilter", "O_cpt_allowed", "O_req_https", "O_req_http", "O_for_https", "O_for_http",
              "O_first_party", "O_third_party", "O_req_third"]


def norm(t):
    return "".join(t.split())


def parse_cond(text, die):
    saved = _bs.ATOMS
    # longest keys first: `request.is_https` before `request.is_http`
    _bs.ATOMS = dict(sorted(ATOMS.items(), key=lambda kv: -len(kv[0])))
    try:
        return _bs.parse_cond(text, die)
    finally:
        _bs.ATOMS = saved


def coq_cond(e):
    if e[0] == "atom":
        return "(OAtom %s)" % e[1]
    if e[0] == "not":
        return "(ONot %s)" % coq_cond(e[1])
    return "(%s %s %s)" % ("OAnd" if e[0] == "and" else "OOr", coq_cond(e[1]), coq_cond(e[2]))


PRED = {
    "h&included_domains_union!=*h": "not_in_union",
    "!utils::bin_lookup(included_domains,*h)": "not_listed",
    "(h&excluded_domains_union==*h)&&utils::bin_lookup(excluded_domains,*h)": "in_union_and_listed",
    "{(h&excluded_domains_union==*h)&&utils::bin_lookup(excluded_domains,*h)}": "in_union_and_listed",
    "utils::bin_lookup(excluded_domains,*h)": "listed",
}


def quant(text, die):
    """`source_hashes.iter().all(|h| P)` -> (quantifier, predicate name)"""
    m = re.fullmatch(r"source_hashes\.iter\(\)\.(all|any)\(\|h\|(.*)\)", text)
    if not m or m.group(2) not in PRED:
        die("check_options: per-hash test not recognised: %r" % text)
    return m.group(1), PRED[m.group(2)]


def generate(src, die, coq_str):
    s = _bs.strip_comments(src("src/filters/network_matchers.rs"))
    m = re.search(r"pub fn check_options<'a>\(", s)
    if not m:
        die("check_options not found")
    depth, j = 0, m.end() - 1
    while j < len(s):
        if s[j] == "(":
            depth += 1
        elif s[j] == ")":
            depth -= 1
            if depth == 0:
                break
        j += 1
    sig = norm(s[m.end():j])
    if sig != "mask:NetworkFilterMask,opt_domains:Option<&'a[Hash]>,opt_domains_union:Option<Hash>,opt_not_domains:Option<&'a[Hash]>,opt_not_domains_union:Option<Hash>,request:&request::Request,":
        die("check_options: signature changed: %r" % sig)
    body, _ = _bs.block_at(s, s.index("{", j), die)
    st = _bs.statements(body, die)
    if len(st) != 5 or [x[0] for x in st] != ["if", "if", "if", "if", "other"]:
        die("check_options: %d top-level statements, shape %r" % (len(st), [x[0] for x in st]))
    conds = []
    for k in (0, 1):
        arms, els = st[k][1], st[k][2]
        if len(arms) != 1 or els is not None or norm(arms[0][1]) != "returnfalse;":
            die("check_options: rejection %d is not `if .. { return false; }`" % (k + 1))
        conds.append(parse_cond(arms[0][0], die))
    if norm(st[4][1]) != "true":
        die("check_options: does not end with `true`")

    # included domains
    arms, els = st[2][1], st[2][2]
    if len(arms) != 1 or els is not None or norm(arms[0][0]) != "letSome(included_domains)=opt_domains.as_ref()":
        die("check_options: included-domains block not recognised")
    inner = norm(arms[0][1])
    mi = re.fullmatch(
        r"ifletSome\(source_hashes\)=request\.source_hostname_hashes\.as_ref\(\)\{"
        r"ifletSome\(included_domains_union\)=opt_domains_union\{if(.*?)\{returnfalse;\}\}"
        r"if(.*?)\{returnfalse;\}\}", inner)
    if not mi:
        die("check_options: shape of the included-domains block changed")
    inc_union = quant(mi.group(1), die)
    inc_exact = quant(mi.group(2), die)

    # excluded domains
    arms, els = st[3][1], st[3][2]
    if len(arms) != 1 or els is not None or norm(arms[0][0]) != "letSome(excluded_domains)=opt_not_domains.as_ref()":
        die("check_options: excluded-domains block not recognised")
    inner = norm(arms[0][1])
    me = re.fullmatch(
        r"ifletSome\(source_hashes\)=request\.source_hostname_hashes\.as_ref\(\)\{"
        r"ifletSome\(excluded_domains_union\)=opt_not_domains_union\{if(.*?)\{returnfalse;\}\}"
        r"elseif(.*?)\{returnfalse;\}\}", inner)
    if not me:
        die("check_options: shape of the excluded-domains block changed")
    exc_union = quant(me.group(1), die)
    exc_plain = quant(me.group(2), die)

    out = ["Module OptsGen.",
           "Inductive oatom := %s." % " | ".join(ATOM_NAMES),
           "Inductive ocond := OAtom (a : oatom) | ONot (c : ocond) | OAnd (a b : ocond) | OOr (a b : ocond).",
           "(* check_options: reject when .. *)",
           "Definition reject_first : ocond := %s." % coq_cond(conds[0]),
           "Definition reject_cheap : ocond := %s." % coq_cond(conds[1]),
           "(* included domains (only with a source): (quantifier, per-hash predicate); the union test, when a union is recorded, rejects first *)",
           "Definition included_union_test : string * string := (%s, %s)." % (coq_str(inc_union[0]), coq_str(inc_union[1])),
           "Definition included_exact_test : string * string := (%s, %s)." % (coq_str(inc_exact[0]), coq_str(inc_exact[1])),
           "(* excluded domains (only with a source): with a recorded union / without *)",
           "Definition excluded_with_union : string * string := (%s, %s)." % (coq_str(exc_union[0]), coq_str(exc_union[1])),
           "Definition excluded_without_union : string * string := (%s, %s)." % (coq_str(exc_plain[0]), coq_str(exc_plain[1])),
           "Definition otherwise_accepts : bool := true.",
           "End OptsGen."]
    return out
