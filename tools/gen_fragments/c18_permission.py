"""C18 translator fragment: the body expression of `PermissionMask::is_injectable_by`
(src/resources/mod.rs) translated to a Gallina boolean over `N` (u8 semantics: `!x` is the 8-bit
complement), `is_default`, and the `BitOr` / `BitOrAssign` bodies (the per-host union).

The expression is parsed with Rust's precedence (unary `!`  >  `&`  >  `^`  >  `|`  >  `== !=`),
so a change of the expression flows into the model and the theorem `injectable_iff_subset`
is re-checked against what the code says now.
"""
import re


class P:
    def __init__(self, text, die, names):
        self.toks = re.findall(r"\s*(==|!=|[!&|^()]|[A-Za-z_][A-Za-z_0-9]*(?:\.0)?|0x[0-9a-fA-F]+|0b[01_]+|\d+)", text)
        if "".join(self.toks).replace(" ", "") != re.sub(r"\s+", "", text):
            die("c18_permission: cannot tokenise `%s`" % text)
        self.i = 0
        self.die = die
        self.names = names
        self.text = text

    def peek(self):
        return self.toks[self.i] if self.i < len(self.toks) else None

    def take(self):
        t = self.peek()
        self.i += 1
        return t

    # returns (coq, type) with type in {"u8", "bool"}
    def cmp(self):
        a = self.bor()
        if self.peek() in ("==", "!="):
            op = self.take()
            b = self.bor()
            if a[1] != "u8" or b[1] != "u8":
                self.die("c18_permission: comparison of non-u8 in `%s`" % self.text)
            e = "(N.eqb %s %s)" % (a[0], b[0])
            return (e if op == "==" else "(negb %s)" % e, "bool")
        return a

    def binl(self, sub, op, fn):
        a = sub()
        while self.peek() == op:
            self.take()
            b = sub()
            if a[1] != "u8" or b[1] != "u8":
                self.die("c18_permission: `%s` on non-u8 in `%s`" % (op, self.text))
            a = ("(%s %s %s)" % (fn, a[0], b[0]), "u8")
        return a

    def bor(self):
        return self.binl(self.bxor, "|", "N.lor")

    def bxor(self):
        return self.binl(self.band, "^", "N.lxor")

    def band(self):
        return self.binl(self.unary, "&", "N.land")

    def unary(self):
        t = self.peek()
        if t == "!":
            self.take()
            a = self.unary()
            if a[1] == "u8":
                return ("(N.lxor %s 255)" % a[0], "u8")
            return ("(negb %s)" % a[0], "bool")
        if t == "(":
            self.take()
            a = self.cmp()
            if self.take() != ")":
                self.die("c18_permission: unbalanced parenthesis in `%s`" % self.text)
            return a
        self.take()
        if t in self.names:
            return (self.names[t], "u8")
        if t is not None and re.fullmatch(r"0x[0-9a-fA-F]+|0b[01_]+|\d+", t):
            return (str(int(t.replace("_", ""), 0)), "u8")
        self.die("c18_permission: unexpected token %r in `%s`" % (t, self.text))


def _parse(text, die, names, want):
    p = P(text, die, names)
    e = p.cmp()
    if p.peek() is not None:
        die("c18_permission: trailing tokens in `%s`" % text)
    if e[1] != want:
        die("c18_permission: `%s` is not of type %s" % (text, want))
    return e[0]


def generate(src, die, coq_str):
    s = src("src/resources/mod.rs")
    if not re.search(r"pub struct PermissionMask\(u8\);", s):
        die("c18_permission: PermissionMask is no longer a u8 newtype")
    m = re.search(r"pub fn is_injectable_by\(&self, filter_mask: PermissionMask\) -> bool \{(.*?)\n    \}", s, re.S)
    if not m:
        die("c18_permission: is_injectable_by not found")
    body = re.sub(r"//[^\n]*", "", m.group(1)).strip()
    if ";" in body or "\n" in body.strip():
        die("c18_permission: is_injectable_by body is no longer a single expression: %r" % body)
    inj = _parse(body, die, {"self.0": "self_", "filter_mask.0": "filter_mask"}, "bool")
    m = re.search(r"fn is_default\(&self\) -> bool \{\s*([^;{}]*?)\s*\}", s)
    if not m:
        die("c18_permission: is_default not found")
    isdef = _parse(m.group(1), die, {"self.0": "self_"}, "bool")
    m = re.search(r"fn bitor\(self, rhs: PermissionMask\) -> Self::Output \{\s*Self\(([^;{}]*?)\)\s*\}", s)
    m2 = re.search(r"fn bitor_assign\(&mut self, rhs: PermissionMask\) \{\s*self\.0 \|= rhs\.0;\s*\}", s)
    if not (m and m2):
        die("c18_permission: BitOr / BitOrAssign for PermissionMask not recognised")
    bitor = _parse(m.group(1), die, {"self.0": "self_", "rhs.0": "rhs"}, "u8")
    return [
        "(* src/resources/mod.rs: PermissionMask (u8); `!x` on u8 is written N.lxor x 255 *)",
        "Definition c18_is_injectable_by (self_ filter_mask : N) : bool := %s.  (* %s *)" % (inj, body),
        "Definition c18_perm_is_default (self_ : N) : bool := %s." % isdef,
        "Definition c18_perm_bitor (self_ rhs : N) : N := %s." % bitor,
    ]
