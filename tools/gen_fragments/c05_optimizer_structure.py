"""Translator fragment: the structure of src/optimizer.rs (SimplePatternGroup) — which rules may be
fused, what makes two rules members of one group, and how a group becomes one rule.

Extracted with the brace / expression parser of c01_blocker_structure.py:
  * `select`: the condition, as a formula over named atoms;
  * `group_by_criteria`: the fields that enter the key, in order;
  * `fusion`: the rule everything else is copied from (`filters[0]`), the "any member is Empty"
    short-cut, what each FilterPart variant contributes to the flattened pattern list, which
    variant 0 / 1 / several patterns give, and which mask bits are recomputed from the members
    (and by which predicate);
  * `apply_optimisation` / `optimize`: the group size above which a group is fused (smaller
    groups are handed back unfused), that fused and unfused rules are both appended, and the key
    of the final sort.
Struct_Opt_Proofs.v interprets this structure over the model's rules and proves that the
interpretation IS C05_Model.opt_select / same_key / fusion for every rule and group.
"""
import importlib.util
import os
import re

PROPERTIES = ["C05"]

_here = os.path.dirname(os.path.abspath(__file__))
_spec = importlib.util.spec_from_file_location("c01_blocker_structure", os.path.join(_here, "c01_blocker_structure.py"))
_bs = importlib.util.module_from_spec(_spec)
_spec.loader.exec_module(_bs)

ATOMS = {
    "filter.opt_domains.is_none()": "S_domains_none",
    "filter.opt_not_domains.is_none()": "S_not_domains_none",
    "filter.is_hostname_anchor()": "S_hostname_anchor",
    "filter.is_redirect()": "S_redirect",
    "filter.is_csp()": "S_csp",
    "filter.is_removeparam()": "S_removeparam",
    "filter.is_important()": "S_important",
    "filter.is_exception()": "S_exception",
    "filter.is_regex()": "S_regex",
    "filter.is_complete_regex()": "S_complete_regex",
    "filter.tag.is_none()": "S_tag_none",
}
ATOM_NAMES = sorted(set(ATOMS.values()))


def norm(t):
    return "".join(t.split())


def parse_cond(text, die):
    saved = _bs.ATOMS
    _bs.ATOMS = ATOMS
    try:
        return _bs.parse_cond(text, die)
    finally:
        _bs.ATOMS = saved


def coq_cond(e):
    if e[0] == "atom":
        return "(SAtom %s)" % e[1]
    if e[0] == "not":
        return "(SNot %s)" % coq_cond(e[1])
    return "(%s %s %s)" % ("SAnd" if e[0] == "and" else "SOr", coq_cond(e[1]), coq_cond(e[2]))


def generate(src, die, coq_str):
    s = _bs.strip_comments(src("src/optimizer.rs"))
    m = re.search(r"impl\s+Optimization\s+for\s+SimplePatternGroup\s*\{", s)
    if not m:
        die("impl Optimization for SimplePatternGroup not found")
    impl, _ = _bs.block_at(s, m.end() - 1, die)

    # ---- select
    body = _bs.fn_body(impl, r"fn select\(&self, filter: &NetworkFilter\)\s*->\s*bool\s*\{", die)
    if ";" in body or "let " in body or "return" in body:
        die("select: not a single expression: %r" % body[:120])
    select = parse_cond(body, die)

    # ---- group_by_criteria
    body = _bs.fn_body(impl, r"fn group_by_criteria\(&self, filter: &NetworkFilter\)\s*->\s*String\s*\{", die)
    m = re.fullmatch(r"format!\(\"([^\"]*)\",(.*)\)", norm(body).rstrip(","), re.S)
    if not m:
        die("group_by_criteria: not a single format!: %r" % body[:120])
    fmt, args = m.group(1), [a for a in m.group(2).split(",") if a]
    holes = re.findall(r"\{[^}]*\}", fmt)
    if len(holes) != len(args) or re.sub(r"\{[^}]*\}", "", fmt).strip(":") != "" or fmt.count(":") < len(holes) - 1:
        die("group_by_criteria: format string not recognised: %r" % fmt)
    # every hole must print the value injectively: binary for the mask, Debug for the others
    key = []
    for h, a in zip(holes, args):
        if a == "filter.mask" and h == "{:b}":
            key.append("mask")
        elif a == "filter.is_complete_regex()" and h == "{:?}":
            key.append("is_complete_regex")
        elif a == "filter.tag" and h == "{:?}":
            key.append("tag")
        elif a == "filter.is_regex()" and h == "{:?}":
            key.append("is_regex")
        else:
            die("group_by_criteria: key component not recognised: %r printed as %r" % (a, h))

    # ---- fusion
    body = _bs.fn_body(impl, r"fn fusion\(&self, filters: &\[NetworkFilter\]\)\s*->\s*NetworkFilter\s*\{", die)
    if not re.search(r"let\s+base_filter\s*=\s*&filters\[0\]\s*;", body):
        die("fusion: base_filter is not &filters[0]")
    if not re.search(r"let\s+mut\s+filter\s*=\s*base_filter\.clone\(\)\s*;", body):
        die("fusion: the result does not start as a clone of base_filter")
    m = re.search(r"if\s+filters\s*\.iter\(\)\s*\.any\(\|f\|\s*matches!\(f\.filter,\s*FilterPart::Empty\)\)\s*\{", body)
    if not m:
        die("fusion: the any-member-is-Empty short-cut not recognised")
    arms, els, _ = _bs.parse_if(body, m.start(), die)
    if len(arms) != 1 or els is None or norm(arms[0][1]).rstrip(";") != "filter.filter=FilterPart::Empty":
        die("fusion: shape of the Empty short-cut not recognised")
    # the flattening loop
    mf = re.search(r"for\s+f\s+in\s+filters\s*\{\s*match\s+&f\.filter\s*\{", els)
    if not mf:
        die("fusion: flattening loop not recognised")
    loop_match, _ = _bs.block_at(els, mf.end() - 1, die)
    contrib = []
    for pat, act in re.findall(r"FilterPart::(\w+)(?:\(\w+\))?\s*=>\s*([^,]+),", loop_match + ","):
        a = norm(act)
        if a == "()":
            contrib.append((pat, "nothing"))
        elif a == "flat_patterns.push(s.clone())":
            contrib.append((pat, "push"))
        elif a == "flat_patterns.extend_from_slice(s)":
            contrib.append((pat, "extend"))
        else:
            die("fusion: contribution of FilterPart::%s not recognised: %r" % (pat, act))
    if sorted(p for p, _ in contrib) != ["AnyOf", "Empty", "Simple"]:
        die("fusion: the flattening match does not cover Empty / Simple / AnyOf exactly: %r" % contrib)
    # the shape chosen by the number of patterns
    ms = re.search(r"if\s+flat_patterns\.is_empty\(\)\s*\{", els)
    if not ms:
        die("fusion: choice of the FilterPart variant not recognised")
    sarms, sels, _ = _bs.parse_if(els, ms.start(), die)
    shape = []
    for cond, blk in sarms:
        c, b = norm(cond), norm(blk).rstrip(";")
        if c == "flat_patterns.is_empty()":
            n = "0"
        elif c == "flat_patterns.len()==1":
            n = "1"
        else:
            die("fusion: shape condition not recognised: %r" % cond)
        if b == "filter.filter=FilterPart::Empty":
            shape.append((n, "Empty"))
        elif b == "filter.filter=FilterPart::Simple(flat_patterns[0].clone())":
            shape.append((n, "Simple"))
        else:
            die("fusion: shape for %s patterns not recognised: %r" % (n, blk))
    if sels is None or norm(sels).rstrip(";") != "filter.filter=FilterPart::AnyOf(flat_patterns)":
        die("fusion: shape for several patterns not recognised")
    shape.append(("many", "AnyOf"))
    # recomputed mask bits
    bits = []
    for var, pred in re.findall(r"let\s+(\w+)\s*=\s*filters\s*\.iter\(\)\s*\.any\(([^;]+)\)\s*;", body):
        p = norm(pred)
        if p in ("NetworkFilter::is_regex", "|f|f.is_regex()"):
            bits.append((var, "is_regex"))
        elif p in ("NetworkFilter::is_complete_regex", "|f|f.is_complete_regex()"):
            bits.append((var, "is_complete_regex"))
        else:
            die("fusion: member predicate not recognised: %r" % pred)
    sets = []
    for bit, var in re.findall(r"filter\s*\.mask\s*\.set\(\s*NetworkFilterMask::(\w+)\s*,\s*(\w+)\s*\)", body):
        d = dict(bits)
        if var not in d:
            die("fusion: mask bit %s set from an unknown value %r" % (bit, var))
        sets.append((bit, d[var]))
    # nothing else of the result may be assigned (raw_line is debug text)
    assigned = set(re.findall(r"\bfilter\.(\w+)\s*=[^=]", body)) | set(re.findall(r"\bfilter\s*\.(\w+)\s*\.set\(", body))
    if assigned - {"filter", "mask", "raw_line"}:
        die("fusion: unexpected field of the fused rule assigned: %r" % sorted(assigned))

    # ---- apply_optimisation / optimize
    body = _bs.fn_body(s, r"fn apply_optimisation<T: Optimization>\(", die)
    if not re.search(r"if\s+optimization\.select\(&f\)\s*\{\s*Either::Left\(f\)\s*\}\s*else\s*\{\s*Either::Right\(f\)\s*\}", body):
        die("apply_optimisation: partition by select not recognised")
    if not re.search(r"insert_dup\(&mut\s+to_fuse,\s*optimization\.group_by_criteria\(&f\),\s*f\)", body):
        die("apply_optimisation: grouping by group_by_criteria not recognised")
    m = re.search(r"if\s+group\.len\(\)\s*>\s*(\d+)\s*\{", body)
    if not m:
        die("apply_optimisation: group size test not recognised")
    garms, gels, _ = _bs.parse_if(body, m.start(), die)
    if norm(garms[0][1]).rstrip(";") != "fused.push(optimization.fusion(group.as_slice()))":
        die("apply_optimisation: a large group is not fused: %r" % garms[0][1])
    if gels is None or norm(gels).rstrip(";") != "group.into_iter().for_each(|f|negative.push(f))":
        die("apply_optimisation: a small group is not handed back unfused: %r" % gels)
    threshold = m.group(1)
    if norm(body).rstrip(";").split(";")[-1] != "(fused,negative)":
        die("apply_optimisation: does not return (fused, negative)")
    ib = _bs.fn_body(s, r"fn insert_dup<K, V>\(", die)
    if norm(ib).rstrip(";") != "map.entry(k).or_insert_with(Vec::new).push(v)":
        die("insert_dup: not entry(k).or_insert_with(Vec::new).push(v): %r" % ib)
    body = _bs.fn_body(s, r"pub fn optimize\(filters: Vec<NetworkFilter>\)\s*->\s*Vec<NetworkFilter>\s*\{", die)
    nb = norm(body)
    for need in ["let(mutfused,mutunfused)=apply_optimisation(&simple_pattern_group,filters);",
                 "optimized.append(&mutfused);", "optimized.append(&mutunfused);"]:
        if need not in nb:
            die("optimize: %r not found" % need)
    m = re.search(r"optimized\.sort_by_key\(\|f\|\s*f\.(\w+)\)", body)
    if not m:
        die("optimize: final sort not recognised")
    if not nb.endswith("optimized"):
        die("optimize: does not return the sorted vector")

    out = ["Module OptGen.",
           "Inductive satom := %s." % " | ".join(ATOM_NAMES),
           "Inductive scond := SAtom (a : satom) | SNot (c : scond) | SAnd (a b : scond) | SOr (a b : scond).",
           "(* SimplePatternGroup *)",
           "Definition select_cond : scond := %s." % coq_cond(select),
           "Definition group_key : list string := [%s]." % "; ".join(coq_str(k) for k in key),
           "Definition fusion_base : string := \"first\".",
           "Definition fusion_empty_if_any_member_empty : bool := true.",
           "Definition fusion_contribution : list (string * string) := [%s]." % "; ".join(
               "(%s, %s)" % (coq_str(p), coq_str(a)) for p, a in contrib),
           "Definition fusion_shape : list (string * string) := [%s]." % "; ".join(
               "(%s, %s)" % (coq_str(n), coq_str(v)) for n, v in shape),
           "Definition fusion_mask_bits : list (string * string) := [%s]." % "; ".join(
               "(%s, %s)" % (coq_str(b), coq_str(p)) for b, p in sets),
           "Definition fuse_groups_larger_than : N := %s." % threshold,
           "Definition optimize_final_sort : string := %s." % coq_str(m.group(1)),
           "End OptGen."]
    return out
