"""Translator fragment: the tokenizer itself (src/utils.rs: fast_tokenizer_no_regex and its three
wrappers) and the request side that feeds it (src/request.rs: calculate_tokens,
get_tokens_for_match, the field initialiser of request_tokens).

Extracted:
  * the loop of `fast_tokenizer_no_regex`, matched statement by statement against its shape: the
    cut-off test comes first and returns; a word character opens a token when none is open; any
    other character closes the open token, pushes it under the extracted condition and becomes the
    preceding character; the condition under which the token still open at the end is pushed.
    Both conditions are translated to formulas over named atoms;
  * which character predicate and which skip flags each wrapper (`tokenize_pooled`, `tokenize`,
    `tokenize_filter`) passes;
  * `calculate_tokens`: the wrapper it calls, on which string, and that 0 is pushed last;
    the request field is initialised with `calculate_tokens(&url_lower_cased)`;
    `get_tokens_for_match`: source-hostname hashes first, then the request tokens.
Struct_Tokenizer_Proofs.v re-runs Net_Model's tokenizer loop with the extracted conditions in
place of the hand-written ones and proves the two equal for every input, and that the request-side
structure is Net_Model.request_tokens / probes.
"""
import importlib.util
import os
import re

PROPERTIES = ["C01", "C02"]

_here = os.path.dirname(os.path.abspath(__file__))
_spec = importlib.util.spec_from_file_location("c01_blocker_structure", os.path.join(_here, "c01_blocker_structure.py"))
_bs = importlib.util.module_from_spec(_spec)
_spec.loader.exec_module(_bs)

ATOMS = {
    "start != 0": "T_start_nonzero",
    "skip_first_token": "T_skip_first",
    "skip_last_token": "T_skip_last",
    "i - start > 1": "T_len_gt1",
    "pattern.len() - start > 1": "T_len_gt1",
    "c != '*'": "T_c_not_star",
    "preceding_ch != Some('*')": "T_prec_not_star",
    "inside": "T_inside",
}
ATOM_NAMES = ["T_start_nonzero", "T_skip_first", "T_skip_last", "T_len_gt1", "T_c_not_star", "T_prec_not_star", "T_inside"]


def norm(t):
    return "".join(t.split())


def parse_cond(text, die):
    saved = _bs.ATOMS
    _bs.ATOMS = ATOMS
    try:
        return _bs.parse_cond(text, die)
    finally:
        _bs.ATOMS = saved


def coq_cond(e):
    if e[0] == "atom":
        return "(TAtom %s)" % e[1]
    if e[0] == "not":
        return "(TNot %s)" % coq_cond(e[1])
    return "(%s %s %s)" % ("TAnd" if e[0] == "and" else "TOr", coq_cond(e[1]), coq_cond(e[2]))


def fn_block(s, header_re, die):
    m = re.search(header_re, s)
    if not m:
        die("function not found: " + header_re)
    depth, j = 0, s.index("(", m.start())
    while j < len(s):
        if s[j] == "(":
            depth += 1
        elif s[j] == ")":
            depth -= 1
            if depth == 0:
                break
        j += 1
    return _bs.block_at(s, s.index("{", j), die)[0]


def generate(src, die, coq_str):
    u = _bs.strip_comments(src("src/utils.rs"))
    body = fn_block(u, r"fn fast_tokenizer_no_regex\(", die)
    nb = norm(body)
    shape = (r"letmutinside:bool=false;letmutstart=0;letmutpreceding_ch:Option<char>=None;"
             r"for\(i,c\)inpattern\.char_indices\(\)\{"
             r"iftokens_buffer\.len\(\)>=TOKENS_MAX\{return;\}"
             r"ifis_allowed_code\(c\)\{if!inside\{inside=true;start=i;\}\}"
             r"elseifinside\{inside=false;if(?P<mid>.*?)\{lethash=fast_hash\(&pattern\[start\.\.i\]\);tokens_buffer\.push\(hash\);\}"
             r"preceding_ch=Some\(c\);\}"
             r"else\{preceding_ch=Some\(c\);\}\}"
             r"if(?P<end>.*?)\{lethash=fast_hash\(&pattern\[start\.\.\]\);tokens_buffer\.push\(hash\);\}")
    m = re.fullmatch(shape, nb)
    if not m:
        die("fast_tokenizer_no_regex: the loop no longer has the recognised shape")
    # the conditions are re-read from the un-normalised text (the atoms contain blanks)
    mm = re.search(r"inside\s*=\s*false;.*?if\s+(.*?)\{\s*let hash = fast_hash\(&pattern\[start\.\.i\]\)", body, re.S)
    me = re.search(r"\n\s*if\s+((?:(?!\n\s*if\s).)*?)\{\s*let hash = fast_hash\(&pattern\[start\.\.\]\)", body, re.S)
    if not mm or not me or norm(mm.group(1)) != m.group("mid") or norm(me.group(1)) != m.group("end"):
        die("fast_tokenizer_no_regex: push conditions not located")
    mid = parse_cond(mm.group(1), die)
    end = parse_cond(me.group(1), die)

    m = re.search(r"fn is_allowed_filter\(ch: char\) -> bool \{\s*ch\.is_alphanumeric\(\) \|\| ch == '(.)'\s*\}", u)
    if not m:
        die("is_allowed_filter not recognised")

    wrappers = []
    for name in ["tokenize_pooled", "tokenize", "tokenize_filter"]:
        wb = norm(fn_block(u, r"fn %s\(" % name, die))
        mw = re.search(r"fast_tokenizer_no_regex\(pattern,&(\w+),(\w+),(\w+),(?:&mut)?tokens_buffer,?\)", wb)
        if not mw:
            die("%s: call of fast_tokenizer_no_regex not recognised" % name)
        rest = wb.replace(mw.group(0), "")
        if rest not in (";", "letmuttokens_buffer:Vec<Hash>=Vec::with_capacity(TOKENS_BUFFER_SIZE);;tokens_buffer"):
            die("%s: does more than call the tokenizer: %r" % (name, rest))
        wrappers.append((name, mw.group(1), mw.group(2), mw.group(3)))

    r = _bs.strip_comments(src("src/request.rs"))
    cb = norm(fn_block(r, r"fn calculate_tokens\(url_lower_cased: &str\)", die))
    mc = re.fullmatch(r"letmuttokens=vec!\[\];utils::(\w+)\((\w+),&muttokens\);tokens\.push\((\d+)\);tokens", cb)
    if not mc:
        die("calculate_tokens: shape not recognised: %r" % cb)
    mi = re.search(r"request_tokens:\s*calculate_tokens\(&(\w+)\)", r)
    if not mi:
        die("request_tokens initialiser not recognised")
    if len(re.findall(r"calculate_tokens\(", r)) != 2:
        die("calculate_tokens is called from more than one place")
    gb = norm(fn_block(r, r"pub fn get_tokens_for_match\(&self\)", die))
    if gb != "self.source_hostname_hashes.as_ref().into_iter().flatten().chain(self.get_tokens().into_iter())":
        die("get_tokens_for_match: not source hashes chained with the request tokens: %r" % gb)
    tb = norm(fn_block(r, r"pub fn get_tokens\(&self\)", die))
    if tb != "&self.request_tokens":
        die("get_tokens: not the request_tokens field")

    out = ["Module TokzGen.",
           "Inductive tatom := %s." % " | ".join(ATOM_NAMES),
           "Inductive tcond := TAtom (a : tatom) | TNot (c : tcond) | TAnd (a b : tcond) | TOr (a b : tcond).",
           "(* src/utils.rs: fast_tokenizer_no_regex *)",
           "Definition cutoff_test_first_and_returns : bool := true.",
           "Definition mid_push_cond : tcond := %s." % coq_cond(mid),
           "Definition end_push_cond : tcond := %s." % coq_cond(end),
           "(* wrapper, character predicate, skip_first argument, skip_last argument *)",
           "Definition wrappers : list (string * string * string * string) := [%s]." % "; ".join(
               "(%s, %s, %s, %s)" % tuple(coq_str(x) for x in w) for w in wrappers),
           "(* src/request.rs *)",
           "Definition calculate_tokens_calls : string := %s." % coq_str(mc.group(1)),
           "Definition calculate_tokens_pushes_last : N := %s." % mc.group(3),
           "Definition request_tokens_of : string := %s." % coq_str(mi.group(1)),
           "Definition probes_order : list string := [\"source_hostname_hashes\"; \"request_tokens\"].",
           "End TokzGen."]
    return out
