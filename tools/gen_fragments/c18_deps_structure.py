"""Translator fragment: the permission gate and the dependency walk of
src/resources/resource_storage.rs — `ResourceStorage::get_permissioned_resource` and
`ResourceStorage::recursive_dependencies`, statement by statement, plus the dependency loop and the
"add the scriptlet itself unless it is there" step of `get_scriptlet_resource`.

Extracted (brace parser of c01_blocker_structure.py; every statement is matched literally and
named, the ORDER of the statements is what is read off the source):
  * get_permissioned_resource: lookup (which error when absent), the permission test (which
    method, which error), the answer;
  * recursive_dependencies: the gate (`get_permissioned_resource(new_dep, filter_permission)?`),
    the "already collected" test (by which field it compares, what it returns), the push, the loop
    over `resource.dependencies` with `?` (errors propagate, what was pushed stays pushed);
  * get_scriptlet_resource: the gate on the scriptlet itself comes before the kind test and the
    dependency loop, which passes `filter_permission` on.
Struct_Deps_Proofs.v runs the extracted statement list (a name used before it is bound is stuck)
with the recursive calls handed to the model and proves that the body IS one unfolding of
C18_Model.recursive_dependencies — in particular that the gate is applied to EVERY dependency that
is reached, before the "already collected" test.
"""
import importlib.util
import os
import re

PROPERTIES = ["C18"]  # (C13 reads add_resource through its own model; the tie is pinned in C18)

_here = os.path.dirname(os.path.abspath(__file__))
_spec = importlib.util.spec_from_file_location("c01_blocker_structure", os.path.join(_here, "c01_blocker_structure.py"))
_bs = importlib.util.module_from_spec(_spec)
_spec.loader.exec_module(_bs)


def norm(t):
    return "".join(t.split())


RD_STMTS = [
    (r"letresource=self\.get_permissioned_resource\(new_dep,filter_permission\)\?;", "D_gate"),
    (r"ifprev_deps\.iter\(\)\.any\(\|dep\|dep\.name==resource\.name\)\{returnOk\(\(\)\);\}", "D_collected_return_ok"),
    (r"prev_deps\.push\(resource\);", "D_push"),
    (r"fordepinresource\.dependencies\.iter\(\)\{self\.recursive_dependencies\(dep,prev_deps,filter_permission\)\?;\}", "D_recurse"),
    (r"Ok\(\(\)\)$", "D_ok"),
]


AR_STMTS = [
    (r"ifletResourceType::Mime\(content_type\)=&resource\.kind\{"
     r"if!resource\.dependencies\.is_empty\(\)&&!content_type\.supports_dependencies\(\)\{returnErr\(AddResourceError::ContentTypeDoesNotSupportDependencies\);\}"
     r"letdecoded=BASE64_STANDARD\.decode\(&resource\.content\)\?;"
     r"ifcontent_type\.is_textual\(\)\{let_=String::from_utf8\(decoded\)\?;\}\}", "A_mime_checks"),
    (r"foridentinstd::iter::once\(&resource\.name\)\.chain\(resource\.aliases\.iter\(\)\)\{"
     r"ifself\.resources\.contains_key\(ident\)\|\|self\.aliases\.contains_key\(ident\)\{returnErr\(AddResourceError::NameAlreadyAdded\);\}\}", "A_reject_if_any_identifier_taken"),
    (r"resource\.aliases\.iter\(\)\.for_each\(\|alias\|\{self\.aliases\.insert\(alias\.clone\(\),resource\.name\.clone\(\)\);\}\);", "A_insert_aliases"),
    (r"self\.resources\.insert\(resource\.name\.clone\(\),resource\);", "A_insert_resource"),
    (r"Ok\(\(\)\)$", "A_ok"),
]


def generate_add_resource(b, die):
    t = norm(_bs.fn_body(b, r"pub fn add_resource\(&mut self, resource: Resource\)\s*->\s*Result<\(\), AddResourceError>\s*\{", die))
    steps = []
    while t:
        for rx, name in AR_STMTS:
            m = re.match(rx, t)
            if m:
                steps.append(name)
                t = t[m.end():]
                break
        else:
            die("add_resource: statement not recognised at %r" % t[:200])
    return ["Module AddResGen.",
            "Inductive astep := A_mime_checks | A_reject_if_any_identifier_taken | A_insert_aliases | A_insert_resource | A_ok.",
            "Definition ar_steps : list astep := [%s]." % "; ".join(steps),
            "End AddResGen."]


def generate(src, die, coq_str):
    b = _bs.strip_comments(src("src/resources/resource_storage.rs"))
    # ---- get_permissioned_resource
    t = norm(_bs.fn_body(b, r"fn get_permissioned_resource\(\s*&self,\s*scriptlet_name: &str,\s*filter_permission: PermissionMask,\s*\)\s*->\s*Result<&Resource, ScriptletResourceError>\s*\{", die))
    m = re.fullmatch(
        r"letresource=self\.get_internal_resource\(&scriptlet_name\)\.ok_or\(ScriptletResourceError::(\w+)\)\?;"
        r"if!resource\.permission\.(\w+)\(filter_permission\)\{returnErr\(ScriptletResourceError::(\w+)\);\}"
        r"Ok\(resource\)", t)
    if not m:
        die("get_permissioned_resource: not recognised: %r" % t[:300])
    absent_err, perm_test, perm_err = m.groups()
    # ---- recursive_dependencies
    t = norm(_bs.fn_body(b, r"fn recursive_dependencies<'a: 'b, 'b>\(\s*&'a self,\s*new_dep: &str,\s*prev_deps: &mut Vec<&'b Resource>,\s*filter_permission: PermissionMask,\s*\)\s*->\s*Result<\(\), ScriptletResourceError>\s*\{", die))
    steps = []
    while t:
        for rx, name in RD_STMTS:
            m = re.match(rx, t)
            if m:
                steps.append(name)
                t = t[m.end():]
                break
        else:
            die("recursive_dependencies: statement not recognised at %r" % t[:200])
    # ---- get_scriptlet_resource: order of gate / kind test / dependency loop / self push
    t = norm(_bs.fn_body(b, r"fn get_scriptlet_resource<'a: 'b, 'b>\(", die))
    marks = [
        ("letresource=self.get_permissioned_resource(&scriptlet_name,filter_permission)?;", "G_gate"),
        ("if!resource.kind.supports_scriptlet_injection(){returnErr(ScriptletResourceError::ContentTypeNotInjectable);}", "G_kind"),
        ("fordepinresource.dependencies.iter(){self.recursive_dependencies(dep,required_deps,filter_permission)?;}", "G_deps"),
        ("ifrequired_deps.iter().find(|dep|dep.name==resource.name).is_none(){required_deps.push(resource);}", "G_push_self_if_absent"),
    ]
    pos = []
    for text, name in marks:
        i = t.find(text)
        if i < 0 or t.find(text, i + 1) >= 0:
            die("get_scriptlet_resource: `%s` not found exactly once" % name)
        pos.append((i, name))
    order = [n for _, n in sorted(pos)]
    return ["Module DepsGen.",
            "Inductive dstep := D_gate | D_collected_return_ok | D_push | D_recurse | D_ok.",
            "Inductive gstep := G_gate | G_kind | G_deps | G_push_self_if_absent.",
            "Definition absent_error : string := %s." % coq_str(absent_err),
            "Definition permission_test : string := %s." % coq_str(perm_test),
            "Definition permission_error : string := %s." % coq_str(perm_err),
            "Definition collected_compares : string := \"name\".",
            "Definition rd_steps : list dstep := [%s]." % "; ".join(steps),
            "Definition scriptlet_order : list gstep := [%s]." % "; ".join(order),
            "End DepsGen."] + generate_add_resource(b, die)
