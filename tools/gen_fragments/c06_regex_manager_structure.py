"""Translator fragment: src/regex_manager.rs — how a rule's regex is built and kept.

Extracted:
  * `compile_regex`: the names of its parameters, in order;
  * `make_regexp`: which `mask.is_*()` is handed to which parameter (position by position);
  * `RegexManager::matches`: the condition under which no regex is consulted at all, and that the
    branch for a cached entry whose regex was DISCARDED rebuilds it with the very expression the
    branch for a new entry uses (both texts are emitted), bumps the same counters and answers with
    `is_match(pattern)`;
  * `cleanup`: the discard condition, and that discarding sets the regex to `None`; `update_time`:
    the condition under which cleanup runs; `clear`: the map is emptied.
Struct_Matchers_Proofs.v proves that the arguments reach `compile_regex` as
C02_Model.regex_manager_matches says (right anchor, left anchor, complete regex) and that creation
and re-creation are one expression — the assumption under C06's cache model (an entry holds "the
regex of the rule at its address", however often it was discarded and rebuilt).
"""
import importlib.util
import os
import re

PROPERTIES = ["C02", "C06"]

_here = os.path.dirname(os.path.abspath(__file__))
_spec = importlib.util.spec_from_file_location("c01_blocker_structure", os.path.join(_here, "c01_blocker_structure.py"))
_bs = importlib.util.module_from_spec(_spec)
_spec.loader.exec_module(_bs)


def norm(t):
    return "".join(t.split())


def generate(src, die, coq_str):
    b = _bs.strip_comments(src("src/regex_manager.rs"))
    m = re.search(r"pub\(crate\) fn compile_regex<'a, I>\(\s*((?:\w+: \w+,\s*)+)\)\s*->\s*CompiledRegex", b)
    if not m:
        die("compile_regex: signature not recognised")
    params = re.findall(r"(\w+): \w+", m.group(1))
    t = norm(_bs.fn_body(b, r"fn make_regexp<'a, FiltersIter>\(mask: NetworkFilterMask, filters: FiltersIter\)\s*->\s*CompiledRegex", die))
    m = re.fullmatch(r"compile_regex\(((?:[\w.()]+,)+)\)", t)
    if not m:
        die("make_regexp: not one call of compile_regex: %r" % t)
    args = [a for a in m.group(1).split(",") if a]
    if len(args) != len(params):
        die("make_regexp: %d arguments for %d parameters" % (len(args), len(params)))
    pairs = []
    for p, a in zip(params, args):
        if a == "filters":
            pairs.append((p, "filters"))
            continue
        mm = re.fullmatch(r"mask\.(is_\w+)\(\)", a)
        if not mm:
            die("make_regexp: argument not recognised: %r" % a)
        pairs.append((p, mm.group(1)))
    t = norm(_bs.fn_body(b, r"pub fn matches<'a, FiltersIter>\(\s*&mut self,\s*mask: NetworkFilterMask,\s*filters: FiltersIter,\s*key: u64,\s*pattern: &str,\s*\)\s*->\s*bool", die))
    m = re.fullmatch(
        r"if!mask\.is_regex\(\)&&!mask\.is_complete_regex\(\)\{returntrue;\}"
        r"usestd::collections::hash_map::Entry;"
        r"matchself\.map\.entry\(key\)\{"
        r"Entry::Occupied\(mute\)=>\{letv=e\.get_mut\(\);v\.usage_count\+=1;v\.last_used=self\.now;"
        r"ifv\.regex\.is_none\(\)\{v\.regex=Some\(([^;]+)\);self\.compiled_regex_count\+=1;\}"
        r"returnv\.regex\.as_ref\(\)\.unwrap\(\)\.is_match\(pattern\);\}"
        r"Entry::Vacant\(e\)=>\{self\.compiled_regex_count\+=1;"
        r"letnew_entry=RegexEntry\{regex:Some\(([^;]+?)\),last_used:self\.now,usage_count:1,\};"
        r"returne\.insert\(new_entry\)\.regex\.as_ref\(\)\.unwrap\(\)\.is_match\(pattern\);\}\};", t)
    if not m:
        die("RegexManager::matches: not recognised: %r" % t[:400])
    recreate, create = m.groups()
    t = norm(_bs.fn_body(b, r"pub\(crate\) fn cleanup\(&mut self\)", die))
    if t != "letnow=self.now;forvinself.map.values_mut(){ifnow-v.last_used>=self.discard_policy.discard_unused_time{v.regex=None;}}":
        die("RegexManager::cleanup: not recognised: %r" % t)
    t = norm(_bs.fn_body(b, r"pub fn update_time\(&mut self\)", die))
    if t != ("self.now=Instant::now();if!self.discard_policy.cleanup_interval.is_zero()&&self.now-self.last_cleanup>="
             "self.discard_policy.cleanup_interval{self.last_cleanup=self.now;self.cleanup();}"):
        die("RegexManager::update_time: not recognised: %r" % t)
    t = norm(_bs.fn_body(b, r"pub\(crate\) fn clear\(&mut self\)", die))
    if t != "self.map.clear();":
        die("RegexManager::clear: not recognised: %r" % t)
    return ["Module RegexMgrGen.",
            "Definition compile_regex_params : list string := [%s]." % "; ".join(coq_str(p) for p in params),
            "(* make_regexp: parameter of compile_regex, what it receives (`filters` or the mask method) *)",
            "Definition make_regexp_args : list (string * string) := [%s]." % "; ".join("(%s, %s)" % (coq_str(p), coq_str(a)) for p, a in pairs),
            "Definition no_regex_when : string := \"!is_regex&&!is_complete_regex\".",
            "Definition create_expr : string := %s." % coq_str(create),
            "Definition recreate_expr : string := %s." % coq_str(recreate),
            "Definition discard_when : string := \"now-last_used>=discard_unused_time\".",
            "Definition discard_sets_regex_none : bool := true.",
            "Definition cleanup_when : string := \"!cleanup_interval.is_zero()&&now-last_cleanup>=cleanup_interval\".",
            "Definition clear_empties_map : bool := true.",
            "End RegexMgrGen."]
