"""C18 translator fragment: the ESCAPED look-up table of `stringify_arg`
(src/resources/resource_storage.rs) with its symbolic byte constants, and the literal bytes that
`write_string_complex` emits around it (the backslash, the `u` test, the `{:04x}` format).
"""
import re


def _byte(lit, die):
    if len(lit) == 1:
        return ord(lit)
    esc = {"\\\\": 92, "\\'": 39, "\\\"": 34, "\\n": 10, "\\r": 13, "\\t": 9, "\\0": 0}
    if lit in esc:
        return esc[lit]
    die("c18_escaped: byte literal b'%s' not understood" % lit)


def generate(src, die, coq_str):
    s = src("src/resources/resource_storage.rs")
    m = re.search(r"fn stringify_arg<const QUOTED: bool>\(arg: &str\) -> String \{(.*?)\n\}\n", s, re.S)
    if not m:
        die("c18_escaped: stringify_arg not found")
    body = m.group(1)
    consts = {}
    for name, val in re.findall(r"const\s+(\w+): u8 = (b'(?:\\.|[^'\\])'|\d+);", body):
        consts[name] = int(val) if val.isdigit() else _byte(val[2:-1], die)
    want = ["QU", "BS", "BB", "TT", "NN", "FF", "RR", "UU", "__"]
    if sorted(consts) != sorted(want):
        die("c18_escaped: symbolic constants changed: %r" % sorted(consts))
    m = re.search(r"static ESCAPED: \[u8; 256\] = \[(.*?)\];", body, re.S)
    if not m:
        die("c18_escaped: ESCAPED table not found")
    tab = re.sub(r"//[^\n]*", "", m.group(1))
    entries = [e.strip() for e in tab.split(",") if e.strip()]
    if len(entries) != 256:
        die("c18_escaped: ESCAPED has %d entries, expected 256" % len(entries))
    vals = []
    for e in entries:
        if e in consts:
            vals.append(consts[e])
        elif e.isdigit():
            vals.append(int(e))
        else:
            die("c18_escaped: table entry %r not understood" % e)
    # the code around the table: these are the shapes the hand-written model of
    # write_string_complex relies on
    for needle, what in [
        ("let escape = ESCAPED[ch as usize];", "table lookup"),
        ("if escape > 0 {", "escape test"),
        ("start = index + 1;", "start update"),
        ("output.extend_from_slice(format!(\"{:04x}\", ch).as_bytes());", "4-digit lower-case hex"),
        ("if ESCAPED[ch as usize] > 0 {", "fast-path test"),
    ]:
        if needle not in body:
            die("c18_escaped: stringify_arg no longer contains the %s (`%s`)" % (what, needle))
    if body.count("output.push(b'\"');") != 2:
        die("c18_escaped: the quoted variant no longer pushes exactly two double quotes")
    out = ["(* src/resources/resource_storage.rs: stringify_arg, ESCAPED table (symbolic names: %s) *)" %
           ", ".join("%s=%d" % (k, consts[k]) for k in want)]
    out.append("Definition c18_ESCAPED : list N := [")
    for i in range(0, 256, 16):
        out.append("  " + "; ".join(str(v) for v in vals[i:i + 16]) + (";" if i < 240 else ""))
    out.append("].")
    m1 = re.search(r"output\.extend_from_slice\(&\[b'((?:\\.|[^'\\]))', escape\]\);", body)
    m2 = re.search(r"if escape == b'((?:\\.|[^'\\]))' \{", body)
    if not (m1 and m2):
        die("c18_escaped: escape prefix / hex trigger statements not recognised")
    out.append("Definition c18_ESC_PREFIX : N := %d." % _byte(m1.group(1), die))
    out.append("Definition c18_ESC_HEX_TRIGGER : N := %d." % _byte(m2.group(1), die))
    return out
