"""C20 translator fragment: declarative pieces of src/content_blocking.rs.

* SPECIAL_CHARS      the character class of regex metacharacters the converter escapes
* the url-filter text constants (hostname prefix format string, scheme prefixes)
* the push_if_flag! table mask flag -> content-blocking resource type (or unsupported)
* the CbResourceType variant order (used as the numeric code of a resource type)
Fails closed (die) when a fragment is not recognised."""
import re


def _bytes(s):
    return "[" + "; ".join(str(b) for b in s.encode("utf8")) + "]"


def _unescape_rust(s):
    # ordinary (non-raw) Rust string literal: only the escapes that occur here
    out, i = [], 0
    while i < len(s):
        if s[i] == "\\":
            if i + 1 >= len(s) or s[i + 1] not in "\\\"":
                raise ValueError(s)
            out.append(s[i + 1])
            i += 2
        else:
            out.append(s[i])
            i += 1
    return "".join(out)


def generate(src, die, coq_str):
    cb = src("src/content_blocking.rs")
    L = []
    # ---------------------------------------------------------------- SPECIAL_CHARS
    m = re.search(r'static SPECIAL_CHARS: Lazy<Regex> =\s*Lazy::new\(\|\| Regex::new\(r##"\(\[(.*?)\]\)"##\)\.unwrap\(\)\);', cb, re.S)
    if not m:
        die("c20: SPECIAL_CHARS regex not recognised")
    cls = m.group(1)
    chars, i = [], 0
    while i < len(cls):
        c = cls[i]
        if c == "\\":
            if i + 1 >= len(cls):
                die("c20: dangling backslash in SPECIAL_CHARS")
            chars.append(cls[i + 1])
            i += 2
        elif c in "-[]^" and not (c == "^" and i > 0):
            die("c20: SPECIAL_CHARS is no longer a plain character list: %r" % cls)
        else:
            chars.append(c)
            i += 1
    if len(chars) < 5 or any(ord(c) > 127 for c in chars):
        die("c20: SPECIAL_CHARS not recognised: %r" % cls)
    if len(re.findall(r'SPECIAL_CHARS\.replace_all\(&[a-z_]+, r##"\\\$1"##\)', cb)) != 4:
        die("c20: SPECIAL_CHARS is no longer applied as a backslash escape in four places")
    L.append("(* src/content_blocking.rs: SPECIAL_CHARS = %s, replaced by \\$1 *)" % cls.replace("*)", "* )"))
    L.append("Definition cb_special_chars : list N := [%s]." % "; ".join(str(ord(c)) for c in chars))
    # ---------------------------------------------------------------- wildcard / trailing separator
    if not re.search(r'static REPLACE_WILDCARDS: Lazy<Regex> = Lazy::new\(\|\| Regex::new\(r##"\\\*"##\)\.unwrap\(\)\);', cb):
        die("c20: REPLACE_WILDCARDS not recognised")
    if len(re.findall(r'REPLACE_WILDCARDS\.replace_all\(&escaped_special_chars, "\.\*"\)', cb)) != 2:
        die("c20: REPLACE_WILDCARDS replacement not recognised")
    if not re.search(r'static TRAILING_SEPARATOR: Lazy<Regex> = Lazy::new\(\|\| Regex::new\(r##"\\\^\$"##\)\.unwrap\(\)\);', cb):
        die("c20: TRAILING_SEPARATOR not recognised")
    L.append("Definition cb_wildcard_char : N := 42.  Definition cb_wildcard_text : list N := %s." % _bytes(".*"))
    L.append("Definition cb_trailing_separator_char : N := 94.")
    # ---------------------------------------------------------------- text constants
    fm = re.findall(r'format!\(\s*"((?:[^"\\]|\\.)*)\{\}",', cb)
    fm = [f for f in fm if f.startswith("^[")]
    if len(fm) != 2 or fm[0] != fm[1]:
        die("c20: hostname prefix format strings not recognised: %r" % fm)
    try:
        L.append("Definition cb_host_prefix_text : list N := %s." % _bytes(_unescape_rust(fm[0])))
    except ValueError:
        die("c20: unexpected escape in the hostname prefix")
    NOSCHEME = r'return Err\(CbRuleCreationFailure::NoSupportedNetworkOptions\(v\.mask\)\);'
    m = re.search(r'let scheme_part = if v(.*?)' + NOSCHEME, cb, re.S)
    if not m:
        die("c20: scheme_part chain not recognised")
    sp = re.findall(r'"([^"]*)"', m.group(1))
    if len(sp) != 4 or sp[0] != "":
        die("c20: scheme_part strings not recognised: %r" % sp)
    m = re.search(r'\(crate::filters::network::FilterPart::Empty, None\) => if v(.*?)' + NOSCHEME, cb, re.S)
    if not m:
        die("c20: empty-filter scheme chain not recognised")
    se = re.findall(r'"([^"]*)"', m.group(1))
    if len(se) != 4:
        die("c20: empty-filter scheme strings not recognised: %r" % se)
    for name, s in zip(["http", "https", "ws"], sp[1:]):
        L.append("Definition cb_scheme_part_%s : list N := %s." % (name, _bytes(s)))
    for name, s in zip(["both", "http", "https", "ws"], se):
        L.append("Definition cb_scheme_only_%s : list N := %s." % (name, _bytes(s)))
    m = re.search(r'url_filter: String::from\("([^"]*)"\)', cb)
    m2 = re.search(r'url_filter: "([^"]*)"\.to_string\(\)', cb)
    if not m or not m2 or m.group(1) != m2.group(1):
        die("c20: match-everything url-filter constant not recognised")
    L.append("Definition cb_match_all_text : list N := %s." % _bytes(m.group(1)))
    m3 = re.search(r'let url_filter = if url_filter\.is_empty\(\) \{\s*"([^"]*)"\.to_string\(\)\s*\} else \{\s*url_filter\s*\};', cb)
    if not m3 or m3.group(1) != m.group(1):
        die("c20: replacement of an empty url-filter not recognised")
    if "unreachable!" in cb:
        die("c20: unreachable!() is back in content_blocking.rs")
    if len(re.findall(r'url_filter \+= "\$";', cb)) != 2 or len(re.findall(r'url_filter \+= "\.\*";', cb)) != 1:
        die("c20: right-anchor / hostname-regex suffixes not recognised")
    if not re.search(r'collection\.push\(format!\("\*\{\}", normalized_domain\)\);', cb):
        die("c20: domain '*' prefix not recognised")
    # ---------------------------------------------------------------- resource types
    m = re.search(r"pub enum CbResourceType \{(.*?)\}", cb, re.S)
    if not m:
        die("c20: CbResourceType not found")
    variants = re.findall(r"^\s*(\w+),", m.group(1), re.M)
    if len(variants) < 5:
        die("c20: CbResourceType variants not recognised")
    for i, v in enumerate(variants):
        L.append("Definition CbRT_%s : N := %d." % (v, i))
    L.append("Definition cb_resource_type_names : list string := [%s]." % "; ".join(coq_str(v) for v in variants))
    pushes = re.findall(r"push_if_flag!\((\w+)(?:,\s*(\w+))?\);", cb)
    if len(pushes) < 8:
        die("c20: push_if_flag! table not recognised")
    rows = []
    for flag, target in pushes:
        if target and target not in variants:
            die("c20: unknown resource type %s" % target)
        rows.append("(M_%s, %s)" % (flag, ("Some CbRT_%s" % target) if target else "None"))
    L.append("(* push_if_flag!(FLAG, Target) / push_if_flag!(FLAG) = unsupported *)")
    L.append("Definition cb_resource_table : list (N * option N) := [%s]." % "; ".join(rows))
    return L
