"""C12 translator fragment: tables of src/url_parser/parser.rs used by the URL scanner model.

* the three percent-encode sets FRAGMENT / PATH / USERINFO (the bytes added on top of CONTROLS),
* SchemeType::from (special schemes, file),
* the characters ignored by next_utf8 / parse_host, the trim predicate bound.
"""
import re


def _byte(lit, die):
    # lit is the text between b' and ' of a Rust byte literal
    if len(lit) == 1:
        return ord(lit)
    esc = {"\\\\": 92, "\\'": 39, "\\\"": 34, "\\n": 10, "\\r": 13, "\\t": 9, "\\0": 0}
    if lit in esc:
        return esc[lit]
    die("c12_url_tables: byte literal b'%s' not understood" % lit)


def _char(lit, die):
    esc = {"\\t": 9, "\\n": 10, "\\r": 13, "\\\\": 92, "\\'": 39}
    if len(lit) == 1:
        return ord(lit)
    if lit in esc:
        return esc[lit]
    die("c12_url_tables: char literal '%s' not understood" % lit)


def generate(src, die, coq_str):
    p = src("src/url_parser/parser.rs")
    out = ["(* src/url_parser/parser.rs: percent-encode sets, SchemeType::from, ignored characters *)"]
    sets = {}
    for name, base in (("FRAGMENT", "CONTROLS"), ("PATH", "FRAGMENT"), ("USERINFO", "PATH")):
        m = re.search(r"const %s: &AsciiSet = &%s((?:\s*\.add\(b'(?:\\.|[^'\\])'\))+);" % (name, base), p)
        if not m:
            die("c12_url_tables: percent-encode set %s (on top of %s) not recognised" % (name, base))
        lits = re.findall(r"\.add\(b'((?:\\.|[^'\\]))'\)", m.group(1))
        sets[name] = [_byte(l, die) for l in lits]
        out.append("Definition url_%s_set_extra : list N := [%s]." % (name.lower(), "; ".join(str(b) for b in sets[name])))
    if "utf8_percent_encode(utf8_c, USERINFO)" not in p:
        die("c12_url_tables: parse_userinfo no longer encodes with USERINFO")
    m = re.search(r"pub fn from\(s: &str\) -> Self \{\s*match s \{(.*?)\n        \}", p, re.S)
    if not m:
        die("c12_url_tables: SchemeType::from not recognised")
    arms = re.findall(r"((?:\"[^\"]*\"\s*\|?\s*)+|_)\s*=>\s*SchemeType::(\w+)", m.group(1))
    tab = {}
    for lhs, rhs in arms:
        if lhs.strip() == "_":
            tab.setdefault(rhs, [])
            default = rhs
        else:
            tab.setdefault(rhs, []).extend(re.findall(r"\"([^\"]*)\"", lhs))
    if set(tab) != {"SpecialNotFile", "File", "NotSpecial"} or default != "NotSpecial" or tab["NotSpecial"]:
        die("c12_url_tables: SchemeType::from arms changed: %r" % (tab,))
    if "!matches!(self, SchemeType::NotSpecial)" not in p:
        die("c12_url_tables: SchemeType::is_special changed")
    out.append("Definition url_special_schemes : list string := [%s]." % "; ".join(coq_str(s) for s in tab["SpecialNotFile"]))
    out.append("Definition url_file_schemes : list string := [%s]." % "; ".join(coq_str(s) for s in tab["File"]))
    # ignored characters: must be the same list in next_utf8 and parse_host
    m1 = re.search(r"if !matches!\(c, ((?:'(?:\\.|[^'\\])'\s*\|?\s*)+)\)", p)
    m2 = re.search(r"\n\s*((?:'(?:\\.|[^'\\])'\s*\|?\s*)+)=> \{\s*has_ignored_chars = true;", p)
    if not (m1 and m2):
        die("c12_url_tables: ignored-character lists not recognised")
    l1 = [_char(c, die) for c in re.findall(r"'((?:\\.|[^'\\]))'", m1.group(1))]
    l2 = [_char(c, die) for c in re.findall(r"'((?:\\.|[^'\\]))'", m2.group(1))]
    out.append("Definition url_ignored_next_utf8 : list N := [%s]." % "; ".join(map(str, l1)))
    out.append("Definition url_ignored_parse_host : list N := [%s]." % "; ".join(map(str, l2)))
    # characters filtered out of the collected host (must be the same list again)
    m3 = re.search(r"\.filter\(\|c\| !matches!\(c, ((?:'(?:\\.|[^'\\])'\s*\|?\s*)+)\)\)", p)
    if not m3:
        die("c12_url_tables: host filter of ignored characters not recognised")
    l3 = [_char(c, die) for c in re.findall(r"'((?:\\.|[^'\\]))'", m3.group(1))]
    out.append("Definition url_ignored_host_filter : list N := [%s]." % "; ".join(map(str, l3)))
    if "take(non_ignored_chars + ignored_chars)" not in p:
        die("c12_url_tables: parse_host no longer takes non_ignored_chars + ignored_chars")
    # bytes of the idna output that make parse_host return IdnaError
    m4 = re.search(r"let encoded = idna::domain_to_ascii\(host_str\)\?;.*?if encoded\.bytes\(\)\.any\(\|b\| \{\s*matches!\(b, (.*?)\)\s*\}\) \{\s*return Err\(ParseError::IdnaError\);", p, re.S)
    if not m4:
        die("c12_url_tables: rejection of idna output bytes not recognised")
    rej = []
    for item in [x.strip() for x in re.split(r"\s\|\s", m4.group(1).strip())]:
        mm = re.fullmatch(r"(\d+|0x[0-9a-fA-F]+)\.\.=b'((?:\\.|[^'\\]))'", item)
        if mm:
            rej.extend(range(int(mm.group(1), 0), _byte(mm.group(2), die) + 1))
            continue
        mm = re.fullmatch(r"b'((?:\\.|[^'\\]))'", item)
        if mm:
            rej.append(_byte(mm.group(1), die))
            continue
        if re.fullmatch(r"\d+|0x[0-9a-fA-F]+", item):
            rej.append(int(item, 0))
            continue
        die("c12_url_tables: rejected-byte pattern item %r not understood" % item)
    out.append("Definition url_idna_rejected_bytes : list N := [%s]." % "; ".join(map(str, rej)))
    m = re.search(r"fn c0_control_or_space\(ch: char\) -> bool \{\s*ch <= '(.)'", p)
    if not m:
        die("c12_url_tables: c0_control_or_space not recognised")
    out.append("Definition url_trim_max : N := %d." % ord(m.group(1)))
    return out
