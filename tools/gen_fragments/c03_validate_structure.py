"""Translator fragment: `validate_options` (src/filters/network.rs) — the scan over the parsed
options and the two rejections.

Extracted: the start values of the three accumulators; the if-chain inside the loop as a decision
list (formula over "is a csp option" / "is a content-type option" / "is a redirection" / "is a
removeparam option", the assignments made); after the loop the rejections in source order (formula
over the accumulators, error).  The whole list is scanned before anything is rejected, so the order
in which `csp` and a type option are written cannot matter (the seeded C15-14 rejects while
scanning and fails this fragment closed).
Struct_Options_Proofs.v interprets it and proves it to be C03_Model.validate_options.
"""
import importlib.util
import os
import re

PROPERTIES = ["C03", "C15"]

_here = os.path.dirname(os.path.abspath(__file__))
_spec = importlib.util.spec_from_file_location("c01_blocker_structure", os.path.join(_here, "c01_blocker_structure.py"))
_bs = importlib.util.module_from_spec(_spec)
_spec.loader.exec_module(_bs)


def norm(t):
    return "".join(t.split())


ATOMS = [("matches!(option,NetworkFilterOption::Csp(..))", "V_csp"),
         ("option.is_content_type()", "V_content_type"),
         ("option.is_redirection()", "V_redirection"),
         ("matches!(option,NetworkFilterOption::Removeparam(..))", "V_removeparam")]
EFFECTS = {"has_csp=true;": "E_has_csp", "has_content_type=true;": "E_has_content_type", "modifier_options+=1;": "E_modifier"}


def cond(t, die):
    parts = []
    for d in t.split("||"):
        for k, v in ATOMS:
            if d == k:
                parts.append(v)
                break
        else:
            die("validate_options: condition not recognised: %r" % d)
    return "[%s]" % "; ".join(parts)


def generate(src, die, coq_str):
    b = _bs.strip_comments(src("src/filters/network.rs"))
    raw = _bs.fn_body(b, r"fn validate_options\(options: &\[NetworkFilterOption\]\)\s*->\s*Result<\(\), NetworkFilterError>\s*\{", die)
    m = re.search(r"for\s+option\s+in\s+options\s*\{", raw)
    if not m:
        die("validate_options: the loop is not recognised")
    head = norm(raw[:m.start()])
    mh = re.fullmatch(r"letmuthas_csp=(true|false);letmuthas_content_type=(true|false);letmutmodifier_options=(\d+);", head)
    if not mh:
        die("validate_options: accumulators not recognised: %r" % head[:200])
    s_csp, s_ct, s_n = mh.groups()
    loop, end = _bs.block_at(raw, m.end() - 1, die)
    rest = norm(raw[end:])
    st = _bs.statements(loop, die)
    if len(st) != 1 or st[0][0] != "if" or st[0][2] is not None:
        die("validate_options: the loop body is not one if-chain without else")
    entries = []
    for c, blk in st[0][1]:
        effs = []
        c = norm(c)
        x = norm(blk)
        while x:
            for k, v in EFFECTS.items():
                if x.startswith(k):
                    effs.append(v)
                    x = x[len(k):]
                    break
            else:
                die("validate_options: assignment not recognised: %r" % x[:80])
        entries.append("(%s, [%s])" % (cond(c, die), "; ".join(effs)))
    m = re.fullmatch(r"ifhas_csp&&has_content_type\{returnErr\(NetworkFilterError::(\w+)\);\}"
                     r"ifmodifier_options>(\d+)\{returnErr\(NetworkFilterError::(\w+)\);\}Ok\(\(\)\)", rest)
    if not m:
        die("validate_options: the rejections after the loop are not recognised: %r" % rest[:200])
    e1, lim, e2 = m.groups()
    return ["Module ValidateGen.",
            "Inductive vatom := V_csp | V_content_type | V_redirection | V_removeparam.",
            "Inductive veffect := E_has_csp | E_has_content_type | E_modifier.",
            "Definition start : bool * bool * N := (%s, %s, %s)." % (s_csp, s_ct, s_n),
            "(* per option: first entry one of whose atoms holds makes its assignments *)",
            "Definition scan : list (list vatom * list veffect) := [%s]." % "; ".join(entries),
            "(* after the whole scan, in this order *)",
            "Definition reject_csp_with_type : string := %s." % coq_str(e1),
            "Definition modifier_limit : N := %s." % lim,
            "Definition reject_modifiers : string := %s." % coq_str(e2),
            "End ValidateGen."]
