"""C08/C09/C10 translator fragment: the header / version dispatch of the serialized format.

From src/data_format/mod.rs: the magic bytes `ADBLOCK_RUST_DAT_MAGIC`, the legacy gzip header
`FLATE2_GZ_HEADER_BYTES`, and the shape of `DeserializeFormat::deserialize` (the arms of the
`match version`, the order of the `starts_with` tests).  From src/data_format/v0.rs: what
`SerializeFormat::serialize` writes in front of the msgpack payload, the two `assert!`s and the
payload slice of `DeserializeFormat::deserialize`, the field order of the wire structs.
From src/engine.rs: the order of operations of `Engine::deserialize` (decode with `?` before the
first assignment to `self`).  Fails closed: any fragment that is no longer recognised is a broken
tie.
"""
import re


def _bytes(txt, die, what):
    out = []
    for t in txt.split(","):
        t = t.strip()
        if not t:
            continue
        try:
            v = int(t, 0)
        except ValueError:
            die("c10_header: cannot read byte `%s` of %s" % (t, what))
        if not 0 <= v < 256:
            die("c10_header: byte out of range in %s" % what)
        out.append(v)
    return out


def _fields(body):
    body = re.sub(r"//[^\n]*", "", body)
    body = re.sub(r"#\[[^\]]*\]", "", body)
    return re.findall(r"^\s*(?:pub(?:\([a-z]+\))?\s+)?([a-z_][a-z_0-9]*)\s*:(?!:)", body, re.M)


def generate(src, die, coq_str):
    mod = src("src/data_format/mod.rs")
    v0 = src("src/data_format/v0.rs")
    eng = src("src/engine.rs")
    out = []
    m = re.search(r"const ADBLOCK_RUST_DAT_MAGIC: \[u8; (\d+)\] = \[([^\]]*)\];", mod)
    if not m:
        die("c10_header: ADBLOCK_RUST_DAT_MAGIC not found")
    magic = _bytes(m.group(2), die, "magic")
    if len(magic) != int(m.group(1)):
        die("c10_header: magic length mismatch")
    g = re.search(r"const FLATE2_GZ_HEADER_BYTES: \[u8; (\d+)\] = \[([^\]]*)\];", mod)
    if not g:
        die("c10_header: FLATE2_GZ_HEADER_BYTES not found")
    gz = _bytes(g.group(2), die, "gzip header")
    if len(gz) != int(g.group(1)):
        die("c10_header: gzip header length mismatch")
    out.append("(* src/data_format/mod.rs *)")
    out.append("Definition DAT_MAGIC : list N := [%s]." % "; ".join(str(b) for b in magic))
    out.append("Definition GZ_HEADER : list N := [%s]." % "; ".join(str(b) for b in gz))

    # shape of DeserializeFormat::deserialize: normalised text compared with the modelled shape
    d = re.search(r"pub\(crate\) fn deserialize\(serialized: &\[u8\]\) -> Result<Self, DeserializationError> \{(.*?)\n    \}\n\}", mod, re.S)
    if not d:
        die("c10_header: DeserializeFormat::deserialize not found")
    body = re.sub(r"///[^\n]*", "", d.group(1))
    body = re.sub(r"//[^\n]*", "", body)
    body = re.sub(r"const FLATE2_GZ_HEADER_BYTES.*?\];", "", body, flags=re.S)
    norm = re.sub(r"\s+", "", body)
    want = ("ifserialized.starts_with(&ADBLOCK_RUST_DAT_MAGIC){"
            "letversion=serialized.get(ADBLOCK_RUST_DAT_MAGIC.len()).copied();"
            "matchversion{None=>Err(DeserializationError::NoHeaderFound),"
            "Some(0)=>Ok(Self::V0(v0::DeserializeFormat::deserialize(serialized)?)),"
            "Some(v)=>Err(DeserializationError::UnsupportedFormatVersion(v)),}"
            "}elseifserialized.starts_with(&FLATE2_GZ_HEADER_BYTES){"
            "Err(DeserializationError::LegacyFormatNoLongerSupported)"
            "}else{Err(DeserializationError::NoHeaderFound)}")
    if norm != want:
        die("c10_header: the header dispatch in DeserializeFormat::deserialize changed shape:\n" + norm)
    out.append("Definition DISPATCH_V0_VERSION : N := 0.   (* the `Some(0)` arm; shape of the dispatch checked textually *)")
    out.append("Definition DISPATCH_VERSION_VIA_GET : bool := true.   (* `serialized.get(MAGIC.len())`, not an index *)")

    # v0: what serialize() writes before the payload, and the asserts + slice of deserialize()
    s = re.search(r"pub fn serialize\(&self\) -> Result<Vec<u8>, SerializationError> \{(.*?)\n    \}", v0, re.S)
    if not s or re.sub(r"\s+", "", s.group(1)) != (
            "letmutoutput=super::ADBLOCK_RUST_DAT_MAGIC.to_vec();output.push(0);"
            "rmps::encode::write(&mutoutput,&self)?;Ok(output)"):
        die("c10_header: v0 SerializeFormat::serialize changed shape")
    out.append("(* src/data_format/v0.rs *)")
    out.append("Definition V0_VERSION_BYTE : N := 0.")
    dd = re.search(r"pub fn deserialize\(serialized: &\[u8\]\) -> Result<Self, DeserializationError> \{(.*?)\n    \}", v0, re.S)
    ddn = re.sub(r"\s+", "", re.sub(r"//[^\n]*", "", dd.group(1))) if dd else ""
    entry = None
    if "rmps::decode::from_read(" in ddn:
        die("c10_header: v0 deserialize decodes with rmps::decode::from_read again: its ReadReader allocates "
            "what a length prefix announces (finding F25, fixed by 20ac931)")
    for fn in ("from_slice", "from_read_ref"):
        if ddn == ("assert!(serialized.starts_with(&super::ADBLOCK_RUST_DAT_MAGIC));"
                   "assert!(serialized[super::ADBLOCK_RUST_DAT_MAGIC.len()]==0);"
                   "letformat:Self=rmps::decode::%s(&serialized[super::ADBLOCK_RUST_DAT_MAGIC.len()+1..])?;"
                   "Ok(format)" % fn):
            entry = fn
    if entry is None:
        die("c10_header: v0 DeserializeFormat::deserialize changed shape:\n" + ddn)
    out.append("Definition V0_DECODER_ENTRY : string := %s.   (* rmps::decode::<this>(&serialized[MAGIC.len() + 1..]) *)" % coq_str(entry))
    out.append("Definition V0_PAYLOAD_OFFSET : nat := %d.   (* MAGIC.len() + 1 *)" % (len(magic) + 1))

    # field order of the wire structs (struct -> msgpack array in declaration order)
    def struct_fields(pattern, what):
        mm = re.search(pattern, v0, re.S)
        if not mm:
            die("c10_header: %s not found" % what)
        return _fields(mm.group(1))

    ser = struct_fields(r"pub\(crate\) struct SerializeFormat<'a> \{(.*?)\n\}", "SerializeFormat")
    de = struct_fields(r"pub\(crate\) struct DeserializeFormat \{(.*?)\n\}", "DeserializeFormat")
    rs = struct_fields(r"struct NetworkFilterV0SerializeFmt<'a> \{(.*?)\n\}", "NetworkFilterV0SerializeFmt")
    rd = struct_fields(r"pub\(crate\) struct NetworkFilterV0DeserializeFmt \{(.*?)\n\}", "NetworkFilterV0DeserializeFmt")
    if [f.lstrip("_") for f in ser] != [f.lstrip("_") for f in de]:
        die("c10_header: SerializeFormat and DeserializeFormat fields differ: %s vs %s" % (ser, de))
    if rs != rd:
        die("c10_header: rule wire structs differ: %s vs %s" % (rs, rd))
    out.append("Definition WIRE_FIELDS : list string := [%s]." % "; ".join(coq_str(f) for f in ser))
    out.append("Definition WIRE_RULE_FIELDS : list string := [%s]." % "; ".join(coq_str(f) for f in rs))
    en = re.search(r"enum LegacySpecificFilterType \{(.*?)\n\}", v0, re.S)
    if not en:
        die("c10_header: LegacySpecificFilterType not found")
    variants = re.findall(r"^\s*([A-Z][A-Za-z]*)\(", en.group(1), re.M)
    out.append("Definition LEGACY_VARIANTS : list string := [%s]." % "; ".join(coq_str(f) for f in variants))
    net = src("src/filters/network.rs")
    fp = re.search(r"pub enum FilterPart \{(.*?)\n\}", net, re.S)
    if not fp:
        die("c10_header: FilterPart not found")
    out.append("Definition FILTER_PART_VARIANTS : list string := [%s]." % "; ".join(
        coq_str(f) for f in re.findall(r"^\s*([A-Z][A-Za-z]*)", fp.group(1), re.M)))

    # what from_wire does NOT restore (the documented losses of C08)
    fw = re.search(r"impl From<DeserializeFormat> for \(Blocker, CosmeticFilterCache\) \{(.*?)\n\}\n", v0, re.S)
    if not fw:
        die("c10_header: From<DeserializeFormat> not found")
    fwn = re.sub(r"\s+", "", fw.group(1))
    out.append("Definition REMOVEPARAM_RESTORED_EMPTY : bool := %s.   (* `removeparam: NetworkFilterList::default()` *)"
               % ("true" if "removeparam:NetworkFilterList::default()," in fwn else "false"))
    out.append("Definition REMOVEPARAM_ON_WIRE : bool := %s." % ("true" if "removeparam" in ser else "false"))
    out.append("Definition SCRIPT_PERMISSION_RESTORED_DEFAULT : bool := %s.   (* `inject_script.insert(&hash, (s, Default::default()))` *)"
               % ("true" if "inject_script.insert(&hash,(s,Default::default()))" in re.sub(r"\s+", "", v0) else "false"))

    # Engine::deserialize: decode (with `?`) strictly before the first assignment to self
    ed = re.search(r"pub fn deserialize\(\s*&mut self,\s*serialized: &\[u8\],\s*\) -> Result<\(\), crate::data_format::DeserializationError> \{(.*?)\n    \}", eng, re.S)
    if not ed:
        die("c10_header: Engine::deserialize not found")
    en_norm = re.sub(r"\s+", "", ed.group(1))
    want_e = ("usecrate::data_format::DeserializeFormat;"
              "letcurrent_tags=self.blocker.tags_enabled();"
              "letdeserialize_format=DeserializeFormat::deserialize(serialized)?;"
              "let(blocker,cosmetic_cache)=deserialize_format.build();"
              "self.blocker=blocker;"
              "self.blocker.use_tags(&current_tags.iter().map(|s|&**s).collect::<Vec<_>>());"
              "self.cosmetic_cache=cosmetic_cache;Ok(())")
    if en_norm != want_e:
        die("c10_header: Engine::deserialize changed shape:\n" + en_norm)
    out.append("(* src/engine.rs: Engine::deserialize decodes with `?` before the first assignment to self (checked textually) *)")
    out.append("Definition ENGINE_DESERIALIZE_DECODES_FIRST : bool := true.")

    # the matchers must not contain unreachable!/unwrap()/expect( (F11)
    mt = src("src/filters/network_matchers.rs")
    mt = re.sub(r"//[^\n]*", "", mt)
    n = len(re.findall(r"unreachable!|\.unwrap\(\)|\.expect\(|panic!", mt))
    out.append("(* src/filters/network_matchers.rs: number of unreachable!/unwrap()/expect()/panic! occurrences *)")
    out.append("Definition MATCHERS_PANIC_SITES : N := %d." % n)
    rm = src("src/regex_manager.rs")
    cr = "filter_str.strip_prefix('/').and_then(|s|s.strip_suffix('/')).unwrap_or(filter_str)" in re.sub(r"\s+", "", rm)
    out.append("Definition COMPLETE_REGEX_BODY_VIA_STRIP : bool := %s.   (* regex_manager.rs compile_regex *)" % ("true" if cr else "false"))
    return out
