"""C17 translator fragment: the three regular expressions of `key_from_selector`
(src/cosmetic_filter_cache.rs), as Coq strings, and the two prefix characters tested by
`add_generic_filter`.  C17_Model.v transcribes their leftmost-first semantics by hand
(step_plain / step_escaped / unescape); the pinned theorem `C17_regexes_as_modelled` compares the
generated strings with the ones the model was written for, so an edit of a regex breaks the proof
stage instead of silently leaving the model behind."""
import re


def generate(src, die, coq_str):
    text = src("src/cosmetic_filter_cache.rs")
    m = re.search(r"fn key_from_selector\(selector: &str\) -> Option<String> \{(.*?)\n\}\n", text, re.S)
    if not m:
        die("c17_regexes: fn key_from_selector not found")
    body = m.group(1)
    found = dict(re.findall(r'static\s+(RE_[A-Z_]+)\s*:\s*Lazy<Regex>\s*=\s*Lazy::new\(\|\|\s*Regex::new\(r"([^"]*)"\)\.unwrap\(\)\)', body))
    want = ["RE_PLAIN_SELECTOR", "RE_PLAIN_SELECTOR_ESCAPED", "RE_ESCAPE_SEQUENCE"]
    if sorted(found) != sorted(want):
        die("c17_regexes: expected statics %s, found %s" % (want, sorted(found)))
    out = []
    for n in want:
        out.append("Definition c17_%s : string := %s." % (n.lower(), coq_str(found[n])))
    # radix of the escape and the order of the uses
    rad = re.search(r"u32::from_str_radix\([^,]+,\s*(\d+)\)", body)
    if not rad:
        die("c17_regexes: u32::from_str_radix not found")
    out.append("Definition c17_escape_radix : N := %s." % rad.group(1))
    order = re.findall(r"(RE_[A-Z_]+)\.(?:find|captures_iter)\(", body)
    out.append("Definition c17_regex_use_order : list string := [%s]." % "; ".join(coq_str(x) for x in order))
    g = re.search(r"fn add_generic_filter\(&mut self, rule: CosmeticFilter\) \{(.*?)\n    \}\n", text, re.S)
    if not g:
        die("c17_regexes: fn add_generic_filter not found")
    prefixes = re.findall(r"selector\.starts_with\('(.)'\)", g.group(1))
    out.append("Definition c17_store_prefixes : list string := [%s]." % "; ".join(coq_str(x) for x in prefixes))
    return out
