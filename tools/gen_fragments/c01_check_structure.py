"""Translator fragment: the precedence logic of Blocker::check_parameterised (src/blocker.rs) —
which lists are consulted under which condition and how the verdict bits are formed.

Extracted with the brace / expression parser of c01_blocker_structure.py:
  * the early return on an unsupported request;
  * `let filter = if <cond> { <chain of list checks joined by or_else> } else { important_filter }`;
  * the arms of `let exception = match filter.as_ref() { .. }` (pattern, guard, consulted list);
  * the expressions of `matched` and `important`;
  * the replacement condition of the redirect loop (priority, then resource name).
Struct_Check_Proofs.v interprets this structure over the model's blocker and proves that the
interpretation IS Net_Model.blocker_check_p for every blocker, request and flag combination, and
that the replacement condition is C13_Model's.  (Which tag set each list receives is extracted by
c01_blocker_structure.py: BlockerGen.tag_sites; the interpretation reads it from there.)
"""
import importlib.util
import os
import re

PROPERTIES = ["C01", "C04", "C07", "C13"]

_here = os.path.dirname(os.path.abspath(__file__))
_spec = importlib.util.spec_from_file_location("c01_blocker_structure", os.path.join(_here, "c01_blocker_structure.py"))
_bs = importlib.util.module_from_spec(_spec)
_spec.loader.exec_module(_bs)

ATOMS = {
    "important_filter.is_none()": "Q_important_none",
    "matched_rule": "Q_matched_rule",
    "force_check_exceptions": "Q_force_exceptions",
    "exception.is_none()": "Q_exception_none",
    "filter.is_some()": "Q_filter_some",
    "filter.as_ref().map(|f| f.is_important()).unwrap_or_else(|| false)": "Q_filter_important",
    "f.is_important()": "Q_filter_important",
    "request.is_supported": "Q_supported",
    "priority > p1": "Q_prio_gt",
    "priority == p1": "Q_prio_eq",
    "resource < r1": "Q_name_lt",
}


def parse_cond(text, die):
    saved = _bs.ATOMS
    _bs.ATOMS = ATOMS
    try:
        return _bs.parse_cond(text, die)
    finally:
        _bs.ATOMS = saved


def coq_cond(e):
    if e[0] == "atom":
        return "(QAtom %s)" % e[1]
    if e[0] == "not":
        return "(QNot %s)" % coq_cond(e[1])
    return "(%s %s %s)" % ("QAnd" if e[0] == "and" else "QOr", coq_cond(e[1]), coq_cond(e[2]))


def stmt_end(s, i):
    """index of the ';' that ends the statement starting at i (depth 0)"""
    depth = 0
    for j in range(i, len(s)):
        c = s[j]
        if c in "{([":
            depth += 1
        elif c in "})]":
            depth -= 1
        elif c == ";" and depth == 0:
            return j
    return len(s)


def let_rhs(body, name, die):
    m = re.search(r"let\s+%s(?:\s*:\s*[^=]+)?\s*=\s*" % re.escape(name), body)
    if not m:
        die("check_parameterised: `let %s` not found" % name)
    return body[m.end():stmt_end(body, m.end())]


def checks_in(text):
    return re.findall(r"self\s*\.\s*(\w+)\s*\.\s*check\(", text)


def generate(src, die, coq_str):
    b = _bs.strip_comments(src("src/blocker.rs"))
    m = re.search(r"pub fn check_parameterised\(", b)
    if not m:
        die("check_parameterised not found")
    depth, j = 0, m.end() - 1
    while j < len(b):
        if b[j] == "(":
            depth += 1
        elif b[j] == ")":
            depth -= 1
            if depth == 0:
                break
        j += 1
    body, _ = _bs.block_at(b, b.index("{", j), die)

    # early return
    m = re.search(r"if\s+(!?\s*request\.is_supported)\s*\{\s*return\s+BlockerResult::default\(\)\s*;\s*\}", body)
    if not m:
        die("check_parameterised: early return on unsupported requests not recognised")
    unsupported = parse_cond(m.group(1), die)

    # important_filter
    imp = checks_in(let_rhs(body, "important_filter", die))
    if imp != ["importants"]:
        die("check_parameterised: important_filter is not importants.check: %r" % imp)

    # filter
    rhs = let_rhs(body, "filter", die).strip()
    if not rhs.startswith("if"):
        die("check_parameterised: `let filter` is not an if-expression")
    arms, els, _ = _bs.parse_if(rhs, 0, die)
    if len(arms) != 1 or els is None or "".join(els.split()) != "important_filter":
        die("check_parameterised: shape of `let filter` not recognised")
    fcond = parse_cond(arms[0][0], die)
    blk = arms[0][1]
    chain = checks_in(blk)
    flat = "".join(blk.split())
    if not chain or flat.count(".or_else(||") != len(chain) - 1:
        die("check_parameterised: the filter chain is not check().or_else(|| check()) ...: %r" % blk[:120])

    # exception
    rhs = let_rhs(body, "exception", die).strip()
    m = re.match(r"match\s+filter\.as_ref\(\)\s*\{", rhs)
    if not m:
        die("check_parameterised: `let exception` is not a match on filter.as_ref()")
    mblk, _ = _bs.block_at(rhs, m.end() - 1, die)
    arms_out = []
    i = 0
    while True:
        while i < len(mblk) and (mblk[i].isspace() or mblk[i] == ","):
            i += 1
        if i >= len(mblk):
            break
        m = re.match(r"(None|Some\(\s*\w+\s*\))\s*(?:if\s+(.*?))?\s*=>\s*", mblk[i:], re.S)
        if not m:
            die("check_parameterised: exception arm not recognised at %r" % mblk[i:i + 60])
        pat, guard = m.group(1), m.group(2)
        i += m.end()
        if mblk[i] == "{":
            abody, i = _bs.block_at(mblk, i, die)
        else:
            depth, j = 0, i
            while j < len(mblk):
                c = mblk[j]
                if c in "{([":
                    depth += 1
                elif c in "})]":
                    depth -= 1
                elif c == "," and depth == 0:
                    break
                j += 1
            abody, i = mblk[i:j], j
        lists = checks_in(abody)
        if lists:
            if len(lists) != 1:
                die("check_parameterised: exception arm consults several lists")
            act = lists[0]
        elif abody.strip() == "None":
            act = "none"
        else:
            die("check_parameterised: exception arm body not recognised: %r" % abody[:80])
        arms_out.append(("false" if pat == "None" else "true", parse_cond(guard, die) if guard else None, act))

    matched = parse_cond(let_rhs(body, "matched", die), die)
    important = parse_cond(let_rhs(body, "important", die), die)

    # redirect loop: replacement condition
    m = re.search(r"if\s+let\s+Some\(\(r1,\s*p1\)\)\s*=\s*resource_and_priority\s*\{\s*if\s+([^{]+)\{", body)
    if not m:
        die("check_parameterised: redirect replacement condition not recognised")
    repl = parse_cond(m.group(1), die)

    # ---- the entry points: what each public query hands to check_parameterised, in which order
    msig = re.search(r"pub fn check_parameterised\(\s*&self,\s*request: &Request,\s*resources: &ResourceStorage,\s*(\w+): bool,\s*(\w+): bool,?\s*\)", b)
    if not msig:
        die("check_parameterised: signature not recognised")
    params = [msig.group(1), msig.group(2)]
    if params != ["matched_rule", "force_check_exceptions"]:
        die("check_parameterised: flag parameters renamed or reordered: %r" % params)
    cb = "".join(_bs.fn_body(b, r"pub fn check\(&self, request: &Request, resources: &ResourceStorage\)\s*->\s*BlockerResult\s*\{", die).split())
    mc = re.fullmatch(r"self\.check_parameterised\(request,resources,(\w+),(\w+)\)", cb)
    if not mc:
        die("Blocker::check: not a forwarder to check_parameterised: %r" % cb)
    e = _bs.strip_comments(src("src/engine.rs"))
    eb = "".join(_bs.fn_body(e, r"pub fn check_network_request\(&self, request: &Request\)\s*->\s*BlockerResult\s*\{", die).split())
    if eb != "self.blocker.check(request,&self.resources)":
        die("Engine::check_network_request: not blocker.check(request, &self.resources): %r" % eb)
    ms = re.search(r"pub fn check_network_request_subset\(\s*&self,\s*request: &Request,\s*(\w+): bool,\s*(\w+): bool,?\s*\)\s*->\s*BlockerResult\s*\{", e)
    if not ms:
        die("Engine::check_network_request_subset: signature not recognised")
    sb, _ = _bs.block_at(e, ms.end() - 1, die)
    mm = re.fullmatch(r"self\.blocker\.check_parameterised\(request,&self\.resources,(\w+),(\w+),?\)", "".join(sb.split()))
    if not mm:
        die("Engine::check_network_request_subset: not a forwarder to check_parameterised: %r" % sb)
    # position of each public parameter among the two flags handed on
    names = {ms.group(1): "arg1", ms.group(2): "arg2"}
    if [ms.group(1), ms.group(2)] != ["previously_matched_rule", "force_check_exceptions"]:
        die("Engine::check_network_request_subset: public flag parameters renamed or reordered")
    sub = [names.get(mm.group(1)), names.get(mm.group(2))]
    if None in sub:
        die("Engine::check_network_request_subset: hands on something other than its two flags")
    gb = "".join(_bs.fn_body(e, r"pub fn get_csp_directives\(&self, request: &Request\)\s*->\s*Option<String>\s*\{", die).split())
    if gb != "self.blocker.get_csp_directives(request)":
        die("Engine::get_csp_directives: not a plain forwarder: %r" % gb)

    def c(e):
        return "QTrue" if e is None else coq_cond(e)
    out = ["Module CheckGen.",
           "Inductive qatom := Q_important_none | Q_matched_rule | Q_force_exceptions | Q_exception_none | Q_filter_some",
           "  | Q_filter_important | Q_supported | Q_prio_gt | Q_prio_eq | Q_name_lt.",
           "Inductive qcond := QTrue | QAtom (a : qatom) | QNot (c : qcond) | QAnd (a b : qcond) | QOr (a b : qcond).",
           "(* Blocker::check_parameterised *)",
           "Definition returns_default_when : qcond := %s." % c(unsupported),
           "Definition important_list : string := \"%s\"." % imp[0],
           "Definition filter_cond : qcond := %s." % c(fcond),
           "Definition filter_chain : list string := [%s]." % "; ".join(coq_str(x) for x in chain),
           "(* arms of `match filter.as_ref()`: (pattern is Some?, guard, list consulted | none) *)",
           "Definition exception_arms : list (bool * qcond * string) := [%s]." % "; ".join(
               "(%s, %s, \"%s\")" % (p, c(g), a) for p, g, a in arms_out),
           "Definition matched_cond : qcond := %s." % c(matched),
           "Definition important_cond : qcond := %s." % c(important),
           "Definition redirect_replace_cond : qcond := %s." % c(repl),
           "(* entry points: the (matched_rule, force_check_exceptions) each hands to check_parameterised *)",
           "Definition plain_query_flags : string * string := (\"%s\", \"%s\")." % (mc.group(1), mc.group(2)),
           "Definition subset_query_flags : string * string := (\"%s\", \"%s\")." % (sub[0], sub[1]),
           "End CheckGen."]
    return out
