"""Translator fragment: the pattern matchers of src/filters/network_matchers.rs — `check_pattern`
(the dispatch on the mask) and the eleven functions it dispatches to.

Extracted with the brace parser of c01_blocker_structure.py and a condition parser over the atoms
`mask.is_*()` / `filters.len() == 0` / `filters.len() > 0`:
  * `check_pattern`: the nested if-chain flattened to a decision list (formula over the mask, callee);
    the argument list of every call is checked literally;
  * the four un-anchored-by-hostname matchers (plain, `pattern|`, `|pattern`, `|pattern|`): "no
    pattern = match", the URL variant `request.get_url(mask.match_case())`, and the predicate of
    `filters.any(..)` (contains / ends_with / starts_with / equality);
  * `check_pattern_regex_filter` (start offset handed to `_at`) and `check_pattern_regex_filter_at`
    (the regex manager sees `request_url[start_from..]`);
  * the five hostname-anchored matchers: "no hostname = no match", the four arguments of
    `anchored_hostname_end` (rule hostname, request hostname, the wildcard flag, the must-end
    condition as a formula), "no anchored occurrence = no match", and what happens behind the
    occurrence: the regex on the URL from `get_url_after_anchor` on (offset `len - len`), a call to
    the `pattern|` matcher, or `filters.any(..)` with a predicate over the URL after the hostname —
    each behind "no pattern = match".
  * `anchored_hostname_end` (module AnchorGen): the two early returns, the loop condition, how the
    next occurrence is located (`memmem::find` on the hostname from `search_from`, `?` = give up),
    `match_end`, the label tests `starts_label` / `ends_label` as formulas over named atoms, the
    accepting return and the step `search_from = match_index + <k>`.
Struct_Matchers_Proofs.v interprets this structure over C02_Model's helpers and proves that for
every mask shape, pattern list, rule hostname and request it IS C02_Model.check_pattern_sh.
Any other spelling fails closed.
"""
import importlib.util
import os
import re

PROPERTIES = ["C02"]

_here = os.path.dirname(os.path.abspath(__file__))
_spec = importlib.util.spec_from_file_location("c01_blocker_structure", os.path.join(_here, "c01_blocker_structure.py"))
_bs = importlib.util.module_from_spec(_spec)
_spec.loader.exec_module(_bs)


def norm(t):
    return "".join(t.split())


ATOMS = [
    ("mask.is_hostname_anchor()", ("atom", "A_hn")),
    ("mask.is_complete_regex()", ("atom", "A_cr")),
    ("mask.is_regex()", ("atom", "A_rx")),
    ("mask.is_left_anchor()", ("atom", "A_la")),
    ("mask.is_right_anchor()", ("atom", "A_ra")),
    ("filters.len()==0", ("atom", "A_empty")),
    ("filters.len()>0", ("not", ("atom", "A_empty"))),
    ("filters.len()!=0", ("not", ("atom", "A_empty"))),
]


def parse_cond(text, die):
    t = norm(text)
    pos = [0]

    def peek(k=1):
        return t[pos[0]:pos[0] + k]

    def atom():
        if peek() == "!":
            pos[0] += 1
            return ("not", atom())
        if peek() == "(":
            pos[0] += 1
            e = disj()
            if peek() != ")":
                die("matchers: ')' expected in %r" % text)
            pos[0] += 1
            return e
        for k, v in ATOMS:
            if t.startswith(k, pos[0]):
                pos[0] += len(k)
                return v
        die("matchers: unknown atom at %r in %r" % (t[pos[0]:pos[0] + 40], text))

    def conj():
        e = atom()
        while peek(2) == "&&":
            pos[0] += 2
            e = ("and", e, atom())
        return e

    def disj():
        e = conj()
        while peek(2) == "||":
            pos[0] += 2
            e = ("or", e, conj())
        return e

    e = disj()
    if pos[0] != len(t):
        die("matchers: trailing text %r in %r" % (t[pos[0]:], text))
    return e


def coq_form(e):
    if e is None:
        return "MTrue"
    if e[0] == "atom":
        return "(MAtom %s)" % e[1]
    if e[0] == "not":
        return "(MNot %s)" % coq_form(e[1])
    return "(%s %s %s)" % ("MAnd" if e[0] == "and" else "MOr", coq_form(e[1]), coq_form(e[2]))


CALL_ARGS = {
    "check_pattern_hostname_anchor_regex_filter": "mask,filters,hostname,key,request,regex_manager,",
    "check_pattern_hostname_left_right_anchor_filter": "mask,filters,hostname,request",
    "check_pattern_hostname_right_anchor_filter": "mask,filters,hostname,request",
    "check_pattern_hostname_left_anchor_filter": "mask,filters,hostname,request",
    "check_pattern_hostname_anchor_filter": "mask,filters,hostname,request",
    "check_pattern_regex_filter": "mask,filters,key,request,regex_manager",
    "check_pattern_left_right_anchor_filter": "mask,filters,request",
    "check_pattern_left_anchor_filter": "mask,filters,request",
    "check_pattern_right_anchor_filter": "mask,filters,request",
    "check_pattern_plain_filter_filter": "mask,filters,request",
}


def callee_of(block, die):
    t = norm(block)
    m = re.fullmatch(r"(\w+)\((.*)\)", t)
    if not m or m.group(1) not in CALL_ARGS:
        die("check_pattern: branch is not a call of a known matcher: %r" % t[:120])
    want = CALL_ARGS[m.group(1)]
    if m.group(2).rstrip(",") != want.rstrip(","):
        die("check_pattern: %s is called with (%s)" % (m.group(1), m.group(2)))
    return m.group(1)


def flatten(ifstmt, outer, die):
    """('if', arms, else) -> [(cond AST or None, callee)]; a branch that is itself one if-chain is
    flattened with the branch condition conjoined"""
    _, arms, els = ifstmt
    out = []

    def conj(a, b):
        if a is None:
            return b
        if b is None:
            return a
        return ("and", a, b)

    def branch(cond, blk):
        st = _bs.statements(blk, die)
        if len(st) == 1 and st[0][0] == "if":
            return flatten(st[0], conj(outer, cond), die)
        return [(conj(outer, cond), callee_of(blk, die))]
    for cond, blk in arms:
        out += branch(parse_cond(cond, die), blk)
    if els is None:
        die("check_pattern: an if-chain without else")
    out += branch(None, els)
    return out


SIMPLE_PREDS = {
    "memmem::find(request_url.as_bytes(),f.as_bytes()).is_some()": "P_contains",
    "request_url.contains(f)": "P_contains",
    "request_url.ends_with(f)": "P_ends_with",
    "request_url.starts_with(f)": "P_starts_with",
    "request_url==f": "P_eq",
    "f==request_url": "P_eq",
}
AFTER_PREDS = {
    "url_after_hostname.contains(f)": "P_contains",
    "memmem::find(url_after_hostname.as_bytes(),f.as_bytes()).is_some()": "P_contains",
    "url_after_hostname.ends_with(f)": "P_ends_with",
    "url_after_hostname.starts_with(f)": "P_starts_with",
    "url_after_hostname==f": "P_eq",
    "f==url_after_hostname": "P_eq",
}
GET_URL = "letrequest_url=request.get_url(mask.match_case());"
EMPTY_RET = "iffilters.len()==0{returntrue;}"
AFTER = "leturl_after_hostname=get_url_after_anchor(request_url,&request.hostname,anchor_end);"


def closure_pred(t, table, die, who):
    m = re.fullmatch(r"filters\.any\(\|f\|\{?(.*?)\}?\)", t)
    if not m or m.group(1) not in table:
        die("%s: the predicate of filters.any is not recognised: %r" % (who, t[:160]))
    return table[m.group(1)]


# ------------------------------------------------------------------ anchored_hostname_end
AH_ATOMS = [
    ("match_index==0", "H_at_start"),
    ("filter_hostname.starts_with('.')", "H_filter_starts_dot"),
    ("hostname.as_bytes()[match_index-1]==b'.'", "H_prev_is_dot"),
    ("match_end==hostname_len", "H_at_end"),
    ("at_hostname_end", "H_must_end"),
    ("wildcard_filter_hostname", "H_wildcard"),
    ("filter_hostname.ends_with('.')", "H_filter_ends_dot"),
    ("hostname.as_bytes()[match_end]==b'.'", "H_next_is_dot"),
]


def parse_hform(text, die):
    t = norm(text)
    pos = [0]

    def peek(k=1):
        return t[pos[0]:pos[0] + k]

    def atom():
        if peek() == "!":
            pos[0] += 1
            return "(HNot %s)" % atom()
        if peek() == "(":
            pos[0] += 1
            e = disj()
            if peek() != ")":
                die("anchored_hostname_end: ')' expected in %r" % text)
            pos[0] += 1
            return e
        for k, v in AH_ATOMS:
            if t.startswith(k, pos[0]):
                pos[0] += len(k)
                return "(HAtom %s)" % v
        die("anchored_hostname_end: unknown atom at %r" % t[pos[0]:pos[0] + 50])

    def conj():
        e = atom()
        while peek(2) == "&&":
            pos[0] += 2
            e = "(HAnd %s %s)" % (e, atom())
        return e

    def disj():
        e = conj()
        while peek(2) == "||":
            pos[0] += 2
            e = "(HOr %s %s)" % (e, conj())
        return e

    e = disj()
    if pos[0] != len(t):
        die("anchored_hostname_end: trailing text %r" % t[pos[0]:])
    return e


def generate_anchor(b, die):
    body = norm(_bs.fn_body(
        b, r"fn anchored_hostname_end\(\s*filter_hostname: &str,\s*hostname: &str,\s*wildcard_filter_hostname: bool,"
           r"\s*at_hostname_end: bool,\s*\)\s*->\s*Option<usize>\s*\{", die))
    m = re.fullmatch(
        r"letfilter_hostname_len=filter_hostname\.len\(\);"
        r"iffilter_hostname_len==0\{returnSome\((\d+)\);\}"
        r"lethostname_len=hostname\.len\(\);"
        r"iffilter_hostname_len>hostname_len\{returnNone;\}"
        r"letmutsearch_from=(\d+);"
        r"whilesearch_from\+filter_hostname_len<=hostname_len\{"
        r"letmatch_index=search_from\+memmem::find\(&hostname\.as_bytes\(\)\[search_from\.\.\],filter_hostname\.as_bytes\(\),\)\?;"
        r"letmatch_end=match_index\+filter_hostname_len;"
        r"letstarts_label=(.*?);"
        r"letends_label=(.*?);"
        r"ifstarts_label&&ends_label\{returnSome\(match_end\);\}"
        r"search_from=match_index\+(\d+);\}None", body)
    if not m:
        die("anchored_hostname_end: the function is not recognised: %r" % body[:300])
    empty_ret, start, sl, el, step = m.groups()
    return ["Module AnchorGen.",
            "Inductive hatom := H_at_start | H_filter_starts_dot | H_prev_is_dot | H_at_end | H_must_end",
            "  | H_wildcard | H_filter_ends_dot | H_next_is_dot.",
            "Inductive hform := HAtom (a : hatom) | HNot (f : hform) | HAnd (a b : hform) | HOr (a b : hform).",
            "Definition empty_filter_hostname_answer : N := %s." % empty_ret,
            "Definition longer_than_hostname_is_none : bool := true.",
            "Definition search_start : N := %s." % start,
            "Definition loop_while : string := \"search_from+filter_hostname_len<=hostname_len\".",
            "Definition not_found_is_none : bool := true.",
            "Definition starts_label : hform := %s." % parse_hform(sl, die),
            "Definition ends_label : hform := %s." % parse_hform(el, die),
            "Definition accept : string := \"starts_label&&ends_label\".",
            "Definition search_step : N := %s." % step,
            "End AnchorGen."]


# ------------------------------------------------------------------ get_url_after_hostname / get_url_after_anchor
def char_lit(t, die):
    m = re.fullmatch(r"'(\\?.)'", t)
    if not m:
        die("get_url_after_anchor: char literal not recognised: %r" % t)
    return ord(m.group(1)[-1])


def generate_after(b, die):
    t = norm(_bs.fn_body(b, r"fn get_url_after_hostname<'a>\(url: &'a str, hostname: &str\)\s*->\s*&'a str\s*\{", die))
    if t != ("letstart=memmem::find(url.as_bytes(),hostname.as_bytes()).unwrap_or(url.len()-hostname.len());"
             "&url[start+hostname.len()..]"):
        die("get_url_after_hostname: not recognised: %r" % t)
    t = norm(_bs.fn_body(
        b, r"fn get_url_after_anchor<'a>\(url: &'a str, request_hostname: &str, anchor_end: usize\)\s*->\s*&'a str\s*\{", die))
    m = re.fullmatch(
        r"ifanchor_end==0\{returnurl;\}"
        r"letauthority_start=memmem::find\(url\.as_bytes\(\),b\"([^\"]*)\"\)\.map\(\|i\|i\+(\d+)\)\.unwrap_or\((\d+)\);"
        r"letauthority_len=url\[authority_start\.\.\]\.find\(\|c\|((?:c=='\\?.'\|\|)*c=='\\?.')\)\.unwrap_or\(url\.len\(\)-authority_start\);"
        r"lethost_search_start=url\[authority_start\.\.authority_start\+authority_len\]\.rfind\(('\\?.')\)"
        r"\.map\(\|i\|authority_start\+i\+(\d+)\)\.unwrap_or\(authority_start\);"
        r"get_url_after_hostname\(&url\[host_search_start\.\.\],request_hostname\)\.len\(\)"
        r"\.checked_add\(request_hostname\.len\(\)-anchor_end\)"
        r"\.and_then\(\|rest\|url\.len\(\)\.checked_sub\(rest\)\)"
        r"\.and_then\(\|start\|url\.get\(start\.\.\)\)\.unwrap_or\(\"\"\)", t)
    if not m:
        die("get_url_after_anchor: not recognised: %r" % t[:300])
    needle, skip, nofound, terms, at, plus = m.groups()
    term_bytes = [char_lit(x[3:], die) for x in terms.split("||")]
    return ["Module AfterGen.",
            "(* get_url_after_hostname: first occurrence of the hostname, else `len - len`; the rest after it *)",
            "Definition after_hostname_shape : string := \"find.unwrap_or(len-len);url[start+len..]\".",
            "Definition zero_anchor_is_whole_url : bool := true.",
            "Definition scheme_sep : list N := %s." % bytes_list(needle),
            "Definition scheme_sep_skip : N := %s." % skip,
            "Definition no_scheme_start : N := %s." % nofound,
            "Definition authority_terminators : list N := [%s]." % "; ".join(str(x) for x in term_bytes),
            "Definition userinfo_sep : N := %d." % char_lit(at, die),
            "Definition userinfo_skip : N := %s." % plus,
            "Definition rest_shape : string := \"after_hostname(url[host_search_start..]).len+(host.len-anchor_end);url.len-rest;url.get(start..)|empty\".",
            "End AfterGen."]


def bytes_list(s):
    return "[%s]" % "; ".join(str(x) for x in s.encode("utf-8"))


def strip_comments_keep_strings(s):
    """like c01_blocker_structure.strip_comments, but a `//` inside a "string literal" is text"""
    out = []
    i, n = 0, len(s)
    while i < n:
        c = s[i]
        if c == '"':
            j = i + 1
            while j < n and s[j] != '"':
                j += 2 if s[j] == "\\" else 1
            out.append(s[i:j + 1])
            i = j + 1
        elif s.startswith("//", i):
            while i < n and s[i] != "\n":
                i += 1
        elif s.startswith("/*", i):
            i = s.index("*/", i) + 2
        else:
            out.append(c)
            i += 1
    return "".join(out)


def generate(src, die, coq_str):
    b = strip_comments_keep_strings(src("src/filters/network_matchers.rs"))

    def body(name):
        return _bs.fn_body(b, r"fn %s<'a, FiltersIter>\(" % name, die)

    # ---- check_pattern
    st = _bs.statements(body("check_pattern"), die)
    if len(st) != 1 or st[0][0] != "if":
        die("check_pattern: the body is not one if-chain")
    dispatch = flatten(st[0], None, die)

    # ---- the four simple matchers
    simple = []
    for name in ("check_pattern_plain_filter_filter", "check_pattern_right_anchor_filter",
                 "check_pattern_left_anchor_filter", "check_pattern_left_right_anchor_filter"):
        t = norm(body(name))
        if not t.startswith(EMPTY_RET + GET_URL):
            die("%s: `no pattern = match` / the URL variant not recognised: %r" % (name, t[:160]))
        simple.append((name, closure_pred(t[len(EMPTY_RET + GET_URL):], SIMPLE_PREDS, die, name)))

    # ---- regex
    t = norm(body("check_pattern_regex_filter"))
    m = re.fullmatch(r"check_pattern_regex_filter_at\(mask,filters,key,request,(\d+),regex_manager\)", t)
    if not m:
        die("check_pattern_regex_filter: not a call of _at with a constant offset: %r" % t)
    regex_start = int(m.group(1))
    t = norm(body("check_pattern_regex_filter_at"))
    if t != GET_URL + "regex_manager.matches(mask,filters,key,&request_url[start_from..])":
        die("check_pattern_regex_filter_at: not recognised: %r" % t)

    # ---- the five hostname-anchored matchers
    hostm = []
    for name in ("check_pattern_hostname_anchor_regex_filter", "check_pattern_hostname_right_anchor_filter",
                 "check_pattern_hostname_left_right_anchor_filter", "check_pattern_hostname_left_anchor_filter",
                 "check_pattern_hostname_anchor_filter"):
        t = norm(body(name))
        has_url = t.startswith(GET_URL)
        if has_url:
            t = t[len(GET_URL):]
        m = re.fullmatch(r"hostname\.as_ref\(\)\.map\(\|hostname\|\{(.*)\}\)\.unwrap_or\(false\)", t)
        if not m:
            die("%s: `no hostname = no match` wrapper not recognised: %r" % (name, t[:120]))
        inner = m.group(1)
        call = (r"anchored_hostname_end\(hostname,&request\.hostname,"
                r"mask\.contains\(NetworkFilterMask::IS_HOSTNAME_REGEX\),([^,]+),?\)")
        m1 = re.match(r"ifletSome\(anchor_end\)=" + call, inner)
        m2 = re.match(r"if" + call + r"\.is_some\(\)", inner)
        mm = m1 or m2
        if not mm:
            die("%s: the call of anchored_hostname_end is not recognised: %r" % (name, inner[:200]))
        must_end = parse_cond(mm.group(1), die)
        then, end = _bs.block_at(inner, mm.end(), die)
        if inner[end:] != "else{false}":
            die("%s: `no anchored occurrence = no match` not recognised: %r" % (name, inner[end:end + 60]))
        if then == AFTER + ("check_pattern_regex_filter_at(mask,filters,key,request,"
                            "request_url.len()-url_after_hostname.len(),regex_manager,)"):
            if not (has_url and m1):
                die("%s: request_url / anchor_end are not bound" % name)
            tail = "T_regex_after"
        elif then == "iffilters.len()==0{true}else{check_pattern_right_anchor_filter(mask,filters,request)}":
            tail = "(T_empty_true_else_call %s)" % coq_str("check_pattern_right_anchor_filter")
        else:
            rest = None
            for pre in (EMPTY_RET + GET_URL, GET_URL + EMPTY_RET):
                if then.startswith(pre + AFTER):
                    rest = then[len(pre + AFTER):]
            if rest is None or not m1:
                die("%s: the statements behind the occurrence are not recognised: %r" % (name, then[:200]))
            tail = "(T_empty_true_else_any %s)" % closure_pred(rest, AFTER_PREDS, die, name)
        hostm.append((name, must_end, tail))

    out = ["Module MatchGen.",
           "Inductive matom := A_hn | A_rx | A_cr | A_la | A_ra | A_empty.",
           "Inductive mform := MTrue | MAtom (a : matom) | MNot (f : mform) | MAnd (a b : mform) | MOr (a b : mform).",
           "Inductive pred := P_contains | P_ends_with | P_starts_with | P_eq.",
           "Inductive htail := T_regex_after | T_empty_true_else_call (callee : string) | T_empty_true_else_any (p : pred).",
           "(* check_pattern: first entry whose formula holds names the matcher that decides *)",
           "Definition dispatch : list (mform * string) := [%s]." % "; ".join(
               "(%s, %s)" % (coq_form(c), coq_str(n)) for c, n in dispatch),
           "(* no pattern = match; otherwise some pattern satisfies the predicate on get_url(match_case) *)",
           "Definition simple_matchers : list (string * pred) := [%s]." % "; ".join(
               "(%s, %s)" % (coq_str(n), p) for n, p in simple),
           "Definition regex_start : N := %d." % regex_start,
           "Definition regex_sees_url_from_offset : bool := true.",
           "(* no hostname = no match; anchored_hostname_end(rule host, request host, IS_HOSTNAME_REGEX, must-end);",
           "   no occurrence = no match; then the tail *)",
           "Definition hostname_matchers : list (string * (mform * htail)) := [%s]." % "; ".join(
               "(%s, (%s, %s))" % (coq_str(n), coq_form(me), tl) for n, me, tl in hostm),
           "End MatchGen."]
    return out + generate_anchor(b, die) + generate_after(b, die)
