"""Translator fragment for C13: src/resources/mod.rs — enum MimeType, its two string tables
(From<&MimeType> for &str, From<&str> for MimeType), enum ResourceType and
ResourceType::supports_redirect; src/resources/resource_storage.rs — the data-URL format string
and the permission test of get_redirect_resource.  Emitted inside `Module C13Gen`."""
import re


def generate(src, die, coq_str):
    text = src("src/resources/mod.rs")
    text_nc = re.sub(r"//[^\n]*", "", text)
    out = []

    m = re.search(r"pub enum MimeType \{(.*?)\n\}", text_nc, re.S)
    if not m:
        die("c13_mime: enum MimeType not found")
    variants = re.findall(r"^\s*([A-Z]\w*),\s*$", m.group(1), re.M)
    if len(variants) < 5 or "Unknown" not in variants:
        die("c13_mime: MimeType variants not recognised: %r" % variants)

    m = re.search(r"pub enum ResourceType \{(.*?)\n\}", text_nc, re.S)
    if not m:
        die("c13_mime: enum ResourceType not found")
    kinds = re.findall(r"^\s*([A-Z]\w*)(\(MimeType\))?,\s*$", m.group(1), re.M)
    if sorted(k for k, _ in kinds) != ["Mime", "Template"] or dict(kinds)["Mime"] == "" or dict(kinds)["Template"] != "":
        die("c13_mime: ResourceType is not {Mime(MimeType), Template}: %r" % kinds)

    m = re.search(r"impl From<&MimeType> for &str \{\s*fn from\(v: &MimeType\) -> Self \{\s*match v \{(.*?)\n        \}", text_nc, re.S)
    if not m:
        die("c13_mime: From<&MimeType> for &str not found")
    to_str = re.findall(r"MimeType::(\w+)\s*=>\s*\"([^\"]*)\"", m.group(1))
    if [a for a, _ in to_str] != variants:
        die("c13_mime: MimeType -> &str table does not list the variants in order")

    m = re.search(r"impl From<&str> for MimeType \{\s*fn from\(v: &str\) -> Self \{\s*match v \{(.*?)\n        \}", text_nc, re.S)
    if not m:
        die("c13_mime: From<&str> for MimeType not found")
    from_str = re.findall(r"\"([^\"]*)\"\s*=>\s*MimeType::(\w+)", m.group(1))
    dflt = re.search(r"_\s*=>\s*MimeType::(\w+)", m.group(1))
    if not from_str or not dflt:
        die("c13_mime: &str -> MimeType table not recognised")
    for _, v in from_str:
        if v not in variants:
            die("c13_mime: unknown variant %s in &str -> MimeType table" % v)

    m = re.search(r"pub fn supports_redirect\(&self\) -> bool \{\s*(!?)matches!\(\s*self,\s*(.*?)\s*\)\s*\}", text_nc, re.S)
    if not m:
        die("c13_mime: supports_redirect not recognised")
    negated = m.group(1) == "!"
    pats = [p.strip() for p in m.group(2).split("|")]
    coq_pats = []
    for p in pats:
        if p == "ResourceType::Template":
            coq_pats.append("Kind_Template")
        else:
            mm = re.fullmatch(r"ResourceType::Mime\(MimeType::(\w+)\)", p)
            if not mm or mm.group(1) not in variants:
                die("c13_mime: supports_redirect pattern not recognised: %s" % p)
            coq_pats.append("Kind_Mime Mime_%s" % mm.group(1))

    st = re.sub(r"//[^\n]*", "", src("src/resources/resource_storage.rs"))
    m = re.search(r"pub fn get_redirect_resource\(&self, resource_ident: &str\) -> Option<String> \{(.*?)\n    \}", st, re.S)
    if not m:
        die("c13_mime: get_redirect_resource not found")
    body = m.group(1)
    fm = re.search(r"Some\(format!\(\"([^\"{}]*)\{\}([^\"{}]*)\{\}([^\"{}]*)\",\s*mime,\s*&resource\.content\)\)", body)
    if not fm:
        die("c13_mime: data-URL format string not recognised")
    if not re.search(r"if !resource\.permission\.is_default\(\) \{\s*return None;", body):
        die("c13_mime: permission gate of get_redirect_resource not recognised")
    if not re.search(r"if !resource\.kind\.supports_redirect\(\) \{\s*return None;", body):
        die("c13_mime: kind gate of get_redirect_resource not recognised")
    if not re.search(r"fn is_default\(&self\) -> bool \{\s*self\.0 == 0\s*\}", text_nc):
        die("c13_mime: PermissionMask::is_default not recognised")

    out.append("Module C13Gen.")
    out.append("(* src/resources/mod.rs: enum MimeType, enum ResourceType *)")
    out.append("Inductive mime_type := %s." % " | ".join("Mime_" + v for v in variants))
    out.append("Definition all_mime_types : list mime_type := [%s]." % "; ".join("Mime_" + v for v in variants))
    out.append("Inductive resource_kind := Kind_Mime (m : mime_type) | Kind_Template.")
    out.append("(* From<&MimeType> for &str (also Display) *)")
    out.append("Definition mime_to_string (m : mime_type) : string :=\n  match m with\n%s\n  end." % "\n".join(
        "  | Mime_%s => %s" % (a, coq_str(b)) for a, b in to_str))
    out.append("(* From<&str> for MimeType *)")
    out.append("Definition mime_from_string_table : list (string * mime_type) := [%s]." % "; ".join(
        "(%s, Mime_%s)" % (coq_str(a), b) for a, b in from_str))
    out.append("Definition mime_from_string_default : mime_type := Mime_%s." % dflt.group(1))
    out.append("(* ResourceType::supports_redirect *)")
    out.append("Definition supports_redirect (k : resource_kind) : bool :=\n  match k with\n%s\n  | _ => %s\n  end." % (
        "\n".join("  | %s => %s" % (p, "false" if negated else "true") for p in coq_pats),
        "true" if negated else "false"))
    out.append("(* get_redirect_resource: format!(\"data:{};base64,{}\", mime, content); permission.is_default() is `== 0` *)")
    out.append("Definition data_url_prefix : string := %s." % coq_str(fm.group(1)))
    out.append("Definition data_url_infix : string := %s." % coq_str(fm.group(2)))
    out.append("Definition data_url_suffix : string := %s." % coq_str(fm.group(3)))
    out.append("End C13Gen.")
    return out
