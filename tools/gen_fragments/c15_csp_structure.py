"""Translator fragment: Blocker::get_csp_directives (src/blocker.rs) — the request-type gate, the
classification of every matching rule, and how the answer is formed.

Extracted with the brace parser of c01_blocker_structure.py:
  * the early return: the request types for which a policy is computed at all;
  * that the csp list is consulted with `check_all` (which tag set it receives is extracted by
    c01_blocker_structure.py: BlockerGen.tag_sites) and that no hit means no policy;
  * the body of the loop over the hits, flattened to a decision list: (literals over
    is_exception / is_csp / has a directive) -> disable | enable | return_none; first entry whose
    literals all hold decides, no entry = nothing happens;
  * the answer: `enabled.difference(&disabled)`, no remaining directive = no policy, otherwise the
    directives joined with the extracted separator.
Struct_Csp_Proofs.v interprets the decision list over the model's csp rules and proves that the
loop IS C15_Model.csp_loop and the whole function IS C15_Model.get_csp_for.
"""
import importlib.util
import os
import re

PROPERTIES = ["C15"]

_here = os.path.dirname(os.path.abspath(__file__))
_spec = importlib.util.spec_from_file_location("c01_blocker_structure", os.path.join(_here, "c01_blocker_structure.py"))
_bs = importlib.util.module_from_spec(_spec)
_spec.loader.exec_module(_bs)


def norm(t):
    return "".join(t.split())


CONDS = {
    "filter.is_exception()": "L_exception",
    "filter.is_csp()": "L_csp",
    "letSome(csp_directive)=&filter.modifier_option": "L_directive",
}
ACTIONS = {
    "disabled_directives.insert(csp_directive);": "disable",
    "enabled_directives.insert(csp_directive);": "enable",
    "returnNone;": "return_none",
}


def flatten(block, path, die):
    """decision-list entries [(literals, action)] of a block consisting of one if-chain or one action"""
    st = _bs.statements(block, die)
    if len(st) != 1:
        die("get_csp_directives: a branch of the loop holds %d statements, 1 expected" % len(st))
    s = st[0]
    if s[0] == "other":
        a = ACTIONS.get(norm(s[1]))
        if a is None:
            die("get_csp_directives: action not recognised: %r" % s[1])
        return [(list(path), a)]
    out = []
    neg = []
    for cond, blk in s[1]:
        c = CONDS.get(norm(cond))
        if c is None:
            die("get_csp_directives: condition not recognised: %r" % cond)
        out += flatten(blk, path + neg + [(c, True)], die)
        neg = neg + [(c, False)]
    if s[2] is not None:
        out += flatten(s[2], path + neg, die)
    return out


def generate(src, die, coq_str):
    b = _bs.strip_comments(src("src/blocker.rs"))
    body = _bs.fn_body(b, r"pub fn get_csp_directives\(&self, request: &Request\)\s*->\s*Option<String>\s*\{", die)
    m = re.search(r"if\s+((?:request\.request_type\s*!=\s*RequestType::\w+\s*(?:&&\s*)?)+)\{\s*return\s+None\s*;\s*\}", body)
    if not m:
        die("get_csp_directives: request-type gate not recognised")
    gate = re.findall(r"RequestType::(\w+)", m.group(1))
    after_gate = body[m.end():]
    m = re.search(r"let\s+filters\s*=\s*self\s*\.csp\s*\.check_all\(request,\s*&self\.tags_enabled,\s*&mut\s+regex_manager\)\s*;", after_gate)
    if not m:
        die("get_csp_directives: the hits are not csp.check_all(request, tags_enabled, ..)")
    rest = after_gate[m.end():]
    m = re.match(r"\s*if\s+filters\.is_empty\(\)\s*\{\s*return\s+None\s*;\s*\}", rest)
    if not m:
        die("get_csp_directives: `no hit, no policy` not recognised directly after check_all")
    rest = rest[m.end():]
    m = re.match(r"\s*let\s+mut\s+disabled_directives:\s*HashSet<&str>\s*=\s*HashSet::new\(\);\s*let\s+mut\s+enabled_directives:\s*HashSet<&str>\s*=\s*HashSet::new\(\);\s*for\s+filter\s+in\s+filters\s*\{", rest)
    if not m:
        die("get_csp_directives: the two sets / the loop over the hits not recognised")
    loop, end = _bs.block_at(rest, m.end() - 1, die)
    entries = flatten(loop, [], die)
    tail = norm(rest[end:])
    mt = re.fullmatch(
        r"letmutremaining_directives=enabled_directives\.difference\(&disabled_directives\);"
        r"letmutmerged=ifletSome\(directive\)=remaining_directives\.next\(\)\{String::from\(\*directive\)\}else\{returnNone;\};"
        r"remaining_directives\.for_each\(\|directive\|\{merged\.push\('(.)'\);merged\.push_str\(directive\);\}\);"
        r"Some\(merged\)", tail)
    if not mt:
        die("get_csp_directives: the merge after the loop is not recognised: %r" % tail[:200])
    sep = mt.group(1)

    def lits(ls):
        return "[%s]" % "; ".join("(%s, %s)" % (a, "true" if p else "false") for a, p in ls)
    out = ["Module CspGen.",
           "Inductive clit := L_exception | L_csp | L_directive.",
           "(* request types for which a policy is computed *)",
           "Definition gate_types : list request_type := [%s]." % "; ".join("RT_" + g for g in gate),
           "Definition no_hit_no_policy : bool := true.",
           "(* the loop over the hits as a decision list: (literals, action) *)",
           "Definition loop_entries : list (list (clit * bool) * string) := [%s]." % "; ".join(
               "(%s, %s)" % (lits(ls), coq_str(a)) for ls, a in entries),
           "Definition answer_set : string := \"enabled-disabled\".",
           "Definition empty_answer_is_none : bool := true.",
           "Definition separator : N := %d." % ord(sep),
           "End CspGen."]
    return out
