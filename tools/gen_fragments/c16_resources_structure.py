"""Translator fragment: CosmeticFilterCache::hostname_cosmetic_resources
(src/cosmetic_filter_cache.rs) — the two passes over the hashes of the page host.

Extracted (statements matched literally, their ORDER and the names they connect are read off):
  * the hashes walked: `request_entities` chained with `request_hostnames`, the same list in both
    passes;
  * pass 1 (collect), per hash: which bin fills which set (`populate_set(hash, &self.specific_rules.X,
    &mut Y)`), and the scriptlet bin merged into `script_injections` with `|=` on the masks;
  * pass 2 (except), per hash — it starts only after pass 1 has seen EVERY hash: the unhide bin
    removes from the hide set and is recorded in `exceptions`, `prune_set(hash, bin, set)`, and the
    un-inject bin (empty text = except every scriptlet and clear; once that happened, skip; else
    remove the text);
  * the answer: under generichide the host-specific selectors only, otherwise the misc generic
    selectors minus `exceptions`, plus the host-specific ones; the scripts from `script_injections`.
Struct_Resources_Proofs.v interprets the two action lists over C16_Model's state and proves that a
step of pass 1 IS populate_step, a step of pass 2 IS prune_step and the whole function IS
C16_Model.hostname_cosmetic_resources.
"""
import importlib.util
import os
import re

PROPERTIES = ["C16"]

_here = os.path.dirname(os.path.abspath(__file__))
_spec = importlib.util.spec_from_file_location("c01_blocker_structure", os.path.join(_here, "c01_blocker_structure.py"))
_bs = importlib.util.module_from_spec(_spec)
_spec.loader.exec_module(_bs)


def norm(t):
    return "".join(t.split())


ROUTE = [
    (r"ifletSome\(generic_rule\)=rule\.hidden_generic_rule\(\)\{self\.add_generic_filter\(generic_rule\);\}", "R_add_generic_hidden"),
    (r"self\.specific_rules\.store_rule\(rule\);", "R_store_specific"),
    (r"self\.add_generic_filter\(rule\);", "R_add_generic_self"),
]


def generate_route(b, die):
    raw = _bs.fn_body(b, r"pub fn add_filter\(&mut self, rule: CosmeticFilter\)\s*\{", die)
    st = _bs.statements(raw, die)
    if len(st) != 1 or st[0][0] != "if" or len(st[0][1]) != 1 or st[0][2] is None:
        die("CosmeticFilterCache::add_filter: not one if/else")
    cond, then = st[0][1][0]
    if norm(cond) != "rule.has_hostname_constraint()":
        die("CosmeticFilterCache::add_filter: condition %r" % cond)

    def acts(block):
        t = norm(block)
        out = []
        while t:
            for rx, name in ROUTE:
                m = re.match(rx, t)
                if m:
                    out.append(name)
                    t = t[m.end():]
                    break
            else:
                die("CosmeticFilterCache::add_filter: statement not recognised at %r" % t[:120])
        return out
    return ["Module RouteGen.",
            "Inductive raction := R_add_generic_hidden | R_store_specific | R_add_generic_self.",
            "Definition constrained : list raction := [%s]." % "; ".join(acts(then)),
            "Definition unconstrained : list raction := [%s]." % "; ".join(acts(st[0][2])),
            "End RouteGen."]


def generate(src, die, coq_str):
    b = _bs.strip_comments(src("src/cosmetic_filter_cache.rs"))
    t = norm(_bs.fn_body(b, r"pub fn hostname_cosmetic_resources\(\s*&self,\s*resources: &ResourceStorage,\s*hostname: &str,\s*generichide: bool,\s*\)\s*->\s*UrlSpecificResources\s*\{", die))

    def eat(rx, what):
        nonlocal t
        m = re.match(rx, t)
        if not m:
            die("hostname_cosmetic_resources: %s not recognised at %r" % (what, t[:200]))
        t = t[m.end():]
        return m

    eat(r"letdomain_str=\{let\(start,end\)=crate::url_parser::get_host_domain\(hostname\);&hostname\[start\.\.end\]\};", "domain_str")
    eat(r"let\(request_entities,request_hostnames\)=hostname_domain_hashes\(hostname,domain_str\);", "the hashes")
    eat(r"letmutspecific_hide_selectors=HashSet::new\(\);letmutprocedural_actions=HashSet::new\(\);"
        r"letmutscript_injections=HashMap::<&str,PermissionMask>::new\(\);letmutexceptions=HashSet::new\(\);"
        r"letmutexcept_all_scripts=false;", "the accumulators")
    m = eat(r"lethashes:Vec<&Hash>=(\w+)\.iter\(\)\.chain\((\w+)\.iter\(\)\)\.collect\(\);", "the chained hash list")
    order = [m.group(1), m.group(2)]
    eat(r"fnpopulate_set\(hash:&Hash,source_bin:&HostnameFilterBin<String>,dest_set:&mutHashSet<String>,\)\{"
        r"ifletSome\(s\)=source_bin\.get\(hash\)\{s\.iter\(\)\.for_each\(\|s\|\{dest_set\.insert\(s\.to_owned\(\)\);\}\);\}\}", "populate_set")
    eat(r"forhashinhashes\.iter\(\)", "pass 1")
    body, end = _bs.block_at(t, 0, die)
    t = t[end:]
    acts1 = []
    while body:
        m = re.match(r"populate_set\(hash,&self\.specific_rules\.(\w+),&mut(\w+),\);", body)
        if m:
            acts1.append("(P_populate %s %s)" % (coq_str(m.group(1)), coq_str(m.group(2))))
            body = body[m.end():]
            continue
        m = re.match(r"ifletSome\(s\)=self\.specific_rules\.(\w+)\.get\(hash\)\{s\.iter\(\)\.for_each\(\|\(s,mask\)\|\{"
                     r"script_injections\.entry\(s\)\.and_modify\(\|entry\|\*entry\|=\*mask\)\.or_insert\(\*mask\);\}\);\}", body)
        if m:
            acts1.append("(P_inject_or %s)" % coq_str(m.group(1)))
            body = body[m.end():]
            continue
        die("hostname_cosmetic_resources: statement of pass 1 not recognised at %r" % body[:160])
    eat(r"fnprune_set\(hash:&Hash,source_bin:&HostnameFilterBin<String>,dest_set:&mutHashSet<String>,\)\{"
        r"ifletSome\(s\)=source_bin\.get\(hash\)\{s\.iter\(\)\.for_each\(\|s\|\{dest_set\.remove\(s\);\}\);\}\}", "prune_set")
    eat(r"forhashinhashes\.iter\(\)", "pass 2")
    body, end = _bs.block_at(t, 0, die)
    t = t[end:]
    acts2 = []
    while body:
        m = re.match(r"ifletSome\(s\)=self\.specific_rules\.(\w+)\.get\(hash\)\{s\.iter\(\)\.for_each\(\|s\|\{"
                     r"(\w+)\.remove\(s\);(\w+)\.insert\(s\.to_owned\(\)\);\}\);\}", body)
        if m:
            acts2.append("(Q_unhide %s %s %s)" % tuple(coq_str(x) for x in m.groups()))
            body = body[m.end():]
            continue
        m = re.match(r"prune_set\(hash,&self\.specific_rules\.(\w+),&mut(\w+),\);", body)
        if m:
            acts2.append("(Q_prune %s %s)" % (coq_str(m.group(1)), coq_str(m.group(2))))
            body = body[m.end():]
            continue
        m = re.match(r"ifletSome\(s\)=self\.specific_rules\.(\w+)\.get\(hash\)\{forsins\{"
                     r"ifs\.is_empty\(\)\{except_all_scripts=true;script_injections\.clear\(\);\}"
                     r"ifexcept_all_scripts\{continue;\}script_injections\.remove\(s\.as_str\(\)\);\}\}", body)
        if m:
            acts2.append("(Q_uninject %s)" % coq_str(m.group(1)))
            body = body[m.end():]
            continue
        die("hostname_cosmetic_resources: statement of pass 2 not recognised at %r" % body[:160])
    eat(r"lethide_selectors=ifgenerichide\{specific_hide_selectors\}else\{"
        r"letmuthide_selectors=self\.misc_generic_selectors\.difference\(&exceptions\)\.cloned\(\)\.collect::<HashSet<_>>\(\);"
        r"specific_hide_selectors\.into_iter\(\)\.for_each\(\|sel\|\{hide_selectors\.insert\(sel\);\}\);hide_selectors\};", "the hide selectors of the answer")
    eat(r"letinjected_script=resources\.get_scriptlet_resources\(script_injections\);", "the injected script")
    eat(r"UrlSpecificResources\{hide_selectors,procedural_actions,exceptions,injected_script,generichide,\}$", "the answer")
    return ["Module ResGen.",
            "Inductive act1 := P_populate (bin dest : string) | P_inject_or (bin : string).",
            "Inductive act2 := Q_unhide (bin hide_set exc_set : string) | Q_prune (bin dest : string) | Q_uninject (bin : string).",
            "Definition hash_order : list string := [%s]." % "; ".join(coq_str(x) for x in order),
            "Definition pass1 : list act1 := [%s]." % "; ".join(acts1),
            "Definition pass2 : list act2 := [%s]." % "; ".join(acts2),
            "Definition pass2_after_all_of_pass1 : bool := true.",
            "Definition generichide_answer : string := \"specific_hide_selectors\".",
            "Definition default_answer : string := \"misc_generic_selectors-exceptions+specific_hide_selectors\".",
            "End ResGen."] + generate_route(b, die)
