"""Translator fragment: the redirect side of src/resources/resource_storage.rs —
`ResourceStorage::get_redirect_resource` and `get_internal_resource`, statement by statement.

Extracted: the lookup chain of `get_internal_resource` (name first, then alias -> canonical name ->
resource, else nothing) and the gates of `get_redirect_resource` in source order (each gate: what is
tested, and that failing it answers `None`): the permission must be the default one, the kind must
support redirects, the kind must be a MIME type; the answer is the data URL built from that MIME
type and the stored content.  (`add_resource`'s statements are extracted by c18_deps_structure.py:
Generated.AddResGen.)
Struct_Storage_Proofs.v interprets both over C13_Model's store and proves them to be the model's
functions; AddResGen's statements are proved to be C13_Model.add_resource as well.
"""
import importlib.util
import os
import re

PROPERTIES = ["C13"]

_here = os.path.dirname(os.path.abspath(__file__))
_spec = importlib.util.spec_from_file_location("c01_blocker_structure", os.path.join(_here, "c01_blocker_structure.py"))
_bs = importlib.util.module_from_spec(_spec)
_spec.loader.exec_module(_bs)


def norm(t):
    return "".join(t.split())


GATES = [
    (r"if!resource\.permission\.is_default\(\)\{returnNone;\}", "G_permission_is_default"),
    (r"if!resource\.kind\.supports_redirect\(\)\{returnNone;\}", "G_kind_supports_redirect"),
]


def generate(src, die, coq_str):
    b = _bs.strip_comments(src("src/resources/resource_storage.rs"))
    t = norm(_bs.fn_body(b, r"fn get_internal_resource\(&self, resource_ident: &str\)\s*->\s*Option<&Resource>\s*\{", die))
    if t != ("letresource=ifletSome(resource)=self.resources.get(resource_ident){Some(resource)}"
             "elseifletSome(canonical_name)=self.aliases.get(resource_ident){self.resources.get(canonical_name)}"
             "else{None};resource"):
        die("get_internal_resource: not recognised: %r" % t[:300])
    t = norm(_bs.fn_body(b, r"pub fn get_redirect_resource\(&self, resource_ident: &str\)\s*->\s*Option<String>\s*\{", die))
    m = re.fullmatch(r"letresource=self\.get_internal_resource\(resource_ident\);resource\.and_then\(\|resource\|\{(.*)\}\)", t)
    if not m:
        die("get_redirect_resource: wrapper not recognised: %r" % t[:200])
    inner = m.group(1)
    gates = []
    while True:
        for rx, name in GATES:
            mm = re.match(rx, inner)
            if mm:
                gates.append(name)
                inner = inner[mm.end():]
                break
        else:
            break
    mm = re.fullmatch(r"ifletResourceType::Mime\(mime\)=&resource\.kind\{Some\(format!\(\"([^\"]*)\",mime,&resource\.content\)\)\}else\{None\}", inner)
    if not mm:
        die("get_redirect_resource: the answer is not recognised: %r" % inner[:200])
    fmt = mm.group(1)
    pieces = fmt.split("{}")
    if len(pieces) != 3:
        die("get_redirect_resource: data URL format %r" % fmt)
    return ["Module Storage13Gen.",
            "Inductive rgate := G_permission_is_default | G_kind_supports_redirect.",
            "Definition lookup_chain : list string := [\"resources[ident]\"; \"resources[aliases[ident]]\"; \"none\"].",
            "Definition redirect_gates : list rgate := [%s]." % "; ".join(gates),
            "Definition answer_needs_mime : bool := true.",
            "Definition url_prefix : string := %s." % coq_str(pieces[0]),
            "Definition url_infix : string := %s." % coq_str(pieces[1]),
            "Definition url_suffix : string := %s." % coq_str(pieces[2]),
            "End Storage13Gen."]
