"""Translator fragment: the control structure of NetworkFilterList (src/network_filter_list.rs) —
how a rule is filed under a token (the best-token loop of `new` and `add_filter`) and how the
buckets are consulted (`check`, `check_all`).

Extracted with the brace / expression parser of c01_blocker_structure.py:
  * for `new` and `add_filter`: that `best_token` and `min_count` are (re-)initialised INSIDE the
    loop over a rule's token groups, their initial values, the arms of the `match` on the count
    lookup (pattern, guard, assignments) and that `insert_dup(.., best_token, ..)` follows inside the
    same loop;
  * for `check` and `check_all`: the early return on an empty map, the loop nesting (probes outside,
    bucket inside), the hit condition, and what happens on a hit (return the filter / push it);
  * for `optimize`: the size threshold above which a bucket is handed to the optimizer and the key
    the bucket is sorted by afterwards.
Struct_List_Proofs.v interprets the best-token arms and proves that one pass over a token group IS
Net_Model.best_loop / best_token, and that the extracted hit condition IS Net_Model.hit.
"""
import importlib.util
import os
import re

PROPERTIES = ["C01", "C04", "C05", "C06", "C07"]

_here = os.path.dirname(os.path.abspath(__file__))
_spec = importlib.util.spec_from_file_location("c01_blocker_structure", os.path.join(_here, "c01_blocker_structure.py"))
_bs = importlib.util.module_from_spec(_spec)
_spec.loader.exec_module(_bs)


def norm(t):
    return "".join(t.split())


def best_token_loop(body, fn, die, coq_str):
    """body of `for tokens in <groups> { .. }` -> (init of best, init of min_count, arms, insert follows)"""
    m = re.search(r"for\s+tokens\s+in\s+(\w+)\s*\{", body)
    if not m:
        die("%s: loop over the token groups not found" % fn)
    grp, _ = _bs.block_at(body, m.end() - 1, die)
    mb = re.search(r"let\s+mut\s+best_token\s*:\s*Hash\s*=\s*([^;]+);", grp)
    mc = re.search(r"let\s+mut\s+min_count\s*=\s*([^;]+);", grp)
    if not mb or not mc:
        die("%s: best_token / min_count are not initialised inside the loop over the token groups" % fn)
    best_init, min_init = norm(mb.group(1)), norm(mc.group(1))
    if re.search(r"let\s+mut\s+(best_token|min_count)\b", body.replace(grp, "")):
        die("%s: best_token / min_count are also declared outside the group loop" % fn)
    mt = re.search(r"for\s+token\s+in\s+tokens\s*\{", grp)
    if not mt:
        die("%s: loop over the tokens of a group not found" % fn)
    inner, inner_end = _bs.block_at(grp, mt.end() - 1, die)
    mm = re.search(r"match\s+([^{]+)\{", inner)
    if not mm:
        die("%s: match on the count lookup not found" % fn)
    scrut = norm(mm.group(1))
    if not re.fullmatch(r"(tokens_histogram\.get\(&token\)|self\.filter_map\.get\(&token\))", scrut):
        die("%s: count lookup not recognised: %r" % (fn, scrut))
    arms_txt, _ = _bs.block_at(inner, mm.end() - 1, die)
    arms = []
    i = 0
    while True:
        while i < len(arms_txt) and (arms_txt[i].isspace() or arms_txt[i] == ","):
            i += 1
        if i >= len(arms_txt):
            break
        ma = re.match(r"(None|Some\(\s*&?\w+\s*\)|_)\s*(?:if\s+(.*?))?\s*=>\s*", arms_txt[i:], re.S)
        if not ma:
            die("%s: arm not recognised at %r" % (fn, arms_txt[i:i + 50]))
        pat, guard = norm(ma.group(1)), ma.group(2)
        i += ma.end()
        if arms_txt[i] == "{":
            blk, i = _bs.block_at(arms_txt, i, die)
        else:
            j = arms_txt.find(",", i)
            j = len(arms_txt) if j < 0 else j
            blk, i = arms_txt[i:j], j
        assigns = sorted(norm(a) for a in re.split(r"[;\n]", blk) if norm(a))
        kind = {"None": "absent", "_": "any"}.get(pat, "present")
        g = "none"
        if guard is not None:
            g = norm(guard)
            # `<` and `<=` differ only in which of two equally rare tokens wins (a tie-break of the
            # layout: every theorem about the index needs only that the chosen token is one of the
            # group's own); anything else is not recognised
            mg = re.fullmatch(r"(count|filters\.len\(\))(<=?)min_count", g)
            if not mg:
                die("%s: guard not recognised: %r" % (fn, guard))
            g = "count%smin_count" % mg.group(2)
        a = []
        for x in assigns:
            if x == "best_token=token":
                a.append("best:=token")
            elif x == "min_count=0":
                a.append("min:=0")
            elif re.fullmatch(r"min_count=(count|filters\.len\(\))", x):
                a.append("min:=count")
            else:
                die("%s: assignment not recognised: %r" % (fn, x))
        arms.append((kind, g, sorted(a)))
    after = grp[mt.end() - 1 + len(inner) + 2:]
    if not re.search(r"insert_dup\(\s*&mut\s+(self\.)?filter_map\s*,\s*best_token\s*,", after):
        die("%s: insert_dup(.., best_token, ..) does not follow the token loop inside the group loop" % fn)
    if not re.fullmatch(r"(total_number_of_tokens|total_rules)\+1", min_init):
        die("%s: initial min_count not recognised: %r" % (fn, min_init))
    return best_init, "total+1", arms


def lookup_fn(src_text, fn, die):
    m = re.search(r"pub fn %s\(" % fn, src_text)
    if not m:
        die("%s not found" % fn)
    depth, j = 0, m.end() - 1
    while j < len(src_text):
        if src_text[j] == "(":
            depth += 1
        elif src_text[j] == ")":
            depth -= 1
            if depth == 0:
                break
        j += 1
    body, _ = _bs.block_at(src_text, src_text.index("{", j), die)
    if not re.search(r"if\s+self\.filter_map\.is_empty\(\)\s*\{\s*return\s+(None|filters)\s*;\s*\}", body):
        die("%s: early return on an empty map not recognised" % fn)
    mo = re.search(r"for\s+token\s+in\s+request\.get_tokens_for_match\(\)\s*\{", body)
    if not mo:
        die("%s: outer loop over the probes not found" % fn)
    outer, _ = _bs.block_at(body, mo.end() - 1, die)
    mi = re.search(r"if\s+let\s+Some\(filter_bucket\)\s*=\s*self\.filter_map\.get\(token\)\s*\{", outer)
    if not mi:
        die("%s: bucket lookup not recognised" % fn)
    inner, _ = _bs.block_at(outer, mi.end() - 1, die)
    mf = re.search(r"for\s+filter\s+in\s+filter_bucket\s*\{", inner)
    if not mf:
        die("%s: loop over the bucket not found" % fn)
    loop, _ = _bs.block_at(inner, mf.end() - 1, die)
    allst = _bs.statements(loop, die)
    st = [x for x in allst if x[0] == "if"]
    # second spelling: the tag test first, as a guard that skips the rule, then the match test
    #   let tag_on = match filter.tag.as_ref() { Some(t) => active_tags.contains(t), None => true };
    #   if !tag_on { continue; }
    #   if filter.matches(request, regex_manager) { <action> }
    if (len(allst) == 3 and allst[0][0] == "other" and len(st) == 2
            and norm(allst[0][1]) in ("lettag_on=matchfilter.tag.as_ref(){Some(t)=>active_tags.contains(t),None=>true,};",
                                      "lettag_on=filter.tag.as_ref().map(|t|active_tags.contains(t)).unwrap_or(true);")
            and len(st[0][1]) == 1 and st[0][2] is None and norm(st[0][1][0][0]) == "!tag_on" and norm(st[0][1][0][1]) == "continue;"
            and len(st[1][1]) == 1 and st[1][2] is None and norm(st[1][1][0][0]) == "filter.matches(request,regex_manager)"):
        a = norm(st[1][1][0][1])
        if a == "returnSome(filter);":
            return "tag_ok&&matches", "return"
        if a == "filters.push(filter);":
            return "tag_ok&&matches", "push"
        die("%s: action on a hit not recognised: %r" % (fn, st[1][1][0][1]))
    if len(st) != 1 or len(allst) != 1 or len(st[0][1]) != 1 or st[0][2] is not None:
        die("%s: hit test not recognised" % fn)
    cond, act = st[0][1][0]
    c = norm(cond)
    want = "filter.matches(request,regex_manager)&&filter.tag.as_ref().map(|t|active_tags.contains(t)).unwrap_or(true)"
    if c == want:
        hit = "matches&&tag_ok"
    elif c == "filter.tag.as_ref().map(|t|active_tags.contains(t)).unwrap_or(true)&&filter.matches(request,regex_manager)":
        hit = "tag_ok&&matches"
    else:
        die("%s: hit condition not recognised: %r" % (fn, cond))
    a = norm(act)
    if a == "returnSome(filter);":
        on_hit = "return"
    elif a == "filters.push(filter);":
        on_hit = "push"
    else:
        die("%s: action on a hit not recognised: %r" % (fn, act))
    return hit, on_hit


def generate(src, die, coq_str):
    s = _bs.strip_comments(src("src/network_filter_list.rs"))
    out = ["Module ListGen.",
           "(* best-token selection: (which count lookup: absent | present | any, guard, assignments) *)"]
    for fn, hdr in [("new", r"pub fn new\(filters: Vec<NetworkFilter>, optimize: bool\)\s*->\s*NetworkFilterList\s*\{"),
                    ("add_filter", r"pub fn add_filter\(&mut self, filter: NetworkFilter\)\s*\{")]:
        body = _bs.fn_body(s, hdr, die)
        best_init, min_init, arms = best_token_loop(body, fn, die, coq_str)
        out.append("Definition %s_best_init : string := %s." % (fn, coq_str(best_init)))
        out.append("Definition %s_min_init : string := %s." % (fn, coq_str(min_init)))
        out.append("Definition %s_arms : list (string * string * list string) := [%s]." % (
            fn, "; ".join("(%s, %s, [%s])" % (coq_str(k), coq_str(g), "; ".join(coq_str(x) for x in a)) for k, g, a in arms)))
    for fn in ["check", "check_all"]:
        hit, on_hit = lookup_fn(s, fn, die)
        out.append("Definition %s_hit : string := %s." % (fn, coq_str(hit)))
        out.append("Definition %s_on_hit : string := %s." % (fn, coq_str(on_hit)))
    body = _bs.fn_body(s, r"pub fn optimize\(&mut self\)\s*\{", die)
    m = re.search(r"if\s+unoptimized\.len\(\)\s*>\s*(\d+)\s*\{", body)
    if not m:
        die("optimize: size threshold not recognised")
    out.append("Definition optimize_threshold : N := %s." % m.group(1))
    m = re.search(r"optimized\.sort_by\(\|a,\s*b\|\s*a\.(\w+)\.cmp\(&b\.(\w+)\)\)", body)
    if not m or m.group(1) != m.group(2):
        die("optimize: the bucket is not sorted by a key afterwards")
    out.append("Definition optimize_sorts_by : string := %s." % coq_str(m.group(1)))
    # the per-bucket steps of optimize: rules held by this bucket alone (Arc::try_unwrap succeeds) go
    # to the optimizer when there are more than `threshold` of them, the shared ones are appended
    # unchanged, the bucket is sorted and stored under the SAME key, the map is replaced at the end
    nb = norm(body)
    mo = re.search(r"for\s*\(key,\s*filters\)\s*in\s*self\.filter_map\.drain\(\)\s*\{", body)
    if not mo:
        die("optimize: loop over the drained buckets not found")
    loop, _ = _bs.block_at(body, mo.end() - 1, die)
    nl = norm(loop)
    mm = re.search(r"forfinfilters\{matchArc::try_unwrap\(f\)\{Ok\(f\)=>(\w+)\.push\(f\),Err\(af\)=>(\w+)\.push\(af\),?\}\}", nl)
    if not mm:
        die("optimize: split into owned / shared rules not recognised")
    owned, shared = mm.group(1), mm.group(2)
    mi = re.search(r"letmutoptimized:Vec<_>=if%s\.len\(\)>(\d+)\{optimizer::optimize\(%s\)\.into_iter\(\)\.map\(Arc::new\)\.collect\(\)\}else\{%s\.into_iter\(\)\.map\(Arc::new\)\.collect\(\)\};" % (owned, owned, owned), nl)
    if not mi:
        die("optimize: owned rules are not handed to optimizer::optimize above the threshold and kept otherwise")
    rest = nl[mi.end():]
    want = ["optimized.append(&mut%s);" % shared, "optimized.sort_by(|a,b|a.id.cmp(&b.id));", "optimized_map.insert(key,optimized);"]
    pos = 0
    for w in want:
        k = rest.find(w, pos)
        if k < 0:
            die("optimize: %r not found (in this order) after the optimizer call" % w)
        pos = k + len(w)
    if not nb.rstrip(";").endswith("self.filter_map=optimized_map"):
        die("optimize: the map is not replaced by the optimized one at the end")
    out.append("Definition optimize_steps : list string := [\"split owned/shared\"; \"owned>threshold: optimizer::optimize, else unchanged\"; \"append shared\"; \"sort\"; \"store under the same key\"; \"replace the map\"].")
    out.append("End ListGen.")
    return out
