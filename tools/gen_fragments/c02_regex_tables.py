"""C02 translator fragment: the declarative pieces of compile_regex (src/regex_manager.rs).

* SPECIAL_RE         the metacharacters of an ABP pattern that are backslash-escaped
* the replacement texts for '*', for an inner '^' and for a trailing '^'
C02_Proofs relates them to the tables the model and the L0 printer use, so that a character
dropped from a class or a changed replacement breaks a proof.  Fails closed."""
import re

PROPERTIES = ["C02", "C05"]


def _bytes(s):
    return "[" + "; ".join(str(b) for b in s.encode("utf8")) + "]"


def generate(src, die, coq_str):
    rm = src("src/regex_manager.rs")
    m = re.search(r"fn compile_regex<'a, I>\(", rm)
    if not m:
        die("c02: compile_regex not found")
    body = rm[m.start():]
    L = ["Module C02Gen."]
    m = re.search(r'static SPECIAL_RE: Lazy<Regex> =\s*Lazy::new\(\|\| Regex::new\(r"\(\[(.*?)\]\)"\)\.unwrap\(\)\);', body, re.S)
    if not m:
        die("c02: SPECIAL_RE not recognised")
    cls = m.group(1)
    chars, i = [], 0
    while i < len(cls):
        c = cls[i]
        if c == "\\":
            if i + 1 >= len(cls):
                die("c02: dangling backslash in SPECIAL_RE")
            chars.append(cls[i + 1])
            i += 2
        elif c in "-[]^":
            die("c02: SPECIAL_RE is no longer a plain character list: %r" % cls)
        else:
            chars.append(c)
            i += 1
    if len(chars) < 5 or any(ord(c) > 127 for c in chars):
        die("c02: SPECIAL_RE not recognised: %r" % cls)
    if not re.search(r'SPECIAL_RE\.replace_all\(&filter_str, "\\\\\$1"\)', body):
        die("c02: SPECIAL_RE is no longer applied as a backslash escape")
    L.append("(* SPECIAL_RE: escaped with a backslash; sorted by code *)")
    L.append("Definition special_re_chars : list N := [%s]." % "; ".join(str(x) for x in sorted(set(ord(c) for c in chars))))
    # the three other passes, in order
    pats = {}
    for name in ("WILDCARD_RE", "ANCHOR_RE", "ANCHOR_RE_EOL"):
        m = re.search(r'static %s: Lazy<Regex> = Lazy::new\(\|\| Regex::new\(r"(.*?)"\)\.unwrap\(\)\);' % name, body)
        if not m:
            die("c02: %s not recognised" % name)
        pats[name] = m.group(1)
    if pats != {"WILDCARD_RE": r"\*", "ANCHOR_RE": r"\^(.)", "ANCHOR_RE_EOL": r"\^$"}:
        die("c02: the regexes of the wildcard / separator passes changed: %r" % pats)
    order = re.findall(r"let repl = (\w+)\.replace_all\(&(\w+), \"((?:[^\"\\]|\\.)*)\"\);", body)
    if [o[0] for o in order] != ["SPECIAL_RE", "WILDCARD_RE", "ANCHOR_RE", "ANCHOR_RE_EOL"]:
        die("c02: the four replace_all passes are not in the known order: %r" % [o[0] for o in order])

    def unesc(s):
        out, i = [], 0
        while i < len(s):
            if s[i] == "\\":
                out.append(s[i + 1])
                i += 2
            else:
                out.append(s[i])
                i += 1
        return "".join(out)
    wild, anchor, eol = unesc(order[1][2]), unesc(order[2][2]), unesc(order[3][2])
    if not anchor.endswith("$1"):
        die("c02: the inner-separator replacement no longer re-inserts the captured character")
    L.append("(* replacement texts of the '*', inner '^' (without the trailing $1) and trailing '^' passes *)")
    L.append("Definition wildcard_txt : list N := %s." % _bytes(wild))
    L.append("Definition sep_txt : list N := %s." % _bytes(anchor[:-2]))
    L.append("Definition sep_eol_txt : list N := %s." % _bytes(eol))
    # anchors
    if not re.search(r'let left_anchor = if is_left_anchor \{ "\^" \} else \{ "" \};', body) or \
       not re.search(r'let right_anchor = if is_right_anchor \{ "\$" \} else \{ "" \};', body) or \
       not re.search(r'format!\("\{\}\{\}\{\}", left_anchor, repl, right_anchor\)', body):
        die("c02: the left/right anchor texts are not recognised")
    L.append("End C02Gen.")
    return L
