"""Translator fragment: the ORDER of the mask-building phases of `NetworkFilter::parse`
(src/filters/network.rs).  The function is too long for a statement-by-statement reading; what is
read off the source here is the relative order of twelve landmark statements, each of which must
occur exactly once in the body: options validated, positive types applied, implicit network types,
default types, anchor bits, is_regex, the hostname split, trailing / leading `*` removed, the
scheme transform (`|ws://`, `|http://`, ...), the implicit document rule for `||host^`, and — last
— the negated types removed.  C03_Model.parse is written in this order; a phase moved in front of
or behind another one (the seeded C03-13 moves the removal of the negated types in front of the
scheme transform, which re-enables websocket) changes the generated list and breaks the pin.
"""
import importlib.util
import os
import re

PROPERTIES = ["C03"]

_here = os.path.dirname(os.path.abspath(__file__))
_spec = importlib.util.spec_from_file_location("c01_blocker_structure", os.path.join(_here, "c01_blocker_structure.py"))
_bs = importlib.util.module_from_spec(_spec)
_spec.loader.exec_module(_bs)

LANDMARKS = [
    ("validate_options(&options)?;", "Ph_validate_options"),
    ("mask|=cpt_mask_positive;", "Ph_positive_types"),
    ("(cpt_mask_negative&NetworkFilterMask::FROM_NETWORK_TYPES)!=NetworkFilterMask::NONE{mask|=NetworkFilterMask::FROM_NETWORK_TYPES;}", "Ph_implicit_network_types"),
    ("if(cpt_mask_positive&NetworkFilterMask::FROM_ALL_TYPES).is_empty(){", "Ph_default_types"),
    ("matchparsed.pattern.left_anchor{", "Ph_left_anchor_bits"),
    ("mask.set(NetworkFilterMask::IS_RIGHT_ANCHOR,true);end_url_anchor=true;", "Ph_right_anchor_bit"),
    ("letis_regex=check_is_regex(pattern);mask.set(NetworkFilterMask::IS_REGEX,is_regex);", "Ph_is_regex"),
    ("ifletSome(NetworkFilterLeftAnchor::DoublePipe)=parsed.pattern.left_anchor{ifis_regex{", "Ph_hostname_split"),
    ("iffilter_index_end>filter_index_start&&pattern.ends_with('*'){filter_index_end-=1;}", "Ph_trailing_star"),
    ("iffilter_index_end>filter_index_start&&pattern[filter_index_start..].starts_with('*'){mask.set(NetworkFilterMask::IS_LEFT_ANCHOR,false);filter_index_start+=1;}", "Ph_leading_star"),
    ("&&pattern[filter_index_start..].starts_with(\"ws://\"){mask.set(NetworkFilterMask::FROM_WEBSOCKET,true);", "Ph_scheme_transform"),
    ("&&!mask.contains(NetworkFilterMask::IS_REMOVEPARAM){mask|=NetworkFilterMask::FROM_ALL_TYPES;}", "Ph_implicit_document"),
    ("mask&=!cpt_mask_negative;", "Ph_negated_types_removed"),
]


def strip_comments_keep_strings(s):
    out = []
    i, n = 0, len(s)
    while i < n:
        c = s[i]
        if c == '"':
            j = i + 1
            while j < n and s[j] != '"':
                j += 2 if s[j] == "\\" else 1
            out.append(s[i:j + 1])
            i = j + 1
        elif s.startswith("//", i):
            while i < n and s[i] != "\n":
                i += 1
        elif s.startswith("/*", i):
            i = s.index("*/", i) + 2
        else:
            out.append(c)
            i += 1
    return "".join(out)


def generate(src, die, coq_str):
    b = strip_comments_keep_strings(src("src/filters/network.rs"))
    body = "".join(_bs.fn_body(b, r"pub fn parse\(line: &str, debug: bool, _opts: ParseOptions\)\s*->\s*Result<Self, NetworkFilterError>\s*\{", die).split())
    pos = []
    for text, name in LANDMARKS:
        i = body.find(text)
        if i < 0:
            die("NetworkFilter::parse: landmark %s not found" % name)
        if body.find(text, i + 1) >= 0:
            die("NetworkFilter::parse: landmark %s occurs more than once" % name)
        pos.append((i, name))
    order = [n for _, n in sorted(pos)]
    return ["Module ParsePhasesGen.",
            "Inductive phase := %s." % " | ".join(n for _, n in LANDMARKS),
            "Definition phases : list phase := [%s]." % "; ".join(order),
            "End ParsePhasesGen."]
