"""Translator fragment: CosmeticFilterCache::hidden_class_id_selectors
(src/cosmetic_filter_cache.rs) — the two lookup loops, statement by statement.

Extracted per loop (classes first, ids second; the order is read off the source): the set consulted
for the bare selector, the prefix used in the exception test and the prefix of the selector that is
pushed (format strings), that the compound bucket is consulted by an INDEPENDENT second `if let`
(no early exit between the two), which map it is, and that its members are filtered by
`!exceptions.contains(..)` only.
Struct_Lookup_Proofs.v interprets this over C17_Model's stores and proves that it IS
C17_Model.hidden for all stores, class names, ids and exception sets.
"""
import importlib.util
import os
import re

PROPERTIES = ["C17"]

_here = os.path.dirname(os.path.abspath(__file__))
_spec = importlib.util.spec_from_file_location("c01_blocker_structure", os.path.join(_here, "c01_blocker_structure.py"))
_bs = importlib.util.module_from_spec(_spec)
_spec.loader.exec_module(_bs)


def norm(t):
    return "".join(t.split())


def generate(src, die, coq_str):
    b = _bs.strip_comments(src("src/cosmetic_filter_cache.rs"))
    t = norm(_bs.fn_body(b, r"pub fn hidden_class_id_selectors\(\s*&self,\s*classes: impl IntoIterator<Item = impl AsRef<str>>,\s*ids: impl IntoIterator<Item = impl AsRef<str>>,\s*exceptions: &HashSet<String>,\s*\)\s*->\s*Vec<String>\s*\{", die))
    block = (r"(\w+)\.into_iter\(\)\.for_each\(\|(\w+)\|\{let\2=\2\.as_ref\(\);"
             r"ifself\.(\w+)\.contains\(\2\)&&!exceptions\.contains\(&format!\(\"([^\"{}]*)\{\}\",\2\)\)\{selectors\.push\(format!\(\"([^\"{}]*)\{\}\",\2\)\);\}"
             r"ifletSome\(bucket\)=self\.(\w+)\.get\(\2\)\{selectors\.extend\(bucket\.iter\(\)\.filter\(\|sel\|!exceptions\.contains\(\*sel\)\)\.map\(\|s\|s\.to_owned\(\)\),\);\}\}\);")
    m = re.fullmatch(r"letmutselectors=vec!\[\];" + block + block.replace(r"\2", r"\8") + r"selectors", t)
    if not m:
        die("hidden_class_id_selectors: not recognised: %r" % t[:400])
    g = m.groups()
    blocks = [g[0:6], g[6:12]]

    def one(bk):
        arg, _var, simple, ep, pp, cx = bk
        if len(ep.encode()) != 1 or len(pp.encode()) != 1:
            die("hidden_class_id_selectors: prefix is not one byte: %r %r" % (ep, pp))
        return "(%s, (%s, %d, %d, %s))" % (coq_str(arg), coq_str(simple), ord(ep), ord(pp), coq_str(cx))
    return ["Module LookupGen.",
            "(* per loop: the argument it walks, (bare-selector set, prefix in the exception test, prefix pushed, compound map) *)",
            "Definition blocks : list (string * (string * N * N * string)) := [%s]." % "; ".join(one(x) for x in blocks),
            "Definition compound_bucket_is_independent : bool := true.",
            "Definition compound_members_filtered_by_exceptions_only : bool := true.",
            "End LookupGen."]
