#!/bin/sh
# Build everything the checks need, offline, from files on disk only.
set -e
cd "$(dirname "$0")"
export CARGO_NET_OFFLINE=true
mkdir -p work evidence replays
python3 tools/gen_tables.py
python3 - <<'PY'
import sys
sys.path.insert(0, 'tools')
import check
ok, out = check.ensure_makefile()
print(out)
sys.exit(0 if ok else 1)
PY
(cd coq && timeout 7200 make -k -j16 2>&1 | grep -v "^Closed under" | tail -30)
cp /repo/Cargo.lock harness/Cargo.lock
(cd harness && timeout 7200 cargo build --release --offline --bins 2>&1 | tail -5)
echo setup done
