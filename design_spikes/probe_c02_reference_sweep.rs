use adblock::filters::network::{NetworkFilter, NetworkMatchable};
use adblock::regex_manager::RegexManager;
use adblock::request::Request;
use std::collections::BTreeMap;

#[derive(Clone, Copy, PartialEq, Debug)]
enum T { L(u8), Star, Sep }
fn is_sep(b: u8) -> bool { !(b.is_ascii_alphanumeric() || b == b'_' || b == b'.' || b == b'%' || b == b'-') }
// match p against prefix of s; if to_end require remainder empty
fn m(p: &[T], s: &[u8], to_end: bool) -> bool {
    match p.first() {
        None => !to_end || s.is_empty(),
        Some(T::L(c)) => !s.is_empty() && s[0] == *c && m(&p[1..], &s[1..], to_end),
        Some(T::Sep) => (!s.is_empty() && is_sep(s[0]) && m(&p[1..], &s[1..], to_end)) || (p.len() == 1 && s.is_empty()),
        Some(T::Star) => (0..=s.len()).any(|i| m(&p[1..], &s[i..], to_end)),
    }
}
fn toks(b: &str) -> Vec<T> { b.bytes().map(|c| match c { b'*' => T::Star, b'^' => T::Sep, c => T::L(c.to_ascii_lowercase()) }).collect() }
fn reference(rule: &str, r: &Request) -> Option<bool> {
    let mut s = rule;
    if let Some(x) = s.strip_prefix("@@") { s = x; }
    let (left, rest) = if let Some(x) = s.strip_prefix("||") { (2, x) } else if let Some(x) = s.strip_prefix("|") { (1, x) } else { (0, s) };
    let (right, body) = if rest.len() > 0 && rest.ends_with('|') { (true, &rest[..rest.len()-1]) } else { (false, rest) };
    let url = r.url.to_ascii_lowercase(); let u = url.as_bytes();
    match left {
        0 => { let p = toks(body); Some((0..=u.len()).any(|i| m(&p, &u[i..], right))) }
        1 => { let p = toks(body); Some(m(&p, u, right)) }
        _ => {
            let cut = body.find(|c| c == '/' || c == '^' || c == '*').unwrap_or(body.len());
            let (h, rest) = (&body[..cut], &body[cut..]);
            if h.is_empty() { return None; }
            let h = h.to_ascii_lowercase(); let h = h.trim_start_matches("www.");
            if h.is_empty() { return None; }
            let host = r.hostname.as_bytes();
            let hs = r.url.find(&r.hostname)?; // host offset (first occurrence; fine for our URLs w/o userinfo)
            let p = toks(rest);
            let wildcard = rest.starts_with('*');
            for o in 0..host.len() {
                if !(o == 0 || host[o-1] == b'.' || h.starts_with('.')) { continue; }
                if !host[o..].starts_with(h.as_bytes()) { continue; }
                let e = o + h.len();
                if !(wildcard || h.ends_with('.') || e == host.len() || host[e] == b'.') { continue; }
                if m(&p, &u[hs + e..], right) { return Some(true); }
            }
            Some(false)
        }
    }
}
fn main() {
    let words = ["ads", "ad", "foo", "x", "com", "net", "ads.net", "foo.com", ".net", "ads."];
    let seps = ["/", ".", "-", "?", "=", "^", "*", ":", "", "^^", "**", "^*", "*^", "\\", "$x"];
    let lefts = ["", "|", "||", "@@||"];
    let rights = ["", "|", "^", "*", "^|", "*|", "^*"];
    let mut bodies: Vec<String> = vec!["/".into(), "^".into(), "*".into(), "/ads/".into(), "http://".into(), "https://".into(), "http*://".into(), "ws://".into(), "http://ads.net".into()];
    for a in words { bodies.push(a.to_string());
        for s in seps { bodies.push(format!("{}{}", s, a)); for b in words { bodies.push(format!("{}{}{}", a, s, b));
            for s2 in ["/", "^", "*", "."] { for c in ["ads", "x"] { bodies.push(format!("{}{}{}{}{}", a, s, b, s2, c)); } } } } }
    let mut rules: Vec<String> = vec![];
    for l in lefts { for b in &bodies { for r in rights { rules.push(format!("{}{}{}", l, b, r)); } } }
    let hosts = ["ads.net", "xads.net", "xads.net.ads.net", "foo.com", "www.foo.com", "foo.com.ads.net", "ads.network", "ads.net.x", "x.com", "ads"];
    let paths = ["", "/", "/ads", "/loads/foo", "/ads/foo/x", "/ad.foo", "/x-ads?x=ads&foo=x", "/ads.net/x", "/foo.com", "/ads:x", "/ads^foo", "/ADS/Foo", "/ads/", ":80/ads", "/ads.net", "/x/ads.net.x/ads"];
    let mut reqs = vec![];
    for sch in ["https", "http"] { for h in hosts { for p in paths { if let Ok(r) = Request::new(&format!("{}://{}{}", sch, h, p), "https://a.com/", "script") { reqs.push(r); } } } }
    println!("rules {} reqs {}", rules.len(), reqs.len());
    let mut classes: BTreeMap<String, (usize, String)> = BTreeMap::new();
    let mut agree = 0usize; let mut matches = 0usize;
    for rule in &rules {
        let f = match NetworkFilter::parse(rule, true, Default::default()) { Ok(f) => f, Err(_) => continue };
        let mut rm = RegexManager::default();
        for r in &reqs {
            let got = f.matches(r, &mut rm);
            let Some(want) = reference(rule, r) else { continue };
            if got { matches += 1; }
            if got == want { agree += 1; continue; }
            let body = rule.trim_start_matches("@@").trim_start_matches('|');
            let core = body.trim_end_matches('|');
            let right = body.ends_with('|') && body.len() > 0;
            let is_hn = rule.trim_start_matches("@@").starts_with("||");
            let degenerate = core.contains("^^") || core.contains("**") || core.contains('\\') || core.starts_with('*') || core.ends_with('*')
                || (core.starts_with('/') && core.ends_with('/') && core.len() > 1) || core.contains('$')
                || (is_hn && right && core.ends_with('^')) || (is_hn && right && core.contains('*'));
            let hpart = { let cut = core.find(|c| c == '/' || c == '^' || c == '*').unwrap_or(core.len()); core[..cut].to_ascii_lowercase() };
            let hp = hpart.trim_start_matches("www.");
            let hs = r.url.find(&r.hostname).unwrap();
            let multi = is_hn && !hp.is_empty() && (r.hostname.match_indices(hp).count() > 1 || r.url.to_ascii_lowercase().find(hp).map(|i| i < hs).unwrap_or(false)
                 || { let h = &r.hostname; let mut c = 0; for i in 0..h.len() { if h[i..].starts_with(hp) { c += 1; } } c > 1 });
            let cls = format!("{}{}{}", if degenerate {"degenerate "} else {""}, if multi {"multi-occurrence "} else {""}, if got {"impl-only"} else {"ref-only"});
            let e = classes.entry(cls).or_insert((0, String::new()));
            e.0 += 1; if e.0 % 53 == 1 && e.1.len() < 1400 { e.1.push_str(&format!("\n      {}   vs   {}", rule, r.url)); }
        }
    }
    println!("agree {} impl-matches {}", agree, matches);
    for (k, v) in classes { println!("{}: {} e.g. {}", k, v.0, v.1); }
}
