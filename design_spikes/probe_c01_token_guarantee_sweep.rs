use adblock::filters::network::{NetworkFilter, NetworkMatchable, NetworkFilterMaskHelper, FilterPart};
use adblock::regex_manager::RegexManager;
use adblock::request::Request;
use std::collections::{BTreeMap, HashSet};
fn main() {
    let words = ["ads", "ad", "foo", "x", "a1", "com", "net", "ads.net", "foo.com", "%20", "é", "http", "https", "www"];
    let seps = ["/", ".", "-", "_", "?", "=", "^", "*", ":", "", "&"];
    let lefts = ["", "|", "||", "@@", "@@||"];
    let rights = ["", "|", "^", "*", "^|", "$script", "$domain=a.com", "$domain=a.com|b.com", "$domain=~a.com", "$3p", "$image,domain=a.com"];
    let mut bodies: Vec<String> = vec![];
    for a in words { bodies.push(a.to_string());
        for s in seps { for b in words { bodies.push(format!("{}{}{}", a, s, b));
            for s2 in ["/", "^", "*", "."] { for c in ["ads", "x", "foo"] { bodies.push(format!("{}{}{}{}{}", a, s, b, s2, c)); } } } } }
    for s in seps { for a in ["ads", "foo.com"] { bodies.push(format!("{}{}", s, a)); bodies.push(format!("{}{}{}", s, a, s)); } }
    let mut rules: Vec<String> = vec![];
    for l in lefts { for b in &bodies { for r in rights { rules.push(format!("{}{}{}", l, b, r)); } } }
    let hosts = ["ads.net", "xads.net", "xads.net.ads.net", "foo.com", "www.foo.com", "foo.com.ads.net", "a1.com", "loads.net", "x.com"];
    let paths = ["/", "/ads", "/loads/foo", "/ads/foo/x", "/ad.foo", "/x-ads_foo?a1=ads&foo=x", "/fooé", "/éads/foo", "/ads.net/x", "/foo.com", "/%20/ads", "/ads:x", "/a1/ads^foo", "/https/ads", "/ads*foo", "/ADS/Foo"];
    let mut reqs = vec![];
    for sch in ["https", "http", "ws"] { for h in hosts { for p in paths {
        for (src, ty) in [("https://a.com/", "script"), ("", "script"), ("https://sub.b.com", "image"), ("https://ads.net", "websocket")] {
            if let Ok(r) = Request::new(&format!("{}://{}{}", sch, h, p), src, ty) { reqs.push(r); } } } } }
    let probes: Vec<HashSet<u64>> = reqs.iter().map(|r| r.get_tokens_for_match().cloned().collect()).collect();
    let mut classes: BTreeMap<String, (usize, String)> = BTreeMap::new();
    let mut nmatch = 0usize;
    for rule in &rules {
        let f = match NetworkFilter::parse(rule, true, Default::default()) { Ok(f) => f, Err(_) => continue };
        let mut rm = RegexManager::default();
        let groups = f.get_tokens();
        for (i, r) in reqs.iter().enumerate() {
            if !f.matches(r, &mut rm) { continue; }
            nmatch += 1;
            let lost = if groups.len() == 1 { groups[0].iter().any(|t| !probes[i].contains(t)) } else { groups.iter().all(|g| g.iter().any(|t| !probes[i].contains(t))) };
            if !lost { continue; }
            let bad: Vec<u64> = groups.iter().flatten().filter(|t| !probes[i].contains(t)).cloned().collect();
            let lead: String = match &f.filter { FilterPart::Simple(s) => s.chars().take_while(|c| c.is_alphanumeric() || *c == '%').collect(), _ => String::new() };
            let lh = adblock::utils::fast_hash(&lead);
            let cls = if r.url.contains('*') { "G-star-in-url" } else if !r.url.is_ascii() { "D-nonascii" }
                else if r.source_hostname_hashes.is_none() && f.opt_domains.is_some() { "B-nosource" }
                else if !r.is_http && !r.is_https && (f.for_http() != f.for_https()) { "C-ws" }
                else if !f.is_left_anchor() && lead.len() > 1 && bad.iter().all(|t| *t == lh) { "A-firsttoken" } else { "OTHER" };
            let e = classes.entry(cls.to_string()).or_insert((0, String::new()));
            e.0 += 1; if e.0 % 97 == 1 && e.1.len() < 600 { e.1.push_str(&format!("\n      {} || {}", rule, r.url)); }
        }
    }
    println!("matches {}", nmatch);
    for (k, v) in classes { println!("{}: {} e.g. {}", k, v.0, v.1); }
}
