From Coq Require Import List NArith Lia Bool.
Import ListNotations.
Open Scope N_scope.

(* --- abstract rule: id + token groups; matcher abstract --- *)
Record rule := { rid : N; groups : list (list N); tag : option N }.
Definition fmap := list (N * list rule).

Fixpoint lookup (m : fmap) (k : N) : list rule :=
  match m with [] => [] | (k', b) :: r => if N.eqb k k' then b else lookup r k end.

(* insert keeping bucket sorted by id, dropping an equal id *)
Fixpoint ins_sorted (f : rule) (b : list rule) : list rule :=
  match b with
  | [] => [f]
  | g :: r => if N.ltb (rid f) (rid g) then f :: b
              else if N.eqb (rid f) (rid g) then b else g :: ins_sorted f r
  end.
Fixpoint insert_dup (m : fmap) (k : N) (f : rule) : fmap :=
  match m with
  | [] => [(k, [f])]
  | (k', b) :: r => if N.eqb k k' then (k', ins_sorted f b) :: r else (k', b) :: insert_dup r k f
  end.

(* best token: any selection function that returns a member of a non-empty group, 0 for empty *)
Section Index.
Variable pick : fmap -> list N -> N.               (* histogram / bucket-size heuristics live here *)
Hypothesis pick_nil : forall m, pick m [] = 0.
Hypothesis pick_in  : forall m g, g <> [] -> In (pick m g) g.

Definition add_rule (m : fmap) (f : rule) : fmap :=
  fold_left (fun m g => insert_dup m (pick m g) f) (groups f) m.
Definition build (L : list rule) : fmap := fold_left add_rule L [].

Definition in_bucket (m : fmap) (k : N) (i : N) : Prop := exists f, In f (lookup m k) /\ rid f = i.

Lemma ins_sorted_in f b : exists g, In g (ins_sorted f b) /\ rid g = rid f.
Proof.
  induction b as [|g r IH]; cbn.
  - exists f; auto.
  - destruct (N.ltb (rid f) (rid g)) eqn:E1.
    + exists f; cbn; auto.
    + destruct (N.eqb (rid f) (rid g)) eqn:E2.
      * apply N.eqb_eq in E2. exists g; cbn; auto.
      * destruct IH as [x [Hx Hi]]. exists x; cbn; auto.
Qed.
Lemma ins_sorted_keeps f b x : In x b -> In x (ins_sorted f b).
Proof.
  induction b as [|g r IH]; cbn; [tauto|]. intros [->|Hx].
  - destruct (N.ltb _ _); [cbn; auto|]. destruct (N.eqb _ _); cbn; auto.
  - destruct (N.ltb _ _); [cbn; auto|]. destruct (N.eqb _ _); cbn; auto.
Qed.
Lemma ins_sorted_from f b x : In x (ins_sorted f b) -> x = f \/ In x b.
Proof.
  induction b as [|g r IH]; cbn; [intuition auto|].
  destruct (N.ltb _ _); [cbn; intuition auto|]. destruct (N.eqb _ _); [cbn; intuition auto|]. cbn. intros [->|H]; [auto|]. apply IH in H; tauto.
Qed.

Lemma insert_dup_has m k f : in_bucket (insert_dup m k f) k (rid f).
Proof.
  unfold in_bucket. induction m as [|[k' b] r IH]; cbn.
  - rewrite N.eqb_refl. exists f; cbn; auto.
  - destruct (N.eqb k k') eqn:E; cbn; rewrite E.
    + destruct (ins_sorted_in f b) as [g [Hg Hi]]. exists g; auto.
    + exact IH.
Qed.
Lemma insert_dup_keeps m k f k0 x : In x (lookup m k0) -> In x (lookup (insert_dup m k f) k0).
Proof.
  induction m as [|[k' b] r IH]; cbn; [tauto|].
  destruct (N.eqb k k') eqn:E; cbn.
  - destruct (N.eqb k0 k') eqn:E0; auto. apply ins_sorted_keeps.
  - destruct (N.eqb k0 k') eqn:E0; auto.
Qed.
Lemma insert_dup_from m k f k0 x : In x (lookup (insert_dup m k f) k0) -> x = f \/ In x (lookup m k0).
Proof.
  induction m as [|[k' b] r IH]; cbn.
  - destruct (N.eqb k0 k); cbn; intuition auto.
  - destruct (N.eqb k k') eqn:E; cbn.
    + destruct (N.eqb k0 k') eqn:E0; auto. apply ins_sorted_from.
    + destruct (N.eqb k0 k') eqn:E0; auto.
Qed.

Definition key_ok (g : list N) (k : N) := (g = [] /\ k = 0) \/ In k g.
Definition placed (m : fmap) (f : rule) := forall g, In g (groups f) -> exists k, key_ok g k /\ in_bucket m k (rid f).
Definition members_from (m : fmap) (L : list rule) := forall k x, In x (lookup m k) -> In x L.

Lemma in_bucket_mono m k f k0 i : in_bucket m k0 i -> in_bucket (insert_dup m k f) k0 i.
Proof. intros [x [Hx Hi]]. exists x; split; auto. apply insert_dup_keeps; auto. Qed.

Lemma add_groups_placed gs : forall m f, (forall g, In g gs -> exists k, key_ok g k /\
    in_bucket (fold_left (fun m g => insert_dup m (pick m g) f) gs m) k (rid f))
  /\ (forall k0 i, in_bucket m k0 i -> in_bucket (fold_left (fun m g => insert_dup m (pick m g) f) gs m) k0 i).
Proof.
  induction gs as [|g gs IH]; intros m f; cbn; split; try tauto; try (intros; assumption).
  - intros g' [<-|Hg'].
    + exists (pick m g). split.
      * destruct g as [|t ts]; [left; split; auto|right; apply pick_in; discriminate].
      * apply (proj2 (IH _ f)). apply insert_dup_has.
    + apply (proj1 (IH _ f)); auto.
  - intros k0 i H. apply (proj2 (IH _ f)). apply in_bucket_mono; auto.
Qed.

Lemma add_rule_members m f L : members_from m L -> members_from (add_rule m f) (L ++ [f]).
Proof.
  unfold add_rule. generalize (groups f) as gs. intros gs. revert m.
  induction gs as [|g gs IH]; intros m Hm; cbn.
  - intros k x Hx. apply in_or_app; left; eauto.
  - intros k x Hx.
    assert (Hm' : members_from (insert_dup m (pick m g) f) (L ++ [f])).
    { intros k1 x1 H1. apply insert_dup_from in H1 as [->|H1]; apply in_or_app; [right; cbn; auto|left; eauto]. }
    clear Hm. revert k x Hx. 
    assert (G : forall m0, members_from m0 (L ++ [f]) -> members_from (fold_left (fun m g => insert_dup m (pick m g) f) gs m0) (L ++ [f])).
    { clear - pick. induction gs as [|g' gs' IHg]; intros m0 H0; cbn; auto. apply IHg.
      intros k1 x1 H1. apply insert_dup_from in H1 as [->|H1]; [apply in_or_app; right; cbn; auto|eauto]. }
    apply G; auto.
Qed.

Theorem build_well_indexed L :
  (forall f, In f L -> placed (build L) f) /\ members_from (build L) L.
Proof.
  unfold build.
  assert (G : forall L m L0, (forall f, In f L0 -> placed m f) -> members_from m L0 ->
     (forall f, In f (L0 ++ L) -> placed (fold_left add_rule L m) f) /\ members_from (fold_left add_rule L m) (L0 ++ L)).
  { clear L. induction L as [|f L IH]; intros m L0 Hp Hm; cbn.
    - rewrite app_nil_r; auto.
    - specialize (IH (add_rule m f) (L0 ++ [f])).
      rewrite <- app_assoc in IH; cbn in IH. apply IH.
      + intros f' Hf' g Hg. apply in_app_or in Hf' as [Hf'|[<-|[]]].
        * destruct (Hp f' Hf' g Hg) as [k [Hk Hb]]. exists k; split; auto.
          apply (proj2 (add_groups_placed (groups f) m f)); auto.
        * apply (proj1 (add_groups_placed (groups f) m f)); auto.
      + apply add_rule_members; auto. }
  destruct (G L [] []) as [A B]; cbn; try tauto. intros k x; cbn; destruct k; tauto.
Qed.

(* --- lookup side --- *)
Variable req : Type.
Variable matches : rule -> req -> bool.
Variable probes : req -> list N.
Hypothesis probes_zero : forall r, In 0 (probes r).
Variable tag_ok : rule -> bool.

Definition check_all (m : fmap) (r : req) : list rule :=
  flat_map (fun k => filter (fun f => matches f r && tag_ok f) (lookup m k)) (probes r).

Definition TG (f : rule) (r : req) := forall g, In g (groups f) -> g <> [] -> incl g (probes r).

(* rules with equal ids are the same rule (seahash-of-line ids, collision-free case) *)
Hypothesis id_inj : forall (L : list rule) f g, In f L -> In g L -> rid f = rid g -> f = g.

Theorem check_all_complete L r f :
  In f L -> groups f <> [] -> matches f r = true -> tag_ok f = true -> TG f r ->
  In f (check_all (build L) r).
Proof.
  intros Hf Hg Hm Ht Htg.
  destruct (build_well_indexed L) as [Hp Hmem].
  destruct (groups f) as [|g gs] eqn:Eg; [congruence|].
  destruct (Hp f Hf g) as [k [Hk [x [Hx Hi]]]]; [rewrite Eg; cbn; auto|].
  assert (x = f) by (apply (id_inj L); eauto). subst x.
  unfold check_all. apply in_flat_map. exists k. split.
  - destruct Hk as [[-> ->]|Hk]; [apply probes_zero|]. apply (Htg g); [rewrite Eg; cbn; auto| |auto].
    intros ->; destruct Hk.
  - apply filter_In. split; auto. rewrite Hm, Ht; auto.
Qed.

Theorem check_all_sound L r f :
  In f (check_all (build L) r) -> In f L /\ matches f r = true /\ tag_ok f = true.
Proof.
  unfold check_all. intros H. apply in_flat_map in H as [k [_ H]]. apply filter_In in H as [H1 H2].
  apply andb_true_iff in H2. destruct (build_well_indexed L) as [_ Hmem]. split; [eauto|tauto].
Qed.
End Index.
Print Assumptions check_all_complete.
