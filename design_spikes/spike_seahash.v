From Coq Require Import List NArith Lia.
Import ListNotations.
Open Scope N_scope.
Definition W := 18446744073709551616.
Definition wmul (x y : N) := N.land (x * y) 18446744073709551615.
Definition K := 0x6eed0e9da4d94a4f.
Definition diffuse (x : N) : N :=
  let x := wmul x K in
  let a := N.shiftr x 32 in
  let b := N.shiftr x 60 in
  let x := N.lxor x (N.shiftr a b) in
  wmul x K.
Fixpoint read_le (bs : list N) : N :=
  match bs with [] => 0 | b :: r => b + 256 * read_le r end.
Fixpoint take {A} (n : nat) (l : list A) := match n, l with O, _ => [] | S n, x :: r => x :: take n r | _, [] => [] end.
Fixpoint drop {A} (n : nat) (l : list A) := match n, l with O, _ => l | S n, _ :: r => drop n r | _, [] => [] end.
Definition st := (N * N * N * N)%type.
Fixpoint blocks (fuel : nat) (buf : list N) (s : st) : st * list N :=
  match fuel with O => (s, buf) | S f =>
  if Nat.leb 32 (length buf) then
    let '(a,b,c,d) := s in
    let a := diffuse (N.lxor a (read_le (take 8 buf))) in
    let b := diffuse (N.lxor b (read_le (take 8 (drop 8 buf)))) in
    let c := diffuse (N.lxor c (read_le (take 8 (drop 16 buf)))) in
    let d := diffuse (N.lxor d (read_le (take 8 (drop 24 buf)))) in
    blocks f (drop 32 buf) (a,b,c,d)
  else (s, buf) end.
Definition tail (rest : list N) (s : st) : st :=
  let '(a,b,c,d) := s in
  let n := length rest in
  let w i := read_le (take 8 (drop i rest)) in
  if Nat.eqb n 0 then s
  else if Nat.leb n 8 then (diffuse (N.lxor a (w 0%nat)), b, c, d)
  else if Nat.leb n 16 then (diffuse (N.lxor a (w 0%nat)), diffuse (N.lxor b (w 8%nat)), c, d)
  else if Nat.leb n 24 then (diffuse (N.lxor a (w 0%nat)), diffuse (N.lxor b (w 8%nat)), diffuse (N.lxor c (w 16%nat)), d)
  else (diffuse (N.lxor a (w 0%nat)), diffuse (N.lxor b (w 8%nat)), diffuse (N.lxor c (w 16%nat)), diffuse (N.lxor d (w 24%nat))).
Definition seahash (buf : list N) : N :=
  let '(s, rest) := blocks (length buf) buf (0x16f11fe89b0d677c, 0xb480a793d8e6c86c, 0x6fe2e5aaf078ebc9, 0x14f994a4c5259381) in
  let '(a,b,c,d) := tail rest s in
  diffuse (N.lxor (N.lxor (N.lxor a b) (N.lxor c d)) (N.of_nat (length buf))).
Eval vm_compute in seahash [].
Eval vm_compute in seahash [102;111;111].
Eval vm_compute in seahash (map N.of_nat (seq 0 40)).
