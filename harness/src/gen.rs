//! Generators shared by the network properties (DESIGN.md §3.4): one small vocabulary so that
//! rules and URLs collide often; mostly-valid structured inputs plus a malformed stream.
use crate::Rng;

pub const VOCAB: &[&str] = &[
    "ads", "ad", "advert", "advice", "foo", "bar", "x", "a1", "%20", "com", "net", "example",
    "www", "http", "https", "loads", "track", "pixel", "banner", "img", "js", "b",
];
pub const SEPS: &[&str] = &["/", ".", "-", "_", "?", "=", "&", ":", "^", "*", "/", "/", "."];
pub const HOSTS: &[&str] = &[
    "ads.net", "xads.net", "ads.net.ads.net", "a.b.example.co.uk", "foo.com", "foo.com.evil.org",
    "example.com", "www.example.com", "sub.example.com", "ads.example.com", "example.net",
    "x.com", "bar.foo.com", "ad.foo.com", "track.net", "net.com", "com.net", "example.co.uk",
    "localhost", "a1.x.com",
];
pub const DOMAINS: &[&str] = &["a.com", "b.com", "sub.a.com", "example.com", "foo.com", "x.net", "site.org", "www.a.com"];
/// what a `domain=` option may name besides DOMAINS: bare public suffixes (every initiator under them)
pub const DOMAIN_SUFFIXES: &[&str] = &["com", "org", "net"];
pub const TYPES: &[&str] = &[
    "script", "image", "stylesheet", "xmlhttprequest", "subdocument", "document", "main_frame",
    "sub_frame", "font", "media", "object", "ping", "websocket", "other", "beacon", "csp_report",
    "fetch", "xhr", "imageset",
];
pub const TYPE_OPTS: &[&str] = &[
    "script", "image", "stylesheet", "xmlhttprequest", "subdocument", "document", "font", "media",
    "object", "ping", "websocket", "other", "xhr", "css", "frame", "doc", "beacon",
    "object-subrequest",
];
pub const TAGS: &[&str] = &["t1", "t2", "t3"];
pub const RESOURCES: &[&str] = &["noop.js", "noop.txt", "1x1.gif", "noopjs", "missing.js", "perm.js"];
pub const PARAMS: &[&str] = &["utm", "utm_source", "fbclid", "id", "a", "b", "ref"];

pub fn segs(r: &mut Rng, lo: usize, hi: usize) -> String {
    let n = r.range(lo, hi);
    let mut s = String::new();
    for i in 0..n {
        if i > 0 {
            s.push_str(r.pick(SEPS));
        }
        s.push_str(r.pick(VOCAB));
    }
    s
}

/// Pattern part of a network rule (no options).
pub fn pattern(r: &mut Rng) -> String {
    let mut s = String::new();
    match r.below(13) {
        12 => {
            // hostname anchor whose host part is empty or starts with a wildcard: `||*/path`, `||*.js`, `||^x`
            s.push_str("||");
            s.push_str(r.pick(&["*/", "*", "*.", "^", "*-"]));
            s.push_str(&segs(r, 1, 2));
        }
        10 => {
            // pattern-less rule (only meaningful with options: `$image`, `@@$script,domain=..`)
        }
        0 | 1 | 2 | 3 => {
            // hostname anchored
            s.push_str("||");
            s.push_str(r.pick(HOSTS));
            match r.below(6) {
                0 => s.push('^'),
                1 => {
                    s.push('/');
                    s.push_str(&segs(r, 1, 3));
                }
                2 => {
                    s.push('^');
                    s.push_str(&segs(r, 1, 2));
                }
                3 => {
                    s.push_str("/*");
                    s.push_str(&segs(r, 1, 2));
                }
                4 => {}
                _ => {
                    s.push('/');
                    s.push_str(&segs(r, 1, 2));
                    s.push('^');
                }
            }
        }
        4 => {
            s.push('|');
            s.push_str(r.pick(&["https://", "http://", "https://", "http://", "ws://", "wss://", "http*://"]));
            if r.chance(2, 3) {
                s.push_str(r.pick(HOSTS));
                s.push('/');
                s.push_str(&segs(r, 0, 2));
            }
        }
        11 => {
            // end-anchored pattern whose last word follows each kind of separator (`/ads/*banner|`,
            // `ads^js|`, `/x.b|`): the word is a token of the rule only under some of them
            s.push_str(&segs(r, 1, 2));
            s.push_str(r.pick(&["*", "/*", "^", "/", ".", "-", "*/", "^*"]));
            s.push_str(r.pick(VOCAB));
            s.push('|');
            return s;
        }
        _ => {
            if r.chance(1, 4) {
                s.push_str(r.pick(SEPS));
            }
            s.push_str(&segs(r, 1, 4));
            if r.chance(1, 4) {
                s.push_str(r.pick(SEPS));
            }
        }
    }
    if r.chance(1, 10) {
        s.push('|');
    }
    s
}

pub fn domain_opt(r: &mut Rng) -> String {
    let n = r.range(1, 3);
    let mut v = vec![];
    for _ in 0..n {
        let d = if r.chance(1, 6) { r.pick(DOMAIN_SUFFIXES) } else { r.pick(DOMAINS) };
        v.push(if r.chance(1, 4) { format!("~{}", d) } else { d.to_string() });
    }
    format!("domain={}", v.join("|"))
}

/// Options (without the `$`), possibly empty. `modifiers`: allow redirect/csp/removeparam.
pub fn options(r: &mut Rng, modifiers: bool) -> Vec<String> {
    let mut o: Vec<String> = vec![];
    if r.chance(1, 3) {
        let n = r.range(1, 2);
        for _ in 0..n {
            let t = r.pick(TYPE_OPTS);
            o.push(if r.chance(1, 4) { format!("~{}", t) } else { t.to_string() });
        }
    }
    if r.chance(1, 5) {
        o.push((r.pick(&["third-party", "~third-party", "first-party", "3p", "1p"])).to_string());
    }
    if r.chance(1, 5) {
        o.push(domain_opt(r));
    }
    if r.chance(1, 8) {
        o.push("important".into());
    }
    if r.chance(1, 8) {
        o.push(format!("tag={}", r.pick(TAGS)));
    }
    if r.chance(1, 25) {
        o.push("badfilter".into());
    }
    if modifiers && r.chance(1, 5) {
        match r.below(4) {
            0 => o.push(format!("redirect={}", r.pick(RESOURCES))),
            1 => o.push(format!("redirect-rule={}", r.pick(RESOURCES))),
            2 => o.push(format!("removeparam={}", r.pick(PARAMS))),
            _ => o.push(if r.chance(1, 4) {
                "csp".to_string()
            } else {
                format!("csp={}", r.pick(&["script-src 'none'", "img-src *", "default-src 'self'"]))
            }),
        }
    }
    o
}

/// 2-5 rules sharing one pattern and differing in their options / exception marker, so that they
/// share their bucket candidates: same-bucket neighbours with different tags, types, categories.
pub fn siblings(r: &mut Rng, modifiers: bool) -> Vec<String> {
    let p = pattern(r);
    let n = r.range(2, 5);
    let mut v = vec![];
    for _ in 0..n {
        let mut s = String::new();
        if r.chance(2, 5) {
            s.push_str("@@");
        }
        s.push_str(&p);
        let mut o = options(r, modifiers);
        if r.chance(1, 3) && !o.iter().any(|x| x.starts_with("tag=")) {
            o.push(format!("tag={}", r.pick(TAGS)));
        }
        if !o.is_empty() {
            s.push('$');
            s.push_str(&o.join(","));
        }
        v.push(s);
    }
    // twins of a sibling that differ from it in exactly ONE respect: only the tag (another tag,
    // or a tag where there was none), only redirect= vs redirect-rule=, only a trailing $badfilter
    if r.chance(1, 3) {
        let base = v[r.below(v.len())].clone();
        let twin = match r.below(3) {
            0 => {
                let t = format!("tag={}", r.pick(TAGS));
                if let Some(i) = base.find("tag=") {
                    let end = base[i..].find(',').map(|k| i + k).unwrap_or(base.len());
                    format!("{}{}{}", &base[..i], t, &base[end..])
                } else if base.contains('$') {
                    format!("{},{}", base, t)
                } else {
                    format!("{}${}", base, t)
                }
            }
            1 if base.contains("redirect=") => base.replace("redirect=", "redirect-rule="),
            1 if base.contains("redirect-rule=") => base.replace("redirect-rule=", "redirect="),
            _ => {
                if base.contains("badfilter") { base.clone() } else if base.contains('$') { format!("{},badfilter", base) } else { format!("{}$badfilter", base) }
            }
        };
        if r.chance(1, 2) { v.push(twin) } else { v.insert(0, twin) }
    }
    v
}

/// A rule list of about `n` rules: grammar rules, sibling groups, duplicates.
pub fn rule_list(r: &mut Rng, n: usize, modifiers: bool) -> Vec<String> {
    let mut lines: Vec<String> = vec![];
    while lines.len() < n {
        if r.chance(1, 8) {
            // a rule dispatched per source domain: no pattern token, several domains, one token group
            // (and one bucket) per domain
            let k = r.range(2, 3);
            let ds: Vec<&str> = (0..k).map(|_| if r.chance(1, 5) { r.pick(DOMAIN_SUFFIXES) } else { r.pick(DOMAINS) }).collect();
            lines.push(format!("{}${},domain={}", if r.chance(1, 4) { "@@" } else { "" }, r.pick(&["script", "image", "xhr", "third-party", "font"]), ds.join("|")));
        } else if r.chance(1, 12) {
            // end-anchored plain rules that differ only in the separator before their last words: same
            // tokens (same bucket), same options (candidates for fusion), different texts
            let (w, ext) = (r.pick(VOCAB), r.pick(&["gif", "js", "png"]));
            let o = r.pick(&["", "$image", "$script,third-party"]);
            let exc = if r.chance(1, 5) { "@@" } else { "" };
            let mut seps = vec!["-", "_", "/", "."];
            for _ in 0..r.range(2, 3) {
                let sp = seps.remove(r.below(seps.len()));
                lines.push(format!("{}{}{}.{}|{}", exc, sp, w, ext, o));
            }
        } else if r.chance(1, 4) {
            lines.extend(siblings(r, modifiers));
        } else {
            lines.push(rule(r, modifiers));
        }
    }
    lines
}

/// A complete network rule line.
pub fn rule(r: &mut Rng, modifiers: bool) -> String {
    let mut s = String::new();
    if r.chance(1, 5) {
        s.push_str("@@");
    }
    s.push_str(&pattern(r));
    let o = options(r, modifiers);
    if !o.is_empty() {
        s.push('$');
        s.push_str(&o.join(","));
    }
    s
}

pub fn url(r: &mut Rng) -> String {
    let scheme = r.pick(&["https", "https", "http", "http", "ws", "wss"]);
    let mut s = format!("{}://{}", scheme, r.pick(HOSTS));
    if r.chance(1, 12) {
        s.push_str(":8080");
    }
    s.push('/');
    s.push_str(&segs(r, 0, 4).replace('^', "/").replace('*', "-"));
    if r.chance(1, 4) {
        s.push('?');
        let n = r.range(1, 3);
        for i in 0..n {
            if i > 0 {
                s.push('&');
            }
            s.push_str(r.pick(PARAMS));
            s.push('=');
            s.push_str(r.pick(VOCAB));
        }
    }
    if r.chance(1, 15) {
        s.push_str("#frag");
    }
    s
}

pub fn source_url(r: &mut Rng) -> String {
    if r.chance(1, 6) {
        return String::new();
    }
    let h = if r.chance(1, 2) {
        (r.pick(DOMAINS)).to_string()
    } else {
        (r.pick(HOSTS)).to_string()
    };
    // initiators of every depth: 0-7 labels in front of the host a rule may name in `domain=`
    let h = if r.chance(1, 3) {
        let k = r.range(1, 7);
        let labels: Vec<&str> = (0..k).map(|_| r.pick(&["a", "b", "c", "d", "www", "m", "x1"])).collect();
        format!("{}.{}", labels.join("."), h)
    } else {
        h
    };
    format!("https://{}/page", h)
}

pub fn request_type(r: &mut Rng) -> &'static str {
    r.pick(TYPES)
}

/// A URL built to match `rule_pattern` often: takes literal runs of the pattern and embeds them.
pub fn url_for(r: &mut Rng, rule_line: &str) -> String {
    let pat = rule_line.trim_start_matches("@@");
    let pat = pat.split('$').next().unwrap_or("");
    let (host, rest): (String, String) = if let Some(p) = pat.strip_prefix("||") {
        let end = p.find(|c| c == '/' || c == '^' || c == '*' || c == '|').unwrap_or(p.len());
        let h = &p[..end];
        let host = match r.below(4) {
            0 => format!("sub.{}", h),
            1 => format!("x{}", h),
            _ => h.to_string(),
        };
        (host, p[end..].to_string())
    } else if let Some(p) = pat.strip_prefix('|') {
        let u = p.trim_end_matches('|').replace('^', "/").replace('*', "zz");
        let u = if u.starts_with("httpzz://") { u.replacen("httpzz", r.pick(&["http", "https"]), 1) } else { u };
        if u.ends_with("://") {
            // scheme-only pattern (`|ws://`): any URL of that scheme
            return format!("{}{}/{}", u, r.pick(HOSTS), segs(r, 0, 2).replace('^', "/").replace('*', "-"));
        }
        return u;
    } else {
        ((r.pick(HOSTS)).to_string(), format!("/{}", pat))
    };
    // what a '*' of the pattern stands for in the URL: sometimes text ending in a separator, sometimes
    // alphanumeric text glued to the next literal (the token after the '*' is then only the tail of a
    // longer URL token)
    let star: &str = r.pick(&["q-", "q-", "zz", "x9", "to", ""]);
    let rest = rest.trim_end_matches('|').replace('^', "/").replace('*', star);
    let scheme = r.pick(&["https", "http"]);
    // sometimes glue an alphanumeric run directly onto the pattern text (no separator): a token of
    // the pattern is then only part of a longer URL token
    let pre = if pat.starts_with("||") { String::new() } else { match r.below(6) { 0 | 1 => format!("/{}", r.pick(VOCAB)), 2 => format!("/{}", r.pick(&["lo", "x9", "b"])), _ => String::new() } };
    let pre = if pre.len() == 3 || pre.len() == 2 { pre } else if pre.is_empty() { pre } else { format!("{}/", pre) };
    let post = match r.below(6) { 0 | 1 => format!("/{}", r.pick(VOCAB)), 2 => (*r.pick(&["s", "2x", "er"])).to_string(), _ => String::new() };
    // an end-anchored pattern only matches when nothing follows: mostly leave the end alone
    let post = if pat.ends_with('|') && r.chance(4, 5) { String::new() } else { post };
    let rest = if !pre.is_empty() && !pre.ends_with('/') { rest.trim_start_matches('/').to_string() } else { rest };
    format!("{}://{}{}{}{}", scheme, host, pre, rest, post)
}

/// Strings from the malformed stream: multi-byte characters at interesting offsets, atom soup.
pub fn junk(r: &mut Rng) -> String {
    const ATOMS: &[&str] = &[
        "||", "|", "@@", "$", "^", "*", "/", "##", "#@#", "#?#", "+js(", ")", ",", "~", "=", "é",
        "漢", "\u{200d}", "😀", "domain=", "redirect=", "csp=", "removeparam=", "tag=", "important",
        "a", "b.com", " ", "\t", "!", "[", "]", "\\", "\"", "'", ":", "style(", "remove()",
        "has-text(", "www.", "http://", "0.0.0.0 ", "127.0.0.1 ", "#", ".", "-", "%", "\u{7f}",
    ];
    let n = r.range(0, 8);
    let mut s = String::new();
    for _ in 0..n {
        s.push_str(r.pick(ATOMS));
    }
    s
}
