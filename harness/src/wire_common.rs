//! Shared by the C08 / C09 / C10 harness binaries (included with `#[path]`): rule and query
//! generators for whole engines (network + cosmetic), a canonical rendering of every query kind,
//! resources, Gallina printers for engine states taken from the crate's dump hooks, and a
//! peak-RSS probe.
#![allow(dead_code)]
use adblock::lists::ParseOptions;
use adblock::request::Request;
use adblock::resources::{MimeType, PermissionMask, Resource, ResourceType};
use adblock::verif_hooks::{dump_cosmetic, dump_engine_blocker, CosmeticDump, FilterDump};
use adblock::Engine;
use implrun::*;
use std::collections::HashSet;

pub const CLASSES: &[&str] = &["ad", "ads", "banner", "cls", "x", "sponsored", "a1", "box"];
pub const IDS: &[&str] = &["ad", "id1", "top", "banner", "x"];
pub const TAGSETS: &[&[&str]] = &[&[], &["t1"], &["t2", "t3"], &["t1", "t2", "t3"]];

pub fn b64(data: &[u8]) -> String {
    const T: &[u8; 64] = b"ABCDEFGHIJKLMNOPQRSTUVWXYZabcdefghijklmnopqrstuvwxyz0123456789+/";
    let mut o = String::new();
    for c in data.chunks(3) {
        let n = (c[0] as u32) << 16 | (*c.get(1).unwrap_or(&0) as u32) << 8 | *c.get(2).unwrap_or(&0) as u32;
        o.push(T[(n >> 18) as usize & 63] as char);
        o.push(T[(n >> 12) as usize & 63] as char);
        o.push(if c.len() > 1 { T[(n >> 6) as usize & 63] as char } else { '=' });
        o.push(if c.len() > 2 { T[n as usize & 63] as char } else { '=' });
    }
    o
}

/// Redirect resources and scriptlets; `perm.js` / `trusted` need permission bit 0.
pub fn resources() -> Vec<Resource> {
    let mk = |name: &str, aliases: &[&str], kind: ResourceType, content: &str, perm: u8| Resource {
        name: name.to_string(),
        aliases: aliases.iter().map(|s| s.to_string()).collect(),
        kind,
        content: b64(content.as_bytes()),
        dependencies: vec![],
        permission: PermissionMask::from_bits(perm),
    };
    vec![
        mk("noop.js", &["noopjs"], ResourceType::Mime(MimeType::ApplicationJavascript), "(function(){})()", 0),
        mk("noop.txt", &[], ResourceType::Mime(MimeType::TextPlain), "", 0),
        mk("1x1.gif", &[], ResourceType::Mime(MimeType::ImageGif), "GIF89a", 0),
        mk("foo.js", &["foo"], ResourceType::Template, "console.log('{{1}}','{{2}}')", 0),
        mk("set.js", &["set"], ResourceType::Template, "window['{{1}}']='{{2}}'", 0),
        mk("perm.js", &["trusted"], ResourceType::Template, "trusted('{{1}}')", 1),
    ]
}

pub fn cosmetic_rule(r: &mut Rng) -> String {
    let hosts = |r: &mut Rng| {
        let n = r.range(1, 2);
        let mut v = vec![];
        for _ in 0..n {
            let h = if r.chance(1, 2) { r.pick(gen::DOMAINS) } else { r.pick(gen::HOSTS) };
            v.push(match r.below(8) {
                0 => format!("~{}", h),
                1 => format!("{}.*", h.split('.').next().unwrap_or("a")),
                _ => h.to_string(),
            });
        }
        v.join(",")
    };
    let sel = |r: &mut Rng| match r.below(8) {
        0 | 1 => format!(".{}", r.pick(CLASSES)),
        2 => format!("#{}", r.pick(IDS)),
        3 => format!(".{} > a", r.pick(CLASSES)),
        4 => format!("#{} .{}", r.pick(IDS), r.pick(CLASSES)),
        5 => format!("a[href*=\"{}\"]", r.pick(gen::VOCAB)),
        6 => format!("div.{}", r.pick(CLASSES)),
        _ => format!(".{}.{}", r.pick(CLASSES), r.pick(CLASSES)),
    };
    match r.below(14) {
        0 | 1 | 2 => format!("##{}", sel(r)),
        3 => format!("#@#{}", sel(r)),
        4 | 5 => format!("{}##{}", hosts(r), sel(r)),
        6 => format!("{}#@#{}", hosts(r), sel(r)),
        7 => format!("{}##{}:style({})", hosts(r), sel(r), r.pick(&["color: red", "display: block !important", "opacity: 0"])),
        8 => format!("{}##{}:has-text({})", hosts(r), sel(r), r.pick(gen::VOCAB)),
        9 => format!("{}##{}:remove()", hosts(r), sel(r)),
        10 => format!("{}#@#{}:style(color: red)", hosts(r), sel(r)),
        11 => format!("{}##+js({}, {})", hosts(r), r.pick(&["foo", "set", "trusted", "nosuch"]), r.pick(&["a", "b.c", "\"q\"", "x y"])),
        12 => format!("{}##+js({})", hosts(r), r.pick(&["foo", "set", "perm.js", "trusted, z"])),
        _ => format!("{}#@#+js({})", hosts(r), r.pick(&["foo", "", "set, a"])),
    }
}

/// A whole list: network rules of every shape of `gen::rule` plus extra tagged / redirect / csp /
/// generichide rules, and cosmetic rules.
pub fn rule_list(r: &mut Rng, n_net: usize, n_cos: usize) -> Vec<String> {
    let mut v = vec![];
    for _ in 0..n_net {
        v.push(match r.below(12) {
            0 => format!("||{}^$tag={}", r.pick(gen::HOSTS), r.pick(gen::TAGS)),
            1 => format!("{}$tag={}", gen::pattern(r), r.pick(gen::TAGS)),
            2 => format!("||{}^$redirect={}", r.pick(gen::HOSTS), r.pick(gen::RESOURCES)),
            3 => format!("||{}^$csp={}", r.pick(gen::HOSTS), r.pick(&["script-src 'none'", "img-src *"])),
            4 => format!("@@||{}^$generichide", r.pick(gen::HOSTS)),
            5 => format!("@@||{}^$csp", r.pick(gen::HOSTS)),
            6 => format!("/{}[0-9]+/$script", r.pick(gen::VOCAB)),
            // patterns that are not their own lower-case form once stored: case-sensitive regex escapes,
            // $match-case, upper-case letters outside ASCII
            7 if r.chance(1, 2) => match r.below(4) {
                0 => format!("/{}\\D+{}/", r.pick(gen::VOCAB), r.pick(gen::VOCAB)),
                1 => format!("/{}\\W[A-Z]\\S/$match-case", r.pick(gen::VOCAB)),
                2 => format!("/promo/\u{dc}nited-{}.gif", r.pick(gen::VOCAB)),
                _ => format!("||{}/\u{c9}t\u{e9}-{}^", r.pick(gen::HOSTS), r.pick(gen::VOCAB)),
            },
            _ => gen::rule(r, true),
        });
    }
    for _ in 0..n_cos {
        v.push(cosmetic_rule(r));
    }
    // interleave
    for i in (1..v.len()).rev() {
        let j = r.below(i + 1);
        v.swap(i, j);
    }
    v
}

pub fn without_removeparam(rules: &[String]) -> Vec<String> {
    rules.iter().filter(|l| !l.contains("removeparam")).cloned().collect()
}

#[derive(Clone, Debug)]
pub struct Query {
    pub url: String,
    pub source: String,
    pub ty: String,
}

pub fn queries(r: &mut Rng, rules: &[String], n: usize) -> Vec<Query> {
    let mut q = vec![];
    let nets: Vec<&String> = rules.iter().filter(|l| !l.contains("##") && !l.contains("#@#")).collect();
    for i in 0..n {
        let mut listed: Vec<String> = vec![];
        let url = if !nets.is_empty() && i % 3 != 2 {
            let l = nets[r.below(nets.len())];
            // the rule's own domain list (included and excluded entries alike) is where its
            // interesting initiators are
            if let Some(d) = l.split("domain=").nth(1) {
                listed = d.split(',').next().unwrap_or("").split('|').map(|x| x.trim_start_matches('~').to_string()).filter(|x| !x.is_empty()).collect();
            }
            let mut u = gen::url_for(r, l);
            if r.chance(1, 3) {
                u.push_str(&format!("?{}=1&b=2", r.pick(gen::PARAMS)));
            }
            u
        } else {
            gen::url(r)
        };
        let source = if !listed.is_empty() && r.chance(2, 3) {
            let d = &listed[r.below(listed.len())];
            format!("https://{}{}/page", r.pick(&["", "", "sub.", "x.y."]), d)
        } else {
            let s = gen::source_url(r);
            if s.is_empty() { "https://a.com/page".to_string() } else { s }
        };
        q.push(Query { url, source, ty: gen::request_type(r).to_string() });
    }
    q
}

/// Canonical rendering of every query kind on `e` (network verdict fields, CSP, cosmetic URL
/// resources, class/id selectors).  Sets are sorted; everything else is verbatim.
pub fn answers(e: &Engine, qs: &[Query]) -> Vec<String> {
    let mut out = vec![];
    for q in qs {
        if let Ok(req) = Request::new(&q.url, &q.source, &q.ty) {
            let r = e.check_network_request(&req);
            out.push(format!(
                "net {} {} {} | m={} imp={} redir={:?} rw={:?} exc={:?} f={:?}",
                q.url, q.source, q.ty, r.matched, r.important, r.redirect, r.rewritten_url, r.exception, r.filter
            ));
            let r2 = e.check_network_request_subset(&req, true, true);
            out.push(format!("net-subset m={} exc={:?} f={:?}", r2.matched, r2.exception, r2.filter));
            out.push(format!("csp {:?}", e.get_csp_directives(&req).map(|s| {
                let mut v: Vec<&str> = s.split(',').collect();
                v.sort();
                v.join(",")
            })));
        } else {
            out.push(format!("net {} request-error", q.url));
        }
    }
    let mut hosts: Vec<String> = gen::HOSTS.iter().chain(gen::DOMAINS.iter()).map(|s| s.to_string()).collect();
    hosts.push("sub.a.com".into());
    hosts.push("a.evil.org".into());
    for h in hosts {
        let u = format!("https://{}/p", h);
        let c = e.url_cosmetic_resources(&u);
        let sorted = |s: &HashSet<String>| {
            let mut v: Vec<&String> = s.iter().collect();
            v.sort();
            format!("{:?}", v)
        };
        out.push(format!(
            "cos {} hide={} proc={} exc={} gh={} script={:?}",
            u, sorted(&c.hide_selectors), sorted(&c.procedural_actions), sorted(&c.exceptions), c.generichide, canon_script(&c.injected_script)
        ));
        for excs in [HashSet::new(), c.exceptions.clone()] {
            let sel = e.hidden_class_id_selectors(CLASSES.iter(), IDS.iter(), &excs);
            out.push(format!("clsid {} {:?}", excs.len(), sel));
        }
    }
    out
}

/// `injected_script` is the concatenation of one `try { … } catch ( e ) { }` block per scriptlet
/// in the iteration order of a per-call HashMap: the same engine returns the blocks in different
/// orders on different calls.  Compared as a sorted list of blocks.
pub fn canon_script(s: &str) -> Vec<String> {
    let mut v: Vec<String> = s.split("try {\n").filter(|b| !b.is_empty()).map(|b| b.to_string()).collect();
    v.sort();
    v
}

thread_local! {
    /// When set, `build` loads the rules as several lists with different permission masks, the
    /// scriptlet rules once more under a third mask (the same rule reaching the engine through two
    /// lists that differ only in what they are allowed to inject).
    pub static MULTI_LIST: std::cell::Cell<bool> = std::cell::Cell::new(false);
}
pub fn build(rules: &[String], debug: bool, optimize: bool, perm: u8) -> Engine {
    let mut e = if MULTI_LIST.with(|m| m.get()) {
        let mut fs = adblock::lists::FilterSet::new(debug);
        let k = rules.len() / 2;
        let mask = |b: u8| ParseOptions { permissions: PermissionMask::from_bits(b), ..Default::default() };
        fs.add_filters(rules[..k].iter(), mask(1));
        fs.add_filters(rules[k..].iter(), mask(2));
        let js: Vec<&String> = rules.iter().filter(|l| l.contains("+js(")).collect();
        fs.add_filters(js.into_iter(), mask(3));
        Engine::from_filter_set(fs, optimize)
    } else {
        let opts = ParseOptions { permissions: PermissionMask::from_bits(perm), ..Default::default() };
        Engine::from_rules_parametrised(rules.iter(), opts, debug, optimize)
    };
    e.use_resources(resources());
    e
}

pub fn reload(bytes: &[u8], optimize_hint: bool) -> Result<Engine, String> {
    let mut e = Engine::new(optimize_hint);
    e.use_resources(resources());
    e.deserialize(bytes).map_err(|x| format!("{:?}", x))?;
    Ok(e)
}

/// kB value of a `/proc/self/status` line (`VmHWM:`, `VmRSS:`); 0 if unavailable.
pub fn vm_kb(key: &str) -> u64 {
    let s = std::fs::read_to_string("/proc/self/status").unwrap_or_default();
    for l in s.lines() {
        if l.starts_with(key) {
            return l.split_whitespace().nth(1).and_then(|x| x.parse().ok()).unwrap_or(0);
        }
    }
    0
}
/// Reset the peak-RSS counter (Linux >= 4.0); returns whether it worked.
pub fn reset_hwm() -> bool {
    std::fs::write("/proc/self/clear_refs", "5").is_ok()
}

/// Sequential walk over the msgpack payload the way a reader consumes it (marker by marker,
/// schema-less).  Returns the first str/bin/ext header that announces at least `limit` bytes and
/// more than remain in the input: `(offset, announced length)`.  rmp-serde's `ReadReader` resizes
/// its buffer to the announced length before reading, so such an input allocates that much.
/// The typed decoder may stop earlier with a type error, so this over-approximates.
pub fn announced_overrun(bytes: &[u8], start: usize, limit: u64) -> Option<(usize, u64)> {
    let mut i = start;
    let n = bytes.len();
    let be = |i: usize, k: usize| -> Option<u64> {
        if i + k > n { return None; }
        Some(bytes[i..i + k].iter().fold(0u64, |a, &b| a << 8 | b as u64))
    };
    while i < n {
        let m = bytes[i];
        let at = i;
        i += 1;
        let (skip, data): (usize, Option<u64>) = match m {
            0x00..=0x7f | 0x80..=0x8f | 0x90..=0x9f | 0xc0 | 0xc2 | 0xc3 | 0xe0..=0xff => (0, None),
            0xa0..=0xbf => (0, Some((m & 0x1f) as u64)),
            0xc1 => return None,
            0xc4 | 0xd9 => (1, Some(be(i, 1)?)),
            0xc5 | 0xda => (2, Some(be(i, 2)?)),
            0xc6 | 0xdb => (4, Some(be(i, 4)?)),
            0xc7 => (2, Some(be(i, 1)?)),
            0xc8 => (3, Some(be(i, 2)?)),
            0xc9 => (5, Some(be(i, 4)?)),
            0xca | 0xce | 0xd2 => (4, None),
            0xcb | 0xcf | 0xd3 => (8, None),
            0xcc | 0xd0 => (1, None),
            0xcd | 0xd1 => (2, None),
            0xd4 => (2, None),
            0xd5 => (3, None),
            0xd6 => (5, None),
            0xd7 => (9, None),
            0xd8 => (17, None),
            0xdc | 0xde => (2, None),
            0xdd | 0xdf => (4, None),
        };
        i += skip;
        if let Some(l) = data {
            let remaining = n.saturating_sub(i) as u64;
            if l > remaining {
                if l >= limit {
                    return Some((at, l));
                }
                return None; // the reader hits EOF here
            }
            i += l as usize;
        }
    }
    None
}

pub fn hex(b: &[u8]) -> String {
    let mut o = String::with_capacity(b.len() * 2);
    for x in b {
        o.push_str(&format!("{:02x}", x));
    }
    o
}
pub fn unhex(s: &str) -> Vec<u8> {
    (0..s.len() / 2).map(|i| u8::from_str_radix(&s[2 * i..2 * i + 2], 16).unwrap_or(0)).collect()
}

// ------------------------------------------------------------------ Gallina printers
fn shuffle<T>(r: &mut Rng, v: &mut Vec<T>) {
    for i in (1..v.len()).rev() {
        let j = r.below(i + 1);
        v.swap(i, j);
    }
}
fn costr(o: &Option<String>) -> String {
    copt(o, |s| hxs(s))
}
fn con(o: &Option<u64>) -> String {
    copt(o, |n| cn(n))
}
fn conl(o: &Option<Vec<u64>>) -> String {
    copt(o, |v| clist(v, |n| cn(n)))
}
pub fn coq_rule(f: &FilterDump) -> String {
    let part = match f.filter_kind {
        "empty" => "FEmpty".to_string(),
        "simple" => format!("(FSimple {})", hxs(&f.filter[0])),
        _ => format!("(FAnyOf {})", cstrs(&f.filter)),
    };
    format!(
        "(Build_rule {} {} {} {} {} {} {} {} {} {} {})",
        cn(f.mask), part, conl(&f.opt_domains), conl(&f.opt_not_domains), costr(&f.modifier_option), costr(&f.hostname),
        costr(&f.tag), costr(&f.raw_line), cn(f.id), con(&f.opt_domains_union), con(&f.opt_not_domains_union)
    )
}
pub fn coq_bucket_map(r: &mut Rng, l: &[(u64, Vec<FilterDump>)]) -> String {
    let mut v: Vec<String> = l.iter().map(|(k, b)| format!("({}, {})", cn(k), clist(b, coq_rule))).collect();
    shuffle(r, &mut v); // hash-map iteration order is arbitrary in the model
    format!("[{}]", v.join("; "))
}
fn coq_set(r: &mut Rng, s: &[String]) -> String {
    let mut v: Vec<String> = s.iter().map(|x| hxs(x)).collect();
    shuffle(r, &mut v);
    format!("[{}]", v.join("; "))
}
fn coq_smap(r: &mut Rng, m: &[(String, Vec<String>)]) -> String {
    let mut v: Vec<String> = m.iter().map(|(k, x)| format!("({}, {})", hxs(k), cstrs(x))).collect();
    shuffle(r, &mut v);
    format!("[{}]", v.join("; "))
}
fn coq_nmap(r: &mut Rng, m: &[(u64, Vec<String>)]) -> String {
    let mut v: Vec<String> = m.iter().map(|(k, x)| format!("({}, {})", cn(k), cstrs(x))).collect();
    shuffle(r, &mut v);
    format!("[{}]", v.join("; "))
}
pub fn coq_blocker(r: &mut Rng, e: &Engine) -> String {
    let d = dump_engine_blocker(e);
    let get = |name: &str| d.lists.iter().find(|(n, _)| *n == name).map(|(_, l)| l.clone()).unwrap_or_default();
    let mut tags = d.tags_enabled.clone();
    shuffle(r, &mut tags);
    format!(
        "(Build_blocker {} {} {} {} {} {} {} {} {} {} {})",
        coq_bucket_map(r, &get("csp")), coq_bucket_map(r, &get("exceptions")), coq_bucket_map(r, &get("importants")),
        coq_bucket_map(r, &get("redirects")), coq_bucket_map(r, &get("removeparam")), coq_bucket_map(r, &get("filters_tagged")),
        coq_bucket_map(r, &get("filters")), coq_bucket_map(r, &get("generic_hide")), cstrs(&tags),
        clist(&d.tagged_filters_all, coq_rule), cbool(d.enable_optimizations)
    )
}
pub fn coq_cosmetic_of(r: &mut Rng, c: &CosmeticDump) -> String {
    let mut inj: Vec<String> = c
        .inject_script
        .iter()
        .map(|(k, x)| format!("({}, {})", cn(k), clist(x, |(s, p)| format!("({}, {})", hxs(s), cn(p)))))
        .collect();
    shuffle(r, &mut inj);
    let host = format!(
        "(Build_hostdb {} {} [{}] {} {} {})",
        coq_nmap(r, &c.hide), coq_nmap(r, &c.unhide), inj.join("; "), coq_nmap(r, &c.uninject_script),
        coq_nmap(r, &c.procedural_action), coq_nmap(r, &c.procedural_action_exception)
    );
    format!(
        "(Build_cosmetic {} {} {} {} {} {})",
        coq_set(r, &c.simple_class_rules), coq_set(r, &c.simple_id_rules), coq_smap(r, &c.complex_class_rules),
        coq_smap(r, &c.complex_id_rules), host, coq_set(r, &c.misc_generic_selectors)
    )
}
pub fn coq_cosmetic(r: &mut Rng, e: &Engine) -> String {
    coq_cosmetic_of(r, &dump_cosmetic(e))
}
pub fn coq_engine(r: &mut Rng, e: &Engine) -> String {
    format!("(Build_engine {} {} [])", coq_blocker(r, e), coq_cosmetic(r, e))
}

/// `as_css` of every procedural/action JSON string in the engine, as the model's finite table:
/// the implementation's own answer is obtained from the engine's wire JSON (Style entries).
/// Computed independently here: parse the JSON text with serde_json.
pub fn as_css(f: &str) -> Option<(String, String)> {
    let v: serde_json::Value = serde_json::from_str(f).ok()?;
    let sel = v.get("selector")?.as_array()?;
    if sel.len() != 1 || sel[0].get("type")?.as_str()? != "css-selector" {
        return None;
    }
    let s = sel[0].get("arg")?.as_str()?.to_string();
    match v.get("action") {
        None => Some((s, "display: none !important".to_string())),
        Some(a) => {
            if a.get("type")?.as_str()? == "style" {
                Some((s, a.get("arg")?.as_str()?.to_string()))
            } else {
                None
            }
        }
    }
}
pub fn coq_css_table(c: &CosmeticDump) -> String {
    let mut seen = HashSet::new();
    let mut v = vec![];
    for (_, l) in c.procedural_action.iter().chain(c.procedural_action_exception.iter()) {
        for f in l {
            if seen.insert(f.clone()) {
                v.push(format!(
                    "({}, {})",
                    hxs(f),
                    copt(&as_css(f), |(a, b)| format!("({}, {})", hxs(a), hxs(b)))
                ));
            }
        }
    }
    format!("(css_table [{}])", v.join("; "))
}

// ------------------------------------------------------------------ digest printers (C08_Model.digest)
pub fn mp_int<T: std::fmt::Display>(n: T) -> String {
    format!("(MInt {}%N)", n)
}
pub fn mp_str(s: &str) -> String {
    format!("(MStr {})", hxs(s))
}
pub fn mp_arr(v: &[String]) -> String {
    format!("(MArr [{}])", v.join("; "))
}
pub fn mp_map(v: &[(String, String)]) -> String {
    format!("(MMap [{}])", v.iter().map(|(k, x)| format!("({}, {})", k, x)).collect::<Vec<_>>().join("; "))
}
pub fn mp_opt(o: &Option<String>) -> String {
    match o {
        None => "MNil".into(),
        Some(s) => mp_str(s),
    }
}
fn mp_optl(o: &Option<Vec<u64>>) -> String {
    match o {
        None => "MNil".into(),
        Some(v) => mp_arr(&v.iter().map(mp_int).collect::<Vec<_>>()),
    }
}
fn mp_optn(o: &Option<u64>) -> String {
    match o {
        None => "MNil".into(),
        Some(n) => mp_int(n),
    }
}
pub fn mp_rule(f: &FilterDump) -> String {
    let part = match f.filter_kind {
        "empty" => mp_map(&[(mp_int(0), "MNil".to_string())]),
        "simple" => mp_map(&[(mp_int(1), mp_str(&f.filter[0]))]),
        _ => mp_map(&[(mp_int(2), mp_arr(&f.filter.iter().map(|s| mp_str(s)).collect::<Vec<_>>()))]),
    };
    mp_arr(&[
        mp_int(f.id), mp_int(f.mask), part, mp_opt(&f.modifier_option), mp_opt(&f.hostname), mp_opt(&f.tag),
        mp_optl(&f.opt_domains), mp_optl(&f.opt_not_domains), mp_opt(&f.raw_line),
        mp_optn(&f.opt_domains_union), mp_optn(&f.opt_not_domains_union),
    ])
}
fn mp_buckets(l: &[(u64, Vec<FilterDump>)]) -> String {
    mp_map(&l.iter().map(|(k, b)| (mp_int(k), mp_arr(&b.iter().map(mp_rule).collect::<Vec<_>>()))).collect::<Vec<_>>())
}
fn mp_strs(v: &[String]) -> String {
    mp_arr(&v.iter().map(|s| mp_str(s)).collect::<Vec<_>>())
}
fn mp_bins(m: &[(u64, Vec<String>)]) -> String {
    mp_map(&m.iter().filter(|(_, v)| !v.is_empty()).map(|(k, v)| (mp_int(k), mp_strs(v))).collect::<Vec<_>>())
}
fn mp_smap(m: &[(String, Vec<String>)]) -> String {
    mp_map(&m.iter().map(|(k, v)| (mp_str(k), mp_strs(v))).collect::<Vec<_>>())
}
/// The digest of the engine's current state, containers in sorted order (the dump hooks sort).
pub fn mp_digest(e: &Engine) -> String {
    let d = dump_engine_blocker(e);
    let c = dump_cosmetic(e);
    let get = |name: &str| d.lists.iter().find(|(n, _)| *n == name).map(|(_, l)| l.clone()).unwrap_or_default();
    let inj = mp_map(
        &c.inject_script.iter().filter(|(_, v)| !v.is_empty())
            .map(|(k, v)| (mp_int(k), mp_arr(&v.iter().map(|(s, p)| mp_arr(&[mp_str(s), mp_int(p)])).collect::<Vec<_>>())))
            .collect::<Vec<_>>(),
    );
    mp_arr(&[
        mp_buckets(&get("csp")), mp_buckets(&get("exceptions")), mp_buckets(&get("importants")), mp_buckets(&get("redirects")),
        mp_buckets(&get("removeparam")), mp_buckets(&get("filters_tagged")), mp_buckets(&get("filters")), mp_buckets(&get("generic_hide")),
        mp_strs(&d.tags_enabled), mp_arr(&d.tagged_filters_all.iter().map(mp_rule).collect::<Vec<_>>()),
        format!("(MBool {})", cbool(d.enable_optimizations)),
        mp_strs(&c.simple_class_rules), mp_strs(&c.simple_id_rules), mp_smap(&c.complex_class_rules), mp_smap(&c.complex_id_rules),
        mp_bins(&c.hide), mp_bins(&c.unhide), inj, mp_bins(&c.uninject_script), mp_bins(&c.procedural_action),
        mp_bins(&c.procedural_action_exception), mp_strs(&c.misc_generic_selectors),
    ])
}
