//! Reference reading of a whole network rule LINE (pattern + options), judged from the text alone.
//!
//! `rule_applies(line, request)` answers "does this rule apply to this request?" without the crate's
//! rule parser (`NetworkFilter::parse`) and without its matcher (`NetworkFilter::matches`):
//!   * the pattern part goes through the reference ABP matcher of `refmatch` (C02's oracle);
//!   * the options part is the option semantics of C03's oracle (`ref_parse` / `ref_allowed` /
//!     `ref_applies`, copied here and fed with `Shape` facts read off the pattern text);
//!   * of the request only `req.url` (the normalised URL), `req.hostname` and `req.is_third_party`
//!     are used (normalisation and party classification are C12's subject); the resource type comes
//!     from `raw_type`, the scheme from the URL text, the initiator host from the `source` text.
//! Everything whose reading is not fixed is `Err(Outside::..)` (`None` for `rule_applies`): the
//! function never guesses.  See `Outside` for the classes.  "applies" is the conjunction pattern /\
//! type /\ party /\ initiator; once the line is valid and its pattern has a reading, one false
//! conjunct makes the answer `false` even when another conjunct is outside the reading (a request
//! without a source against `adz$domain=a.com` is outside only when the URL contains `adz`).
//! Validation: `src/bin/refrule_check.rs` (0 disagreements with NetworkFilter::parse / ::matches on
//! the unchanged crate; about 17 % of the generated pairs are outside the reading).
//!
//! Grammar covered (everything else is `Outside`):
//!   line     ::= ["@@"] pattern ["$" option {"," option}]          (options after the LAST '$')
//!   pattern  ::= "" | "*"                                          every URL
//!              | "|http://" | "|https://" | "|http*://" | "|ws://" every URL of that scheme
//!              | ["|" | "||"] body ["|"]                           ABP: literal, '*', '^', anchors
//!                (ASCII; body not a /regex/, not one of C02's degenerate spellings -- except a leading /
//!                 trailing '*' that is not followed by the right anchor, which is a no-op --, not `||host|`)
//!   option   ::= ["~"] type | ["~"] party | ("domain"|"from") "=" entry {"|" entry}
//!              | "important" | "badfilter" | "tag=" v | "redirect=" v | "redirect-rule=" v
//!              | "csp" ["=" v] | "removeparam=" name | "generichide" | "ghide"
use crate::refmatch::{host_cut, host_start, reference, split};
use adblock::request::Request;

/// Why a (rule, request) pair is outside the reading.
#[derive(Clone, Copy, PartialEq, Eq, Debug, PartialOrd, Ord)]
pub enum Outside {
    /// F4: the rule line or the URL is not ASCII (byte-level regex vs char-level tokenizer; IDN hosts)
    NonAscii,
    /// F23: the URL contains a literal '*'
    UrlStar,
    /// the option reference rejects the line (the crate must reject it as well: `rule_is_rejected_by_text`)
    Rejected,
    /// `$match-case` (only valid on /regex/ rules, which are outside as well)
    MatchCase,
    /// the pattern is a complete regular expression `/…/`
    RegexBody,
    /// C02's degenerate spellings, by kind: a lone `|` / `||` (nothing between the anchors)
    DegenerateLoneAnchor,
    /// `ads*|`: by ABP ("'*' stands for any string, '|' for the end of the address") this is `ads`
    /// followed by anything, i.e. the same as `ads`; the crate drops the '*' and keeps the anchor, so
    /// it requires the URL to END in `ads` (`example*|` is not matched on `http://x.com/examplex9`).
    /// One of C02's degenerate spellings; kept outside, reported as a deviation of the crate.
    StarBeforeRightAnchor,
    /// `||` followed by no hostname (`||*/ads`, `||^x`, `||www.^`)
    DegenerateEmptyHost,
    /// `||host^|`, `||ho*st|`: hostname anchor + right anchor around '^' / '*'
    DegenerateHostRight,
    /// `^^`, a `$` inside the pattern, `@@@@`, `|scheme://|`, `|HTTP://`
    DegenerateOther,
    /// F22: `||host|` (right '|' directly after a bare hostname)
    HostRightPipe,
    /// the URL's scheme is none of http, https, ws, wss (the engine answers such requests by default)
    UnsupportedScheme,
    /// F3: a scheme-only pattern `|http://`, `|https://`, `|http*://` against a ws:// / wss:// request
    F3SchemeWs,
    /// `|ws://` against a wss:// URL (C03's reading: applies; the literal ABP reading: does not), or
    /// `|ws://` combined with explicit positive types that do not name websocket
    WsPattern,
    /// F2: the rule has `domain=` / party options and the request has no (usable) source
    NoSource,
    /// two `domain=` / `from=` options on one line, an empty or doubly negated entry, `~domain=`, `~csp`, `~~type`
    OddOptionSpelling,
    /// a `domain=` entry with upper-case letters (`domain=A.com`): ABP and uBO fold the case of the
    /// option value, the crate hashes the entry as written (so it never equals a lower-case initiator
    /// host); no generator of the harness writes such entries.  Named class, not judged.
    UpperCaseDomainEntry,
    /// a `$csp` rule against a request that is neither document nor subdocument: the engine never asks
    /// (csp rules are consulted for document / subdocument requests only); by the documented semantics
    /// the rule does not apply, `NetworkFilter::matches` is not specified there
    CspOtherType,
    /// the position of the host in the URL could not be established
    NoHostOffset,
    /// the crate reports the request's hostname with upper-case letters (it does not fold the case of
    /// ASCII hosts; DESIGN.md C12 "host case is not normalised"): a hostname-anchored rule written in
    /// lower case applies by the documented semantics (hostnames are case-insensitive) and is not
    /// matched by the crate.  Named class, so that it is neither hidden nor reported on every run.
    UpperCaseHost,
}

// ------------------------------------------------------------------------------------------------
// Shape facts, read off the pattern text
// ------------------------------------------------------------------------------------------------
#[derive(Clone, Copy, PartialEq, Debug)]
pub enum Scheme {
    None,
    Ws,
    Http,
    Https,
    HttpStar,
}
#[derive(Clone, Debug)]
pub struct Shape {
    pub exception: bool,
    /// the pattern is exactly `||hostname^`: such a rule (without any type option) also covers documents
    pub host_caret: bool,
    pub complete_regex: bool,
    pub scheme: Scheme,
}

/// (exception, pattern text, option text) of a line; options follow the LAST '$'.
pub fn split_line(line: &str) -> (bool, &str, Option<&str>) {
    let (exception, rest) = match line.strip_prefix("@@") {
        Some(x) => (true, x),
        None => (false, line),
    };
    match rest.rfind('$') {
        Some(i) => (exception, &rest[..i], Some(&rest[i + 1..])),
        None => (exception, rest, None),
    }
}

fn scheme_of_pattern(pat: &str) -> Scheme {
    // as written (an upper-case spelling falls under the degenerate spellings)
    // (a trailing `*` adds nothing: `|http*://*` is the scheme-only rule `|http*://`)
    let pat = if pat.len() > 1 && pat.ends_with("://*") { &pat[..pat.len() - 1] } else { pat };
    match pat {
        "|http://" => Scheme::Http,
        "|https://" => Scheme::Https,
        "|ws://" => Scheme::Ws,
        "|http*://" => Scheme::HttpStar,
        _ => Scheme::None,
    }
}

pub fn shape_of(exception: bool, pat: &str) -> Shape {
    let sp = split(pat);
    // `/…/` between the anchors (an anchored `|/…/|` is read as a regular expression as well)
    let complete_regex = sp.body.len() > 1 && sp.body.starts_with('/') && sp.body.ends_with('/');
    let host_caret = sp.left == 2 && !sp.right && sp.body.len() > 1 && sp.body.ends_with('^') && host_cut(sp.body) == sp.body.len() - 1;
    Shape { exception, host_caret, complete_regex, scheme: scheme_of_pattern(pat) }
}

// ------------------------------------------------------------------------------------------------
// Option semantics (from C03's oracle, written from the ABP / uBO documentation tables)
// ------------------------------------------------------------------------------------------------
#[derive(Clone, Copy, PartialEq, Eq, Debug)]
pub enum Class {
    Image,
    Media,
    Object,
    Other,
    Ping,
    Script,
    Stylesheet,
    Subdocument,
    Websocket,
    Xhr,
    Font,
    Document,
}
/// ABP / uBO option names for resource types
pub fn class_of_option(name: &str) -> Option<Class> {
    Some(match name {
        "image" => Class::Image,
        "media" => Class::Media,
        "object" | "object-subrequest" => Class::Object,
        "other" => Class::Other,
        "ping" | "beacon" => Class::Ping,
        "script" => Class::Script,
        "stylesheet" | "css" => Class::Stylesheet,
        "subdocument" | "frame" => Class::Subdocument,
        "xmlhttprequest" | "xhr" => Class::Xhr,
        "websocket" => Class::Websocket,
        "font" => Class::Font,
        "document" | "doc" => Class::Document,
        _ => return None,
    })
}
/// webRequest resource type names; `None` = never filtered (csp reports)
pub fn class_of_request(raw: &str) -> Option<Class> {
    Some(match raw {
        "csp_report" => return None,
        "beacon" | "ping" => Class::Ping,
        "document" | "main_frame" => Class::Document,
        "font" => Class::Font,
        "image" | "imageset" => Class::Image,
        "media" => Class::Media,
        "object" | "object_subrequest" => Class::Object,
        "script" => Class::Script,
        "stylesheet" => Class::Stylesheet,
        "sub_frame" | "subdocument" => Class::Subdocument,
        "websocket" => Class::Websocket,
        "xhr" | "xmlhttprequest" => Class::Xhr,
        _ => Class::Other,
    })
}

#[derive(Default, Debug)]
pub struct RefRule {
    pub pos: Vec<Class>,
    pub neg: Vec<Class>,
    pub third_only: bool,
    pub first_only: bool,
    pub inc: Option<Vec<String>>,
    pub exc: Option<Vec<String>>,
    pub bad: bool,
    pub csp: bool,
    pub removeparam: bool,
    pub ghide: bool,
    pub matchcase: bool,
    pub modifiers: usize,
    /// spellings the reference accepts (as the crate does) but whose meaning is not fixed
    pub odd: bool,
    /// a `domain=` entry written with upper-case letters
    pub upper_domain: bool,
}

pub fn ref_parse(opts: Option<&str>, sh: &Shape) -> Result<RefRule, String> {
    let mut r = RefRule::default();
    let mut domain_options = 0;
    if let Some(text) = opts {
        for o in text.split(',') {
            let negated = o.starts_with('~');
            let body = o.trim_start_matches('~');
            if o.starts_with("~~") {
                r.odd = true;
            }
            let (name, value) = match body.find('=') {
                Some(i) => (&body[..i], &body[i + 1..]),
                None => (body, ""),
            };
            if let Some(c) = class_of_option(name) {
                if c == Class::Document && negated {
                    return Err("negated document".into());
                }
                if negated {
                    r.neg.push(c)
                } else {
                    r.pos.push(c)
                }
                continue;
            }
            match name {
                "third-party" | "3p" => {
                    if negated {
                        r.first_only = true
                    } else {
                        r.third_only = true
                    }
                }
                "first-party" | "1p" => {
                    if negated {
                        r.third_only = true
                    } else {
                        r.first_only = true
                    }
                }
                "domain" | "from" => {
                    domain_options += 1;
                    if negated || domain_options > 1 {
                        r.odd = true;
                    }
                    let mut inc = vec![];
                    let mut exc = vec![];
                    for d in value.split('|') {
                        let (on, d) = match d.strip_prefix('~') {
                            Some(x) => (false, x),
                            None => (true, d),
                        };
                        if d.starts_with('/') && d.ends_with('/') {
                            continue; // regex entries are not supported and dropped
                        }
                        if d.is_empty() || d.starts_with('~') {
                            r.odd = true;
                        }
                        if d.bytes().any(|c| c.is_ascii_uppercase()) {
                            r.upper_domain = true;
                        }
                        if on {
                            inc.push(d.to_ascii_lowercase())
                        } else {
                            exc.push(d.to_ascii_lowercase())
                        }
                    }
                    if inc.is_empty() && exc.is_empty() {
                        return Err("no supported domains".into());
                    }
                    if !inc.is_empty() {
                        r.inc = Some(inc)
                    }
                    if !exc.is_empty() {
                        r.exc = Some(exc)
                    }
                }
                "csp" => {
                    if negated {
                        r.odd = true;
                    }
                    r.csp = true;
                    r.modifiers += 1
                }
                "badfilter" | "important" | "match-case" | "tag" | "redirect" | "redirect-rule" | "removeparam" | "generichide" | "ghide" => {
                    if negated {
                        return Err(format!("negated {}", name));
                    }
                    match name {
                        "badfilter" => r.bad = true,
                        "match-case" => r.matchcase = true,
                        "generichide" | "ghide" => r.ghide = true,
                        "redirect" | "redirect-rule" => {
                            if value.is_empty() {
                                return Err("empty redirect".into());
                            }
                            r.modifiers += 1
                        }
                        "removeparam" => {
                            if value.is_empty() || !value.chars().all(|c| c.is_ascii_alphanumeric() || c == '_' || c == '-') {
                                return Err("unsupported removeparam".into());
                            }
                            r.removeparam = true;
                            r.modifiers += 1
                        }
                        _ => {}
                    }
                }
                _ => return Err("unknown option".into()),
            }
        }
    }
    if r.csp && (!r.pos.is_empty() || !r.neg.is_empty()) {
        return Err("csp with type".into());
    }
    if r.modifiers > 1 {
        return Err("several modifiers".into());
    }
    if r.matchcase && !sh.complete_regex {
        return Err("match-case without regex".into());
    }
    if r.ghide && !sh.exception {
        return Err("generichide on a blocking rule".into());
    }
    if r.removeparam && sh.exception {
        return Err("removeparam exception".into());
    }
    Ok(r)
}

const NETWORK: &[Class] = &[
    Class::Image, Class::Media, Class::Object, Class::Other, Class::Ping, Class::Script, Class::Stylesheet, Class::Subdocument,
    Class::Websocket, Class::Xhr, Class::Font,
];

/// Is a request of class `c` within the rule's resource types?
pub fn ref_allowed(r: &RefRule, sh: &Shape, c: Class) -> bool {
    if r.neg.contains(&c) {
        return false; // exclusions win
    }
    if r.pos.contains(&c) {
        return true;
    }
    if r.csp && c == Class::Document {
        return true;
    }
    if sh.scheme == Scheme::Ws && c == Class::Websocket {
        return true;
    }
    let network = NETWORK.contains(&c);
    if !r.removeparam && !r.neg.is_empty() && network {
        return true; // `~image` = every network type but images (documents are never implied)
    }
    if r.pos.is_empty() {
        if r.removeparam {
            // removeparam without explicit types: document, subdocument, xhr
            if matches!(c, Class::Document | Class::Subdocument | Class::Xhr) {
                return true;
            }
        } else if network {
            return true;
        }
        // `||hostname^` without any type option also covers the main document
        if r.neg.is_empty() && !r.removeparam && sh.host_caret {
            return true;
        }
    }
    false
}

pub fn covers(d: &str, host: &str) -> bool {
    d == host || (!d.is_empty() && host.ends_with(&format!(".{}", d)))
}

/// host of the initiator, from the text of the source URL
pub fn source_host(source: &str) -> Option<String> {
    let a = source.find("://")? + 3;
    let end = source[a..].find(|c| c == '/' || c == '?' || c == '#').map(|i| a + i).unwrap_or(source.len());
    let auth = &source[a..end];
    let auth = auth.rsplit('@').next().unwrap_or(auth);
    let host = auth.split(':').next().unwrap_or(auth).to_ascii_lowercase();
    if host.is_empty() || !host.is_ascii() {
        return None;
    }
    Some(host)
}

fn scheme_of_url(url: &str) -> &str {
    match url.find(':') {
        Some(i) => &url[..i],
        None => "",
    }
}

/// C02's degenerate spellings (independent restatement of `nondegenerate_text`), on the pattern text,
/// by kind
fn degenerate(pat: &str) -> Option<Outside> {
    let sp = split(pat);
    let core = sp.body.to_ascii_lowercase();
    if core.is_empty() {
        return Some(Outside::DegenerateLoneAnchor);
    }
    if core.contains("^^") || core.contains('\n') || core.contains('$') || pat.starts_with("@@") {
        return Some(Outside::DegenerateOther);
    }
    if sp.left == 2 {
        let cut = host_cut(&core);
        let h = core[..cut].trim_start_matches("www.");
        if h.is_empty() {
            return Some(Outside::DegenerateEmptyHost);
        }
        if sp.right && (core.ends_with('^') || core.contains('*')) {
            return Some(Outside::DegenerateHostRight);
        }
    }
    if sp.left == 1 && matches!(core.as_str(), "ws://" | "http://" | "https://" | "http*://") {
        return Some(Outside::DegenerateOther); // `|http://|`, `|HTTP://`
    }
    // a leading / trailing '*' is among C02's degenerate spellings as well; its ABP reading is fixed
    // ('*' = any string, so `*ads*` = `ads`) and is taken here -- except before the right anchor
    if sp.right && core.ends_with('*') {
        return Some(Outside::StarBeforeRightAnchor);
    }
    None
}

/// The full judgement: `Ok(applies)` or the reason why the pair is outside the reading.
pub fn judge(line: &str, req: &Request, url: &str, source: &str, raw_type: &str) -> Result<bool, Outside> {
    if !line.is_ascii() || !url.is_ascii() || !req.url.is_ascii() || !req.hostname.is_ascii() {
        return Err(Outside::NonAscii);
    }
    if url.contains('*') || req.url.contains('*') {
        return Err(Outside::UrlStar);
    }
    let (exception, pat, opts) = split_line(line);
    let sh = shape_of(exception, pat);
    let r = ref_parse(opts, &sh).map_err(|_| Outside::Rejected)?;
    if r.matchcase {
        return Err(Outside::MatchCase);
    }
    if r.odd {
        return Err(Outside::OddOptionSpelling);
    }
    if r.upper_domain {
        return Err(Outside::UpperCaseDomainEntry);
    }
    if r.bad {
        return Ok(false); // a $badfilter line applies to nothing
    }
    let scheme = scheme_of_url(&req.url).to_ascii_lowercase();
    if !matches!(scheme.as_str(), "http" | "https" | "ws" | "wss") {
        return Err(Outside::UnsupportedScheme);
    }
    let ws = scheme == "ws" || scheme == "wss";

    // ---- pattern
    let pat_ok = if pat.is_empty() || pat == "*" {
        true
    } else if sh.scheme != Scheme::None {
        match sh.scheme {
            Scheme::Http | Scheme::Https | Scheme::HttpStar if ws => return Err(Outside::F3SchemeWs),
            Scheme::Http => scheme == "http",
            Scheme::Https => scheme == "https",
            Scheme::HttpStar => true,
            Scheme::Ws => {
                if scheme == "wss" || (!r.pos.is_empty() && !r.pos.contains(&Class::Websocket)) {
                    return Err(Outside::WsPattern);
                }
                scheme == "ws"
            }
            Scheme::None => unreachable!(),
        }
    } else {
        if sh.complete_regex {
            return Err(Outside::RegexBody);
        }
        if let Some(o) = degenerate(pat) {
            return Err(o);
        }
        let sp = split(pat);
        if sp.left == 2 && sp.right && host_cut(sp.body) == sp.body.len() {
            return Err(Outside::HostRightPipe);
        }
        let url_lc = req.url.to_ascii_lowercase();
        let hs = host_start(req).ok_or(Outside::NoHostOffset)?;
        if sp.left == 2 && req.hostname.bytes().any(|c| c.is_ascii_uppercase()) {
            return Err(Outside::UpperCaseHost);
        }
        reference(pat, url_lc.as_bytes(), req.hostname.to_ascii_lowercase().as_bytes(), hs).ok_or(Outside::DegenerateEmptyHost)?
    };

    // a conjunction with a false conjunct is false whatever the other conjuncts are (the Shape facts the
    // options depend on are fixed once the pattern has a reading)
    if !pat_ok {
        return Ok(false);
    }

    // ---- options
    let class = if ws { Some(Class::Websocket) } else { class_of_request(raw_type) };
    let type_ok: Result<bool, Outside> = match class {
        None => Ok(false),
        Some(c) if r.csp && !matches!(c, Class::Document | Class::Subdocument) => Err(Outside::CspOtherType),
        // an exception rule also exempts the document itself (uBO: uBlock-issues #1501)
        Some(c) => Ok(ref_allowed(&r, &sh, c) || (c == Class::Document && sh.exception)),
    };
    let needs_source = r.inc.is_some() || r.exc.is_some() || r.third_only || r.first_only;
    let source_ok: Result<bool, Outside> = if !needs_source {
        Ok(true)
    } else {
        match source_host(source) {
            None => Err(Outside::NoSource),
            Some(host) => {
                let party_ok = if req.is_third_party { !r.first_only } else { !r.third_only };
                let dom_ok = r.inc.as_ref().map_or(true, |l| l.iter().any(|d| covers(d, &host))) && r.exc.as_ref().map_or(true, |l| !l.iter().any(|d| covers(d, &host)));
                Ok(party_ok && dom_ok)
            }
        }
    };
    match (type_ok, source_ok) {
        (Ok(false), _) | (_, Ok(false)) => Ok(false),
        (Err(o), _) | (_, Err(o)) => Err(o),
        (Ok(true), Ok(true)) => Ok(true),
    }
}

/// Does the network rule `line` (as written in a filter list, with or without `@@`, options after the last `$`)
/// apply to the request, judged from the TEXT alone?  None = outside the reading.
pub fn rule_applies(line: &str, req: &Request, url: &str, source: &str, raw_type: &str) -> Option<bool> {
    judge(line, req, url, source, raw_type).ok()
}

/// Is the line rejected as a network rule, judged from its text (option names, negations, values and
/// combinations)?  `Some(true)`: the crate's rule parser must reject it; `Some(false)`: it must accept
/// it.  None: non-ASCII lines (the hostname of a `||` rule may fail punycode conversion).
pub fn rule_is_rejected_by_text(line: &str) -> Option<bool> {
    if !line.is_ascii() {
        return None;
    }
    let (exception, pat, opts) = split_line(line);
    Some(ref_parse(opts, &shape_of(exception, pat)).is_err())
}
