//! Reference ABP matcher (L0), read off the rule TEXT: shared by the oracles that must not rely on
//! the crate's own NetworkFilter::matches (C02's subject; C14 uses it to judge which removeparam
//! rules apply).
use adblock::request::Request;

#[derive(Clone, Copy, PartialEq, Debug)]
pub enum T {
    L(u8),
    Star,
    Sep,
}
pub fn is_sep(b: u8) -> bool {
    !(b.is_ascii_alphanumeric() || b == b'_' || b == b'.' || b == b'%' || b == b'-')
}
/// `p` matches a prefix of `s` (the whole of `s` if `to_end`)
pub fn m(p: &[T], s: &[u8], to_end: bool) -> bool {
    match p.first() {
        None => !to_end || s.is_empty(),
        Some(T::L(c)) => !s.is_empty() && s[0] == *c && m(&p[1..], &s[1..], to_end),
        Some(T::Sep) => (!s.is_empty() && is_sep(s[0]) && m(&p[1..], &s[1..], to_end)) || (p.len() == 1 && s.is_empty()),
        Some(T::Star) => (0..=s.len()).any(|i| m(&p[1..], &s[i..], to_end)),
    }
}
pub fn toks(b: &str) -> Vec<T> {
    b.bytes()
        .map(|c| match c {
            b'*' => T::Star,
            b'^' => T::Sep,
            c => T::L(c.to_ascii_lowercase()),
        })
        .collect()
}
pub fn search(p: &[T], s: &[u8], la: bool, ra: bool) -> bool {
    if la {
        m(p, s, ra)
    } else {
        (0..=s.len()).any(|i| m(p, &s[i..], ra))
    }
}
pub struct Split<'a> {
    pub left: u8, // 0 none, 1 '|', 2 '||'
    pub right: bool,
    pub body: &'a str,
}
pub fn split(rule: &str) -> Split {
    let mut s = rule;
    if let Some(x) = s.strip_prefix("@@") {
        s = x;
    }
    let (left, rest) = if let Some(x) = s.strip_prefix("||") {
        (2, x)
    } else if let Some(x) = s.strip_prefix('|') {
        (1, x)
    } else {
        (0, s)
    };
    let (right, body) = if !rest.is_empty() && rest.ends_with('|') { (true, &rest[..rest.len() - 1]) } else { (false, rest) };
    Split { left, right, body }
}
pub fn host_cut(body: &str) -> usize {
    body.find(|c| c == '/' || c == '^' || c == '*').unwrap_or(body.len())
}
/// ABP semantics of an option-free rule on (lower-cased url, host, host offset). None: no host.
pub fn reference(rule: &str, url_lc: &[u8], host: &[u8], hs: usize) -> Option<bool> {
    let sp = split(rule);
    match sp.left {
        0 => Some(search(&toks(sp.body), url_lc, false, sp.right)),
        1 => Some(search(&toks(sp.body), url_lc, true, sp.right)),
        _ => {
            let cut = host_cut(sp.body);
            let (h, rest) = (&sp.body[..cut], &sp.body[cut..]);
            let h = h.to_ascii_lowercase();
            let h = h.trim_start_matches("www.");
            if h.is_empty() {
                return None;
            }
            let hb = h.as_bytes();
            let p = toks(rest);
            let wildcard = rest.starts_with('*');
            for o in 0..host.len() {
                if !(o == 0 || host[o - 1] == b'.' || hb[0] == b'.') {
                    continue;
                }
                if !host[o..].starts_with(hb) {
                    continue;
                }
                let e = o + hb.len();
                if !(wildcard || hb[hb.len() - 1] == b'.' || e == host.len() || host[e] == b'.') {
                    continue;
                }
                if m(&p, &url_lc[hs + e..], sp.right) {
                    return Some(true);
                }
            }
            Some(false)
        }
    }
}
/// offset of the host in the URL: after "://" and the credentials (independent of the crate's
/// get_url_after_anchor: the authority ends at the first '/', '?' or '#')
pub fn host_start(req: &Request) -> Option<usize> {
    let a = req.url.find("://")? + 3;
    let end = req.url[a..].find(|c| c == '/' || c == '?' || c == '#').map(|i| a + i).unwrap_or(req.url.len());
    let i = req.url[a..end].rfind('@').map(|k| a + k + 1).unwrap_or(a);
    if req.url[i..].starts_with(req.hostname.as_str()) && !req.hostname.is_empty() {
        Some(i)
    } else {
        None
    }
}
