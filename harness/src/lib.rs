//! Common glue for the per-property harness binaries (`src/bin/cXX.rs`).
//!
//! Each binary runs the *implementation* on generated inputs and writes
//!   * `<out>/cases_NNN.v`  – Coq files; every case is a boolean Gallina expression that evaluates
//!     the model on the same input and compares with what the implementation returned;
//!   * `<out>/cases.jsonl`  – one JSON object per case (readable input + implementation result),
//!     same numbering, used to write replay files;
//!   * `<out>/impl.json`    – run summary: counters, generator statistics, samples and the result
//!     of the implementation-side failing-input search (`oracle_failures`).
#![allow(clippy::all)]

use serde_json::{json, Value};
use std::collections::HashSet;
use std::fmt::Write as _;
use std::io::Write as _;
use std::path::{Path, PathBuf};

// ---------------------------------------------------------------- PRNG (one state per run)
#[derive(Clone)]
pub struct Rng(pub u64);
impl Rng {
    pub fn new(seed: u64) -> Self {
        Rng(seed ^ 0x9E37_79B9_7F4A_7C15)
    }
    pub fn next(&mut self) -> u64 {
        // splitmix64
        self.0 = self.0.wrapping_add(0x9E37_79B9_7F4A_7C15);
        let mut z = self.0;
        z = (z ^ (z >> 30)).wrapping_mul(0xBF58_476D_1CE4_E5B9);
        z = (z ^ (z >> 27)).wrapping_mul(0x94D0_49BB_1331_11EB);
        z ^ (z >> 31)
    }
    pub fn below(&mut self, n: usize) -> usize {
        if n == 0 {
            0
        } else {
            (self.next() % n as u64) as usize
        }
    }
    pub fn chance(&mut self, num: usize, den: usize) -> bool {
        self.below(den) < num
    }
    pub fn pick<T: Copy>(&mut self, v: &[T]) -> T {
        v[self.below(v.len())]
    }
    pub fn range(&mut self, lo: usize, hi: usize) -> usize {
        lo + self.below(hi - lo + 1)
    }
}

// ---------------------------------------------------------------- command line
pub struct Args {
    pub seed: u64,
    pub tier: String,
    pub out: PathBuf,
    pub replay: Option<PathBuf>,
    pub scale: usize,
}
pub fn args() -> Args {
    let mut a = Args {
        seed: 1,
        tier: "quick".into(),
        out: PathBuf::from("out"),
        replay: None,
        scale: 1,
    };
    let v: Vec<String> = std::env::args().collect();
    let mut i = 1;
    while i < v.len() {
        match v[i].as_str() {
            "--seed" => {
                a.seed = v[i + 1].parse().unwrap_or(1);
                i += 1
            }
            "--tier" => {
                a.tier = v[i + 1].clone();
                i += 1
            }
            "--out" => {
                a.out = PathBuf::from(&v[i + 1]);
                i += 1
            }
            "--replay" => {
                a.replay = Some(PathBuf::from(&v[i + 1]));
                i += 1
            }
            _ => {}
        }
        i += 1;
    }
    a.scale = if a.tier == "thorough" { 20 } else { 1 };
    std::fs::create_dir_all(&a.out).ok();
    a
}

// ---------------------------------------------------------------- Coq literals
pub fn hx(s: &[u8]) -> String {
    let mut o = String::with_capacity(s.len() * 2 + 8);
    o.push_str("(hx \"");
    for b in s {
        write!(o, "{:02x}", b).unwrap();
    }
    o.push_str("\")");
    o
}
pub fn hxs(s: &str) -> String {
    hx(s.as_bytes())
}
pub fn cbool(b: bool) -> &'static str {
    if b {
        "true"
    } else {
        "false"
    }
}
pub fn cn<T: std::fmt::Display>(n: T) -> String {
    format!("{}%N", n)
}
pub fn cnat(n: usize) -> String {
    format!("(N.to_nat {}%N)", n)
}
pub fn clist<T, F: Fn(&T) -> String>(v: &[T], f: F) -> String {
    let mut o = String::from("[");
    for (i, x) in v.iter().enumerate() {
        if i > 0 {
            o.push_str("; ");
        }
        o.push_str(&f(x));
    }
    o.push(']');
    o
}
pub fn copt<T, F: Fn(&T) -> String>(v: &Option<T>, f: F) -> String {
    match v {
        None => "None".into(),
        Some(x) => format!("(Some {})", f(x)),
    }
}
pub fn cstrs(v: &[String]) -> String {
    clist(v, |s| hxs(s))
}

// ---------------------------------------------------------------- case writer
pub struct Cases {
    out: PathBuf,
    imports: String,
    exprs: Vec<String>,
    meta: std::fs::File,
    pub shard: usize,
    pub n: usize,
    pub distinct: HashSet<u64>,
    pub nontrivial: usize,
    pub samples: Vec<Value>,
    pub stats: std::collections::BTreeMap<String, u64>,
}
fn fnv(s: &str) -> u64 {
    let mut h: u64 = 0xcbf29ce484222325;
    for b in s.bytes() {
        h ^= b as u64;
        h = h.wrapping_mul(0x100000001b3);
    }
    h
}
impl Cases {
    /// `imports`: module names under `Adb`, e.g. `"C14_Model"`.
    pub fn new(out: &Path, imports: &str) -> Self {
        for e in std::fs::read_dir(out).unwrap().flatten() {
            let n = e.file_name().to_string_lossy().to_string();
            if n.starts_with("cases_") {
                std::fs::remove_file(e.path()).ok();
            }
        }
        Cases {
            out: out.to_path_buf(),
            imports: imports.to_string(),
            exprs: vec![],
            meta: std::fs::File::create(out.join("cases.jsonl")).unwrap(),
            shard: 400,
            n: 0,
            distinct: HashSet::new(),
            nontrivial: 0,
            samples: vec![],
            stats: Default::default(),
        }
    }
    pub fn stat(&mut self, k: &str) {
        *self.stats.entry(k.to_string()).or_insert(0) += 1;
    }
    /// Add one case. `expr` is a Gallina term of type `bool`; `desc` is the readable record;
    /// `nontrivial` says whether this case exercises the property by the binary's stated rule.
    pub fn case(&mut self, expr: String, desc: Value, nontrivial: bool) {
        let h = fnv(&expr);
        let fresh = self.distinct.insert(h);
        if fresh && nontrivial {
            self.nontrivial += 1;
            if self.samples.len() < 3 {
                self.samples.push(desc.clone());
            }
        }
        let rec = json!({"i": self.n, "coq": expr, "case": desc});
        writeln!(self.meta, "{}", rec).unwrap();
        self.exprs.push(expr);
        self.n += 1;
    }
    pub fn finish(&mut self) {
        let mut k = 0;
        for (si, chunk) in self.exprs.chunks(self.shard).enumerate() {
            let mut f = std::fs::File::create(self.out.join(format!("cases_{:04}.v", si))).unwrap();
            writeln!(f, "From Adb Require Import Base {}.", self.imports).unwrap();
            writeln!(f, "Open Scope N_scope. Open Scope string_scope.").unwrap();
            writeln!(f, "Set Printing Width 1000000. Set Printing Depth 1000000.").unwrap();
            writeln!(f, "Definition base : N := {}.", k).unwrap();
            writeln!(f, "Definition cs : list bool := [").unwrap();
            for (i, e) in chunk.iter().enumerate() {
                writeln!(f, "  ({}){}", e, if i + 1 < chunk.len() { ";" } else { "" }).unwrap();
            }
            writeln!(f, "].").unwrap();
            writeln!(f, "Eval vm_compute in (base, failing cs).").unwrap();
            k += chunk.len();
        }
    }
}

// ---------------------------------------------------------------- run summary
#[derive(Default)]
pub struct Summary {
    pub rule: String,
    pub oracle_evaluations: u64,
    pub oracle_failures: Vec<Value>,
    pub known_hits: Vec<Value>,
    pub extra: serde_json::Map<String, Value>,
}
impl Summary {
    /// A property violation observed on the implementation itself (independent of the model).
    /// `class`: name of a known-finding class if the input falls in one, else `None`.
    pub fn failure(&mut self, class: Option<&str>, what: &str, replay: Value) {
        let v = json!({"class": class, "what": what, "replay": replay});
        if class.is_some() {
            if self.known_hits.len() < 50 {
                self.known_hits.push(v);
            }
        } else if self.oracle_failures.len() < 20 {
            self.oracle_failures.push(v);
        }
    }
    pub fn write(&self, out: &Path, cases: &Cases) {
        // disagreements between NetworkFilter::matches and the reading of the rule text, collected by
        // net::rule_matches during the run
        let mut oracle_failures = self.oracle_failures.clone();
        let mut extra = self.extra.clone();
        let mism = net::TEXT_MISMATCHES.with(|m| m.borrow().clone());
        for (what, replay) in mism {
            oracle_failures.push(json!({"what": what, "replay": replay, "class": null}));
        }
        let (judged, outside) = net::TEXT_JUDGED.with(|c| c.get());
        if judged + outside > 0 {
            extra.insert("rule_request_pairs_also_judged_by_text".into(), json!({"judged": judged, "outside_the_reading": outside}));
        }
        let v = json!({
            "evaluations": cases.n as u64 + self.oracle_evaluations,
            "correspondence_cases": cases.n,
            "oracle_evaluations": self.oracle_evaluations,
            "distinct_nontrivial": cases.nontrivial,
            "distinct": cases.distinct.len(),
            "rule": self.rule,
            "samples": cases.samples,
            "generator_stats": cases.stats,
            "oracle_failures": oracle_failures,
            "known_hits": self.known_hits,
            "extra": extra,
        });
        std::fs::write(out.join("impl.json"), serde_json::to_string_pretty(&v).unwrap()).unwrap();
    }
}

/// Crash guard: record the input that is about to be evaluated. A stack overflow or an abort is not
/// a catchable panic; when the process dies, `./check` finds the last recorded input in
/// `<out>/current_case.json` and reports it as the failing input.
pub fn crash_guard(out: &Path, what: &str, replay: &Value) {
    let v = json!({"what": what, "replay": replay});
    let _ = std::fs::write(out.join("current_case.json"), serde_json::to_string(&v).unwrap_or_default());
}
pub fn crash_guard_clear(out: &Path) {
    let _ = std::fs::remove_file(out.join("current_case.json"));
}

/// Run `f`, turning a panic into `Err(message)`.
pub fn catch<T, F: FnOnce() -> T + std::panic::UnwindSafe>(f: F) -> Result<T, String> {
    let prev = std::panic::take_hook();
    std::panic::set_hook(Box::new(|_| {}));
    let r = std::panic::catch_unwind(f);
    std::panic::set_hook(prev);
    r.map_err(|e| {
        if let Some(s) = e.downcast_ref::<&str>() {
            s.to_string()
        } else if let Some(s) = e.downcast_ref::<String>() {
            s.clone()
        } else {
            "panic".to_string()
        }
    })
}

pub mod gen;
pub mod net;
pub mod refmatch;
pub mod refrule;
pub mod res;

/// The value of option `names[..]` of a network rule line AS WRITTEN: the text between the first
/// `=` of the option and the next comma, blanks included (the option parser trims nothing).  Oracles use this instead of the parsed rule's
/// `modifier_option`, so that a parser that stores something else than what the line says is seen.
/// None: the option is absent or has no value.
pub fn option_value(line: &str, names: &[&str]) -> Option<String> {
    let i = line.rfind('$')?;
    line[i + 1..].split(',').find_map(|o| {
        let (k, v) = match o.split_once('=') { Some((k, v)) => (k, v), None => (o, "") };
        if names.contains(&k) { Some(if v.is_empty() { None } else { Some(v.to_string()) }) } else { None }
    })?
}

/// Like [`option_value`] for an option that may be repeated: the LAST occurrence counts (the crate's
/// reading of a repeated single-valued option such as `tag=a,tag=b`).
pub fn option_value_last(line: &str, names: &[&str]) -> Option<String> {
    let i = line.rfind('$')?;
    line[i + 1..].split(',').filter_map(|o| {
        let (k, v) = match o.split_once('=') { Some((k, v)) => (k, v), None => (o, "") };
        if names.contains(&k) { Some(if v.is_empty() { None } else { Some(v.to_string()) }) } else { None }
    }).last()?
}
