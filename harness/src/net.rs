//! Coq literals for parsed network rules (Net_Model.v `mkr`).
use crate::*;
use adblock::verif_hooks::FilterDump;

pub fn coq_rule(d: &FilterDump) -> String {
    let fp = match d.filter_kind {
        "empty" => "FEmpty".to_string(),
        "simple" => format!("(FSimple {})", hxs(&d.filter[0])),
        _ => format!("(FAnyOf {})", cstrs(&d.filter)),
    };
    format!(
        "(mkr {} {} {} {} {} {} {} {})",
        cn(d.id),
        cn(d.mask),
        fp,
        copt(&d.hostname, |s| hxs(s)),
        copt(&d.opt_domains, |v| clist(v, |x| cn(*x))),
        copt(&d.opt_not_domains, |v| clist(v, |x| cn(*x))),
        copt(&d.modifier_option, |s| hxs(s)),
        copt(&d.tag, |s| hxs(s)),
    )
}
pub fn coq_rules(v: &[FilterDump]) -> String {
    clist(v, coq_rule)
}
/// `(token, [ids])` dump of one list
pub fn coq_dump(v: &[(u64, Vec<FilterDump>)]) -> String {
    clist(v, |(k, b)| format!("({}, {})", cn(*k), clist(b, |f| cn(f.id))))
}
