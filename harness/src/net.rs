//! Coq literals for parsed network rules (Net_Model.v `mkr`).
use crate::*;
use adblock::verif_hooks::FilterDump;

pub fn coq_rule(d: &FilterDump) -> String {
    let fp = match d.filter_kind {
        "empty" => "FEmpty".to_string(),
        "simple" => format!("(FSimple {})", hxs(&d.filter[0])),
        _ => format!("(FAnyOf {})", cstrs(&d.filter)),
    };
    format!(
        "(mkr {} {} {} {} {} {} {} {})",
        cn(d.id),
        cn(d.mask),
        fp,
        copt(&d.hostname, |s| hxs(s)),
        copt(&d.opt_domains, |v| clist(v, |x| cn(*x))),
        copt(&d.opt_not_domains, |v| clist(v, |x| cn(*x))),
        copt(&d.modifier_option, |s| hxs(s)),
        copt(&d.tag, |s| hxs(s)),
    )
}
pub fn coq_rules(v: &[FilterDump]) -> String {
    clist(v, coq_rule)
}
/// `(token, [ids])` dump of one list
pub fn coq_dump(v: &[(u64, Vec<FilterDump>)]) -> String {
    clist(v, |(k, b)| format!("({}, {})", cn(*k), clist(b, |f| cn(f.id))))
}

// ------------------------------------------------------------------ implementation-side helpers
use adblock::filters::network::{NetworkFilter, NetworkFilterMaskHelper, NetworkMatchable};
use adblock::regex_manager::RegexManager;
use adblock::request::Request;
use adblock::Engine;
use std::collections::HashSet;

/// The list-loading parse path (lists::parse_filter): what Engine::from_rules actually loads.
pub fn parse_net(line: &str) -> Option<NetworkFilter> {
    match adblock::lists::parse_filter(line, true, Default::default()) {
        Ok(adblock::lists::ParsedFilter::Network(f)) => Some(f),
        _ => None,
    }
}
/// Per-rule matcher with a fresh regex manager (the cache is keyed by rule address).
thread_local! {
    /// requests built by `clean_request` / registered by a harness: normalised url -> (url as given, source, raw type)
    static REQ_CTX: std::cell::RefCell<std::collections::HashMap<String, (String, String, String)>> = std::cell::RefCell::new(Default::default());
    /// (rule, request) pairs on which NetworkFilter::matches and the reading of the rule TEXT
    /// (refrule::rule_applies) disagree; `Summary::write` turns them into failures
    pub static TEXT_MISMATCHES: std::cell::RefCell<Vec<(String, serde_json::Value)>> = std::cell::RefCell::new(vec![]);
    pub static TEXT_JUDGED: std::cell::Cell<(u64, u64)> = std::cell::Cell::new((0, 0));
}
/// Make the textual context of a request known to `rule_matches` (url as given, source, raw type).
pub fn register_request(req: &Request, url: &str, source: &str, raw_type: &str) {
    REQ_CTX.with(|c| {
        let mut c = c.borrow_mut();
        if c.len() > 4096 { c.clear(); }
        c.insert(format!("{} {:?} {}", req.url, req.request_type, req.is_third_party), (url.to_string(), source.to_string(), raw_type.to_string()));
    });
}
/// The crate's own per-rule matcher; whenever the rule was parsed in debug mode and the request was
/// registered, the answer is also compared with the reading of the rule text.
pub fn rule_matches(f: &NetworkFilter, req: &Request) -> bool {
    let mut rm = RegexManager::default();
    let hit = f.matches(req, &mut rm);
    if let Some(line) = f.raw_line.as_ref() {
        let ctx = REQ_CTX.with(|c| c.borrow().get(&format!("{} {:?} {}", req.url, req.request_type, req.is_third_party)).cloned());
        if let Some((url, src, ty)) = ctx {
            match crate::refrule::rule_applies(line, req, &url, &src, &ty) {
                Some(want) => {
                    TEXT_JUDGED.with(|c| { let (a, b) = c.get(); c.set((a + 1, b)) });
                    if want != hit {
                        TEXT_MISMATCHES.with(|m| {
                            let mut m = m.borrow_mut();
                            if m.len() < 50 {
                                m.push((format!("the rule {:?} {} the {} request {} from {:?} by its text, but NetworkFilter::matches says {}", line, if want { "applies to" } else { "does not apply to" }, ty, url, src, hit),
                                    serde_json::json!({"kind": "text_reading", "rules": [(**line).clone()], "url": url, "source": src, "type": ty})));
                            }
                        });
                    }
                }
                None => TEXT_JUDGED.with(|c| { let (a, b) = c.get(); c.set((a, b + 1)) }),
            }
        }
    }
    hit
}
#[derive(Debug, Clone, PartialEq)]
pub struct V {
    pub matched: bool,
    pub important: bool,
    pub exception: bool,
    pub filter: bool,
}
pub fn vjson(v: &V) -> serde_json::Value {
    serde_json::json!({"matched": v.matched, "important": v.important, "exception": v.exception, "filter": v.filter})
}
pub fn category(f: &NetworkFilter) -> &'static str {
    if f.is_csp() {
        "csp"
    } else if f.is_removeparam() {
        "removeparam"
    } else if f.is_generic_hide() {
        "generichide"
    } else if f.is_exception() {
        "exception"
    } else if f.is_important() && (!f.is_redirect() || f.also_block_redirect()) {
        "important"
    } else if tag_of(f).is_some() && !f.is_redirect() {
        "tagged"
    } else if (f.is_redirect() && f.also_block_redirect()) || !f.is_redirect() {
        "normal"
    } else {
        "none"
    }
}
/// The tag of a rule as WRITTEN in its line (last `tag=` option; `tag=` alone is the empty tag), for
/// rules parsed in debug mode; the parser's stored tag otherwise.
pub fn tag_of(f: &NetworkFilter) -> Option<String> {
    match f.raw_line.as_ref() {
        Some(l) => {
            let i = l.rfind('$')?;
            l[i + 1..].split(',').filter_map(|o| o.strip_prefix("tag=")).last().map(|s| s.to_string())
        }
        None => adblock::verif_hooks::filter_tag(f).map(|s| s.to_string()),
    }
}
pub fn live_rules(rules: &[NetworkFilter]) -> Vec<&NetworkFilter> {
    let bad: HashSet<u64> = rules.iter().filter(|f| f.is_badfilter()).map(|f| f.get_id_without_badfilter()).collect();
    // cross-check by TEXT: a rule whose line is repeated with `badfilter` appended as its last option is
    // cancelled, whatever the crate's id function says
    for b in rules.iter().filter(|f| f.is_badfilter()) {
        let Some(lb) = b.raw_line.as_ref() else { continue };
        for f in rules.iter().filter(|f| !f.is_badfilter()) {
            let Some(l) = f.raw_line.as_ref() else { continue };
            let twin = **lb == format!("{},badfilter", l) || (!l.contains('$') && **lb == format!("{}$badfilter", l));
            if twin && !bad.contains(&f.get_id()) {
                TEXT_MISMATCHES.with(|m| {
                    let mut m = m.borrow_mut();
                    if m.len() < 50 {
                        m.push((format!("the line {:?} is the line {:?} with badfilter appended, but the crate's ids differ: the rule is not cancelled", lb, l),
                            serde_json::json!({"kind": "text_reading", "rules": [(**l).clone(), (**lb).clone()], "url": "https://x.com/", "source": "https://a.com/", "type": "script"})));
                    }
                });
            }
        }
    }
    rules.iter().filter(|f| !f.is_badfilter() && !bad.contains(&f.get_id())).collect()
}
/// Rule-by-rule evaluation with the documented precedence (independent of the engine's index).
pub fn spec_verdict(rules: &[NetworkFilter], tags: &HashSet<String>, req: &Request) -> V {
    spec_verdict_p(rules, tags, req, false, false)
}
/// The same for Engine::check_network_request_subset (`mr` = previously_matched_rule, `fc` =
/// force_check_exceptions).
pub fn spec_verdict_p(rules: &[NetworkFilter], tags: &HashSet<String>, req: &Request, mr: bool, fc: bool) -> V {
    if !req.is_supported {
        return V { matched: false, important: false, exception: false, filter: false };
    }
    let live = live_rules(rules);
    let tag_ok = |f: &NetworkFilter, t: &HashSet<String>| tag_of(f).map(|x| t.contains(&x)).unwrap_or(true);
    let none = HashSet::new();
    let imp = live.iter().any(|f| category(f) == "important" && tag_ok(f, tags) && rule_matches(f, req));
    let blk = !mr
        && live.iter().any(|f| {
            (category(f) == "tagged" && tag_ok(f, tags) && rule_matches(f, req))
                || (category(f) == "normal" && tag_ok(f, &none) && rule_matches(f, req))
        });
    let exc = live.iter().any(|f| category(f) == "exception" && tag_ok(f, tags) && rule_matches(f, req));
    let excp = !imp && exc && (blk || mr || fc);
    V { matched: !excp && (imp || blk || mr), important: imp, exception: excp, filter: imp || blk }
}
pub fn engine_verdict(e: &Engine, req: &Request) -> V {
    engine_verdict_p(e, req, false, false)
}
pub fn engine_verdict_p(e: &Engine, req: &Request, mr: bool, fc: bool) -> V {
    let r = if !mr && !fc { e.check_network_request(req) } else { e.check_network_request_subset(req, mr, fc) };
    V { matched: r.matched, important: r.important, exception: r.exception.is_some(), filter: r.filter.is_some() }
}
pub fn build_engine(lines: &[String], tags: &[&str], optimize: bool) -> Engine {
    let mut e = Engine::from_rules_parametrised(lines.iter(), Default::default(), true, optimize);
    if !tags.is_empty() {
        e.use_tags(tags);
    }
    e
}
/// A request that stays clear of the C01 known-finding classes: ASCII, no '*', http(s), with source.
pub fn clean_request(r: &mut Rng, lines: &[String]) -> Option<(String, String, &'static str, Request)> {
    let mut url = if r.chance(1, 2) && !lines.is_empty() { let k = r.below(lines.len()); gen::url_for(r, &lines[k]) } else { gen::url(r) };
    url = url.replace('*', "-");
    if !url.is_ascii() {
        return None;
    }
    if url.starts_with("ws") {
        url = url.replacen("wss", "https", 1).replacen("ws", "http", 1);
    }
    let mut src = gen::source_url(r);
    if src.is_empty() {
        src = "https://a.com/page".into();
    }
    let ty = gen::request_type(r);
    let req = Request::new(&url, &src, ty).ok()?;
    if !req.is_http && !req.is_https {
        return None;
    }
    register_request(&req, &url, &src, ty);
    Some((url, src, ty, req))
}
