//! C17 — generic class/id lookup returns exactly the unexcepted generic selectors.
//! Correspondence (model = C17_Model.v):
//!   * `key_from_selector` hook vs the Gallina `key_from_selector` (and vs `key_spec`, the L0 form),
//!   * `dump_cosmetic(&engine)` (five generic stores) vs `build` on the generic plain selectors,
//!   * `Engine::hidden_class_id_selectors` vs `hidden (build G) C I E` (exact order).
//! Oracle (independent of Coq): a hand-written CSS-identifier scanner (`ref_key`), the partition
//! statement evaluated on the dumped stores, the lookup statement as a multiset, and
//! "reachable by lookup xor through url_cosmetic_resources(..).hide_selectors".
//! Engine paths: every rule set is asked on the directly built engine AND on engines that reached
//! their state another way (serialize_raw + deserialize into a fresh Engine / into an engine that
//! already held other rules, FilterSet filled in two or three portions by add_filters /
//! add_filter_list / add_filter, one add_filter_list call, a piecewise engine after a round trip);
//! stores, lookup answers and per-site resources must equal those of the direct engine, and the
//! three oracles and the model cases are applied to the other engines as well.
use adblock::cosmetic_filter_cache::verif::key_from_selector;
use adblock::lists::{parse_filter, FilterSet, ParsedFilter};
use adblock::verif_hooks::CosmeticDump;
use adblock::verif_hooks::dump_cosmetic;
use adblock::Engine;
use implrun::*;
use serde_json::{json, Value};
use std::collections::{BTreeSet, HashSet};

// ------------------------------------------------------------------------------ \w oracle
thread_local! {
    static WORD: regex::Regex = regex::Regex::new(r"^\w$").unwrap();
}
fn is_word(c: char) -> bool {
    let mut b = [0u8; 4];
    WORD.with(|w| w.is_match(c.encode_utf8(&mut b)))
}
/// Gallina function for `uni_word`: membership in the word characters >= 128 occurring in `texts`.
/// Contract check: ASCII behaviour of the regex crate is what the model hard-codes.
fn uni_word(texts: &[&str]) -> String {
    let mut cps: BTreeSet<u32> = BTreeSet::new();
    for t in texts {
        for c in t.chars() {
            if (c as u32) >= 128 && is_word(c) {
                cps.insert(c as u32);
            }
        }
    }
    let v: Vec<u32> = cps.into_iter().collect();
    format!("(fun c => memN c {})", clist(&v, |x| cn(x)))
}
fn ascii_word_contract() -> bool {
    (0u8..128).all(|b| is_word(b as char) == (b.is_ascii_alphanumeric() || b == b'_'))
}

// ------------------------------------------------------------------------------ reference
/// Independent statement of "leading simple class/id selector after CSS unescaping" as the crate
/// means it: `.`/`#`, then the longest run of word characters, '-', `\hex+ ` and `\c` (c != \n).
fn ref_key(sel: &str) -> Option<String> {
    let cs: Vec<char> = sel.chars().collect();
    if cs.is_empty() || (cs[0] != '.' && cs[0] != '#') {
        return None;
    }
    let mut out = String::new();
    out.push(cs[0]);
    let mut i = 1;
    let mut items = 0;
    let mut bad = false;
    while i < cs.len() {
        let c = cs[i];
        if c == '\\' {
            let mut j = i + 1;
            while j < cs.len() && cs[j].is_ascii_hexdigit() {
                j += 1;
            }
            if j > i + 1 && j < cs.len() && cs[j] == ' ' {
                let mut v: u64 = 0;
                let mut over = false;
                for d in &cs[i + 1..j] {
                    v = v * 16 + d.to_digit(16).unwrap() as u64;
                    if v > u32::MAX as u64 {
                        over = true;
                        v = u32::MAX as u64 + 1;
                    }
                }
                match (over, char::from_u32(v.min(u32::MAX as u64) as u32)) {
                    (false, Some(ch)) => out.push(ch),
                    _ => bad = true,
                }
                i = j + 1;
                items += 1;
            } else if i + 1 < cs.len() && cs[i + 1] != '\n' {
                out.push(cs[i + 1]);
                i += 2;
                items += 1;
            } else {
                break;
            }
        } else if c == '-' || is_word(c) {
            out.push(c);
            i += 1;
            items += 1;
        } else {
            break;
        }
    }
    if items == 0 || bad {
        None
    } else {
        Some(out)
    }
}

// ------------------------------------------------------------------------------ generators
const WORDS: &[&str] = &["ad", "banner", "a", "b", "x1", "_x", "-", "ad-box", "A", "0", "3", "é", "漢", "a\u{300}", "\u{200d}", "😀", "²", "·", "ß"];
const ESCAPES: &[&str] = &[
    "\\.", "\\:", "\\\\", "\\ ", "\\#", "\\31 ", "\\e9 ", "\\E9 ", "\\1F600 ", "\\110000 ", "\\d800 ", "\\dfff ", "\\0 ",
    "\\000041 ", "\\123456789 ", "\\ffffffff ", "\\100000000 ", "\\41x", "\\4g", "\\41", "\\é", "\\😀", "\\3 a", "\\a", "\\g",
    "\\41  ", "\\10ffff ", "\\d7ff ", "\\e000 ", "\\7f ", "\\80 ", "\\7ff ", "\\800 ", "\\ffff ", "\\10000 ",
];
const TAILS: &[&str] = &["", "", " > div", ":hover", "[href]", ".b", " ", ",x", " .c", "#i", "\\", "\\\\", "(x)", "+p", "~q", "*", "\u{1}",
    // runs of blanks (after a hex escape the first blank ends the escape, the second is a combinator)
    "  b", "  .c", "\t.c", "   > div", "  "];
const HEADS: &[&str] = &[".", ".", ".", ".", ".", "#", "#", "#", "#", "", "div", "*", "[id]", "..", "#.", ".#"];

fn gen_ident(r: &mut Rng) -> String {
    let n = r.range(0, 4);
    let mut s = String::new();
    for _ in 0..n {
        if r.chance(1, 3) {
            s.push_str(r.pick(ESCAPES));
        } else {
            s.push_str(r.pick(WORDS));
        }
    }
    s
}
fn gen_selector(r: &mut Rng) -> String {
    format!("{}{}{}", r.pick(HEADS), gen_ident(r), r.pick(TAILS))
}
/// small shared vocabulary so that keys collide inside one rule set
fn gen_set_selector(r: &mut Rng) -> String {
    if r.chance(1, 3) {
        return gen_selector(r);
    }
    const IDS: &[&str] = &["ad", "a", "b", "ad-box", "\\61 d", "a\\64 ", "\\.x", "x\\:y", "é", "\\e9 ", "a\\", "", "1", "\\31 "];
    format!("{}{}{}", r.pick(&[".", ".", "#", "#", ""]), r.pick(IDS), r.pick(TAILS))
}
fn gen_rules(r: &mut Rng) -> Vec<String> {
    let n = r.range(1, 12);
    let mut v: Vec<String> = vec![];
    for _ in 0..n {
        let sel = gen_set_selector(r);
        let line = match r.below(12) {
            0 => format!("~example.com##{}", sel),
            1 => format!("{}##{}", r.pick(&["~example.com,~foo.*", "~foo.*,~example.com", "~foo.*", "~a.com,~b.com,~c.*", "~x.*,~y.*"]), sel),
            2 => format!("example.com##{}", sel),
            3 => format!("example.com,~sub.example.com##{}", sel),
            4 => format!("example.com#@#{}", sel),
            // actions on rules with / without a positive location
            5 => format!("{}##{}{}", r.pick(&["", "", "~example.com", "~foo.*", "example.com", "example.com,~sub.example.com"]), sel, r.pick(&[":remove()", ":style(color: red)", ":remove-attr(href)", ":remove-class(sticky)"])),
            _ => format!("##{}", sel),
        };
        if !v.is_empty() && r.chance(1, 8) {
            let d = v[r.below(v.len())].clone();
            v.push(d);
        }
        v.push(line);
    }
    if r.chance(1, 2) {
        // compound selectors keyed by a class AND compound selectors keyed by an id in one engine,
        // half of the time over the SAME name, so that only the kind of store tells them apart
        const NAMES: &[&str] = &["ad", "a", "b", "ad-box", "\\61 d", "x\\:y", "é", "\\31 "];
        const CTAILS: &[&str] = &[" > div", ":hover", "[href]", ".b", " .c", "#i", "+p", "~q", " "];
        let cn = r.pick(NAMES);
        let idn = if r.chance(1, 2) { cn } else { r.pick(NAMES) };
        let mut block = vec![format!("##.{}{}", cn, r.pick(CTAILS)), format!("###{}{}", idn, r.pick(CTAILS))];
        if r.chance(1, 2) {
            block.push(format!("##.{}{}", cn, r.pick(CTAILS)));
        }
        if r.chance(1, 2) {
            block.push(format!("###{}{}", idn, r.pick(CTAILS)));
        }
        if r.chance(1, 3) {
            block.push(format!("##.{}", cn));
        }
        if r.chance(1, 3) {
            block.push(format!("###{}", idn));
        }
        if r.chance(1, 4) {
            block.push(format!("~example.com###{}{}", idn, r.pick(CTAILS)));
        }
        for b in block {
            let at = r.below(v.len() + 1);
            v.insert(at, b);
        }
    }
    v
}

/// Rules an engine held BEFORE another engine's bytes are deserialized into it: same vocabulary
/// (so that a leftover would be visible in the lookups) plus selectors of its own.
fn gen_other_rules(r: &mut Rng) -> Vec<String> {
    let mut v = gen_rules(r);
    v.push("##.left-over > div".into());
    v.push("###left-over:hover".into());
    v.push("##.left-over".into());
    v.push("example.com##.ad".into());
    v.push("||left-over.example^".into());
    v
}

/// The generic plain selectors of a rule list, in the order `CosmeticFilterCache::from_rules`
/// hands them to `add_generic_filter` (public parse API; has_hostname_constraint and
/// hidden_generic_rule are the crate's own, their partition is C16's subject).
fn generic_selectors(lines: &[String]) -> Vec<String> {
    let mut g = vec![];
    for l in lines {
        if let Ok(ParsedFilter::Cosmetic(f)) = parse_filter(l, false, Default::default()) {
            if f.has_hostname_constraint() {
                if let Some(h) = f.hidden_generic_rule() {
                    if let Some(s) = h.plain_css_selector() {
                        g.push(s.to_string());
                    }
                }
            } else if let Some(s) = f.plain_css_selector() {
                g.push(s.to_string());
            }
        }
    }
    g
}

/// The same set read off the rule TEXT: a hide rule (`##`, plain selector) is generic when its
/// location list is empty or consists only of negations (`~host`, `~entity.*`).  Returns the lines
/// for which the crate's own partition (has_hostname_constraint / hidden_generic_rule) disagrees.
fn generic_partition_mismatches(lines: &[String]) -> Vec<String> {
    let mut out = vec![];
    for l in lines {
        let Some(i) = l.find("##") else { continue };
        if l[..i].contains('#') {
            continue;
        }
        let locs: Vec<&str> = l[..i].split(',').filter(|x| !x.is_empty()).collect();
        let text_generic = locs.iter().all(|x| x.starts_with('~'));
        // an action (:style / :remove / :remove-attr / :remove-class) needs a positive location: a rule
        // without one is rejected, it never becomes a generic hide selector
        let sel_text = &l[i + 2..];
        let has_action = [":style(", ":remove()", ":remove-attr(", ":remove-class("].iter().any(|a| sel_text.contains(a)) && sel_text.ends_with(')');
        if has_action {
            // without any location: rejected (a generic action is not supported); with locations
            // (negations included): a host-specific rule, never a generic hide selector
            let parsed = parse_filter(l, false, Default::default());
            if locs.is_empty() {
                if parsed.is_ok() {
                    out.push(format!("the rule {:?} carries an action but no location at all: it must be rejected, the crate accepts it", l));
                }
            } else if let Ok(ParsedFilter::Cosmetic(f)) = parsed {
                if f.hidden_generic_rule().is_some() {
                    out.push(format!("the rule {:?} carries an action: it is host-specific, but the crate derives a generic hide rule from it", l));
                }
            }
            continue;
        }
        if let Ok(ParsedFilter::Cosmetic(f)) = parse_filter(l, false, Default::default()) {
            let Some(sel) = f.plain_css_selector() else { continue };
            let crate_generic = if f.has_hostname_constraint() { f.hidden_generic_rule().and_then(|h| h.plain_css_selector().map(|s| s.to_string())) } else { Some(sel.to_string()) };
            // the selector is stored as written (no CSS validation / normalisation in this build)
            if let Some(stored) = &crate_generic {
                if stored != sel_text && stored.trim() != sel_text.trim() {
                    out.push(format!("the rule {:?} is stored with the selector {:?}, which is not the selector it is written with", l, stored));
                }
            }
            if text_generic != crate_generic.is_some() {
                out.push(format!("the rule {:?} is {} by its location list, but the crate {}", l, if text_generic { "generic (no positive location)" } else { "scoped to hosts" }, if crate_generic.is_some() { "files its selector with the generic rules" } else { "gives it no generic rule" }));
            }
        }
    }
    out
}

fn cmap(m: &[(String, Vec<String>)]) -> String {
    clist(m, |(k, b)| format!("({}, {})", hxs(k), cstrs(b)))
}

/// How the other engines of a set case are produced (part of the replay record).
#[derive(Clone)]
struct Alt {
    /// rules held by the engine that receives the bytes in the `serde_over` path
    other_rules: Vec<String>,
    /// 1 or 2 cut positions: the rule list is added in 2 or 3 portions
    cuts: Vec<usize>,
}
impl Alt {
    fn json(&self) -> Value {
        json!({"other_rules": self.other_rules, "cuts": self.cuts})
    }
    fn from_json(v: &Value, n: usize) -> Alt {
        let cuts: Vec<usize> = v["cuts"].as_array().map(|a| a.iter().map(|x| x.as_u64().unwrap_or(0) as usize).collect()).unwrap_or_else(|| vec![n / 2]);
        Alt { other_rules: strs(&v["other_rules"]), cuts }
    }
}
const PATHS: &[&str] = &["serde_fresh", "serde_over", "pieces", "filter_list", "serde_of_pieces"];

/// The rule list cut into its portions.
fn portions<'a>(rules: &'a [String], cuts: &[usize]) -> Vec<&'a [String]> {
    let mut c: Vec<usize> = cuts.iter().map(|x| (*x).min(rules.len())).collect();
    c.sort();
    let mut out = vec![];
    let mut at = 0;
    for x in c {
        out.push(&rules[at..x]);
        at = x;
    }
    out.push(&rules[at..]);
    out
}

/// FilterSet filled piecewise: portion 0 by add_filters, portion 1 as one text by add_filter_list,
/// portion 2 rule by rule with add_filter.
fn piecewise(rules: &[String], cuts: &[usize]) -> Engine {
    let mut fs = FilterSet::new(false);
    for (k, part) in portions(rules, cuts).iter().enumerate() {
        match k % 3 {
            0 => {
                fs.add_filters(part.iter(), Default::default());
            }
            1 => {
                fs.add_filter_list(&part.join("\n"), Default::default());
            }
            _ => {
                for l in part.iter() {
                    let _ = fs.add_filter(l, Default::default());
                }
            }
        }
    }
    Engine::from_filter_set(fs, true)
}

fn other_engine(path: &str, direct: &Engine, rules: &[String], alt: &Alt) -> Result<Engine, String> {
    let into = |mut e: Engine, bytes: Vec<u8>| -> Result<Engine, String> {
        e.deserialize(&bytes).map_err(|x| format!("deserialize failed: {:?}", x))?;
        Ok(e)
    };
    match path {
        "serde_fresh" => into(Engine::default(), direct.serialize_raw().map_err(|x| format!("serialize_raw failed: {:?}", x))?),
        "serde_over" => into(Engine::from_rules(alt.other_rules.iter(), Default::default()), direct.serialize_raw().map_err(|x| format!("serialize_raw failed: {:?}", x))?),
        "pieces" => Ok(piecewise(rules, &alt.cuts)),
        "filter_list" => {
            let mut fs = FilterSet::new(false);
            fs.add_filter_list(&rules.join("\n"), Default::default());
            Ok(Engine::from_filter_set(fs, true))
        }
        _ => {
            let p = piecewise(rules, &alt.cuts);
            into(Engine::new(false), p.serialize_raw().map_err(|x| format!("serialize_raw failed: {:?}", x))?)
        }
    }
}

/// What one engine answers for a set case.
struct View {
    d: CosmeticDump,
    got: Vec<String>,
    /// hide_selectors / exceptions of three sites (sorted): unrelated host, example.com, sub.example.com
    sites: Vec<(Vec<String>, Vec<String>)>,
    failures: Vec<String>,
}
const SITES: &[&str] = &["https://unrelated-host.test/page", "https://example.com/", "https://sub.example.com/x"];

fn sorted(h: &HashSet<String>) -> Vec<String> {
    let mut v: Vec<String> = h.iter().cloned().collect();
    v.sort();
    v
}

/// Dump, look up, and apply the three oracles to this engine.
fn examine(engine: &Engine, g: &[String], classes: &[String], ids: &[String], exc: &[String]) -> View {
    let d = dump_cosmetic(engine);
    let excs: HashSet<String> = exc.iter().cloned().collect();
    let got = engine.hidden_class_id_selectors(classes.iter(), ids.iter(), &excs);
    let mut failures = vec![];

    // --- oracle 1: partition (every generic selector in exactly one store; nothing invented)
    let gset: HashSet<&String> = g.iter().collect();
    for s in gset.iter() {
        let mut places = 0;
        if let Some(c) = s.strip_prefix('.') {
            if d.simple_class_rules.iter().any(|x| x == c) {
                places += 1;
            }
        }
        if let Some(c) = s.strip_prefix('#') {
            if d.simple_id_rules.iter().any(|x| x == c) {
                places += 1;
            }
        }
        places += d.complex_class_rules.iter().filter(|(_, b)| b.contains(s)).count();
        places += d.complex_id_rules.iter().filter(|(_, b)| b.contains(s)).count();
        if d.misc_generic_selectors.contains(s) {
            places += 1;
        }
        if places != 1 {
            failures.push(format!("generic selector {:?} is held by {} stores", s, places));
        }
    }
    let mut stored: Vec<String> = vec![];
    stored.extend(d.simple_class_rules.iter().map(|c| format!(".{}", c)));
    stored.extend(d.simple_id_rules.iter().map(|c| format!("#{}", c)));
    stored.extend(d.complex_class_rules.iter().flat_map(|(_, b)| b.iter().cloned()));
    stored.extend(d.complex_id_rules.iter().flat_map(|(_, b)| b.iter().cloned()));
    stored.extend(d.misc_generic_selectors.iter().cloned());
    for s in &stored {
        if !gset.contains(s) {
            failures.push(format!("stored selector {:?} is not a generic rule of the list", s));
        }
    }
    // keys of the buckets are the unescaped leading identifiers
    for (k, b) in d.complex_class_rules.iter() {
        for s in b {
            if ref_key(s) != Some(format!(".{}", k)) {
                failures.push(format!("{:?} sits in class bucket {:?} but its leading class is {:?}", s, k, ref_key(s)));
            }
        }
    }
    for (k, b) in d.complex_id_rules.iter() {
        for s in b {
            if ref_key(s) != Some(format!("#{}", k)) {
                failures.push(format!("{:?} sits in id bucket {:?} but its leading id is {:?}", s, k, ref_key(s)));
            }
        }
    }

    // --- oracle 2: lookup = [ s | generic s, key s in .C u #I, s not in E ] as a multiset
    let mut simple: BTreeSet<String> = BTreeSet::new();
    let mut complex: Vec<(String, String)> = vec![];
    for s in g {
        match ref_key(s) {
            Some(k) if (s.starts_with('.') || s.starts_with('#')) && &k == s => {
                simple.insert(s.clone());
            }
            Some(k) => complex.push((k, s.clone())),
            None => {}
        }
    }
    let mut want: Vec<String> = vec![];
    for (p, names) in [(".", classes), ("#", ids)] {
        for c in names {
            let key = format!("{}{}", p, c);
            if simple.contains(&key) && !excs.contains(&key) {
                want.push(key.clone());
            }
            for (k, s) in &complex {
                if k == &key && !excs.contains(s) {
                    want.push(s.clone());
                }
            }
        }
    }
    let mut a = got.clone();
    a.sort();
    want.sort();
    if a != want {
        failures.push(format!("hidden_class_id_selectors returned {:?}, the specification gives {:?}", a, want));
    }

    // --- oracle 3: reachable through the lookup xor through the per-site resources
    let site = engine.url_cosmetic_resources(SITES[0]);
    for s in gset.iter() {
        let by_lookup = match ref_key(s) {
            Some(k) => {
                let name = k[1..].to_string();
                let r = if k.starts_with('.') {
                    engine.hidden_class_id_selectors([name].iter(), Vec::<String>::new().iter(), &HashSet::new())
                } else {
                    engine.hidden_class_id_selectors(Vec::<String>::new().iter(), [name].iter(), &HashSet::new())
                };
                r.contains(s)
            }
            None => false,
        };
        let by_site = site.hide_selectors.contains(*s);
        if by_lookup == by_site {
            failures.push(format!(
                "generic selector {:?}: reachable by lookup = {}, returned by url_cosmetic_resources = {}",
                s, by_lookup, by_site
            ));
        }
    }
    let sites = SITES
        .iter()
        .map(|u| {
            let r = engine.url_cosmetic_resources(u);
            (sorted(&r.hide_selectors), sorted(&r.exceptions))
        })
        .collect();
    View { d, got, sites, failures }
}

/// The three model cases for what one engine returned.
fn exprs_of(g: &[String], classes: &[String], ids: &[String], exc: &[String], v: &View) -> Vec<(String, bool)> {
    let d = &v.d;
    let mut texts: Vec<&str> = g.iter().map(|s| s.as_str()).collect();
    texts.extend(classes.iter().map(|s| s.as_str()));
    let uw = uni_word(&texts);
    let gl = cstrs(g);
    let nontrivial = !v.got.is_empty();
    let e1 = format!(
        "stores_eqb (build {} {}) {} {} {} {} {}",
        uw, gl, cstrs(&d.simple_class_rules), cmap(&d.complex_class_rules), cstrs(&d.simple_id_rules),
        cmap(&d.complex_id_rules), cstrs(&d.misc_generic_selectors)
    );
    let e2 = format!(
        "strs_eqb (hidden (build {} {}) {} {} {}) {}",
        uw, gl, cstrs(classes), cstrs(ids), cstrs(exc), cstrs(&v.got)
    );
    let e3 = format!(
        "multiset_eqb (lookup_ref {} {} {} {} {}) {} || negb (nodupb {} && nodupb {} && nodupb {})",
        uw, gl, cstrs(classes), cstrs(ids), cstrs(exc), cstrs(&v.got), gl, cstrs(classes), cstrs(ids)
    );
    vec![(e1, d.complex_class_rules.len() + d.complex_id_rules.len() > 0), (e2, nontrivial), (e3, nontrivial)]
}

struct SetRun {
    g: Vec<String>,
    got: Vec<String>,
    failures: Vec<String>,
    exprs: Vec<(String, bool)>,
    /// (path, model cases) of the other engines
    alt_exprs: Vec<(&'static str, Vec<(String, bool)>)>,
    both_complex_stores: bool,
    same_name_in_both: bool,
}

/// Build the engine directly and along every other path, dump, look up; returns the Coq
/// expressions and the oracle failures.
fn run_set(rules: &[String], classes: &[String], ids: &[String], exc: &[String], alt: &Alt) -> SetRun {
    let engine = Engine::from_rules(rules.iter(), Default::default());
    let g = generic_selectors(rules);
    let direct = examine(&engine, &g, classes, ids, exc);
    let mut failures = direct.failures.clone();
    let mut alt_exprs = vec![];
    for path in PATHS {
        let e = match catch(std::panic::AssertUnwindSafe(|| other_engine(path, &engine, rules, alt))) {
            Ok(Ok(e)) => e,
            Ok(Err(m)) => {
                failures.push(format!("path {}: {}", path, m));
                continue;
            }
            Err(m) => {
                failures.push(format!("path {}: panic while building the engine: {}", path, m));
                continue;
            }
        };
        let v = examine(&e, &g, classes, ids, exc);
        for f in &v.failures {
            failures.push(format!("engine reached by {}: {}", path, f));
        }
        if v.got != direct.got {
            failures.push(format!("engine reached by {}: hidden_class_id_selectors returned {:?}, the directly built engine {:?}", path, v.got, direct.got));
        }
        let stores = |d: &CosmeticDump| (d.simple_class_rules.clone(), d.simple_id_rules.clone(), d.complex_class_rules.clone(), d.complex_id_rules.clone(), d.misc_generic_selectors.clone());
        if stores(&v.d) != stores(&direct.d) {
            failures.push(format!("engine reached by {}: generic stores {:?} differ from those of the directly built engine {:?}", path, stores(&v.d), stores(&direct.d)));
        }
        for (k, u) in SITES.iter().enumerate() {
            if v.sites[k] != direct.sites[k] {
                failures.push(format!("engine reached by {}: url_cosmetic_resources({}) (hide_selectors, exceptions) = {:?}, directly built engine {:?}", path, u, v.sites[k], direct.sites[k]));
            }
        }
        alt_exprs.push((*path, exprs_of(&g, classes, ids, exc, &v)));
    }
    let exprs = exprs_of(&g, classes, ids, exc, &direct);
    let both = !direct.d.complex_class_rules.is_empty() && !direct.d.complex_id_rules.is_empty();
    let same = direct.d.complex_class_rules.iter().any(|(k, _)| direct.d.complex_id_rules.iter().any(|(k2, _)| k == k2));
    SetRun { g, got: direct.got, failures, exprs, alt_exprs, both_complex_stores: both, same_name_in_both: same }
}

fn key_case(cs: &mut Cases, sm: &mut Summary, sel: &str, kind: &str) {
    let got = key_from_selector(sel);
    sm.oracle_evaluations += 1;
    let want = ref_key(sel);
    let desc = json!({"kind": "key", "selector": sel, "impl": got, "gen": kind});
    if got != want {
        sm.failure(None, &format!("key_from_selector({:?}) = {:?}, CSS unescaping of the leading simple selector gives {:?}", sel, got, want), desc.clone());
    }
    cs.stat(if got.is_some() { if sel.contains('\\') { "key_some_escaped" } else { "key_some_plain" } } else { "key_none" });
    let uw = uni_word(&[sel]);
    let expr = format!(
        "ostr_eqb (key_from_selector {uw} {s}) {g} && ostr_eqb (key_spec {uw} {s}) {g}",
        uw = uw, s = hxs(sel), g = copt(&got, |s| hxs(s))
    );
    cs.case(expr, desc, sel.contains('\\') || !sel.is_ascii());
}

fn strs(v: &Value) -> Vec<String> {
    v.as_array().map(|a| a.iter().map(|x| x.as_str().unwrap_or("").to_string()).collect()).unwrap_or_default()
}

fn main() {
    let a = args();
    if let Some(p) = &a.replay {
        let v: Value = serde_json::from_str(&std::fs::read_to_string(p).unwrap()).unwrap();
        let rp = &v["replay"];
        let mut bad = false;
        if rp["kind"] == "key" {
            let sel = rp["selector"].as_str().unwrap();
            let got = key_from_selector(sel);
            let want = ref_key(sel);
            println!("selector={:?} impl={:?} spec={:?}", sel, got, want);
            bad = got != want;
        } else {
            let rules = strs(&rp["rules"]);
            let alt = Alt::from_json(&rp["alt"], rules.len());
            let run = run_set(&rules, &strs(&rp["classes"]), &strs(&rp["ids"]), &strs(&rp["exceptions"]), &alt);
            println!("generic selectors={:?}\nlookup={:?}", run.g, run.got);
            for f in run.failures.iter().chain(generic_partition_mismatches(&rules).iter()) {
                println!("FAIL: {}", f);
                bad = true;
            }
        }
        if bad {
            println!("VIOLATION property=C17 replay={}", p.display());
            std::process::exit(1);
        }
        return;
    }
    let mut r = Rng::new(a.seed);
    let mut cs = Cases::new(&a.out, "C17_Model");
    let mut sm = Summary::default();
    sm.rule = "key: selectors = head (. # none) + 0-4 identifier pieces (words incl. non-ASCII, 35 escape spellings: hex of length 1-9 with/without the space, surrogates, > 10FFFF, u32 overflow, escaped punctuation/non-ASCII, trailing backslash) + tail; plus every string of <= 4 (quick) / <= 5 (thorough) symbols over {. # a \\ 3 space - :}; set: lists of 1-12 generic / negated-only / host-scoped rules over a colliding identifier vocabulary with duplicates, half of them with a block of compound selectors keyed by a class AND compound selectors keyed by an id (same name in both kinds of store half of the time), class/id queries drawn from the stored keys (a quarter: one name as class only / id only / both), exceptions drawn from the stored selectors; every set is asked on the directly built engine and on FIVE OTHER ENGINE PATHS (serialize_raw + deserialize into a fresh Engine; into an engine that already held other rules; FilterSet filled in 2-3 portions by add_filters / add_filter_list / add_filter; one add_filter_list; the piecewise engine after a round trip): stores, lookup, per-site resources of 3 sites must equal the direct engine's and satisfy the same three oracles; non-trivial = key case with an escape or non-ASCII, set case with a non-empty lookup result (resp. a complex bucket)".into();
    sm.extra.insert("ascii_word_contract".into(), json!(ascii_word_contract()));
    if !ascii_word_contract() {
        sm.failure(None, "regex \\w on ASCII is not [0-9A-Za-z_]", json!({"kind": "contract"}));
    }

    // --- key_from_selector: generated
    for _ in 0..(1500 * a.scale) {
        let s = gen_selector(&mut r);
        key_case(&mut cs, &mut sm, &s, "generated");
    }
    for s in [".a\\\nb", ".\\\n", "#\\", ".a\\", ".\\", ".", "#", "", "a", ".-", ".--x", "._", ".\\31 0", ".a b", ". a"] {
        key_case(&mut cs, &mut sm, s, "fixed");
    }
    // --- key_from_selector: exhaustive sweep
    let alpha: Vec<char> = vec!['.', '#', 'a', '\\', '3', ' ', '-', ':'];
    let maxlen = if a.tier == "thorough" { 5 } else { 4 };
    let mut frontier: Vec<String> = vec![String::new()];
    for _ in 0..maxlen {
        let mut next = vec![];
        for p in &frontier {
            for c in &alpha {
                let mut s = p.clone();
                s.push(*c);
                key_case(&mut cs, &mut sm, &s, "sweep");
                next.push(s);
            }
        }
        frontier = next;
    }

    // --- stores + lookup
    for case_no in 0..(600 * a.scale) {
        let rules = gen_rules(&mut r);
        let g = generic_selectors(&rules);
        for m in generic_partition_mismatches(&rules) {
            sm.oracle_evaluations += 1;
            sm.failure(None, &m, json!({"kind": "set", "rules": rules, "classes": [], "ids": [], "exceptions": []}));
        }
        let mut names: Vec<String> = vec![];
        for s in &g {
            if let Some(k) = ref_key(s) {
                names.push(k[1..].to_string());
            }
        }
        names.extend(["ad", "a", "zz", ".x", "é", "left-over"].iter().map(|s| s.to_string()));
        let pickn = |r: &mut Rng, lo: usize, hi: usize| -> Vec<String> {
            let n = r.range(lo, hi);
            (0..n).map(|_| names[r.below(names.len())].clone()).collect()
        };
        let mut classes = pickn(&mut r, 0, 4);
        let mut ids = pickn(&mut r, 0, 3);
        if r.chance(1, 4) {
            // one name asked as a class only / as an id only / as both: a compound selector keyed by
            // the class must not answer the id query and vice versa
            let n = names[r.below(names.len())].clone();
            match r.below(3) {
                0 => {
                    classes = vec![n];
                    ids = vec![];
                }
                1 => {
                    ids = vec![n];
                    classes = vec![];
                }
                _ => {
                    classes = vec![n.clone()];
                    ids = vec![n];
                }
            }
            cs.stat("query_one_name_as_class_or_id");
        }
        if r.chance(2, 3) {
            // usually without repeated names (the multiset statement of the lookup needs that)
            let mut seen = HashSet::new();
            classes.retain(|x| seen.insert(x.clone()));
            let mut seen = HashSet::new();
            ids.retain(|x| seen.insert(x.clone()));
        }
        let mut exc: Vec<String> = vec![];
        for s in &g {
            if r.chance(1, 5) {
                exc.push(s.clone());
            }
        }
        if r.chance(1, 4) {
            exc.push(format!(".{}", names[r.below(names.len())]));
        }
        // the other engines of this case
        let mut cuts = vec![r.below(rules.len() + 1)];
        if r.chance(1, 2) {
            cuts.push(r.below(rules.len() + 1));
        }
        cuts.sort();
        let alt = Alt { other_rules: gen_other_rules(&mut r), cuts };
        let run = run_set(&rules, &classes, &ids, &exc, &alt);
        sm.oracle_evaluations += 3 * (1 + PATHS.len() as u64) + 3 * PATHS.len() as u64;
        let desc = json!({"kind": "set", "rules": rules, "classes": classes, "ids": ids, "exceptions": exc, "alt": alt.json(),
                          "generic_selectors": run.g, "impl_lookup": run.got});
        for f in &run.failures {
            sm.failure(None, f, desc.clone());
        }
        cs.stat(if run.got.is_empty() { "lookup_empty" } else { "lookup_nonempty" });
        if run.both_complex_stores {
            cs.stat("set_with_complex_class_and_complex_id_store");
        }
        if run.same_name_in_both {
            cs.stat("set_with_one_name_keying_both_complex_stores");
        }
        cs.stat(if alt.cuts.len() == 1 { "pieces_two_portions" } else { "pieces_three_portions" });
        for (e, nt) in run.exprs {
            cs.case(e, desc.clone(), nt);
        }
        // model cases for the other engines: all five paths are judged by the oracles above; the
        // stores + exact-order lookup cases are written for one of them in turn
        for (path, _) in &run.alt_exprs {
            cs.stat(&format!("engine_path_{}", path));
        }
        if let Some((path, ex)) = run.alt_exprs.get(case_no % PATHS.len()).or(run.alt_exprs.first()) {
            let mut d2 = desc.clone();
            d2["engine_path"] = json!(path);
            for (e, nt) in ex.iter().take(2) {
                // (same text as the direct case when the engines agree: then it is evaluated again
                // under this path's name; a differing text is a differing store or answer)
                cs.case(format!("{} (* {} *)", e, path), d2.clone(), *nt);
            }
        }
    }
    cs.finish();
    sm.write(&a.out, &cs);
}
