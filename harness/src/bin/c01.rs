//! C01 — engine verdict equals rule-by-rule evaluation of the loaded list.
//!
//! Correspondence (model = Net_Model.v, hash = Gallina seahash):
//!   tok   : utils::tokenize_filter(pattern, skip_first, skip_last)         vs `tokenize_filter`
//!   gtok  : NetworkFilter::get_tokens() of parsed rules                     vs `get_tokens`
//!   rtok  : Request::get_tokens()                                           vs `request_tokens`
//!   index : WellIndexed evaluated on the dumped buckets of all eight Blocker lists
//!   verd  : matched/important/exception/filter of check_network_request     vs `blocker_check`
//!           of the model engine, the per-rule matcher being the crate's own `matches`
//! Oracle (implementation only): engine verdict vs per-rule scan + the documented precedence;
//! token-guarantee watch: every (rule, request) with `matches` and a bucket candidate group that
//! is not covered by the request's probes triggers a targeted search for a list that loses it.
use adblock::filters::network::{NetworkFilter, NetworkFilterMask, NetworkFilterMaskHelper, NetworkMatchable};
use adblock::regex_manager::RegexManager;
use adblock::request::Request;
use adblock::verif_hooks::{dump_engine_blocker, dump_filter, FilterDump};
use adblock::Engine;
use implrun::net::*;
use implrun::*;
use serde_json::{json, Value};
use std::collections::HashSet;

/// The list-loading parse path (lists::parse_filter), so that "successfully parsed rule" means
/// exactly what Engine::from_rules loads.
fn parse(line: &str) -> Option<NetworkFilter> {
    match adblock::lists::parse_filter(line, true, Default::default()) {
        Ok(adblock::lists::ParsedFilter::Network(f)) => Some(f),
        _ => None,
    }
}

/// the crate's per-rule matcher, cross-checked against the reading of the rule text (implrun::net)
fn rule_matches(f: &NetworkFilter, req: &Request) -> bool {
    implrun::net::rule_matches(f, req)
}

// (category, spec, spec_p: the shared rule-by-rule reference of implrun::net, which reads tags off
// the rule text and cross-checks $badfilter twins and every per-rule match against the text)
fn spec(rules: &[NetworkFilter], tags: &HashSet<String>, req: &Request) -> V { spec_verdict(rules, tags, req) }
fn spec_p(rules: &[NetworkFilter], tags: &HashSet<String>, req: &Request, mr: bool, fc: bool) -> V { spec_verdict_p(rules, tags, req, mr, fc) }

fn build(lines: &[String], tags: &[&str], optimize: bool) -> Engine {
    let mut e = Engine::from_rules_parametrised(lines.iter(), Default::default(), true, optimize);
    if !tags.is_empty() {
        e.use_tags(tags);
    }
    e
}
/// The same enabled set reached through a history of tag operations instead of one assignment:
/// every tag of the universe is enabled first, the unwanted ones are disabled again (some of them
/// carried by no plain blocking rule at all, only by exceptions / important / csp rules).
fn build_via_history(lines: &[String], tags: &[&str]) -> Engine {
    let mut e = Engine::from_rules_parametrised(lines.iter(), Default::default(), true, false);
    e.enable_tags(&["t3", "t1"]);
    e.enable_tags(&["t2", "zz"]);
    let off: Vec<&str> = ["t1", "t2", "t3", "zz"].iter().copied().filter(|t| !tags.contains(t)).collect();
    for t in off.iter() {
        e.disable_tags(&[*t]);
    }
    e
}

/// token guarantee: the rule is stored under one token of each group (0 for an empty group), so it
/// is certainly found iff some group is entirely covered by the request's probes
fn tg_ok(f: &NetworkFilter, req: &Request) -> bool {
    let probes: HashSet<u64> = req.get_tokens_for_match().copied().collect();
    f.get_tokens().iter().any(|g| g.iter().all(|t| probes.contains(t)))
}

/// Known-finding classes of DESIGN.md §2 that concern a (rule, request) pair.
fn known_class(f: &NetworkFilter, req: &Request, url: &str) -> Option<&'static str> {
    // F4 is about the separator `^` tested byte-wise against a multi-byte character: a rule without
    // `^` that is lost on a non-ASCII URL is not in that class
    let has_sep = f.raw_line.as_ref().map(|l| l.split('$').next().unwrap_or("").contains('^')).unwrap_or(true);
    if !url.is_ascii() && has_sep {
        return Some("F4_non_ascii_url");
    }
    if url.contains('*') {
        return Some("F23_star_in_url");
    }
    if req.source_hostname_hashes.is_none() && f.opt_domains.is_some() {
        return Some("F2_no_source_domain_token");
    }
    let http_only = f.mask.contains(NetworkFilterMask::FROM_HTTP) != f.mask.contains(NetworkFilterMask::FROM_HTTPS);
    if http_only && !req.is_http && !req.is_https {
        return Some("F3_scheme_token_ws");
    }
    None
}

/// (rule, URL tail that the rule matches): words with letters outside ASCII, no `^`
const NON_ASCII_RULES: &[(&str, &str)] = &[
    ("/баннер.gif", "/баннер.gif"),
    ("/werbung/größe_", "/werbung/größe_300.png"),
    ("-реклама-", "/x-реклама-1.js"),
    ("/广告/banner.", "/广告/banner.js"),
    ("/añuncio.js$script", "/añuncio.js"),
    ("/pub/publicité/", "/pub/publicité/1.js"),
    ("/ad/größe/*/img", "/ad/größe/7/img.png"),
];

/// Lists dominated by modifier rules (removeparam / csp / redirect, with exceptions, tags and
/// important) on one or two shared patterns, so that the hit SETS feeding the rewritten URL and the
/// CSP merge have several members.
fn modifier_list(r: &mut Rng) -> Vec<String> {
    let pats = [gen::pattern(r), gen::pattern(r)];
    let n = r.range(2, 7);
    let mut v = vec![];
    for _ in 0..n {
        let p = &pats[r.below(2)];
        let tag = if r.chance(1, 5) { format!(",tag={}", r.pick(gen::TAGS)) } else { String::new() };
        v.push(match r.below(10) {
            0 | 1 | 2 => format!("{}$removeparam={}", p, r.pick(gen::PARAMS)),
            3 | 4 => format!("{}$csp={}{}", p, r.pick(&["script-src 'none'", "img-src *", "default-src 'self'"]), tag),
            5 => format!("@@{}$csp={}{}", p, r.pick(&["script-src 'none'", "img-src *"]), tag),
            6 => if r.chance(1, 3) { format!("@@{}$csp", p) } else { format!("{}$redirect={}", p, r.pick(gen::RESOURCES)) },
            7 => format!("{}$important", p),
            8 => format!("@@{}{}", p, if tag.is_empty() { String::new() } else { format!("${}", &tag[1..]) }),
            _ => gen::rule(r, true),
        });
    }
    // one rule of the list again with `badfilter` appended: that rule is not in force
    if r.chance(1, 3) {
        let base = v[r.below(v.len())].clone();
        if !base.contains("badfilter") {
            v.push(if base.contains('$') { format!("{},badfilter", base) } else { format!("{}$badfilter", base) });
        }
    }
    v
}

fn vjson(v: &V) -> Value {
    json!({"matched": v.matched, "important": v.important, "exception": v.exception, "filter": v.filter})
}

fn replay(p: &std::path::Path) {
    let v: Value = serde_json::from_str(&std::fs::read_to_string(p).unwrap()).unwrap();
    let rp = &v["replay"];
    let lines: Vec<String> = rp["rules"].as_array().unwrap().iter().map(|x| x.as_str().unwrap().to_string()).collect();
    let tags: Vec<String> = rp["tags"].as_array().map(|a| a.iter().map(|x| x.as_str().unwrap().to_string()).collect()).unwrap_or_default();
    let tagrefs: Vec<&str> = tags.iter().map(|s| &**s).collect();
    let req = Request::new(rp["url"].as_str().unwrap(), rp["source"].as_str().unwrap_or(""), rp["type"].as_str().unwrap_or("script")).unwrap();
    let rules: Vec<NetworkFilter> = lines.iter().filter_map(|l| parse(l)).collect();
    let e = build(&lines, &tagrefs, false);
    let (mr, fc) = (rp["matched_rule"].as_bool().unwrap_or(false), rp["force_check_exceptions"].as_bool().unwrap_or(false));
    let mut got = engine_verdict_p(&e, &req, mr, fc);
    let want = spec_p(&rules, &tags.iter().cloned().collect(), &req, mr, fc);
    if rp["incremental"].as_bool().unwrap_or(false) {
        // every split point of the list: batch prefix + add_filter for the rest
        for k in 0..=rules.len() {
            let mut b = adblock::blocker::Blocker::new(rules[..k].to_vec(), &adblock::blocker::BlockerOptions { enable_optimizations: false });
            for f in rules[k..].iter() { let _ = b.add_filter(f.clone()); }
            b.use_tags(&tagrefs);
            let res = b.check_parameterised(&req, &adblock::resources::ResourceStorage::default(), mr, fc);
            let gl = V { matched: res.matched, important: res.important, exception: res.exception.is_some(), filter: res.filter.is_some() };
            if gl != want { println!("split at {}: {:?}", k, gl); got = gl; break; }
        }
    }
    if rp["optimized"].as_bool().unwrap_or(false) {
        let eo = build(&lines, &tagrefs, true);
        let go = engine_verdict_p(&eo, &req, mr, fc);
        println!("engine built with optimisation={:?}", go);
        if go != want { got = go; }
    }
    println!("engine={:?}\nrule-by-rule={:?}", got, want);
    if got != want {
        println!("VIOLATION property=C01 replay={}", p.display());
        std::process::exit(1);
    }
}

fn main() {
    let a = args();
    if let Some(p) = &a.replay {
        return replay(p);
    }
    let mut r = Rng::new(a.seed);
    let mut cs = Cases::new(&a.out, "Generated Hashing Net_Model Tok_Proofs Engine_Model");
    cs.shard = 60;
    let mut sm = Summary::default();
    sm.rule = "lists of 1-12 rules from the shared grammar (small vocabulary so tokens collide; all option kinds, tags, badfilter, duplicates) x requests built from the same vocabulary, half of them derived from a rule of the list; non-trivial = at least one rule of the list matches the request (by per-rule scan)".into();

    // ---- tok: tokenizer correspondence
    for _ in 0..(300 * a.scale) {
        let s = if r.chance(1, 5) { gen::junk(&mut r).replace(|c: char| !c.is_ascii() && !c.is_alphanumeric(), "é") } else { gen::pattern(&mut r) };
        let (sf, sl) = (r.chance(1, 2), r.chance(1, 2));
        let got = adblock::verif_hooks::tokenize_filter(&s, sf, sl);
        cs.stat("tok");
        cs.case(
            format!("list_eqb N.eqb (map seahash (tokenize_filter {} {} {})) {}", hxs(&s), cbool(sf), cbool(sl), clist(&got, |x| cn(*x))),
            json!({"fn": "tokenize_filter", "pattern": s, "skip_first": sf, "skip_last": sl, "impl": got}),
            !got.is_empty(),
        );
    }
    // long inputs: the 127-token cut-off
    for k in [120usize, 126, 127, 128, 140] {
        let s: String = (0..k).map(|i| format!("t{}x", i)).collect::<Vec<_>>().join("/");
        for sl in [false, true] {
            let got = adblock::verif_hooks::tokenize_filter(&s, false, sl);
            cs.case(
                format!("list_eqb N.eqb (map seahash (tokenize_filter {} false {})) {}", hxs(&s), cbool(sl), clist(&got, |x| cn(*x))),
                json!({"fn": "tokenize_filter", "tokens": k, "impl_len": got.len()}),
                true,
            );
        }
    }

    // ---- gtok / rtok
    for _ in 0..(300 * a.scale) {
        let line = gen::rule(&mut r, true);
        if let Some(f) = parse(&line) {
            let d = dump_filter(&f);
            let got = f.get_tokens();
            cs.stat("gtok");
            cs.case(
                format!("tokens_eqb (get_tokens seahash {}) {}", coq_rule(&d), clist(&got, |g| clist(g, |x| cn(*x)))),
                json!({"fn": "get_tokens", "rule": line, "impl": got}),
                got.iter().any(|g| !g.is_empty()),
            );
        } else {
            cs.stat("rule_parse_error");
        }
    }
    for _ in 0..(150 * a.scale) {
        let url = gen::url(&mut r);
        if let Ok(req) = Request::new(&url, "", "script") {
            let got = req.get_tokens().clone();
            let low = adblock::request::verif::url_lower_cased(&req).to_string();
            cs.stat("rtok");
            cs.case(
                format!("list_eqb N.eqb (request_tokens seahash {}) {}", hxs(&low), clist(&got, |x| cn(*x))),
                json!({"fn": "request_tokens", "url": url, "impl": got}),
                got.len() > 1,
            );
        }
    }

    // ---- long URLs: many tokens up to the 127-token cut-off (the property speaks about URLs below it;
    // at and beyond it only the request tokens are compared with the model, which has the same cut-off)
    // and long byte strings with few tokens; rules filed under a late token, under no token at all
    // (bucket 0) and removeparam rules without index token
    {
        let rules_long: Vec<String> = vec!["/adframe.".into(), "-sponsor".into(), "@@-sponsored-".into(), "-promo$important".into(), "*$removeparam=q".into(), "/zz9/last^".into()];
        let parsed: Vec<NetworkFilter> = rules_long.iter().filter_map(|l| parse(l)).collect();
        let e = build(&rules_long, &[], false);
        let mut urls: Vec<String> = vec![];
        for k in [60usize, 100, 118, 120, 121, 122, 123, 124, 125, 126, 127, 128, 140] {
            let segs: String = (0..k).map(|i| format!("s{}x", i)).collect::<Vec<_>>().join("/");
            for tail in ["/adframe.js", "/x-sponsor/y", "/zz9/last/", "?q=1&k=2", "/a-promo/-sponsored-/"] {
                urls.push(format!("https://h.example.com/{}{}", segs, tail));
            }
        }
        for n in [500usize, 1900, 2040, 2048, 2060, 4100, 9000] {
            let payload: String = std::iter::repeat('a').take(n).collect();
            for tail in ["&next=/adframe.js", "&x=-sponsor", "&q=5", "&next=/zz9/last/"] {
                urls.push(format!("https://static.example.com/landing?payload={}{}", payload, tail));
            }
        }
        for url in urls {
            let ty = if url.contains("q=") { "xhr" } else { "script" };
            let Ok(req) = Request::new(&url, "https://a.com/", ty) else { continue };
            register_request(&req, &url, "https://a.com/", ty);
            let got_tokens = req.get_tokens().clone();
            let low = adblock::request::verif::url_lower_cased(&req).to_string();
            cs.stat("long_url");
            cs.case(
                format!("list_eqb N.eqb (request_tokens seahash {}) {}", hxs(&low), clist(&got_tokens, |x| cn(*x))),
                json!({"fn": "request_tokens (long URL)", "url_len": url.len(), "tokens": got_tokens.len()}),
                true,
            );
            // below the cut-off the engine must agree with the rule-by-rule evaluation
            if got_tokens.len() <= 127 {
                let got = engine_verdict(&e, &req);
                let want = spec(&parsed, &HashSet::new(), &req);
                let rw = e.check_network_request(&req).rewritten_url;
                let rp_hit = parsed.iter().any(|f| f.is_removeparam() && rule_matches(f, &req));
                let rw_want = if want.important || !rp_hit || !url.contains("q=") { None } else { Some(url.replace("&q=5", "").replace("?q=1&", "?")) };
                sm.oracle_evaluations += 1;
                if got != want || (rw.is_some() != rw_want.is_some()) {
                    sm.failure(None, &format!("long URL ({} bytes, {} tokens): engine says {:?} (rewritten: {}), rule-by-rule evaluation says {:?} (rewritten: {})", url.len(), got_tokens.len() - 1, got, rw.is_some(), want, rw_want.is_some()),
                        json!({"rules": rules_long, "tags": [], "url": url, "source": "https://a.com/", "type": ty}));
                }
            }
        }
    }

    // ---- plain: the plain paths of check_pattern vs `plain_match` (Tok_Proofs.v), option-free rules
    for _ in 0..(250 * a.scale) {
        let body = gen::segs(&mut r, 1, 3).replace('^', "/").replace('*', "-");
        let (l, rt) = (r.chance(1, 4), r.chance(1, 4));
        let line = format!("{}{}{}", if l { "|" } else { "" }, if l { format!("https://{}/{}", r.pick(gen::HOSTS), body) } else { body.clone() }, if rt { "|" } else { "" });
        let Some(f) = parse(&line) else { cs.stat("rule_parse_error"); continue };
        let d = dump_filter(&f);
        if d.hostname.is_some() || d.filter.len() != 1 || f.mask.contains(NetworkFilterMask::IS_REGEX) || f.mask.contains(NetworkFilterMask::IS_COMPLETE_REGEX) {
            continue;
        }
        let url = if r.chance(2, 3) { gen::url_for(&mut r, &line) } else { gen::url(&mut r) };
        let Ok(req) = Request::new(&url, "https://a.com/", "script") else { continue };
        if !req.is_http && !req.is_https { continue }
        let got = rule_matches(&f, &req);
        let low = adblock::request::verif::url_lower_cased(&req).to_string();
        cs.stat(if got { "plain_match" } else { "plain_nomatch" });
        cs.case(
            format!("Bool.eqb (plain_match (is_left_anchor {r}) (is_right_anchor {r}) {s} {u}) {g}", r = coq_rule(&d), s = hxs(&d.filter[0]), u = hxs(&low), g = cbool(got)),
            json!({"fn": "plain_match", "rule": line, "url": url, "impl": got}),
            got,
        );
    }

    // ---- index / verd + oracle
    let n_lists = 250 * a.scale;
    for li in 0..n_lists {
        let nr = r.range(1, 12);
        let mut lines: Vec<String> = if li % 3 == 0 && r.chance(2, 3) { modifier_list(&mut r) } else { gen::rule_list(&mut r, nr, li % 3 == 0) };
        if r.chance(1, 4) && !lines.is_empty() {
            let d = lines[r.below(lines.len())].clone();
            lines.push(d); // duplicate
        }
        if r.chance(1, 6) {
            // a badfilter for one of the rules
            let base = lines[r.below(lines.len())].clone();
            lines.push(if base.contains('$') { format!("{},badfilter", base) } else { format!("{}$badfilter", base) });
        }
        // words with letters outside ASCII in rules and (below) in the URLs asked about: separator-free
        // rules, so that none of this is in the known class F4
        let nonascii: Option<(&str, &str)> = if li % 5 == 2 {
            let (rule, tail) = r.pick(NON_ASCII_RULES);
            lines.push(rule.to_string());
            if r.chance(1, 2) {
                // fillers sharing the rule's ASCII words, so that the non-ASCII word is the rarest token
                for w in rule.split(|c: char| !c.is_ascii_alphanumeric()).filter(|w| w.len() > 1) {
                    lines.push(format!("/{}/x{}.", w, r.below(9)));
                    lines.push(format!("/{}/y{}.", w, r.below(9)));
                }
            }
            cs.stat("non_ascii_rule_lists");
            Some((rule, tail))
        } else { None };
        let rules: Vec<NetworkFilter> = lines.iter().filter_map(|l| parse(l)).collect();
        let dumps: Vec<FilterDump> = rules.iter().map(dump_filter).collect();
        let tagsets: [&[&str]; 3] = [&[], &["t1"], &["t1", "t2", "t3"]];
        let tags: &[&str] = tagsets[r.below(3)];
        let tagset: HashSet<String> = tags.iter().map(|s| s.to_string()).collect();
        // a third of the engines reach their tag set through enable / disable calls
        let e = if li % 3 == 1 { cs.stat("engine_tags_via_history"); build_via_history(&lines, tags) } else { build(&lines, tags, false) };
        // the same list as Engine::from_rules builds it by default: with optimisation (fused rules);
        // not used when a /regex/ of the list does not compile (C05's known class)
        let bad_regex = lines.iter().any(|l| { let p = l.trim_start_matches("@@"); let p = p.split('$').next().unwrap_or(""); p.len() > 2 && p.starts_with('/') && p.ends_with('/') && regex::bytes::Regex::new(&p[1..p.len() - 1]).is_err() });
        let e_opt = if bad_regex { None } else { Some(build(&lines, tags, true)) };
        let bd = dump_engine_blocker(&e);
        // WellIndexed on every dumped list, against the rules the model puts into that list
        let model_lists = [
            ("csp", "of_cat CCsp L"),
            ("exceptions", "of_cat CException L"),
            ("importants", "of_cat CImportant L"),
            ("redirects", "filter is_redirect (live L)"),
            ("removeparam", "of_cat CRemoveparam L"),
            ("filters_tagged", "tagged_active T (of_cat CTagged L)"),
            ("filters", "of_cat CNormal L"),
            ("generic_hide", "of_cat CGenericHide L"),
        ];
        let mut conj = vec![];
        for (name, sel) in model_lists.iter() {
            let d = &bd.lists.iter().find(|(n, _)| n == name).unwrap().1;
            conj.push(format!("well_indexed_b seahash ({}) {}", sel, coq_dump(d)));
        }
        let tags_coq = clist(tags, |t| hxs(t));
        cs.stat("index");
        cs.case(
            format!("let L := {} in let T := {} in {}", coq_rules(&dumps), tags_coq, conj.join(" && ")),
            json!({"fn": "well_indexed(all 8 lists)", "rules": lines, "tags": tags}),
            !rules.is_empty(),
        );

        // the incremental path: NetworkFilterList::new on a prefix, add_filter for the rest (one list,
        // no category split): WellIndexed of the dumped buckets against all the rules added
        if rules.len() >= 2 {
            let mut seen = HashSet::new();
            let uniq: Vec<NetworkFilter> = rules.iter().filter(|f| seen.insert(f.id)).cloned().collect();
            let k = r.below(uniq.len());
            let mut fl = adblock::verif_hooks::FilterList::new(uniq[..k].to_vec(), false);
            for f in uniq[k..].iter() {
                fl.add_filter(f.clone());
            }
            let ud: Vec<FilterDump> = uniq.iter().map(dump_filter).collect();
            cs.stat("index_incremental");
            cs.case(
                format!("well_indexed_b seahash {} {}", coq_rules(&ud), coq_dump(&fl.dump())),
                json!({"fn": "well_indexed(new on a prefix + add_filter)", "rules": lines, "prefix": k}),
                uniq.iter().any(|f| f.get_tokens().len() > 1),
            );
        }

        // the same rules on a live Blocker: batch for a prefix, add_filter for the rest (lists without
        // $badfilter, which add_filter refuses); queried below next to the engine
        let live_blocker: Option<adblock::blocker::Blocker> = if lines.iter().any(|l| l.contains("badfilter")) { None } else {
            let k = r.below(rules.len() + 1);
            let mut b = adblock::blocker::Blocker::new(rules[..k].to_vec(), &adblock::blocker::BlockerOptions { enable_optimizations: false });
            for f in rules[k..].iter() {
                let _ = b.add_filter(f.clone());
            }
            b.use_tags(tags);
            cs.stat("live_blocker_prefix_plus_add_filter");
            Some(b)
        };

        let nq = 3;
        for _ in 0..nq {
            let url = if r.chance(if li % 3 == 0 { 3 } else { 1 }, if li % 3 == 0 { 4 } else { 2 }) { { let k = r.below(lines.len()); gen::url_for(&mut r, &lines[k]) } } else { gen::url(&mut r) };
            let src = gen::source_url(&mut r);
            let mut ty = gen::request_type(&mut r);
            let mut url = url;
            if let Some((_, tail)) = nonascii {
                if r.chance(2, 3) {
                    url = format!("https://{}/{}{}", r.pick(gen::HOSTS), r.pick(gen::VOCAB), tail);
                    cs.stat("non_ascii_url_queries");
                }
            }
            if li % 3 == 0 {
                // modifier lists: give removeparam something to remove and csp a document to protect
                let names: Vec<String> = lines.iter().filter_map(|l| l.split("removeparam=").nth(1)).map(|x| x.split(',').next().unwrap_or("").to_string()).collect();
                if !url.contains('?') && !url.contains('#') && r.chance(2, 3) {
                    let k1 = if !names.is_empty() && r.chance(3, 4) { names[r.below(names.len())].clone() } else { r.pick(gen::PARAMS).to_string() };
                    let k2 = if !names.is_empty() && r.chance(1, 2) { names[r.below(names.len())].clone() } else { r.pick(gen::PARAMS).to_string() };
                    url = format!("{}?{}={}&{}={}", url, k1, r.pick(gen::VOCAB), k2, r.pick(gen::VOCAB));
                }
                if r.chance(1, 2) {
                    ty = r.pick(&["document", "subdocument", "main_frame"]);
                }
            }
            let Ok(req) = Request::new(&url, &src, ty) else { cs.stat("request_error"); continue };
            register_request(&req, &url, &src, ty);
            if nonascii.is_some() && !url.is_ascii() {
                // the model's tokenizer treats every byte of a non-ASCII LETTER as a word byte (all the
                // non-ASCII characters of this family are letters): same tokens as the crate's
                let low = adblock::request::verif::url_lower_cased(&req).to_string();
                cs.stat("non_ascii_request_tokens");
                cs.case(
                    format!("list_eqb N.eqb (request_tokens seahash {}) {}", hxs(&low), clist(req.get_tokens(), |x| cn(*x))),
                    json!({"fn": "request_tokens (URL with non-ASCII letters)", "url": url}),
                    true,
                );
            }
            let matching: Vec<u64> = rules.iter().filter(|f| rule_matches(f, &req)).map(|f| f.id).collect();
            // a third of the queries go through the subset entry point (another engine matched before /
            // exceptions forced)
            let (mr, fc) = if r.chance(1, 3) { (r.chance(1, 2), r.chance(1, 2)) } else { (false, false) };
            let got = engine_verdict_p(&e, &req, mr, fc);
            let want = spec_p(&rules, &tagset, &req, mr, fc);
            sm.oracle_evaluations += 1;
            if let Some(b) = &live_blocker {
                let rs = adblock::resources::ResourceStorage::default();
                let res = b.check_parameterised(&req, &rs, mr, fc);
                let gl = V { matched: res.matched, important: res.important, exception: res.exception.is_some(), filter: res.filter.is_some() };
                sm.oracle_evaluations += 1;
                if gl != want && got == want {
                    sm.failure(None, &format!("a Blocker built from a prefix of the list plus add_filter for the rest says {:?}, rule-by-rule evaluation says {:?} (the batch engine agrees with the latter)", gl, want),
                        json!({"rules": lines, "tags": tags, "url": url, "source": src, "type": ty, "matched_rule": mr, "force_check_exceptions": fc, "incremental": true}));
                }
            }
            if let Some(eo) = &e_opt {
                let go = engine_verdict_p(eo, &req, mr, fc);
                sm.oracle_evaluations += 1;
                cs.stat("optimized_engine_verdicts");
                if go != want && got == want {
                    sm.failure(None, &format!("the engine built with optimisation says {:?}, rule-by-rule evaluation says {:?} (the unoptimised engine agrees with the latter)", go, want),
                        json!({"rules": lines, "tags": tags, "url": url, "source": src, "type": ty, "matched_rule": mr, "force_check_exceptions": fc, "optimized": true}));
                }
            }
            let desc = json!({"rules": lines, "tags": tags, "url": url, "source": src, "type": ty, "matched_rule": mr, "force_check_exceptions": fc, "matching_ids": matching, "impl": vjson(&got)});
            if got != want {
                // is every lost rule in a known class?
                // (removeparam rules indexed by their parameter name do not take part in these four bits)
                let lost: Vec<&NetworkFilter> = rules.iter().filter(|f| !f.is_removeparam() && rule_matches(f, &req) && !tg_ok(f, &req)).collect();
                let classes: Vec<Option<&str>> = lost.iter().map(|f| known_class(f, &req, &url)).collect();
                let class = if !lost.is_empty() && classes.iter().all(|c| c.is_some()) { classes[0] } else { None };
                sm.failure(class, &format!("engine says {:?}, rule-by-rule evaluation says {:?}", got, want), desc.clone());
            }
            // token-guarantee watch + targeted search
            for f in rules.iter() {
                // removeparam rules without pattern tokens are indexed by their parameter name: not finding
                // them is unobservable when the URL lacks that parameter (the rewrite itself is C14's subject)
                if rule_matches(f, &req) && !tg_ok(f, &req) && !f.is_removeparam() {
                    let class = known_class(f, &req, &url);
                    cs.stat(if class.is_some() { "tg_violation_known" } else { "tg_violation_new" });
                    if class.is_none() {
                        let line = f.raw_line.as_ref().map(|b| (**b).clone()).unwrap_or_default();
                        let mut ex = sm.extra.remove("tg_watch_examples").and_then(|v| v.as_array().cloned()).unwrap_or_default();
                        if ex.len() < 10 { ex.push(json!({"rule": line, "url": url, "source": src, "type": ty})); }
                        sm.extra.insert("tg_watch_examples".into(), Value::Array(ex));
                        // look for a list that loses the rule
                        for t in 0..12 {
                            let mut l2 = vec![line.clone()];
                            for _ in 0..t {
                                l2.push(gen::rule(&mut r, false));
                            }
                            let r2: Vec<NetworkFilter> = l2.iter().filter_map(|l| parse(l)).collect();
                            let e2 = build(&l2, tags, false);
                            let g2 = engine_verdict(&e2, &req);
                            let w2 = spec(&r2, &tagset, &req);
                            sm.oracle_evaluations += 1;
                            if g2 != w2 {
                                sm.failure(None, &format!("rule lost by the index: engine {:?}, rule-by-rule {:?}", g2, w2),
                                    json!({"rules": l2, "tags": tags, "url": url, "source": src, "type": ty}));
                                break;
                            }
                        }
                    }
                }
            }
            if !req.is_supported {
                cs.stat("unsupported_scheme");
                continue;
            }
            cs.stat(if matching.is_empty() { "verd_nomatch" } else { "verd_match" });
            if mr || fc { cs.stat("verd_subset_query"); }
            let probes = clist(&req.get_tokens_for_match().copied().collect::<Vec<u64>>(), |x| cn(*x));
            // the whole answer: verdict bits, rewritten URL (C14 rewrite over the removeparam hits of the
            // model index) and CSP (C15 merge over the csp hits); the redirect needs the resource store and
            // is compared in C13 (here: empty store on both sides)
            let full = e.check_network_request_subset(&req, mr, fc);
            let csp = e.get_csp_directives(&req);
            let orig = adblock::request::verif::original_url(&req).to_string();
            if full.rewritten_url.is_some() { cs.stat("verd_rewritten"); }
            if csp.is_some() { cs.stat("verd_csp"); }
            cs.case(
                format!(
                    "let L := {} in let m := (fun f => memN (rid f) {}) in let pr := {} in let b := with_tags seahash (blocker_new seahash L) {} in let r := engine_check m pr true {} C13_Model.empty_store {} {} b in verdict_eqb (Build_verdict (r_matched r) (r_important r) (r_exception r) (r_filter r)) (Build_verdict {} {} {} {}) && C14_Model.ostr_eqb (r_rewritten r) {} && C15_Model.csp_agree (engine_csp m pr RT_{:?} b) {} && C14_Model.ostr_eqb (r_redirect r) {}",
                    coq_rules(&dumps), clist(&matching, |x| cn(*x)), probes, tags_coq, hxs(&orig), cbool(mr), cbool(fc),
                    cbool(got.matched), cbool(got.important), cbool(got.exception), cbool(got.filter),
                    copt(&full.rewritten_url, |u| hxs(u)), req.request_type, copt(&csp, |u| hxs(u)), copt(&full.redirect, |u| hxs(u))
                ),
                desc,
                !matching.is_empty(),
            );
        }
    }

    // ---- scheme-only rules against a URL of every scheme: the engine against the rule-by-rule
    // evaluation, and (inside rule_matches) every rule's answer against the reading of its text
    for rule in ["|http*://", "|http*://*", "|http://", "|https://", "|ws://", "@@|http*://", "|http*://$third-party", "|http*://$script,domain=a.com", "|https://$image", "|http://$third-party"] {
        for scheme in ["http", "https", "ws", "wss"] {
            for (src, ty) in [("https://a.com/page", "script"), ("http://x.com/", "image")] {
                let lines: Vec<String> = vec![rule.to_string(), "/zz9/filler.".to_string(), if rule.starts_with("@@") { "/a".to_string() } else { "@@/never-there/".to_string() }];
                let rules: Vec<NetworkFilter> = lines.iter().filter_map(|l| parse(l)).collect();
                let url = format!("{}://x.com/a", scheme);
                let ty = if scheme.starts_with("ws") { "websocket" } else { ty };
                let Ok(req) = Request::new(&url, src, ty) else { continue };
                register_request(&req, &url, src, ty);
                let e = build(&lines, &[], false);
                let got = engine_verdict(&e, &req);
                let want = spec(&rules, &HashSet::new(), &req);
                sm.oracle_evaluations += 1;
                cs.stat("scheme_only_rule_queries");
                if got != want {
                    let lost: Vec<&NetworkFilter> = rules.iter().filter(|f| rule_matches(f, &req) && !tg_ok(f, &req)).collect();
                    let classes: Vec<Option<&str>> = lost.iter().map(|f| known_class(f, &req, &url)).collect();
                    let class = if !lost.is_empty() && classes.iter().all(|c| c.is_some()) { classes[0] } else { None };
                    sm.failure(class, &format!("scheme-only rule: engine says {:?}, rule-by-rule evaluation says {:?}", got, want),
                        json!({"rules": lines, "tags": [], "url": url, "source": src, "type": ty}));
                }
            }
        }
    }

    // ---- rules whose text occurs only in the FRAGMENT of the URL (the matchers see the whole URL, so
    // the index has to probe the tokens of the fragment too), next to rules that compete for the
    // rule's other tokens
    for it in 0..60 * a.scale {
        let pat = gen::pattern(&mut r);
        let body = pat.trim_start_matches('|').trim_end_matches('|').replace('^', "/").replace('*', "zz");
        if body.starts_with("||") || body.len() < 3 || !body.is_ascii() { continue; }
        let mut lines: Vec<String> = vec![if it % 3 == 0 { format!("@@{}", pat.trim_start_matches('|')) } else { pat.trim_start_matches('|').to_string() }];
        if it % 3 == 0 { lines.push(format!("||{}^", gen::HOSTS[it % gen::HOSTS.len()])); }
        for _ in 0..r.range(1, 5) { lines.push(gen::rule(&mut r, false)); }
        let rules: Vec<NetworkFilter> = lines.iter().filter_map(|l| parse(l)).collect();
        let host = gen::HOSTS[it % gen::HOSTS.len()];
        for url in [format!("https://{}/page.html#{}", host, body), format!("https://{}/p?x=1#/{}", host, body.trim_start_matches('/'))] {
            let src = "https://a.com/page";
            let Ok(req) = Request::new(&url, src, "script") else { continue };
            register_request(&req, &url, src, "script");
            let e = build(&lines, &[], false);
            let got = engine_verdict(&e, &req);
            let want = spec(&rules, &HashSet::new(), &req);
            sm.oracle_evaluations += 1;
            cs.stat("rule_text_only_in_fragment_queries");
            if got != want {
                let lost: Vec<&NetworkFilter> = rules.iter().filter(|f| rule_matches(f, &req) && !tg_ok(f, &req)).collect();
                let classes: Vec<Option<&str>> = lost.iter().map(|f| known_class(f, &req, &url)).collect();
                let class = if !lost.is_empty() && classes.iter().all(|c| c.is_some()) { classes[0] } else { None };
                sm.failure(class, &format!("rule text only in the fragment: engine says {:?}, rule-by-rule evaluation says {:?}", got, want),
                    json!({"rules": lines, "tags": [], "url": url, "source": src, "type": "script"}));
            }
        }
    }

    // ---- known-finding examples (kept as a corpus; reported only while they still fail)
    let known: [(&str, &[&str], &str, &str, &str); 3] = [
        ("F2_no_source_domain_token", &["adz$domain=a.com", "adz/x1", "adz/x2"], "https://x.com/adz", "", "script"),
        ("F3_scheme_token_ws", &["|http://", "http/x1", "http/x2"], "ws://x.com/adz", "https://x.com/", "websocket"),
        ("F23_star_in_url", &["ads^foo|", "ads/x1", "ads/x2", "ads/x3"], "https://ads.net/ads*foo", "https://ads.net/", "script"),
    ];
    for (class, lines, url, src, ty) in known.iter() {
        let lines: Vec<String> = lines.iter().map(|s| s.to_string()).collect();
        let rules: Vec<NetworkFilter> = lines.iter().filter_map(|l| parse(l)).collect();
        let req = Request::new(url, src, ty).unwrap();
        let e = build(&lines, &[], false);
        let got = engine_verdict(&e, &req);
        let want = spec(&rules, &HashSet::new(), &req);
        sm.oracle_evaluations += 1;
        if got != want {
            sm.failure(Some(class), &format!("engine {:?} vs rule-by-rule {:?}", got, want), json!({"rules": lines, "url": url, "source": src, "type": ty, "tags": []}));
        }
    }
    {
        // F4: non-ASCII URL
        let lines: Vec<String> = ["/foo^", "/x1^", "/x2^"].iter().map(|s| s.to_string()).collect();
        let rules: Vec<NetworkFilter> = lines.iter().filter_map(|l| parse(l)).collect();
        let url = "https://x.com/fooé";
        let req = Request::new(url, "https://x.com/", "script").unwrap();
        let e = build(&lines, &[], false);
        if engine_verdict(&e, &req) != spec(&rules, &HashSet::new(), &req) {
            sm.failure(Some("F4_non_ascii_url"), "rule /foo^ matches https://x.com/fooé but the engine does not find it", json!({"rules": lines, "url": url, "source": "https://x.com/", "type": "script", "tags": []}));
        }
    }
    cs.finish();
    sm.write(&a.out, &cs);
}
