//! C11 — list parsing: no parser entry point panics on any text; a rejected line is skipped
//! without influencing other lines; a hosts entry is exactly `||host^`; NetworkOnly /
//! CosmeticOnly load no rule of the other kind.
//!
//! Correspondence (model C11_Model.v vs the crate): detect_filter_type, parse_filter in both
//! formats and all three rule types (error class, or mask / filter / hostname / modifier / tag /
//! domain counts of the NetworkFilter, or mask / selector / action / location counts of the
//! CosmeticFilter), read_list_metadata, parse_scriptlet_args, index_next_unescaped_separator,
//! normalize_arg, the list driver (parse_filters_with_metadata on `lines()`), and the std string
//! primitives the model re-implements bytewise (from_utf8, is_char_boundary, trim,
//! split_whitespace, lines).
//! Oracle (independent of Coq): catch_unwind around every entry point; engine(list with rejected
//! lines inserted) == engine(list); hosts line == `||host^`; rule-type engines answer the other
//! kind of query as empty.
use adblock::filters::cosmetic::{CosmeticFilter, CosmeticFilterAction, CosmeticFilterMask, CosmeticFilterOperator};
use adblock::filters::network::NetworkFilter;
use adblock::lists::{parse_filter, parse_filters_with_metadata, read_list_metadata, ExpiresInterval, FilterFormat, FilterListMetadata, FilterParseError, FilterSet, ParseOptions, ParsedFilter, RuleTypes};
use adblock::request::Request;
use adblock::verif_hooks::dump_filter;
use adblock::Engine;
use implrun::*;
use serde_json::{json, Value};
use std::collections::{BTreeMap, HashSet};

// ------------------------------------------------------------------ generators
const COS_HOSTS: &[&str] = &[
    "", "", "example.com", "foo.com", "a.com,b.com", "a.com,~sub.a.com", "~a.com", "google.*", "~google.*",
    "foo.com,google.*", "/regex/", "/re/,a.com", "bücher.de", "ü.com,~é.*", "[$domain=a.com]x.com", ",a.com,", "~", ".*",
    "~.*", "A.COM",
];
const COS_SEPS: &[&str] = &["##", "##", "##", "##", "##", "##", "##", "#@#", "#@#", "#?#", "#?#", "#@?#", "#$#", "#%#", "#@$#", "#@%#", "#x#", "# #", "#?@#"];
const SELECTORS: &[&str] = &[
    ".ad", "#ad", ".ad-banner", "div > .x", ".a:has-text(x)", "div[id^=\"ad\"]", "", ".é", "^script:has-text(x)", ".a, .b",
    "a[href*=\"x\"]:not(.y)", ".x:-abp-has(.y)", " .padded ", "+js", "+js(", ".漢字",
];
const ACTIONS: &[&str] = &[
    "", "", "", ":style(color: red)", ":style(x", ":remove()", ":remove-attr(onclick)", ":remove-class(ad)",
    ":remove-class(/x/)", ":remove-attr(\"q\")", ":remove-attr('q')", ":style()", ":remove-attr(é)", ":style(a):remove-attr(b)",
    ":remove()x", ":style(:remove-class(x))",
];
const ARG_ATOMS: &[&str] = &[
    "foo", "bar", "'a,b'", "\"x\"", "`y`", "a\\,b", "\\\\", "'it\\'s'", " ", "\u{2003}", "é", ",", ",", ", ", "'abc", "\\",
    "\"q\\\"r\"", "'a' x", "\\\\,", "\\\\\\,", "1", "{\"a\":1}", "\t", "漢", "'é' ,", "\u{a0}",
];
const META_LINES: &[&str] = &[
    "! Title: EasyList", "! Title: Second", "! Homepage: https://example.com/", "! Expires: 5 days", "! Expires: 400 hours",
    "! Expires: +5 days", "! Expires: 1 hour", "! Expires: 14 days (update frequency)", "! Expires: 15 days", "! Expires: 0 hours",
    "! Expires: 336 hours", "! Expires: 337 hours", "! Expires: 005 day", "! Expires: 5days", "! Expires: 5", "! Expires:  5 days",
    "! Expires: 99999999999999999999 days", "! Expires: -1 days", "! Expires: 1é days", "! Redirect: https://x.com/list.txt",
    "[Adblock Plus 2.0]", "! comment", "!no space", "! Title:nospace", "! Title: a: b", "! Licence: é漢", "", "||rule.com^", "!",
    "! : x", "[", "! Homepage: ", "!  Title: two spaces", "! title: lowercase",
];
const HOSTS_LINES: &[&str] = &[
    "127.0.0.1 ads.example.com", "0.0.0.0\ttrack.net # comment", "ads.net", "localhost", "127.0.0.1 localhost", "a b c",
    "# comment", "! comment", ".com", "foo.", "www.Foo.COM", "bücher.de", "127.0.0.1  www.www.x.com", "0.0.0.0 a.com#c",
    "#", " # ", "127.0.0.1\u{2003}em.space.com", "::1 ip6.example.com", "0.0.0.0 UPPER.EXAMPLE.COM", "0.0.0.0 a_b.com",
    "0.0.0.0 a/b.com", "0.0.0.0 .a.com", "0.0.0.0 .a", "0.0.0.0 K.com", "0.0.0.0 \u{212a}.com", "0.0.0.0 www.é.com",
    "0.0.0.0 \u{200d}.com", "0.0.0.0 x.com!", "www.", "0.0.0.0 www.com", "0.0.0.0 İ.com", "\u{a0}0.0.0.0 nb.sp.com\u{a0}",
];
const INTERESTING: &[&str] = &[
    "@@||www.example.com/ads*$script,domain=a.com|~b.com", "||ads.net^$third-party", "|https://x.com/|", "@@|$script",
    "example.com,~a.example.com##+js(set, 'a,b', c\\,d)", "a.com#@#.ad:style(color: red)", "x.com##.a:remove()",
    "||é.com^*ad*$csp=script-src 'none'", "127.0.0.1 www.bücher.de # c", "/ads/*$removeparam=utm,~third-party",
    "||a.com*b^$redirect=noop.js,image", "*$ghide,domain=x.com", "@@*$ghide", "|ws://", "||a.com|", "||http://*", "|http*://",
    "##.ad", "#@#.ad", "google.*#?#.x:-abp-has(.y)", "! Title: x", "[Adblock Plus 2.0]", "a$$b", "# comment", "$$", "@@", "||",
    "|", "$", "@@$", "*", "**", "||*", "||^", "^", "/re/$match-case", "/re/", "ad$match-case", "a##", "a#b#c", "###", "#####",
];
const MB: &[&str] = &["é", "漢", "😀", "\u{2003}", "\u{a0}", "\u{85}", "\u{200d}"];
const QUERY_HOSTS: &[&str] = &["example.com", "sub.example.com", "foo.com", "a.com", "google.de", "ads.net", "x.com", "bücher.de"];

fn cosmetic_rule(r: &mut Rng) -> String {
    let mut s = String::new();
    s.push_str(r.pick(COS_HOSTS));
    s.push_str(r.pick(COS_SEPS));
    if r.chance(1, 4) {
        s.push_str("+js(");
        s.push_str(&script_args(r));
        if !r.chance(1, 12) {
            s.push(')');
        }
    } else {
        s.push_str(r.pick(SELECTORS));
        s.push_str(r.pick(ACTIONS));
    }
    s
}
fn script_args(r: &mut Rng) -> String {
    let n = r.range(0, 6);
    let mut s = String::new();
    for i in 0..n {
        if i > 0 && r.chance(2, 3) {
            s.push_str(", ");
        }
        s.push_str(r.pick(ARG_ATOMS));
    }
    s
}
/// A generated hosts-format entry: optional address, 0-3 leading `www.` labels, a host from the
/// shared universe in mixed case, optional trailing dot / comment / blanks.
fn hosts_line(r: &mut Rng) -> String {
    let ip = r.pick(&["0.0.0.0 ", "127.0.0.1 ", "", "::1 ", "0.0.0.0\t", "127.0.0.1   "]);
    let www = r.pick(&["", "", "www.", "www.www.", "WWW.www.", "www.www.www.", "wWw."]);
    let host = r.pick(gen::HOSTS);
    let host = if r.chance(1, 5) { host.to_uppercase() } else { host.to_string() };
    let tail = r.pick(&["", "", "", " # comment", "#c", " ", "."]);
    format!("{}{}{}{}", ip, www, host, tail)
}
fn structured_line(r: &mut Rng, real: &[String]) -> String {
    match r.below(12) {
        0 | 1 | 2 | 3 => gen::rule(r, true),
        4 | 5 | 6 => cosmetic_rule(r),
        7 if r.chance(1, 2) => hosts_line(r),
        7 => (r.pick(HOSTS_LINES)).to_string(),
        8 => (r.pick(META_LINES)).to_string(),
        9 => {
            // a network rule with irregular options
            let o = r.pick(&["~badfilter", "~important", "redirect=", "redirect=a,removeparam=b", "csp=x,script", "removeparam=a.b",
                "domain=/re/", "domain=", "tag=x,~tag=y", "~match-case", "foo", "", "~~script", "script=1", "1p,~3p", "doc,~doc",
                "from=a.com", "domain=a.com|a.com|~b.com,domain=c.com", "removeparam=utm,document", "ghide", "~ghide", "all",
                "redirect-rule=x:5", "~redirect=x", "~removeparam=x", "image,~image", "domain=é.com", "tag=é"]);
            format!("{}${}", gen::pattern(r), o)
        }
        // network rules whose first character is '[' or that look like a list header without being one
        11 if r.chance(1, 2) => (r.pick(&["[ads]=1", "[x]", "[ad]/banner", "[Adblock", "[Adblock]x/y", "[$script", "[a.com]^"])).to_string(),
        10 => {
            // letter case: hosts and patterns written with upper-case letters (`||WWW.Example.com^`),
            // /regex/ bodies whose escapes are case-sensitive (`\D` is not `\d`), with and without
            // $match-case, upper-cased option names
            let host = r.pick(&["WWW.Example.com", "www.EXAMPLE.com", "Www.www.foo.com", "ADS.Net", "wWw.a.B.example.co.uk", "WWW."]);
            match r.below(6) {
                0 => format!("||{}^", host),
                1 => format!("||{}/Ads/Banner.JS|", host),
                2 => format!("@@||{}^$Script,DOMAIN=A.com", host),
                3 => {
                    let body = r.pick(&["\\D+Ad", "Ad\\S*\\.JS", "[A-Z]+\\Wx", "\\Bads\\B", "AD[0-9]\\\\W", "a\\Db|\\S"]);
                    let opt = r.pick(&["", "$match-case", "$script,match-case", "$~match-case", "$MATCH-CASE"]);
                    format!("/{}/{}", body, opt)
                }
                4 => gen::rule(r, true).to_uppercase(),
                _ => format!("{}##.Ad-Box", host),
            }
        }
        _ => {
            if real.is_empty() {
                gen::rule(r, false)
            } else {
                real[r.below(real.len())].clone()
            }
        }
    }
}
fn malformed_lines(r: &mut Rng, n_junk: usize, n_seeds: usize) -> Vec<String> {
    let mut v = vec![];
    for _ in 0..n_junk {
        v.push(gen::junk(r));
    }
    for _ in 0..n_seeds {
        let base = r.pick(INTERESTING);
        // every prefix
        for (i, _) in base.char_indices() {
            if r.chance(1, 2) {
                v.push(base[..i].to_string());
            }
        }
        // a multi-byte character inserted at every offset
        let mb = r.pick(MB);
        let idx: Vec<usize> = base.char_indices().map(|(i, _)| i).chain(std::iter::once(base.len())).collect();
        for i in idx {
            if r.chance(1, 2) {
                v.push(format!("{}{}{}", &base[..i], mb, &base[i..]));
            }
        }
    }
    v
}
fn real_lines(r: &mut Rng, per_file: usize) -> Vec<String> {
    let mut out = vec![];
    let mut files = vec![];
    for d in ["/repo/data/easylist.to/easylist", "/repo/data/easylist.to/easylistgermany", "/repo/data/brave", "/repo/data/uBlockOrigin", "/repo/data/test"] {
        if let Ok(rd) = std::fs::read_dir(d) {
            let mut fs: Vec<_> = rd.flatten().map(|e| e.path()).filter(|p| p.extension().map(|x| x == "txt").unwrap_or(false)).collect();
            fs.sort();
            files.extend(fs);
        }
    }
    for f in files {
        if let Ok(bytes) = std::fs::read(&f) {
            let text = String::from_utf8_lossy(&bytes);
            let ls: Vec<&str> = text.lines().collect();
            if ls.is_empty() {
                continue;
            }
            for _ in 0..per_file {
                let l = ls[r.below(ls.len())];
                if l.len() <= 300 {
                    out.push(l.to_string());
                }
            }
        }
    }
    out
}

// ------------------------------------------------------------------ Coq literals
fn cstr_opt(o: &Option<String>) -> String {
    copt(o, |s| hxs(s))
}
fn cnat_opt(o: Option<usize>) -> String {
    copt(&o, |n| cnat(*n))
}
fn fmt_name(f: FilterFormat) -> &'static str {
    match f {
        FilterFormat::Standard => "FF_Standard",
        FilterFormat::Hosts => "FF_Hosts",
    }
}
fn rt_name(t: RuleTypes) -> &'static str {
    match t {
        RuleTypes::All => "RT_All",
        RuleTypes::NetworkOnly => "RT_NetworkOnly",
        RuleTypes::CosmeticOnly => "RT_CosmeticOnly",
    }
}
fn net_view(f: &NetworkFilter) -> (String, Value) {
    let d = dump_filter(f);
    let filter = match d.filter_kind {
        "empty" => None,
        _ => Some(d.filter.join("\u{1}")),
    };
    let expr = format!(
        "({}, {}, {}, {}, {}, {}, {})",
        cn(d.mask),
        cstr_opt(&filter),
        cstr_opt(&d.hostname),
        cstr_opt(&d.modifier_option),
        cstr_opt(&d.tag),
        cnat_opt(d.opt_domains.as_ref().map(|v| v.len())),
        cnat_opt(d.opt_not_domains.as_ref().map(|v| v.len()))
    );
    (expr, json!({"mask": d.mask, "filter": filter, "hostname": d.hostname, "modifier": d.modifier_option, "tag": d.tag,
                  "n_domains": d.opt_domains.as_ref().map(|v| v.len()), "n_not_domains": d.opt_not_domains.as_ref().map(|v| v.len())}))
}
fn cos_view(c: &CosmeticFilter) -> (String, Value) {
    let sel = match c.selector.as_slice() {
        [CosmeticFilterOperator::CssSelector(s)] => s.clone(),
        other => format!("\u{1}unexpected selector {:?}", other),
    };
    let act: Option<(u8, String)> = match &c.action {
        None => None,
        Some(CosmeticFilterAction::Remove) => Some((0, String::new())),
        Some(CosmeticFilterAction::Style(s)) => Some((1, s.clone())),
        Some(CosmeticFilterAction::RemoveAttr(s)) => Some((2, s.clone())),
        Some(CosmeticFilterAction::RemoveClass(s)) => Some((3, s.clone())),
    };
    let n = |o: &Option<Vec<u64>>| o.as_ref().map(|v| v.len()).unwrap_or(0);
    let unhide = c.mask.contains(CosmeticFilterMask::UNHIDE);
    let script = c.mask.contains(CosmeticFilterMask::SCRIPT_INJECT);
    let expr = format!(
        "({}, {}, {}, {}, {}, {}, {}, {})",
        cbool(unhide),
        cbool(script),
        hxs(&sel),
        copt(&act, |(k, s)| format!("({}, {})", cn(*k), hxs(s))),
        cnat(n(&c.entities)),
        cnat(n(&c.not_entities)),
        cnat(n(&c.hostnames)),
        cnat(n(&c.not_hostnames))
    );
    (expr, json!({"unhide": unhide, "script": script, "selector": sel, "action": act, "entities": n(&c.entities),
                  "not_entities": n(&c.not_entities), "hostnames": n(&c.hostnames), "not_hostnames": n(&c.not_hostnames)}))
}
fn err_name(e: &FilterParseError) -> String {
    match e {
        FilterParseError::Network(e) => {
            let s = format!("{:?}", e);
            s.split('(').next().unwrap().to_string()
        }
        FilterParseError::Cosmetic(e) => format!("{:?}", e),
        FilterParseError::Unsupported => "Unsupported".into(),
        FilterParseError::Empty => "Empty".into(),
    }
}
fn md_view(m: &FilterListMetadata) -> (String, Value) {
    let e = match &m.expires {
        None => "None".to_string(),
        Some(ExpiresInterval::Hours(h)) => format!("(Some (true, {}))", cn(h)),
        Some(ExpiresInterval::Days(d)) => format!("(Some (false, {}))", cn(d)),
    };
    (
        format!("({}, {}, {}, {})", cstr_opt(&m.homepage), cstr_opt(&m.title), e, cstr_opt(&m.redirect)),
        json!({"homepage": m.homepage, "title": m.title, "expires": format!("{:?}", m.expires), "redirect": m.redirect}),
    )
}

/// Tables for the two oracles of the model (str::to_lowercase on non-ASCII text, idna): every
/// substring of `line` that can reach them (delimited by the bytes the parsers cut at).
fn oracle_tables(line: &str) -> (String, String) {
    if line.is_ascii() {
        return ("(lower_of [])".into(), "(idna_of [])".into());
    }
    let mut starts = vec![0usize];
    let mut ends = vec![line.len()];
    for (i, c) in line.char_indices() {
        if c.is_whitespace() {
            ends.push(i);
            starts.push(i + c.len_utf8());
        } else if c.is_ascii() {
            if b"|.,~@#".contains(&(c as u8)) {
                starts.push(i + 1);
            }
            if b"/^*$|,#.".contains(&(c as u8)) {
                ends.push(i);
            }
        }
    }
    let mut lower: BTreeMap<String, String> = BTreeMap::new();
    let mut idn: BTreeMap<String, Option<String>> = BTreeMap::new();
    let add_idna = |k: &str, idn: &mut BTreeMap<String, Option<String>>| {
        if !k.is_ascii() && idn.len() < 600 {
            idn.entry(k.to_string()).or_insert_with(|| idna::domain_to_ascii(k).ok());
        }
    };
    for &a in &starts {
        for &e in &ends {
            if a < e {
                let c = &line[a..e];
                if c.is_ascii() || lower.len() >= 600 {
                    continue;
                }
                let l = c.to_lowercase();
                lower.insert(c.to_string(), l.clone());
                add_idna(c, &mut idn);
                let mut t: &str = &l;
                add_idna(t, &mut idn);
                while let Some(x) = t.strip_prefix("www.") {
                    t = x;
                    add_idna(t, &mut idn);
                }
            }
        }
    }
    let lt: Vec<String> = lower.iter().map(|(k, v)| format!("({}, {})", hxs(k), hxs(v))).collect();
    let it: Vec<String> = idn.iter().map(|(k, v)| format!("({}, {})", hxs(k), copt(v, |s| hxs(s)))).collect();
    (format!("(lower_of [{}])", lt.join("; ")), format!("(idna_of [{}])", it.join("; ")))
}

// ------------------------------------------------------------------ the implementation, guarded
fn opts(format: FilterFormat, rule_types: RuleTypes) -> ParseOptions {
    ParseOptions { format, rule_types, ..Default::default() }
}
const FORMATS: [FilterFormat; 2] = [FilterFormat::Standard, FilterFormat::Hosts];
const RTS: [RuleTypes; 3] = [RuleTypes::All, RuleTypes::NetworkOnly, RuleTypes::CosmeticOnly];

/// Oracle (a): every parser entry point on one text. Returns the panic message, if any.
fn panics_on(s: &str) -> Option<String> {
    let t = s.to_string();
    let r = catch(move || {
        for f in FORMATS {
            for rt in RTS {
                for dbg in [false, true] {
                    let _ = parse_filter(&t, dbg, opts(f, rt));
                }
                let mut fs = FilterSet::new(true);
                let _ = fs.add_filter_list(&t, opts(f, rt));
                let _ = fs.add_filter(&t, opts(f, rt));
            }
        }
        let _ = read_list_metadata(&t);
        let _ = NetworkFilter::parse(&t, true, Default::default());
        let _ = NetworkFilter::parse_hosts_style(&t, true);
        let _ = CosmeticFilter::parse(&t, true, Default::default());
        let _ = adblock::lists::verif::detect_filter_type(&t);
        let _ = adblock::resources::verif::parse_scriptlet_args(&t);
        for sep in [',', '"', '\'', '`'] {
            let _ = adblock::resources::verif::index_next_unescaped_separator(&t, sep);
            let _ = adblock::resources::verif::normalize_arg(&t, sep);
        }
    });
    r.err()
}

fn cosmetic_empty(e: &Engine, host: &str) -> bool {
    let r = e.url_cosmetic_resources(&format!("https://{}/page", host));
    let ex = HashSet::new();
    r.hide_selectors.is_empty()
        && r.procedural_actions.is_empty()
        && r.exceptions.is_empty()
        && r.injected_script.is_empty()
        && e.hidden_class_id_selectors(["ad", "ad-banner", "x", "a"], ["ad", "x"], &ex).is_empty()
}
fn cosmetic_sig(e: &Engine, host: &str) -> String {
    let r = e.url_cosmetic_resources(&format!("https://{}/page", host));
    let mut a: Vec<_> = r.hide_selectors.iter().cloned().collect();
    a.sort();
    let mut b: Vec<_> = r.procedural_actions.iter().cloned().collect();
    b.sort();
    let mut c: Vec<_> = r.exceptions.iter().cloned().collect();
    c.sort();
    let mut d = e.hidden_class_id_selectors(["ad", "ad-banner", "x", "a"], ["ad", "x"], &r.exceptions);
    d.sort();
    format!("{:?}|{:?}|{:?}|{}|{}|{:?}", a, b, c, r.injected_script, r.generichide, d)
}
fn network_sig(e: &Engine, url: &str, src: &str, ty: &str) -> String {
    match Request::new(url, src, ty) {
        Ok(req) => {
            let r = e.check_network_request(&req);
            format!("{}|{}|{:?}|{:?}|{:?}|{:?}|{:?}", r.matched, r.important, r.redirect, r.rewritten_url, r.exception.is_some(), r.filter.is_some(), e.get_csp_directives(&req))
        }
        Err(_) => "bad-request".into(),
    }
}
fn network_silent(e: &Engine, url: &str, src: &str, ty: &str) -> bool {
    match Request::new(url, src, ty) {
        Ok(req) => {
            let r = e.check_network_request(&req);
            !r.matched && !r.important && r.redirect.is_none() && r.rewritten_url.is_none() && r.exception.is_none() && r.filter.is_none() && e.get_csp_directives(&req).is_none()
        }
        Err(_) => true,
    }
}

/// Oracle (c): a hosts entry behaves exactly like `||host^` (host lower-cased, leading "www."
/// removed, punycoded). Returns a description of the difference, if any.
fn hosts_vs_rule(line: &str) -> Result<Option<String>, String> {
    let l = line.to_string();
    catch(move || {
        let Ok(ParsedFilter::Network(f)) = parse_filter(&l, true, opts(FilterFormat::Hosts, RuleTypes::All)) else { return None };
        // independent reading of the hosts line
        let t = l.trim();
        let t = t.split('#').next().unwrap_or("").trim();
        let host = t.split_whitespace().last().unwrap_or("");
        let lower = host.to_lowercase();
        let mut h: &str = &lower;
        while let Some(x) = h.strip_prefix("www.") {
            h = x;
        }
        let ascii = if h.is_ascii() { h.to_string() } else { idna::domain_to_ascii(h).unwrap_or_else(|_| "\u{1}".into()) };
        let rule = format!("||{}^", ascii);
        let g = match NetworkFilter::parse(&rule, true, Default::default()) {
            Ok(g) => g,
            Err(e) => return Some(format!("hosts line accepted but `{}` is rejected: {:?}", rule, e)),
        };
        let (mut a, mut b) = (dump_filter(&f), dump_filter(&g));
        a.addr = 0;
        b.addr = 0;
        if a != b {
            return Some(format!("hosts line parses to {:?}, `{}` to {:?}", a, rule, b));
        }
        let e1 = Engine::from_rules_parametrised([l.as_str()], opts(FilterFormat::Hosts, RuleTypes::All), false, true);
        let e2 = Engine::from_rules_parametrised([rule.as_str()], Default::default(), false, true);
        for (u, ty) in [
            (format!("https://{}/x", ascii), "script"),
            (format!("https://sub.{}/x.js", ascii), "image"),
            (format!("https://{}/", ascii), "document"),
            (format!("https://x{}/x", ascii), "script"),
            (format!("https://{}.evil.org/x", ascii), "script"),
            ("https://other.example/x".to_string(), "script"),
        ] {
            let (s1, s2) = (network_sig(&e1, &u, "https://src.example/", ty), network_sig(&e2, &u, "https://src.example/", ty));
            if s1 != s2 {
                return Some(format!("request {} ({}): hosts engine {} vs rule engine {}", u, ty, s1, s2));
            }
        }
        // the property's own wording: the entry behaves like `||host^` with the host AS WRITTEN in the
        // entry (no normalisation done by this oracle) whenever the standard parser accepts that rule
        if host.is_ascii() && !host.is_empty() {
            let rule_raw = format!("||{}^", host);
            if let Ok(g2) = NetworkFilter::parse(&rule_raw, true, Default::default()) {
                let c = dump_filter(&g2);
                if (a.mask, &a.filter, &a.hostname) != (c.mask, &c.filter, &c.hostname) {
                    return Some(format!("hosts line parses to {:?}, the rule `{}` written with the same host to {:?}", a, rule_raw, c));
                }
                let e3 = Engine::from_rules_parametrised([rule_raw.as_str()], Default::default(), false, true);
                for u in [format!("https://{}/x", ascii), format!("https://www.{}/x", ascii), format!("https://www.www.{}/x", ascii), format!("https://{}/x", lower)] {
                    let (s1, s3) = (network_sig(&e1, &u, "https://src.example/", "script"), network_sig(&e3, &u, "https://src.example/", "script"));
                    if s1 != s3 {
                        return Some(format!("request {}: hosts engine {} vs engine of `{}` {}", u, s1, rule_raw, s3));
                    }
                }
            }
        }
        None
    })
}

/// Oracle (b): engine(list with rejected lines inserted) == engine(list).
fn junk_independent(rules: &[String], with_junk: &[String], format: FilterFormat, urls: &[(String, String, &'static str)]) -> Result<Option<String>, String> {
    let (a, b) = (rules.to_vec(), with_junk.to_vec());
    let urls = urls.to_vec();
    catch(move || {
        for optimize in [true, false] {
            let e1 = Engine::from_rules_parametrised(a.iter(), opts(format, RuleTypes::All), false, optimize);
            let e2 = Engine::from_rules_parametrised(b.iter(), opts(format, RuleTypes::All), false, optimize);
            match (e1.serialize_raw(), e2.serialize_raw()) {
                (Ok(x), Ok(y)) => {
                    if x != y {
                        return Some(format!("serialized engines differ (optimize={})", optimize));
                    }
                }
                (x, y) => {
                    if x.is_ok() != y.is_ok() {
                        return Some("one engine serializes, the other does not".into());
                    }
                }
            }
            for (u, s, t) in &urls {
                let (s1, s2) = (network_sig(&e1, u, s, t), network_sig(&e2, u, s, t));
                if s1 != s2 {
                    return Some(format!("request {} from {} ({}): {} vs {}", u, s, t, s1, s2));
                }
            }
            for h in QUERY_HOSTS {
                let (s1, s2) = (cosmetic_sig(&e1, h), cosmetic_sig(&e2, h));
                if s1 != s2 {
                    return Some(format!("cosmetic resources for {}: {} vs {}", h, s1, s2));
                }
            }
        }
        // the same through one text and FilterSet::add_filter_list
        let (mut f1, mut f2) = (FilterSet::new(true), FilterSet::new(true));
        f1.add_filter_list(&a.join("\n"), opts(format, RuleTypes::All));
        f2.add_filter_list(&b.join("\n"), opts(format, RuleTypes::All));
        let (e1, e2) = (Engine::from_filter_set(f1, false), Engine::from_filter_set(f2, false));
        if e1.serialize_raw().ok() != e2.serialize_raw().ok() {
            return Some("serialized engines differ (add_filter_list, debug)".into());
        }
        None
    })
}

/// Oracle (f): several sources with DIFFERENT options fed to one FilterSet.  A line that one
/// source's options reject (a cosmetic line under NetworkOnly, a standard rule in a hosts file, a
/// network rule under CosmeticOnly) must not influence what another source, under whose options the
/// same text is a valid rule, contributes: the engine equals the one built from the same sources
/// with each source's rejected lines deleted.
const SOURCE_PLANS: &[&[(bool, u8)]] = &[
    &[(false, 1), (false, 0)],          // NetworkOnly, then everything
    &[(false, 2), (false, 0)],          // CosmeticOnly, then everything
    &[(true, 0), (false, 0)],           // read as a hosts file, then as a standard list
    &[(false, 1), (false, 2)],          // NetworkOnly, then CosmeticOnly
    &[(true, 0), (false, 2), (false, 1)],
];
fn plan_opts(hosts: bool, rt: u8) -> ParseOptions {
    opts(if hosts { FilterFormat::Hosts } else { FilterFormat::Standard }, match rt { 1 => RuleTypes::NetworkOnly, 2 => RuleTypes::CosmeticOnly, _ => RuleTypes::All })
}
fn multi_source_independent(lines: &[String], plan: usize) -> Result<Option<String>, String> {
    let lines = lines.to_vec();
    catch(move || {
        let plan = SOURCE_PLANS[plan % SOURCE_PLANS.len()];
        let (mut f1, mut f2) = (FilterSet::new(true), FilterSet::new(true));
        let mut deleted = 0usize;
        for (hosts, rt) in plan.iter() {
            let o = plan_opts(*hosts, *rt);
            f1.add_filters(&lines, o);
            let kept: Vec<String> = lines.iter().filter(|l| parse_filter(l, true, o).is_ok()).cloned().collect();
            deleted += lines.len() - kept.len();
            f2.add_filters(&kept, o);
        }
        for optimize in [false, true] {
            let (e1, e2) = (Engine::from_filter_set(f1.clone(), optimize), Engine::from_filter_set(f2.clone(), optimize));
            if e1.serialize_raw().ok() != e2.serialize_raw().ok() {
                return Some(format!("one FilterSet fed the same {} lines under {} option sets in turn: the engine differs from the one fed each source with its {} rejected line(s) deleted (optimize={})", lines.len(), plan.len(), deleted, optimize));
            }
        }
        None
    })
}

/// Oracle (d): NetworkOnly / CosmeticOnly / Hosts load no rule of the other kind.
fn rule_types_respected(rules: &[String], urls: &[(String, String, &'static str)]) -> Result<Option<String>, String> {
    let a = rules.to_vec();
    let urls = urls.to_vec();
    catch(move || {
        let (_, n, c) = parse_filters_with_metadata(a.iter(), true, opts(FilterFormat::Standard, RuleTypes::NetworkOnly));
        if !c.is_empty() {
            return Some(format!("NetworkOnly produced {} cosmetic rule(s)", c.len()));
        }
        let (_, n2, c2) = parse_filters_with_metadata(a.iter(), true, opts(FilterFormat::Standard, RuleTypes::CosmeticOnly));
        if !n2.is_empty() {
            return Some(format!("CosmeticOnly produced {} network rule(s)", n2.len()));
        }
        let (_, n3, c3) = parse_filters_with_metadata(a.iter(), true, opts(FilterFormat::Standard, RuleTypes::All));
        if n3.len() != n.len() || c3.len() != c2.len() {
            return Some(format!("All loads {}+{} rules, NetworkOnly {} and CosmeticOnly {}", n3.len(), c3.len(), n.len(), c2.len()));
        }
        for rt in RTS {
            let (_, _, ch) = parse_filters_with_metadata(a.iter(), true, opts(FilterFormat::Hosts, rt));
            if !ch.is_empty() {
                return Some("Hosts format produced a cosmetic rule".into());
            }
        }
        let (_, nh, _) = parse_filters_with_metadata(a.iter(), true, opts(FilterFormat::Hosts, RuleTypes::CosmeticOnly));
        if !nh.is_empty() {
            return Some("Hosts format with CosmeticOnly produced a network rule".into());
        }
        // the single-rule entry points (lists::parse_filter, FilterSet::add_filter) obey the same options
        for f in FORMATS {
            for rt in RTS {
                let o = opts(f, rt);
                let mut fs = FilterSet::new(true);
                for l in a.iter() {
                    match parse_filter(l, true, o) {
                        Ok(ParsedFilter::Network(_)) if matches!(rt, RuleTypes::CosmeticOnly) =>
                            return Some(format!("parse_filter({:?}, {}, CosmeticOnly) returns a network rule", l, if matches!(f, FilterFormat::Hosts) { "Hosts" } else { "Standard" })),
                        Ok(ParsedFilter::Cosmetic(_)) if matches!(rt, RuleTypes::NetworkOnly) || matches!(f, FilterFormat::Hosts) =>
                            return Some(format!("parse_filter({:?}) returns a cosmetic rule although the options load none", l)),
                        _ => {}
                    }
                    let _ = fs.add_filter(l, o);
                }
                // one rule at a time or the whole list at once: the same engine
                let e1 = Engine::from_filter_set(fs, false);
                let mut fs2 = FilterSet::new(true);
                fs2.add_filters(&a, o);
                let e2 = Engine::from_filter_set(fs2, false);
                if e1.serialize_raw().ok() != e2.serialize_raw().ok() {
                    return Some(format!("FilterSet::add_filter line by line and FilterSet::add_filters on the whole list build different engines ({}, rule types {})",
                        if matches!(f, FilterFormat::Hosts) { "Hosts" } else { "Standard" }, match rt { RuleTypes::All => "All", RuleTypes::NetworkOnly => "NetworkOnly", RuleTypes::CosmeticOnly => "CosmeticOnly" }));
                }
            }
        }
        let en = Engine::from_rules_parametrised(a.iter(), opts(FilterFormat::Standard, RuleTypes::NetworkOnly), false, true);
        for h in QUERY_HOSTS {
            if !cosmetic_empty(&en, h) {
                return Some(format!("NetworkOnly engine returns cosmetic resources for {}", h));
            }
        }
        let ec = Engine::from_rules_parametrised(a.iter(), opts(FilterFormat::Standard, RuleTypes::CosmeticOnly), false, true);
        for (u, s, t) in &urls {
            if !network_silent(&ec, u, s, t) {
                return Some(format!("CosmeticOnly engine answers the network request {} ({})", u, t));
            }
        }
        let eh = Engine::from_rules_parametrised(a.iter(), opts(FilterFormat::Hosts, RuleTypes::CosmeticOnly), false, true);
        for (u, s, t) in &urls {
            if !network_silent(&eh, u, s, t) {
                return Some(format!("Hosts+CosmeticOnly engine answers the network request {} ({})", u, t));
            }
        }
        None
    })
}

/// Element-hiding syntax, read off the text: the line is not a comment / header, does not start with
/// a network anchor, and its FIRST '#' opens one of the documented cosmetic separators.  Such a line
/// is a cosmetic rule (possibly an unsupported or malformed one) and never a network rule.
fn cosmetic_by_text(line: &str) -> bool {
    let t = line.trim();
    if t.len() <= 1 || t.starts_with('!') || t.starts_with("[Adblock") || t.starts_with('|') || t.starts_with("@@|") {
        return false;
    }
    if t.starts_with('#') && t[1..].starts_with(char::is_whitespace) {
        return false;
    }
    let Some(i) = t.find('#') else { return false };
    ["##", "#@#", "#?#", "#@?#", "#$#", "#@$#", "#%#", "#@%#", "#$?#", "#@$?#"].iter().any(|sep| t[i..].starts_with(sep))
}

/// Oracle (e): a line in element-hiding syntax yields no network rule under any rule-type option.
fn cosmetic_line_not_network(line: &str) -> Result<Option<String>, String> {
    let l = line.to_string();
    catch(move || {
        if !cosmetic_by_text(&l) || l.contains('\n') || l.contains('\r') {
            return None;
        }
        for rt in [RuleTypes::All, RuleTypes::NetworkOnly] {
            let (_, n, _) = parse_filters_with_metadata([l.clone()].iter(), true, opts(FilterFormat::Standard, rt));
            if !n.is_empty() {
                return Some(format!("the element-hiding line {:?} is loaded as a network rule under {}", l, rt_name(rt)));
            }
        }
        if let Ok(adblock::lists::ParsedFilter::Network(_)) = adblock::lists::parse_filter(&l, true, opts(FilterFormat::Standard, RuleTypes::All)) {
            return Some(format!("parse_filter reads the element-hiding line {:?} as a network rule", l));
        }
        None
    })
}

fn is_rejected(line: &str, format: FilterFormat) -> bool {
    let l = line.to_string();
    matches!(catch(move || parse_filter(&l, false, opts(format, RuleTypes::All)).is_err()), Ok(true))
}
fn no_newline(s: &str) -> bool {
    !s.contains('\n') && !s.contains('\r')
}

fn urls_for(r: &mut Rng, rules: &[String]) -> Vec<(String, String, &'static str)> {
    let mut v = vec![];
    for l in rules.iter().take(8) {
        v.push((gen::url_for(r, l), gen::source_url(r), gen::request_type(r)));
    }
    for _ in 0..4 {
        v.push((gen::url(r), gen::source_url(r), gen::request_type(r)));
    }
    v
}

// ------------------------------------------------------------------ replay
fn strs(v: &Value) -> Vec<String> {
    v.as_array().map(|a| a.iter().map(|x| x.as_str().unwrap_or("").to_string()).collect()).unwrap_or_default()
}
fn replay(rp: &Value) -> Option<String> {
    let kind = rp["kind"].as_str().unwrap_or("");
    let mut r = Rng::new(rp["seed"].as_u64().unwrap_or(1));
    match kind {
        "panic" => panics_on(rp["text"].as_str().unwrap_or("")).map(|m| format!("panic: {}", m)),
        "hosts" => match hosts_vs_rule(rp["line"].as_str().unwrap_or("")) {
            Ok(x) => x,
            Err(m) => Some(format!("panic: {}", m)),
        },
        "cosmetic_line" => match cosmetic_line_not_network(rp["line"].as_str().unwrap_or("")) {
            Ok(x) => x,
            Err(m) => Some(format!("panic: {}", m)),
        },
        "junk" => {
            let rules = strs(&rp["rules"]);
            let with = strs(&rp["with_junk"]);
            let f = if rp["format"] == "hosts" { FilterFormat::Hosts } else { FilterFormat::Standard };
            let urls = urls_for(&mut r, &rules);
            match junk_independent(&rules, &with, f, &urls) {
                Ok(x) => x,
                Err(m) => Some(format!("panic: {}", m)),
            }
        }
        "multi_source" => match multi_source_independent(&strs(&rp["rules"]), rp["plan"].as_u64().unwrap_or(0) as usize) {
            Ok(x) => x,
            Err(m) => Some(format!("panic: {}", m)),
        },
        "rule_types" => {
            let rules = strs(&rp["rules"]);
            let urls = urls_for(&mut r, &rules);
            match rule_types_respected(&rules, &urls) {
                Ok(x) => x,
                Err(m) => Some(format!("panic: {}", m)),
            }
        }
        _ => {
            // a correspondence case: re-run the guarded entry points on every string of the record
            let mut out = None;
            fn walk(v: &Value, out: &mut Option<String>) {
                match v {
                    Value::String(s) => {
                        if out.is_none() {
                            *out = panics_on(s).map(|m| format!("panic on {:?}: {}", s, m));
                        }
                    }
                    Value::Array(a) => a.iter().for_each(|x| walk(x, out)),
                    Value::Object(o) => o.values().for_each(|x| walk(x, out)),
                    _ => {}
                }
            }
            walk(rp, &mut out);
            out
        }
    }
}

// ------------------------------------------------------------------ correspondence cases
fn parse_case(cs: &mut Cases, line: &str, f: FilterFormat, rt: RuleTypes, tag: &str) {
    let l = line.to_string();
    let Ok(res) = catch(move || parse_filter(&l, true, opts(f, rt))) else { return };
    let (lw, idn) = oracle_tables(line);
    let (want, jv, nontrivial) = match &res {
        Ok(ParsedFilter::Network(n)) => {
            let (e, j) = net_view(n);
            (format!("(inl (inl {}))", e), json!({"network": j}), true)
        }
        Ok(ParsedFilter::Cosmetic(c)) => {
            let (e, j) = cos_view(c);
            (format!("(inl (inr {}))", e), json!({"cosmetic": j}), true)
        }
        Err(e) => {
            let n = err_name(e);
            let nt = n != "Empty" && n != "Unsupported";
            (format!("(inr \"{}\")", n), json!({"error": n}), nt)
        }
    };
    cs.stat(&format!("{}:{}", tag, match &res { Ok(ParsedFilter::Network(_)) => "network".to_string(), Ok(ParsedFilter::Cosmetic(_)) => "cosmetic".to_string(), Err(e) => format!("err:{}", err_name(e)) }));
    let expr = format!("pr_check pf_matches (parse_filter {} {} {} {} {}) {}", lw, idn, hxs(line), fmt_name(f), rt_name(rt), want);
    cs.case(expr, json!({"kind": "parse_filter", "line": line, "format": fmt_name(f), "rule_types": rt_name(rt), "impl": jv}), nontrivial);
}

fn main() {
    let a = args();
    if let Some(p) = &a.replay {
        let v: Value = serde_json::from_str(&std::fs::read_to_string(p).unwrap()).unwrap();
        match replay(&v["replay"]) {
            Some(what) => {
                println!("still failing: {}", what);
                println!("VIOLATION property=C11 replay={}", p.display());
                std::process::exit(1);
            }
            None => {
                println!("replay passes: no panic, no difference");
                return;
            }
        }
    }
    let mut r = Rng::new(a.seed);
    let mut cs = Cases::new(&a.out, "Generated C11_Model");
    let mut sm = Summary::default();
    sm.rule = "structured stream: network rules of the shared grammar (all option atoms, irregular option soup), cosmetic rules (host lists with negation/entities/regex/non-ASCII, all ## markers, selectors, :style/:remove actions, +js(args)), hosts lines, metadata/comment lines, real lines sampled from /repo/data lists; malformed stream: gen::junk, every prefix of 42 interesting lines, multi-byte characters (2/3/4-byte, Unicode white space, ZWJ) inserted at every offset. Non-trivial = the line yields a rule or a parser-specific error (not Empty/Unsupported); for the string primitives: the text contains a multi-byte character; for metadata: a field is set or the text exceeds the 1024-byte cut-off".into();
    let sc = a.scale;
    let real = real_lines(&mut r, 6 * sc);
    cs.stat(&format!("real_lines_available:{}", !real.is_empty()));

    // ---- line streams
    let mut lines: Vec<(String, &'static str)> = vec![];
    for _ in 0..420 * sc {
        lines.push((structured_line(&mut r, &real), "structured"));
    }
    for l in malformed_lines(&mut r, 150 * sc, 14 * sc) {
        lines.push((l, "malformed"));
    }
    // every hand-picked hosts line once (leading dot, trailing dot, bare TLD, blanks of every kind,
    // letters whose lower case is not ASCII, ...), not only when the random stream happens to pick it
    for l in HOSTS_LINES {
        lines.push((l.to_string(), "structured"));
    }
    // and hosts entries with a leading dot over the shared host universe: the entry names the
    // sub-domains only (`||.host^`), the bare domain must stay unblocked
    for h in gen::HOSTS.iter().take(6) {
        lines.push((format!("{}.{}", r.pick(&["0.0.0.0 ", "127.0.0.1 ", ""]), h), "structured"));
    }
    // list-metadata lines with a multi-byte character at every position of their value (the value
    // parsers slice by byte offsets: amounts, units, separators)
    for base in META_LINES.iter().filter(|l| l.starts_with("! ") && l.contains(": ")) {
        let start = base.find(": ").map(|i| i + 2).unwrap_or(0);
        for (i, _) in base.char_indices().filter(|(i, _)| *i >= start).chain(std::iter::once((base.len(), ' '))) {
            for mb in ["é", "４", "\u{a0}"] {
                lines.push((format!("{}{}{}", &base[..i], mb, &base[i..]), "malformed"));
            }
        }
    }
    if sc > 1 {
        // thorough: every prefix / every insertion of every interesting line
        for base in INTERESTING {
            for (i, _) in base.char_indices() {
                lines.push((base[..i].to_string(), "malformed"));
                for mb in MB {
                    lines.push((format!("{}{}{}", &base[..i], mb, &base[i..]), "malformed"));
                }
            }
        }
    }

    for (line, stream) in &lines {
        // oracle (a)
        sm.oracle_evaluations += 1;
        if let Some(m) = panics_on(line) {
            sm.failure(None, &format!("panic: {}", m), json!({"kind": "panic", "text": line}));
            continue;
        }
        // oracle (c)
        sm.oracle_evaluations += 1;
        match hosts_vs_rule(line) {
            Ok(Some(d)) => sm.failure(None, &d, json!({"kind": "hosts", "line": line})),
            Err(m) => sm.failure(None, &format!("panic: {}", m), json!({"kind": "hosts", "line": line})),
            Ok(None) => {}
        }
        // oracle (e)
        sm.oracle_evaluations += 1;
        match cosmetic_line_not_network(line) {
            Ok(Some(d)) => sm.failure(None, &d, json!({"kind": "cosmetic_line", "line": line})),
            Err(m) => sm.failure(None, &format!("panic: {}", m), json!({"kind": "cosmetic_line", "line": line})),
            Ok(None) => {}
        }
        if cosmetic_by_text(line) { cs.stat("element_hiding_lines") }
        // detect_filter_type (on the trimmed line, as parse_filter calls it, and on the raw line)
        for t in [line.trim(), line.as_str()] {
            let ty = adblock::lists::verif::detect_filter_type(t);
            let k = match ty { "network" => 0, "cosmetic" => 1, _ => 2 };
            cs.case(
                format!("res_eqb N.eqb (detect_filter_type {}) (Ok {})", hxs(t), cn(k)),
                json!({"kind": "detect_filter_type", "line": t, "impl": ty}),
                t.contains('#') || t.contains('$') || t.starts_with('|') || t.starts_with('@') || !t.is_ascii(),
            );
            if t.len() == line.len() {
                break;
            }
        }
        // parse_filter
        parse_case(&mut cs, line, FilterFormat::Standard, RuleTypes::All, stream);
        parse_case(&mut cs, line, FilterFormat::Hosts, RuleTypes::All, "hosts");
        if r.chance(1, 6) {
            let rt = r.pick(&[RuleTypes::NetworkOnly, RuleTypes::CosmeticOnly]);
            let f = r.pick(&FORMATS);
            parse_case(&mut cs, line, f, rt, "ruletypes");
        }
    }

    // ---- std string primitives re-implemented by the model
    for i in 0..160 * sc {
        let s = if i % 2 == 0 { gen::junk(&mut r) } else { format!("{}{}{}", r.pick(MB), structured_line(&mut r, &real), r.pick(&[" ", "\u{2003}", "\r", "\u{a0}\t", ""])) };
        let nt = !s.is_ascii();
        let b: Vec<String> = (0..=s.len() + 1).map(|i| cbool(s.is_char_boundary(i)).to_string()).collect();
        cs.case(
            format!("valid_utf8 {} && list_eqb Bool.eqb (map (is_boundary {}) (seq 0 {})) [{}]", hxs(&s), hxs(&s), s.len() + 2, b.join("; ")),
            json!({"kind": "char_boundaries", "text": s}),
            nt,
        );
        let sw: Vec<String> = s.split_whitespace().map(|x| x.to_string()).collect();
        cs.case(
            format!("str_eqb (trim {}) {} && str_eqb (trim_start {}) {} && str_eqb (trim_end {}) {} && strs_eqb (split_whitespace {}) {}",
                hxs(&s), hxs(s.trim()), hxs(&s), hxs(s.trim_start()), hxs(&s), hxs(s.trim_end()), hxs(&s), cstrs(&sw)),
            json!({"kind": "trim_split_whitespace", "text": s}),
            nt,
        );
        // raw bytes: validity only
        let n = r.range(1, 6);
        let mut bytes: Vec<u8> = s.as_bytes().iter().take(6).cloned().collect();
        for _ in 0..n {
            let x = r.pick(&[0x80u8, 0xbf, 0xc0, 0xc2, 0xe0, 0xa0, 0x9f, 0xed, 0xf0, 0x90, 0x8f, 0xf4, 0xf5, 0xff, 0x41, 0xe2, 0x82, 0xac]);
            let p = r.below(bytes.len() + 1);
            bytes.insert(p, x);
        }
        cs.case(
            format!("Bool.eqb (valid_utf8 {}) {}", hx(&bytes), cbool(std::str::from_utf8(&bytes).is_ok())),
            json!({"kind": "from_utf8", "bytes": format!("{:02x?}", bytes)}),
            true,
        );
    }

    // ---- scriptlet arguments
    for _ in 0..260 * sc {
        let s = if r.chance(1, 6) { gen::junk(&mut r) } else { script_args(&mut r) };
        let st = s.clone();
        let Ok(got) = catch(move || adblock::resources::verif::parse_scriptlet_args(&st)) else { continue };
        cs.stat(if got.is_some() { "scriptlet_args:ok" } else { "scriptlet_args:malformed" });
        cs.case(
            format!("res_eqb (opt_eqb strs_eqb) (parse_scriptlet_args {}) (Ok {})", hxs(&s), copt(&got, |v| cstrs(v))),
            json!({"kind": "parse_scriptlet_args", "args": s, "impl": got}),
            s.contains('\\') || s.contains('\'') || s.contains('"') || s.contains('`') || s.contains(','),
        );
        let sep = r.pick(&[',', '"', '\'', '`']);
        let st = s.clone();
        let Ok((i, nt)) = catch(move || adblock::resources::verif::index_next_unescaped_separator(&st, sep)) else { continue };
        let norm = adblock::resources::verif::normalize_arg(&s, sep);
        cs.case(
            format!("res_eqb inus_eqb (index_next_unescaped_separator {} {}) (Ok ({}, {})) && str_eqb (normalize_arg {} {}) {}",
                hxs(&s), cn(sep as u32), cnat_opt(i), cbool(nt), hxs(&s), cn(sep as u32), hxs(&norm)),
            json!({"kind": "index_next_unescaped_separator", "s": s, "separator": sep.to_string(), "impl": [json!(i), json!(nt)], "normalize_arg": norm}),
            s.contains(sep),
        );
    }

    // ---- list texts: metadata and the list driver
    for i in 0..150 * sc {
        let n = r.range(0, 9);
        let mut ls: Vec<String> = vec![];
        for _ in 0..n {
            ls.push(if r.chance(3, 4) { (r.pick(META_LINES)).to_string() } else { structured_line(&mut r, &real) });
        }
        if i % 3 == 0 {
            // a long comment so that byte 1024 falls inside a multi-byte character, metadata after it
            let pad = r.range(990, 1030);
            let mut c = String::from("! ");
            while c.len() < pad {
                c.push_str(r.pick(MB));
                if r.chance(1, 5) {
                    c.push('x');
                }
            }
            let at = r.below(ls.len() + 1);
            ls.insert(at, c);
            ls.push((r.pick(META_LINES)).to_string());
        }
        let text = ls.join(r.pick(&["\n", "\n", "\r\n"])) + r.pick(&["", "\n", "\r", "\r\n"]);
        let t2 = text.clone();
        sm.oracle_evaluations += 1;
        let md = match catch(move || read_list_metadata(&t2)) {
            Ok(m) => m,
            Err(m) => {
                sm.failure(None, &format!("panic: {}", m), json!({"kind": "panic", "text": text}));
                continue;
            }
        };
        let (mv, mj) = md_view(&md);
        let nt = text.len() > 1024 || md.title.is_some() || md.homepage.is_some() || md.expires.is_some() || md.redirect.is_some();
        cs.stat(if text.len() > 1024 { "metadata:beyond_cutoff" } else { "metadata:short" });
        cs.case(
            format!("res_check (fun m => md_matches m {}) (read_list_metadata {})", mv, hxs(&text)),
            json!({"kind": "read_list_metadata", "text": text, "impl": mj}),
            nt,
        );
        let rl: Vec<String> = text.lines().map(|x| x.to_string()).collect();
        cs.case(format!("strs_eqb (lines {}) {}", hxs(&text), cstrs(&rl)), json!({"kind": "lines", "text": text}), text.contains('\r'));
    }
    for _ in 0..60 * sc {
        let n = r.range(1, 7);
        let mut ls: Vec<String> = vec![];
        for _ in 0..n {
            let l = match r.below(5) {
                0 => (r.pick(META_LINES)).to_string(),
                1 => gen::junk(&mut r),
                _ => structured_line(&mut r, &real),
            };
            if no_newline(&l) && l.is_ascii() {
                ls.push(l);
            }
        }
        let text = ls.join("\n");
        let f = if r.chance(1, 5) { FilterFormat::Hosts } else { FilterFormat::Standard };
        let rt = r.pick(&RTS);
        let t2 = text.clone();
        let Ok((md, nets, cosms)) = catch(move || parse_filters_with_metadata(t2.lines(), true, opts(f, rt))) else {
            sm.failure(None, "panic in parse_filters_with_metadata", json!({"kind": "panic", "text": text}));
            continue;
        };
        let (mv, mj) = md_view(&md);
        let nl: Vec<String> = nets.iter().map(|x| x.raw_line.as_ref().map(|b| (**b).clone()).unwrap_or_default()).collect();
        let cl: Vec<String> = cosms.iter().map(|x| x.raw_line.as_ref().map(|b| (**b).clone()).unwrap_or_default()).collect();
        cs.stat("list_driver");
        cs.case(
            format!("list_matches (add_filter_list (fun l => parse_filter (lower_of []) (idna_of []) l {} {}) (mkFs [] []) {}) {} {} {}",
                fmt_name(f), rt_name(rt), hxs(&text), mv, cstrs(&nl), cstrs(&cl)),
            json!({"kind": "list_driver", "text": text, "format": fmt_name(f), "rule_types": rt_name(rt), "impl": {"metadata": mj, "network": nl, "cosmetic": cl}}),
            !nl.is_empty() || !cl.is_empty(),
        );
    }

    // ---- oracles (b) and (d) on lists
    for it in 0..120 * sc {
        let hosts = r.chance(1, 5);
        let f = if hosts { FilterFormat::Hosts } else { FilterFormat::Standard };
        let n = r.range(1, 10);
        let mut rules: Vec<String> = vec![];
        for _ in 0..n {
            let l = if hosts { if r.chance(1, 2) { hosts_line(&mut r) } else { (r.pick(HOSTS_LINES)).to_string() } } else { structured_line(&mut r, &real) };
            if no_newline(&l) {
                rules.push(l);
            }
        }
        let mut with = rules.clone();
        let k = r.range(1, 5);
        let mut inserted = 0;
        for _ in 0..k * 4 {
            if inserted >= k {
                break;
            }
            let j = match r.below(4) {
                0 => (r.pick(META_LINES)).to_string(),
                1 => format!("{}$unknownoption", gen::pattern(&mut r)),
                _ => gen::junk(&mut r),
            };
            // only lines the per-line parser rejects, and that cannot change how the text splits
            if no_newline(&j) && is_rejected(&j, f) {
                let at = r.below(with.len() + 1);
                with.insert(at, j);
                inserted += 1;
            }
        }
        // every kind of metadata / comment line once in front of a whole list (and once in the middle)
        if it < 2 * META_LINES.len() {
            let j = META_LINES[it % META_LINES.len()].to_string();
            if no_newline(&j) && is_rejected(&j, f) {
                let at = if it < META_LINES.len() { 0 } else { with.len() / 2 };
                with.insert(at, j);
                inserted += 1;
                cs.stat("junk_lists:metadata_line_of_every_kind");
            }
        }
        let urls = urls_for(&mut r, &rules);
        sm.oracle_evaluations += 1;
        cs.stat(if inserted > 0 { "junk_lists:with_rejected_lines" } else { "junk_lists:none_inserted" });
        match junk_independent(&rules, &with, f, &urls) {
            Ok(None) => {}
            Ok(Some(d)) => sm.failure(None, &d, json!({"kind": "junk", "rules": rules, "with_junk": with, "format": if hosts { "hosts" } else { "standard" }, "seed": a.seed})),
            Err(m) => sm.failure(None, &format!("panic: {}", m), json!({"kind": "junk", "rules": rules, "with_junk": with, "format": if hosts { "hosts" } else { "standard" }, "seed": a.seed})),
        }
        sm.oracle_evaluations += 1;
        match rule_types_respected(&with, &urls) {
            Ok(None) => {}
            Ok(Some(d)) => sm.failure(None, &d, json!({"kind": "rule_types", "rules": with, "seed": a.seed})),
            Err(m) => sm.failure(None, &format!("panic: {}", m), json!({"kind": "rule_types", "rules": with, "seed": a.seed})),
        }
        // oracle (f): the same lines as several sources of one FilterSet, each under other options
        sm.oracle_evaluations += 1;
        cs.stat("multi_source_filter_sets");
        match multi_source_independent(&with, it) {
            Ok(None) => {}
            Ok(Some(d)) => sm.failure(None, &d, json!({"kind": "multi_source", "rules": with, "plan": it % SOURCE_PLANS.len()})),
            Err(m) => sm.failure(None, &format!("panic: {}", m), json!({"kind": "multi_source", "rules": with, "plan": it % SOURCE_PLANS.len()})),
        }
    }
    sm.extra.insert("streams".into(), json!({"lines": lines.len(), "real_lines_sampled": real.len()}));
    cs.finish();
    sm.write(&a.out, &cs);
}
