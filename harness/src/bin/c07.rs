//! C07 — tagged rules are active exactly when their tag is enabled.
//!
//! Correspondence (C07_Model.v / Net_Model.v): after a random history of use_tags / enable_tags /
//! disable_tags / serialize+deserialize on a real Engine, `tag_exists` for every tag of the universe
//! and the verdict are compared with `run_ops` of the model.  Oracle: plain set algebra in Rust
//! for the tag set, rule-by-rule scan under that set for verdicts and CSP, for all four rule
//! categories a tag can be combined with (blocking, exception, important, csp).
use adblock::filters::network::{NetworkFilter, NetworkFilterMaskHelper};
use adblock::request::Request;
use adblock::verif_hooks::{dump_filter, FilterDump};
use adblock::Engine;
use implrun::net::*;
use implrun::*;
use serde_json::{json, Value};
use std::collections::BTreeSet;
use std::collections::HashSet;

// rule tags and op tags in mixed case (tag names are case-sensitive and unordered), plus a tag no rule carries
const UNIVERSE: &[&str] = &["t1", "t2", "t3", "zz", "Zeta", "alpha", "Beta", "ALPHA"];
const RULE_TAGS: &[&str] = &["t1", "t2", "t3", "Zeta", "alpha", "Beta", "t1", "t2"];

#[derive(Clone, Debug)]
enum Op {
    Use(Vec<String>),
    Enable(Vec<String>),
    Disable(Vec<String>),
    Reload,
    /// a `deserialize` that is rejected (truncated / foreign bytes): nothing may change
    RejectedLoad(u8),
}
fn op_json(o: &Op) -> Value {
    match o {
        Op::Use(t) => json!({"use": t}),
        Op::Enable(t) => json!({"enable": t}),
        Op::Disable(t) => json!({"disable": t}),
        Op::Reload => json!("reload"),
        Op::RejectedLoad(k) => json!({"rejected_load": k}),
    }
}
fn op_from(v: &Value) -> Op {
    let strs = |x: &Value| x.as_array().unwrap().iter().map(|s| s.as_str().unwrap().to_string()).collect::<Vec<_>>();
    if let Some(x) = v.get("use") { Op::Use(strs(x)) } else if let Some(x) = v.get("enable") { Op::Enable(strs(x)) } else if let Some(x) = v.get("disable") { Op::Disable(strs(x)) } else if let Some(x) = v.get("rejected_load") { Op::RejectedLoad(x.as_u64().unwrap_or(0) as u8) } else { Op::Reload }
}
fn op_coq(o: &Op) -> String {
    match o {
        Op::Use(t) => format!("OpUse {}", cstrs(t)),
        Op::Enable(t) => format!("OpEnable {}", cstrs(t)),
        Op::Disable(t) => format!("OpDisable {}", cstrs(t)),
        Op::Reload => "OpReload".into(),
        Op::RejectedLoad(_) => unreachable!("a rejected load is not an operation of the model: it is left out of the history"),
    }
}
fn apply(e: &mut Engine, lines: &[String], o: &Op) {
    match o {
        Op::Use(t) => e.use_tags(&t.iter().map(|s| &**s).collect::<Vec<_>>()),
        Op::Enable(t) => e.enable_tags(&t.iter().map(|s| &**s).collect::<Vec<_>>()),
        Op::Disable(t) => e.disable_tags(&t.iter().map(|s| &**s).collect::<Vec<_>>()),
        Op::Reload => {
            // bytes of an independent engine built from the same rules, with its own tag state
            let mut other = Engine::from_rules_parametrised(lines.iter(), Default::default(), true, false);
            other.use_tags(&["zz", "t3"]);
            let bytes = other.serialize_raw().unwrap();
            e.deserialize(&bytes).unwrap();
        }
        Op::RejectedLoad(k) => {
            // bytes the loader must refuse: a valid buffer cut short, foreign bytes, nothing at all
            let mut other = Engine::from_rules_parametrised(lines.iter(), Default::default(), true, false);
            other.use_tags(&["zz", "t3"]);
            let good = other.serialize_raw().unwrap();
            let bytes: Vec<u8> = match k % 4 {
                0 => good[..good.len() / 2].to_vec(),
                1 => good[..5.min(good.len())].to_vec(),
                2 => vec![],
                _ => b"\x1f\x8b\x08 not an engine".to_vec(),
            };
            assert!(e.deserialize(&bytes).is_err(), "a truncated / foreign buffer was accepted");
        }
    }
}
fn set_apply(s: &mut BTreeSet<String>, o: &Op) {
    match o {
        Op::Use(t) => *s = t.iter().cloned().collect(),
        Op::Enable(t) => s.extend(t.iter().cloned()),
        Op::Disable(t) => {
            for x in t {
                s.remove(x);
            }
        }
        Op::Reload | Op::RejectedLoad(_) => {}
    }
}
fn gen_tags(r: &mut Rng) -> Vec<String> {
    let n = r.range(0, 4);
    (0..n).map(|_| r.pick(UNIVERSE).to_string()).collect()
}
fn gen_rules(r: &mut Rng) -> Vec<String> {
    let mut v = vec![];
    let n = r.range(2, 8);
    // a third of the lists are built around one shared pattern, so that rules of one category with
    // different tags are neighbours in one bucket (and candidates for fusion when optimized)
    let shared = if r.chance(1, 3) { Some(gen::pattern(r)) } else { None };
    for _ in 0..n {
        let pat = match &shared { Some(p) if r.chance(3, 4) => p.clone(), _ => gen::pattern(r) };
        let tag = r.pick(RULE_TAGS);
        v.push(match r.below(7) {
            0 => format!("{}$tag={}", pat, tag),
            1 => format!("@@{}$tag={}", pat, tag),
            2 => format!("{}$important,tag={}", pat, tag),
            3 => format!("{}$csp=script-src 'none',tag={}", pat, tag),
            4 => format!("@@{}$csp=script-src 'none',tag={}", pat, tag),
            5 => format!("{}$tag={},domain=a.com|b.com", pat, tag),
            _ => gen::rule(r, false),
        });
    }
    // on a shared pattern: two rules of ONE category (candidates for fusion: same mask, same bucket)
    // under two different tags, next to an untagged blocking rule on the same pattern
    if let Some(p) = &shared {
        if r.chance(1, 2) {
            let (t1, t2) = (r.pick(RULE_TAGS), r.pick(RULE_TAGS));
            let mk = |t: &str, k: usize| match k { 0 => format!("@@{}$tag={}", p, t), 1 => format!("{}$important,tag={}", p, t), 2 => format!("{}$tag={}", p, t), _ => format!("{}$csp=img-src *,tag={}", p, t) };
            let k = r.below(4);
            v.push(mk(t1, k));
            v.push(mk(t2, k));
            if r.chance(2, 3) { v.push(p.clone()); }
        }
    }
    // a rule of the list again with nothing changed but its tag
    if r.chance(1, 3) {
        let base = v[r.below(v.len())].clone();
        if let Some(i) = base.find("tag=") {
            let end = base[i..].find(',').map(|k| i + k).unwrap_or(base.len());
            let twin = format!("{}tag={}{}", &base[..i], r.pick(RULE_TAGS), &base[end..]);
            if r.chance(1, 2) { v.push(twin) } else { v.insert(0, twin) }
        }
    }
    v
}
fn csp_spec(rules: &[NetworkFilter], tags: &HashSet<String>, req: &Request) -> Option<BTreeSet<String>> {
    use adblock::request::RequestType;
    if req.request_type != RequestType::Document && req.request_type != RequestType::Subdocument {
        return None;
    }
    let live = live_rules(rules);
    let hits: Vec<&&NetworkFilter> = live.iter().filter(|f| f.is_csp() && adblock::verif_hooks::filter_tag(f).map(|t| tags.contains(t)).unwrap_or(true) && rule_matches(f, req)).collect();
    if hits.is_empty() || hits.iter().any(|f| f.is_exception() && f.modifier_option.is_none()) {
        return None;
    }
    let dis: BTreeSet<String> = hits.iter().filter(|f| f.is_exception()).filter_map(|f| f.modifier_option.clone()).collect();
    let en: BTreeSet<String> = hits.iter().filter(|f| !f.is_exception()).filter_map(|f| f.modifier_option.clone()).collect();
    let rem: BTreeSet<String> = en.difference(&dis).cloned().collect();
    if rem.is_empty() { None } else { Some(rem) }
}
fn check_state(e: &Engine, rules: &[NetworkFilter], set: &BTreeSet<String>, req: &Request) -> Option<String> {
    check_state_p(e, rules, set, req, false, false)
}
fn check_state_p(e: &Engine, rules: &[NetworkFilter], set: &BTreeSet<String>, req: &Request, mr: bool, fc: bool) -> Option<String> {
    for t in UNIVERSE {
        if e.tag_exists(t) != set.contains(*t) {
            return Some(format!("tag_exists({}) = {} but the set algebra says {}", t, e.tag_exists(t), set.contains(*t)));
        }
    }
    let hs: HashSet<String> = set.iter().cloned().collect();
    let (got, want) = (engine_verdict_p(e, req, mr, fc), spec_verdict_p(rules, &hs, req, mr, fc));
    if got != want {
        return Some(format!("verdict {:?} (matched_rule={}, force_check_exceptions={}) but rule-by-rule under tags {:?} gives {:?}", got, mr, fc, set, want));
    }
    let gc = e.get_csp_directives(req).map(|s| s.split(',').map(|x| x.to_string()).collect::<BTreeSet<String>>());
    let wc = csp_spec(rules, &hs, req);
    if gc != wc {
        return Some(format!("csp {:?} but rule-by-rule under tags {:?} gives {:?}", gc, set, wc));
    }
    None
}

/// A fused group whose RegexSet cannot be built is C05's known class (F27 was fixed; kept as a guard
/// so that an uncompilable /regex/ rule does not make this check speak about optimisation).
fn has_bad_regex(lines: &[String]) -> bool {
    lines.iter().any(|l| {
        let p = l.trim_start_matches("@@");
        let p = p.split('$').next().unwrap_or("");
        p.len() > 2 && p.starts_with('/') && p.ends_with('/') && regex::bytes::Regex::new(&p[1..p.len() - 1]).is_err()
    })
}

fn main() {
    let a = args();
    if let Some(p) = &a.replay {
        let v: Value = serde_json::from_str(&std::fs::read_to_string(p).unwrap()).unwrap();
        let rp = &v["replay"];
        let lines: Vec<String> = rp["rules"].as_array().unwrap().iter().map(|x| x.as_str().unwrap().to_string()).collect();
        let ops: Vec<Op> = rp["ops"].as_array().unwrap().iter().map(op_from).collect();
        let rules: Vec<NetworkFilter> = lines.iter().filter_map(|l| parse_net(l)).collect();
        let req = Request::new(rp["url"].as_str().unwrap(), rp["source"].as_str().unwrap(), rp["type"].as_str().unwrap()).unwrap();
        let mut e = Engine::from_rules_parametrised(lines.iter(), Default::default(), true, false);
        let mut eo = Engine::from_rules_parametrised(lines.iter(), Default::default(), true, true);
        let mut set = BTreeSet::new();
        for o in ops.iter() {
            apply(&mut e, &lines, o);
            apply(&mut eo, &lines, o);
            set_apply(&mut set, o);
        }
        let (mr, fc) = (rp["matched_rule"].as_bool().unwrap_or(false), rp["force_check_exceptions"].as_bool().unwrap_or(false));
        let mut res = check_state_p(&e, &rules, &set, &req, mr, fc).or_else(|| if has_bad_regex(&lines) { None } else { check_state_p(&eo, &rules, &set, &req, mr, fc).map(|m| format!("optimized engine: {}", m)) });
        if res.is_none() && rp["live"].as_bool().unwrap_or(false) {
            // live Blocker: every split of the list into a Blocker::new prefix and an add_filter rest
            for cut in 0..=rules.len() {
                let mut b = adblock::blocker::Blocker::new(rules[..cut].to_vec(), &adblock::blocker::BlockerOptions { enable_optimizations: false });
                for f in rules[cut..].iter() { let _ = b.add_filter(f.clone()); }
                for o in ops.iter() {
                    match o {
                        Op::Use(t) => b.use_tags(&t.iter().map(|s| &**s).collect::<Vec<_>>()),
                        Op::Enable(t) => b.enable_tags(&t.iter().map(|s| &**s).collect::<Vec<_>>()),
                        Op::Disable(t) => b.disable_tags(&t.iter().map(|s| &**s).collect::<Vec<_>>()),
                        Op::Reload | Op::RejectedLoad(_) => {}
                    }
                }
                let r0 = b.check_parameterised(&req, &adblock::resources::ResourceStorage::default(), mr, fc);
                let got = V { matched: r0.matched, important: r0.important, exception: r0.exception.is_some(), filter: r0.filter.is_some() };
                let want = spec_verdict_p(&rules, &set.iter().cloned().collect(), &req, mr, fc);
                if got != want {
                    res = Some(format!("live Blocker (Blocker::new on the first {} rules + add_filter): {:?}, rule-by-rule {:?}", cut, got, want));
                    break;
                }
            }
        }
        match res {
            Some(m) => {
                println!("{}\nVIOLATION property=C07 replay={}", m, p.display());
                std::process::exit(1)
            }
            None => println!("holds on this input"),
        }
        return;
    }
    let mut r = Rng::new(a.seed);
    let mut cs = Cases::new(&a.out, "Hashing Net_Model Net_Proofs C07_Model");
    cs.shard = 40;
    let mut sm = Summary::default();
    sm.rule = "rule lists with tagged blocking / exception / important / csp rules (3 tags) and untagged rules x histories of 1-8 operations (use/enable/disable with duplicate and unknown tags, reload of a serialized engine that had other tags enabled, a rejected load of truncated / foreign / empty bytes — which must change nothing) x requests (ASCII, http(s), with source); non-trivial = some tagged rule of the list matches the request".into();
    let n = 250 * a.scale;
    for _ in 0..n {
        let lines = gen_rules(&mut r);
        let rules: Vec<NetworkFilter> = lines.iter().filter_map(|l| parse_net(l)).collect();
        let dumps: Vec<FilterDump> = rules.iter().map(dump_filter).collect();
        let mut e = Engine::from_rules_parametrised(lines.iter(), Default::default(), true, false);
        // the same history on an engine built with optimisation on (the default of Engine::from_rules):
        // fused rules must carry the right tag as well
        let mut eo = Engine::from_rules_parametrised(lines.iter(), Default::default(), true, true);
        let skip_opt = has_bad_regex(&lines);
        // the same rules on a live Blocker: a prefix through Blocker::new, the rest one by one through
        // add_filter (which has its own duplicate test per category); same tag operations, no reload
        let mut live: Option<adblock::blocker::Blocker> = if lines.iter().any(|l| l.contains("badfilter")) { None } else {
            let cut = r.below(rules.len() + 1);
            let mut b = adblock::blocker::Blocker::new(rules[..cut].to_vec(), &adblock::blocker::BlockerOptions { enable_optimizations: false });
            let mut seen: HashSet<u64> = rules[..cut].iter().map(|f| f.id).collect();
            let mut refused = None;
            for f in rules[cut..].iter() {
                let fresh = seen.insert(f.id);
                if b.add_filter(f.clone()).is_err() && fresh {
                    refused = Some(f.raw_line.as_ref().map(|x| (**x).clone()).unwrap_or_default());
                }
            }
            if let Some(l) = refused {
                sm.failure(None, &format!("add_filter refused the rule {:?}, which was not loaded before (the list holds no duplicate of it)", l),
                    json!({"rules": lines, "ops": [], "live_cut": cut, "url": "https://x.com/", "source": "https://a.com/", "type": "script"}));
            }
            Some(b)
        };
        let mut set: BTreeSet<String> = BTreeSet::new();
        let nops = r.range(1, 8);
        let mut ops: Vec<Op> = vec![];
        for _ in 0..nops {
            let o = match r.below(9) {
                0 | 1 => Op::Use(gen_tags(&mut r)),
                2 | 3 | 4 => Op::Enable(gen_tags(&mut r)),
                5 | 6 => Op::Disable(gen_tags(&mut r)),
                7 => Op::Reload,
                _ => Op::RejectedLoad(r.below(4) as u8),
            };
            apply(&mut e, &lines, &o);
            apply(&mut eo, &lines, &o);
            if let Some(b) = live.as_mut() {
                match &o {
                    Op::Use(t) => b.use_tags(&t.iter().map(|s| &**s).collect::<Vec<_>>()),
                    Op::Enable(t) => b.enable_tags(&t.iter().map(|s| &**s).collect::<Vec<_>>()),
                    Op::Disable(t) => b.disable_tags(&t.iter().map(|s| &**s).collect::<Vec<_>>()),
                    Op::Reload | Op::RejectedLoad(_) => {}
                }
            }
            set_apply(&mut set, &o);
            ops.push(o);
            // query after every operation
            let Some((url, src, _ty, _)) = clean_request(&mut r, &lines) else { continue };
            let ty = r.pick(&["script", "document", "subdocument", "image", "xhr"]);
            let Ok(req) = Request::new(&url, &src, ty) else { continue };
            register_request(&req, &url, &src, ty);
            sm.oracle_evaluations += 1;
            let opsj: Vec<Value> = ops.iter().map(op_json).collect();
            let (mr, fc) = if r.chance(1, 3) { (r.chance(1, 2), r.chance(1, 2)) } else { (false, false) };
            let desc = json!({"rules": lines, "ops": opsj, "url": url, "source": src, "type": ty, "matched_rule": mr, "force_check_exceptions": fc});
            if let Some(m) = check_state_p(&e, &rules, &set, &req, mr, fc) {
                sm.failure(None, &m, desc.clone());
            }
            if let Some(b) = live.as_ref() {
                sm.oracle_evaluations += 1;
                cs.stat("live_blocker_new_plus_add_filter");
                let res = b.check_parameterised(&req, &adblock::resources::ResourceStorage::default(), mr, fc);
                let got = V { matched: res.matched, important: res.important, exception: res.exception.is_some(), filter: res.filter.is_some() };
                let hs: HashSet<String> = set.iter().cloned().collect();
                let want = spec_verdict_p(&rules, &hs, &req, mr, fc);
                if got != want {
                    let mut d = desc.clone();
                    d["live"] = json!(true);
                    sm.failure(None, &format!("live Blocker (Blocker::new on a prefix + add_filter): verdict {:?} but rule-by-rule under tags {:?} gives {:?}", got, set, want), d);
                }
            }
            if !skip_opt {
                sm.oracle_evaluations += 1;
                if let Some(m) = check_state_p(&eo, &rules, &set, &req, mr, fc) {
                    sm.failure(None, &format!("optimized engine: {}", m), desc.clone());
                }
            }
            let matching: Vec<u64> = rules.iter().filter(|f| rule_matches(f, &req)).map(|f| f.id).collect();
            let tagged_hit = rules.iter().any(|f| adblock::verif_hooks::filter_tag(f).is_some() && rule_matches(f, &req));
            let got = engine_verdict_p(&e, &req, mr, fc);
            if mr || fc { cs.stat("subset_query"); }
            let exists: Vec<bool> = UNIVERSE.iter().map(|t| e.tag_exists(t)).collect();
            let probes = clist(&req.get_tokens_for_match().copied().collect::<Vec<u64>>(), |x| cn(*x));
            cs.stat(match ops.last().unwrap() { Op::Use(_) => "use", Op::Enable(_) => "enable", Op::Disable(_) => "disable", Op::Reload => "reload", Op::RejectedLoad(_) => "rejected_load" });
            cs.case(
                format!(
                    "let L := {} in let b := run_ops seahash L {} in list_eqb Bool.eqb (map (tag_exists b) {}) {} && verdict_eqb (blocker_check_p (fun f => memN (rid f) {}) {} {} {} b) (Build_verdict {} {} {} {})",
                    coq_rules(&dumps), clist(&ops.iter().filter(|o| !matches!(o, Op::RejectedLoad(_))).cloned().collect::<Vec<Op>>(), op_coq), clist(UNIVERSE, |t| hxs(t)), clist(&exists, |b| cbool(*b).to_string()),
                    clist(&matching, |x| cn(*x)), probes, cbool(mr), cbool(fc), cbool(got.matched), cbool(got.important), cbool(got.exception), cbool(got.filter)
                ),
                desc,
                tagged_hit,
            );
        }
    }
    cs.finish();
    sm.write(&a.out, &cs);
}
