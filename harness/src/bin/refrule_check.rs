//! Validation of `implrun::refrule::rule_applies` (the reading of a rule LINE from its text) against the
//! crate's own parser + matcher: (rule, request) pairs from the shared generators (gen.rs), the
//! removeparam rule / URL shapes of C14, the csp rule shapes of C15 and the option lists of C03.
//! Every pair where the text reading gives an answer and the crate parses the rule is compared with
//! `NetworkFilter::matches`; every line is compared with `rule_is_rejected_by_text`.
//!
//!   refrule_check [--seed N] [--pairs N] [--verbose]
//! exit code 1 when there is a disagreement.
use adblock::filters::network::{NetworkFilter, NetworkMatchable};
use adblock::regex_manager::RegexManager;
use adblock::request::Request;
use implrun::refrule::{judge, rule_is_rejected_by_text, Outside};
use implrun::{gen, Rng};
use std::collections::BTreeMap;

// ------------------------------------------------------------------ C14 shapes (copied from src/bin/c14.rs)
const KEYS: &[&str] = &["utm", "utm_source", "fbclid", "id", "a", "b", "ref", "UTM", "utm ", "ut", "utmx", ""];
const VALS: &[&str] = &["1", "", "x=y", "a%20b", "é", "?", "v#", "foo", "==", "&"];
fn c14_query(r: &mut Rng, names: &[String]) -> String {
    let n = r.range(0, 5);
    let mut parts = vec![];
    for _ in 0..n {
        let k: &str = if !names.is_empty() && r.chance(1, 2) { &names[r.below(names.len())] } else { r.pick(KEYS) };
        match r.below(6) {
            0 => parts.push(k.to_string()),
            1 => parts.push(format!("{}=", k)),
            _ => {
                let v = r.pick(VALS);
                let v = if v == "&" { "" } else { v };
                parts.push(format!("{}={}", k, v))
            }
        }
    }
    parts.join("&")
}
fn c14_spelled_prefix(r: &mut Rng, host: &str) -> String {
    match r.below(12) {
        0 => format!("HTTPS://{}", host),
        1 => format!("Http://{}", host.to_uppercase()),
        2 => format!("https://{}", host.to_uppercase()),
        3 => format!("https://user:pw@{}", host),
        4 => format!("https://{}:8443", host),
        5 => format!("http://{}:80", host),
        6 => format!("https://b\u{fc}cher.{}", host),
        7 => format!(" https://{}", host),
        8 => format!("https://{}.", host),
        9 => format!("https://www.{}", host),
        _ => format!("{}://{}", r.pick(&["https", "http"]), host),
    }
}
fn c14_url(r: &mut Rng, names: &[String], base: Option<String>) -> String {
    let host = r.pick(gen::HOSTS);
    let pre = if r.chance(1, 3) { c14_spelled_prefix(r, host) } else { format!("{}://{}", r.pick(&["https", "http"]), host) };
    let mut s = format!("{}/{}", pre, gen::segs(r, 0, 2).replace('^', "/").replace('*', "-").replace('?', "_"));
    if let Some(b) = base {
        if r.chance(1, 2) && !b.contains('?') && !b.contains('#') {
            s = b;
        }
    }
    // a URL WITHOUT a path whose query (or fragment) holds what looks like an authority and a path
    if r.chance(1, 8) {
        let h2 = if r.chance(2, 3) { host } else { r.pick(gen::HOSTS) };
        let look = match r.below(4) {
            0 => format!("u=me@{}/{}", h2, gen::segs(r, 1, 2).replace('^', "/").replace('*', "-").replace('?', "_")),
            1 => format!("next=//{}/{}", h2, r.pick(gen::VOCAB)),
            2 => format!("r=https://{}/", h2),
            _ => format!("m=a:b@{}/", h2),
        };
        let sep = if r.chance(3, 4) { "?" } else { "#" };
        let q = c14_query(r, names);
        return format!("{}{}{}{}{}", pre, sep, look, if q.is_empty() { "" } else { "&" }, q);
    }
    match r.below(10) {
        0 => {}
        1 => {
            s.push_str("#frag?");
            s.push_str(&c14_query(r, names));
        }
        2 => {
            s.push('?');
            s.push_str(&c14_query(r, names));
            s.push_str("#f?");
            s.push_str(&c14_query(r, names));
        }
        3 => {
            s.push('?');
            s.push_str(&c14_query(r, names));
            s.push('#');
        }
        4 => {
            s.push_str("??");
            s.push_str(&c14_query(r, names));
        }
        _ => {
            s.push('?');
            s.push_str(&c14_query(r, names));
            if r.chance(1, 4) {
                s.push_str("#frag");
            }
        }
    }
    s
}
fn c14_rules(r: &mut Rng) -> Vec<String> {
    let mut v = vec![];
    let n = r.range(1, 5);
    let shared = gen::segs(r, 1, 2);
    let sib = r.chance(1, 4);
    for _ in 0..n {
        let name = r.pick(gen::PARAMS);
        let pat = match if sib { 5 } else { r.below(7) } {
            5 | 6 => shared.clone(),
            0 => format!("||{}^", r.pick(gen::HOSTS)),
            1 => format!("||{}/", r.pick(gen::HOSTS)),
            2 => gen::segs(r, 1, 2),
            _ => "*".to_string(),
        };
        let mut opts = vec![format!("removeparam={}", name)];
        if pat == shared {
        } else if r.chance(1, 6) {
            opts.push((r.pick(&["xhr", "document", "subdocument", "script", "~script", "image"])).to_string());
        }
        if pat != shared && r.chance(1, 8) {
            opts.push(gen::domain_opt(r));
        }
        v.push(format!("{}${}", pat, opts.join(",")));
    }
    if r.chance(1, 5) {
        v.push(format!("{}$important", gen::pattern(r)));
    }
    if r.chance(1, 4) {
        v.push(gen::rule(r, false));
    }
    if r.chance(1, 6) {
        v.push(format!("@@{}", gen::pattern(r)));
    }
    v
}

// ------------------------------------------------------------------ C15 shapes (copied from src/bin/c15.rs)
const DIRECTIVES: &[&str] = &[
    "script-src 'none'", "img-src *", "default-src 'self'", "frame-src x.com", "script-src 'self' *.foo.com", "worker-src 'none'", "a", "A",
    "script-src 'sha256-q1w='", "script-src 'sha256-q1w=='", "report-uri /r?site=shop&v=2", "report-uri /r?site=news&v=2",
];
const RHOSTS: &[&str] = &["foo.com", "ads.net", "example.com", "sub.example.com"];
const PATHS: &[&str] = &["ads", "foo", "banner", "ads/foo", "x"];
fn csp_rule(r: &mut Rng) -> String {
    let exception = r.chance(1, 4);
    let pat = match r.below(8) {
        0 | 1 | 2 => format!("||{}^", r.pick(RHOSTS)),
        3 => format!("||{}/{}", r.pick(RHOSTS), r.pick(PATHS)),
        4 => format!("/{}", r.pick(PATHS)),
        5 => "*".to_string(),
        6 => format!("|https://{}/", r.pick(RHOSTS)),
        _ => gen::pattern(r),
    };
    let mut opts: Vec<String> = vec![];
    let blanket = if exception { r.chance(1, 5) } else { r.chance(1, 12) };
    opts.push(if blanket {
        "csp".to_string()
    } else if r.chance(2, 3) {
        format!("csp={}", r.pick(DIRECTIVES))
    } else {
        format!("csp={}-src {}", r.pick(&["script", "img", "frame", "connect"]), r.pick(&["'none'", "'self'", "*", "data:"]))
    });
    if r.chance(1, 5) {
        opts.push(format!("tag={}", r.pick(&["c1", "c2", "Strict", "x1", "t1", "t2", "t3"])));
    }
    if r.chance(1, 6) {
        opts.push(gen::domain_opt(r));
    }
    if r.chance(1, 10) {
        opts.push((r.pick(&["third-party", "~third-party", "1p"])).to_string());
    }
    if r.chance(1, 14) {
        opts.push("important".into());
    }
    if r.chance(1, 15) {
        let t = (r.pick(&["script", "subdocument", "document", "~image", "font", "xhr"])).to_string();
        if r.chance(1, 2) {
            opts.insert(0, t);
        } else {
            opts.push(t);
        }
    }
    if r.chance(1, 30) {
        opts.push("badfilter".into());
    }
    if r.chance(1, 3) {
        let i = r.below(opts.len());
        let o = opts.remove(i);
        opts.push(o);
    }
    format!("{}{}${}", if exception { "@@" } else { "" }, pat, opts.join(","))
}

// ------------------------------------------------------------------ C03 option lists (copied from src/bin/c03.rs)
const TYPE_NAMES: &[&str] = &[
    "image", "media", "object", "object-subrequest", "other", "ping", "beacon", "script", "stylesheet", "css", "subdocument", "frame",
    "xmlhttprequest", "xhr", "websocket", "font", "document", "doc",
];
const PARTY_NAMES: &[&str] = &["third-party", "3p", "first-party", "1p"];
const RAW_TYPES: &[&str] = &[
    "beacon", "csp_report", "document", "main_frame", "font", "image", "imageset", "media", "object", "object_subrequest", "ping", "script",
    "stylesheet", "sub_frame", "subdocument", "websocket", "xhr", "xmlhttprequest", "other", "speculative", "web_manifest", "xbl", "xml_dtd",
    "xslt", "fetch", "", "IMAGE", "popup",
];
fn c03_domain_value(r: &mut Rng) -> String {
    let n = r.range(1, 4);
    let mut v = vec![];
    for _ in 0..n {
        let d = r.pick(&["a.com", "b.com", "sub.a.com", "example.com", "foo.com", "x.net", "com", "co.uk", "a.co.uk"]);
        v.push(match r.below(24) {
            0 | 1 | 2 | 3 | 4 | 5 => format!("~{}", d),
            6 => format!("/{}/", d),
            7 => format!("~~{}", d),
            8 => String::new(),
            _ => d.to_string(),
        });
    }
    if r.chance(1, 6) {
        v.push(v[0].clone());
    }
    v.join("|")
}
fn c03_options(r: &mut Rng) -> Option<String> {
    if r.chance(1, 10) {
        return None;
    }
    let mut v: Vec<String> = vec![];
    let nt = r.pick(&[0usize, 0, 1, 1, 1, 2, 3]);
    let negate_all = r.chance(1, 3);
    for _ in 0..nt {
        let t = r.pick(TYPE_NAMES);
        let neg = if r.chance(1, 6) { !negate_all } else { negate_all };
        v.push(if neg && t != "document" && t != "doc" { format!("~{}", t) } else { t.to_string() });
    }
    if r.chance(1, 3) {
        let t = r.pick(PARTY_NAMES);
        v.push(if r.chance(1, 3) { format!("~{}", t) } else { t.to_string() });
    }
    if r.chance(1, 2) {
        v.push(format!("{}={}", r.pick(&["domain", "from"]), c03_domain_value(r)));
    }
    if r.chance(1, 10) {
        v.push(r.pick(&["important", "badfilter", "tag=t1", "generichide", "ghide", "match-case", "~important", "popup", ""]).to_string());
    }
    if r.chance(1, 6) {
        v.push(r.pick(&["removeparam=utm", "csp=script-src 'none'", "redirect=noop.js", "redirect-rule=noop.js", "csp", "redirect=", "removeparam=/re/", "removeparam="]).to_string());
    }
    if v.is_empty() {
        return Some("important".to_string());
    }
    if v.len() > 1 && r.chance(1, 2) {
        let i = r.below(v.len());
        let j = r.below(v.len());
        v.swap(i, j);
    }
    Some(v.join(","))
}
fn c03_rule(r: &mut Rng) -> String {
    let pat = match r.below(8) {
        0 => "*".to_string(),
        1 => format!("||{}^", r.pick(gen::HOSTS)),
        2 => r.pick(&["|http://", "|https://", "|ws://", "|http*://"]).to_string(),
        3 => format!("||{}", r.pick(gen::HOSTS)),
        _ => gen::pattern(r),
    };
    let o = c03_options(r);
    format!("{}{}{}", if r.chance(1, 4) { "@@" } else { "" }, pat, o.map_or(String::new(), |o| format!("${}", o)))
}

// ------------------------------------------------------------------ the comparison
#[derive(Default)]
struct Tally {
    pairs: u64,
    some_true: u64,
    some_false: u64,
    none: BTreeMap<Outside, u64>,
    compared: u64,
    not_parsed_but_judged: u64,
    disagreements: u64,
    panics: u64,
    shown: Vec<String>,
    lines: u64,
    reject_compared: u64,
    reject_true: u64,
    reject_disagreements: u64,
    request_errors: u64,
    by_source: BTreeMap<&'static str, (u64, u64, u64)>,
}

fn check_line(t: &mut Tally, line: &str) {
    t.lines += 1;
    if let Some(rej) = rule_is_rejected_by_text(line) {
        t.reject_compared += 1;
        if rej {
            t.reject_true += 1;
        }
        let crate_rejects = NetworkFilter::parse(line, true, Default::default()).is_err();
        if rej != crate_rejects {
            t.reject_disagreements += 1;
            if t.shown.len() < 20 {
                t.shown.push(format!("REJECT  line {:?}: rejected by its text = {}, NetworkFilter::parse fails = {}", line, rej, crate_rejects));
            }
        }
    }
}

fn check_pair(t: &mut Tally, what: &'static str, line: &str, url: &str, source: &str, raw_type: &str) {
    let Ok(req) = Request::new(url, source, raw_type) else {
        t.request_errors += 1;
        return;
    };
    t.pairs += 1;
    let e = t.by_source.entry(what).or_insert((0, 0, 0));
    match judge(line, &req, url, source, raw_type) {
        Err(o) => {
            *t.none.entry(o).or_insert(0) += 1;
            e.2 += 1;
        }
        Ok(want) => {
            if want {
                t.some_true += 1;
                e.0 += 1;
            } else {
                t.some_false += 1;
                e.1 += 1;
            }
            match NetworkFilter::parse(line, true, Default::default()) {
                Err(_) => t.not_parsed_but_judged += 1, // also shows up as a REJECT disagreement
                Ok(f) => {
                    t.compared += 1;
                    // a panic of the matcher is a disagreement as well (reported with the input)
                    let got = match implrun::catch(std::panic::AssertUnwindSafe(|| f.matches(&req, &mut RegexManager::default()))) {
                        Ok(g) => g,
                        Err(msg) => {
                            t.disagreements += 1;
                            t.panics += 1;
                            if t.shown.len() < 20 {
                                t.shown.push(format!("PANIC   [{}] rule {:?} on {:?} from {:?} as {:?}: NetworkFilter::matches panicked ({}); by its text {}", what, line, url, source, raw_type, msg, want));
                            }
                            return;
                        }
                    };
                    if got != want {
                        t.disagreements += 1;
                        if t.shown.len() < 20 {
                            t.shown.push(format!(
                                "APPLIES [{}] rule {:?} on {:?} (normalised {:?}, host {:?}) from {:?} as {:?} (third-party {}): by its text {}, NetworkFilter::matches {}",
                                what, line, url, req.url, req.hostname, source, raw_type, req.is_third_party, want, got
                            ));
                        }
                    }
                }
            }
        }
    }
}

fn main() {
    let v: Vec<String> = std::env::args().collect();
    let mut seed = 1u64;
    let mut target = 240_000u64;
    let mut i = 1;
    while i < v.len() {
        match v[i].as_str() {
            "--seed" => {
                seed = v[i + 1].parse().unwrap_or(1);
                i += 1
            }
            "--pairs" => {
                target = v[i + 1].parse().unwrap_or(target);
                i += 1
            }
            _ => {}
        }
        i += 1;
    }
    let mut r = Rng::new(seed);
    let mut t = Tally::default();
    // ---- fixed cases: the known-finding witnesses of DESIGN.md §2 must be outside the reading, plain cases inside
    let src = "https://a.com/page";
    let fixed: &[(&str, &str, &str, &str, Option<bool>)] = &[
        ("adz$domain=a.com", "https://x.com/adz", "", "script", None),                  // F2
        ("adz$third-party", "https://x.com/adz", "", "script", None),                   // F2 (party)
        ("adz$domain=a.com", "https://x.com/other", "", "script", Some(false)),         // the pattern alone decides
        ("|http://", "ws://x.com/adz", src, "websocket", None),                         // F3
        ("|http*://", "wss://x.com/adz", src, "websocket", None),                       // F3
        ("/foo^", "https://x.com/foo\u{e9}", src, "script", None),                       // F4
        ("ads^foo|", "https://ads.net/ads*foo", src, "script", None),                   // F23
        ("||ads.net|", "https://foo.com.ads.net/ad.foo", src, "script", None),          // F22
        ("/ads[0-9]+/", "https://x.com/ads1", src, "script", None),
        ("ads$match-case", "https://x.com/ads", src, "script", None),
        ("ads$unknown", "https://x.com/ads", src, "script", None),
        ("example*|", "http://x.com/examplex9", src, "script", None),
        ("||ads.net^", "https://ADS.NET/x", src, "script", None),
        ("ads$domain=A.com", "https://x.com/ads", src, "script", None),
        ("||ads.net^", "https://ads.net/x", src, "script", Some(true)),
        ("||ads.net^", "https://ads.net/", src, "document", Some(true)),
        ("||ads.net/x", "https://ads.net/x", src, "document", Some(false)),
        ("@@||ads.net/x$script", "https://ads.net/x", src, "document", Some(true)),
        ("||ads.net^", "https://xads.net/x", src, "script", Some(false)),
        ("||ads.net^$badfilter", "https://ads.net/x", src, "script", Some(false)),
        ("||ads.net^$~script", "https://ads.net/x", src, "script", Some(false)),
        ("||ads.net^$~script", "https://ads.net/x", src, "document", Some(false)),
        ("||ads.net^$domain=a.com|~sub.a.com", "https://ads.net/x", "https://x.sub.a.com/", "image", Some(false)),
        ("||ads.net^$domain=com", "https://ads.net/x", "https://w.a.com/", "image", Some(true)),
        ("||ads.net^$domain=a.com", "https://ads.net/x", "https://xa.com/", "image", Some(false)),
        ("*$removeparam=utm", "https://x.com/?utm=1", src, "xhr", Some(true)),
        ("*$removeparam=utm", "https://x.com/?utm=1", src, "script", Some(false)),
        ("*$removeparam=utm,document", "https://x.com/?utm=1", src, "xhr", Some(false)),
        ("*$removeparam=utm,~xhr", "https://x.com/?utm=1", src, "image", Some(false)),
        ("||x.com^$csp=a", "https://x.com/", src, "script", None),
        ("||x.com^$csp=a", "https://x.com/", src, "document", Some(true)),
        ("||x.com^$csp=a", "https://y.com/", src, "script", Some(false)),
        ("@@||x.com^$generichide", "https://x.com/", src, "document", Some(true)),
        ("|ws://", "ws://x.com/s", src, "websocket", Some(true)),
        ("|ws://", "https://x.com/s", src, "websocket", Some(false)),
        ("|https://", "http://x.com/s", src, "image", Some(false)),
        ("$image,domain=a.com", "http://x.com/s", src, "imageset", Some(true)),
        ("ads$3p", "https://a.com/ads", src, "image", Some(false)),
        ("||foo.com/ads", "https://foo.com?u=me@foo.com/ads", src, "image", Some(false)),
        ("||foo.com/x", "https://u:p@foo.com/x?a@b", src, "image", Some(true)),
    ];
    let mut fixed_bad = 0;
    for (line, url, source, ty, want) in fixed {
        check_line(&mut t, line);
        let Ok(req) = Request::new(url, source, ty) else { continue };
        let got = judge(line, &req, url, source, ty).ok();
        if got != *want {
            fixed_bad += 1;
            println!("  FIXED CASE rule {:?} on {:?} from {:?} as {:?}: reading {:?} ({:?}), expected {:?}", line, url, source, ty, got, judge(line, &req, url, source, ty), want);
        }
        check_pair(&mut t, "fixed cases", line, url, source, ty);
    }
    let request = |r: &mut Rng, lines: &[String]| -> (String, String, &'static str) {
        let url = if r.chance(1, 2) && !lines.is_empty() {
            let k = r.below(lines.len());
            gen::url_for(r, &lines[k])
        } else {
            gen::url(r)
        };
        // sometimes: the same URL without a path, its path moved behind an authority look-alike in the
        // query (`https://host?u=me@host/path`): the host of a URL ends at the first '/', '?' or '#'
        let url = match (r.chance(1, 15), url.find("://")) {
            (true, Some(i)) => match url[i + 3..].find('/') {
                Some(k) => {
                    let (head, path) = url.split_at(i + 3 + k);
                    let host = &head[i + 3..];
                    format!("{}{}{}{}", head, r.pick(&["?u=me@", "?m=a:b@", "?next=//", "#u=me@"]), host, path)
                }
                None => url,
            },
            _ => url,
        };
        (url, gen::source_url(r), gen::request_type(r))
    };
    while t.pairs < target {
        match r.below(8) {
            // single grammar rules, three requests each
            0 | 1 => {
                let line = gen::rule(&mut r, true);
                check_line(&mut t, &line);
                let lines = [line.clone()];
                for _ in 0..3 {
                    let (url, src, ty) = request(&mut r, &lines);
                    check_pair(&mut t, "gen::rule", &line, &url, &src, ty);
                }
            }
            // rule lists: every rule against every request of the list
            2 => {
                let lines = gen::rule_list(&mut r, 12, true);
                for l in &lines {
                    check_line(&mut t, l);
                }
                for _ in 0..4 {
                    let (url, src, ty) = request(&mut r, &lines);
                    for l in &lines {
                        check_pair(&mut t, "gen::rule_list", l, &url, &src, ty);
                    }
                }
            }
            // sibling groups
            3 => {
                let lines = gen::siblings(&mut r, true);
                for l in &lines {
                    check_line(&mut t, l);
                }
                for _ in 0..4 {
                    let (url, src, ty) = request(&mut r, &lines);
                    for l in &lines {
                        check_pair(&mut t, "gen::siblings", l, &url, &src, ty);
                    }
                }
            }
            // C14: removeparam rules, URLs with queries / fragments / authority look-alikes
            4 | 5 => {
                let lines = c14_rules(&mut r);
                for l in &lines {
                    check_line(&mut t, l);
                }
                let names: Vec<String> = lines.iter().filter_map(|l| l.split("removeparam=").nth(1)).map(|x| x.split(',').next().unwrap_or("").to_string()).collect();
                for _ in 0..4 {
                    let k = r.below(lines.len());
                    let base = gen::url_for(&mut r, &lines[k]);
                    let url = c14_url(&mut r, &names, Some(base));
                    let src = gen::source_url(&mut r);
                    let ty = r.pick(&["document", "xhr", "subdocument", "script", "image", "main_frame", "sub_frame", "xmlhttprequest", "other", "websocket"]);
                    for l in &lines {
                        check_pair(&mut t, "c14 removeparam", l, &url, &src, ty);
                    }
                }
            }
            // C15: csp rules
            6 => {
                let lines: Vec<String> = (0..r.range(2, 6)).map(|_| csp_rule(&mut r)).collect();
                for l in &lines {
                    check_line(&mut t, l);
                }
                for _ in 0..4 {
                    let (url, src, _) = request(&mut r, &lines);
                    let ty = r.pick(&["document", "subdocument", "main_frame", "sub_frame", "document", "subdocument", "script", "image", "xhr"]);
                    for l in &lines {
                        check_pair(&mut t, "c15 csp", l, &url, &src, ty);
                    }
                }
            }
            // C03: option lists over every option name / alias
            _ => {
                let line = c03_rule(&mut r);
                check_line(&mut t, &line);
                let lines = [line.clone()];
                for _ in 0..3 {
                    let (url, src, _) = request(&mut r, &lines);
                    let ty = r.pick(RAW_TYPES);
                    check_pair(&mut t, "c03 options", &line, &url, &src, ty);
                }
            }
        }
    }
    let none: u64 = t.none.values().sum();
    let pct = |n: u64| 100.0 * n as f64 / t.pairs.max(1) as f64;
    println!("seed {}  pairs {}  (requests not constructible: {})", seed, t.pairs, t.request_errors);
    println!("  Some(true)  {:>8}  {:5.2}%", t.some_true, pct(t.some_true));
    println!("  Some(false) {:>8}  {:5.2}%", t.some_false, pct(t.some_false));
    println!("  None        {:>8}  {:5.2}%", none, pct(none));
    for (k, n) in &t.none {
        println!("      {:<20} {:>8}  {:5.2}%", format!("{:?}", k), n, pct(*n));
    }
    println!("  per workload (true / false / None):");
    for (k, (a, b, c)) in &t.by_source {
        println!("      {:<16} {:>7} / {:>7} / {:>7}   None {:5.2}%", k, a, b, c, 100.0 * *c as f64 / (a + b + c).max(1) as f64);
    }
    println!("  compared with NetworkFilter::matches: {}   judged but not parsed by the crate: {}", t.compared, t.not_parsed_but_judged);
    println!("  APPLIES disagreements: {}  (of which panics of the matcher: {})", t.disagreements, t.panics);
    println!("  lines {}  rejection compared {} (rejected by text: {})  REJECT disagreements: {}", t.lines, t.reject_compared, t.reject_true, t.reject_disagreements);
    for s in &t.shown {
        println!("  {}", s);
    }
    if fixed_bad > 0 {
        println!("  fixed cases with an unexpected reading: {}", fixed_bad);
    }
    if t.disagreements + t.reject_disagreements + fixed_bad > 0 {
        std::process::exit(1);
    }
}
